"""C26 / C27 — AuditLog*.tla: the audit log records every storage call, always verifies, and detects tampering."""
import json
import random
import vlib

PROPS = ("C26", "C27")

CHECKS = {
    "C26": {
        "text": "AuditLog.tla models AuditLogMiddleware at the grain of its critical sections (Open/recovery, genesis, "
                "Invoke, LogStart, Inner, LogComplete, WriteGrounding, Return, Close with calls in flight) over the symbolic "
                "hash chain / Merkle grounding / Validator of AuditLogCore.tla. TLC proves on the design (block size 3, all "
                "interleavings of 2 threads x 2 calls, restarts at every buffer fill level) that every returned call of every "
                "storage.Storage method has START before and COMPLETE after the inner call with its outcome, that the log "
                "verifies and that recovery reproduces the writer state. The real middleware (block size 1000) is then driven "
                "by 8-32 goroutines through every interface method (enumerated by reflection, succeeding and failing), binary "
                "and JSON file sinks, with sink restarts on the existing file at fill levels 0, 1, 999 and on the grounding "
                "boundary; the written file is decoded with the repo's decoder and TLC validates the merged trace (one event "
                "per log entry, per invoke / inner call / return) against the spec: model checking of the design plus trace "
                "validation of a concurrent stress workload - the real interleavings are sampled, not enumerated.",
        "note": "the inner storage is a generated fake (the property is about the middleware); entry order relative to "
                "inner calls comes from sequence numbers taken inside the sink write / inside the inner call; sink write "
                "errors and crashes between a LOG entry and its grounding are outside the check; per-entry integrity is the "
                "repo Validator's verdict plus std-library recomputation of signatures and Merkle roots; TLC, Go and the "
                "crypto libraries are trusted",
        "technique": "TLA+ state machine, TLC exhaustive model checking, concurrent stress of real code, TLC trace validation",
    },
    "C27": {
        "text": "AuditLogTamper.tla builds a valid symbolic log (block size 3, two groundings) and enumerates tamper cases: "
                "every recorded field of LOG / GROUNDING / GENESIS entries x mutation (alter, clear, version downgrade, "
                "shift bytes across a field boundary, swap look-alike fields) x attacker effort (leave hashes, recompute the "
                "entry hash, recompute the whole chain and Merkle roots without keys) x position class (genesis, first of "
                "block, mid block, last before grounding, grounding, after grounding, last), and delete / duplicate / swap / "
                "insert / replace-with-foreign / splice / cut of whole entries; plus logs re-signed by a key holder with one "
                "defect (dropped entry / grounding / genesis, wrong Merkle root, forged root signature, Ed25519-only rewrite) "
                "that bind the grounding checks. TLC proves on the design that everything but a suffix cut is rejected by "
                "the model of validation.go. Every case is then executed on a real log (block "
                "size 1000, >= 2 groundings, written by the real middleware) for the binary and JSON encodings, plus random "
                "bit flips and mid-entry truncations of the encoded bytes; the repo's decoder + Validator (and tool.Verify) "
                "give the verdict and TLC compares it with the model's. Serializer round trips Decode(Encode(e)) = e are "
                "run for TLC-enumerated field/optional combinations. Exhaustive over the symbolic case space, one concrete "
                "representative per class.",
        "note": "symbolic hashes/signatures are injective by construction (collision resistance and unforgeability are "
                "assumed); quick tier samples the (mode, position) product for late positions; the text serializer is a "
                "display format and is not covered; a Validator panic counts as a rejected log",
        "technique": "TLA+ result operators, TLC exhaustive case enumeration, replay on real code, TLC trace validation",
    },
}

UNAUDITED_TAG = "D-C26-unaudited-ops"
POSITIONS = ("genesis", "first", "mid", "lastbefore", "grounding", "after", "last")


def run(ctx):
    if ctx.prop == "C26":
        return run_c26(ctx)
    return run_c27(ctx)


# ------------------------------------------------------------------------------------------ C26
def _tv26(ctx, trace_file, deviations, timeout=1500):
    n = sum(1 for _ in open(trace_file))
    r = ctx.tlc("AuditLogTrace", "AuditLog.Trace.cfg", workers=1, timeout=timeout, env={"TRACE_FILE": trace_file},
                count_mc=False, subst={"Deviations": deviations})
    if r.outcome != "ok":
        raise vlib.Infra("trace validation AuditLogTrace failed to run: %s %s\n%s" %
                         (r.outcome, r.violated, (r.cex or r.output[-3000:])))
    recs = [p for p in r.printed if isinstance(p, dict) and "verdict" in p]
    mism = [p for p in recs if p["verdict"] == "mismatch"]
    finds = [p for p in recs if p["verdict"] == "finding"]
    consumed = r.depth - 1
    if not mism and consumed != n:
        raise vlib.Infra("trace validation consumed %d of %d lines without reporting a mismatch\n%s" %
                         (consumed, n, r.output[-2000:]))
    return n, r, mism, finds


def run_c26(ctx):
    # 1. design-level model checking (Deviations = {}): the properties hold for every interleaving
    r = ctx.mc("AuditLogMC", "AuditLog.MC.cfg", workers=4, timeout=900)
    kinds = None
    for p in r.printed:
        if isinstance(p, dict) and "callkinds" in p:
            kinds = p["callkinds"]
    if not kinds:
        raise vlib.Infra("the MC run did not print the call kinds")
    ctx.mc("AuditLogMC", "AuditLog.MCRestart.cfg", workers=4, timeout=900)
    if not ctx.quick():
        ctx.mc("AuditLogMC", "AuditLog.MCThorough.cfg", workers=8, timeout=2400)
        ctx.mc("AuditLogMC", "AuditLog.MC3.cfg", workers=8, timeout=2400)
        ctx.mc("AuditLogMC", "AuditLog.MC23.cfg", workers=8, timeout=2400)
        # (AuditLog.MC23full.cfg - 2 threads x 3 calls with free outcomes, 913 127 states, 6 min on 8 idle
        #  cores - is kept for manual runs; it passed when this module was built)
    vlib.write_ndjson(ctx.path("kinds.ndjson"), kinds)

    # 2. drive the real middleware
    drv = ctx.gobuild("auditlog")
    p = ctx.run([drv, "c26", ctx.path("kinds.ndjson"), ctx.path("trace.ndjson"), ctx.tmp], timeout=1200,
                env={"GOMAXPROCS": "8"})
    ctx.log(p.stdout.strip().splitlines()[-1])
    trace = vlib.read_ndjson(ctx.path("trace.ndjson"))
    if not trace:
        raise vlib.Infra("empty trace")

    runs = []
    for e in trace:
        if e["ev"] == "reset":
            runs.append([])
        runs[-1].append(e)
    spec_methods = set(k["m"] for k in kinds)
    # a storage.Storage method the spec does not know (or vice versa): the model is out of date
    for evs in runs:
        reflected = set(evs[0]["methods"]) - {"Start", "Stop"}
        if reflected != spec_methods:
            vlib.write_ndjson(ctx.path("replay.ndjson"), [evs[0]])
            ctx.violation(ctx.path("replay.ndjson"), "storage.Storage methods %s differ from AuditLogCore!StorageMethods %s" %
                          (sorted(reflected - spec_methods), sorted(spec_methods - reflected)))
            return "method table mismatch"

    # 3. trace validation against the model of the code (open deviations enabled)
    n, r, mism, finds = _tv26(ctx, ctx.path("trace.ndjson"), ctx.deviations("D-C26"))
    ctx.traces += len(runs)
    ctx.events += r.depth - 1
    ctx.states += r.distinct
    ctx.transitions += r.generated
    ctx.log("TV AuditLogTrace: %d of %d events consumed, %d findings, %d mismatches, %.1fs" %
            (r.depth - 1, n, len(finds), len(mism), r.wall))
    ctx.sample(trace[2])
    ctx.sample(next(e for e in trace if e["ev"] == "invoke"))
    ctx.sample(next(e for e in trace if e["ev"] == "inner"))
    for f in finds:
        line = trace[f["l"] - 1]
        ctx.finding(f["tag"], {"method": f["method"], "call": f["id"], "return_event": line})
    for m in mism:
        lo = max(0, m["l"] - 40)
        vlib.write_ndjson(ctx.path("replay.ndjson"), trace[lo:m["l"]])
        ctx.violation(ctx.path("replay.ndjson"),
                      "trace line %d (%s) is not a step of AuditLog.tla: event %s, model state %s" %
                      (m["l"], m["ev"], json.dumps(trace[m["l"] - 1])[:700], json.dumps(m)[:700]))

    if mism:
        return "violation reported"

    # 4. coverage of what the property quantifies over (measured on the trace; exit 2 if missing)
    nontrivial = 0
    for evs in runs:
        head = evs[0]
        invoked = set(e["method"] for e in evs if e["ev"] == "invoke")
        if invoked != spec_methods:
            raise vlib.Infra("run %s did not invoke %s" % (head["run"], sorted(spec_methods - invoked)))
        failed = set(e["method"] for e in evs if e["ev"] == "inner" and e["err"] != "")
        if failed != spec_methods:
            raise vlib.Infra("run %s has no failing call of %s" % (head["run"], sorted(spec_methods - failed)))
        opens = [e for e in evs if e["ev"] == "open"]
        fills = [len(e["buf"]) for e in opens]
        ngr = sum(1 for e in evs if e["ev"] == "write" and e["type"] == "GROUNDING")
        if ngr < 3 or fills[:4] != [0, 0, 1, 999] or len(opens) != 5 or fills[4] != 0:
            raise vlib.Infra("run %s: groundings=%d, restart fill levels %s" % (head["run"], ngr, fills))
        # distinct non-trivial: calls whose START..COMPLETE window contains log entries of other calls
        pos = {}
        writes = [e for e in evs if e["ev"] == "write" and e["type"] == "LOG"]
        for i, e in enumerate(writes):
            pos.setdefault(e["requestId"], []).append(i)
        nontrivial += sum(1 for v in pos.values() if len(v) == 2 and v[1] - v[0] > 1)
    ctx.extra["distinct_nontrivial"] = nontrivial
    ctx.extra["runs"] = [{"ser": evs[0]["ser"], "threads": evs[0]["threads"],
                          "entries": sum(1 for e in evs if e["ev"] == "write"),
                          "calls": sum(1 for e in evs if e["ev"] == "invoke")} for evs in runs]
    if nontrivial < 2:
        raise vlib.Infra("no interleaved calls in the workload")

    # 5. binding self-test: a corrupted copy of the first run must be rejected
    first = runs[0][:1500]
    for name, corrupt in (("inner outcome flipped", _corrupt_outcome), ("START entry dropped", _corrupt_drop)):
        bad = corrupt([dict(e) for e in first])
        vlib.write_ndjson(ctx.path("selftest.ndjson"), bad)
        _, _, m2, _ = _tv26(ctx, ctx.path("selftest.ndjson"), ctx.deviations("D-C26"), timeout=600)
        if not m2:
            raise vlib.Infra("binding self-test failed: corrupted trace (%s) was accepted" % name)
        if ctx.quick():
            break
    ctx.extra["binding_selftest"] = "corrupted traces rejected"

    ctx.assumptions += [
        "inner storage is a generated fake; outcomes (success / error text) are chosen by the seeded workload",
        "event order = sequence numbers taken under one mutex inside the sink write, inside the inner call, before entry and after return",
        "restart = Stop() + NewFileSink on the same file + NewAuditLogMiddleware, as internal/storage/config does",
    ]
    return ("TLC call kinds (37 storage.Storage methods x {ok, error}) cycled by %d-32 goroutines per run over %d runs "
            "(binary/JSON sinks, 5 sink generations each); non-trivial = a call whose START..COMPLETE window contains "
            "log entries of other calls") % (8, len(runs))


def _corrupt_outcome(evs):
    for e in evs:
        if e["ev"] == "inner" and e["err"] == "" and e["method"] == "PutObject":
            e["err"] = "flipped"
            return evs
    raise vlib.Infra("self-test: no successful PutObject in the trace prefix")


def _corrupt_drop(evs):
    for i, e in enumerate(evs):
        if e["ev"] == "write" and e["type"] == "LOG" and e["phase"] == "START" and i > 50:
            del evs[i]
            return evs
    raise vlib.Infra("self-test: no START entry in the trace prefix")


# ------------------------------------------------------------------------------------------ C27
def run_c27(ctx):
    rnd = random.Random(ctx.seed)
    # 1. design-level MC (every case detected when every recorded field is hashed) + case emission
    g = ctx.mc("AuditLogGen", "AuditLog.GenTamper.cfg", workers=1, timeout=900)
    tcases = [p for p in g.printed if isinstance(p, dict) and "kind" in p]
    grt = ctx.tlc("AuditLogGen", "AuditLog.GenRT.cfg", workers=1, timeout=900, count_mc=False)
    if not grt.ok():
        raise vlib.Infra("round-trip case generation failed: %s\n%s" % (grt.outcome, grt.output[-2000:]))
    rtcases = [p for p in grt.printed if isinstance(p, dict) and p.get("kind") == "rt"]
    if len(tcases) < 500 or len(rtcases) < 500:
        raise vlib.Infra("case generation produced %d tamper / %d round-trip cases" % (len(tcases), len(rtcases)))

    cases = []
    late = ("lastbefore", "grounding", "after", "last")
    for ser in ("bin", "json"):
        for c in tcases:
            if ctx.quick():
                # quick: every (field, mutation) at every position with hashes left alone; the attacker-effort
                # modes and the expensive binary framing breakers (type change) are sampled at late positions
                if c["kind"] != "forge" and c["mode"] != "plain" and c["pos"] in late and rnd.random() < 0.6:
                    continue
                if ser == "bin" and c["field"] == "type" and c["pos"] in ("genesis", "grounding"):
                    continue  # (the binary decoder allocates GiBs on these; thorough runs them)
            d = dict(c)
            d.update(ser=ser, permille=0, bit=0)
            cases.append(d)
        # (a flip in a binary length prefix derails the decoder into GiB-sized allocations: fewer of those)
        nb = ctx.pick(2, 40) if ser == "bin" else ctx.pick(10, 80)
        for pos in POSITIONS:
            for _ in range(nb):
                cases.append({"kind": "bytes", "pos": pos, "field": "", "field2": "", "mut": "", "mode": "plain",
                              "ser": ser, "permille": rnd.randrange(1000), "bit": rnd.randrange(8)})
            for _ in range(ctx.pick(2, 10)):
                cases.append({"kind": "trunc", "pos": pos, "field": "", "field2": "", "mut": "", "mode": "plain",
                              "ser": ser, "permille": rnd.randrange(1, 1000), "bit": 0})
    ntamper = len(cases)
    if ctx.quick():
        rtcases = [c for c in rtcases if c["type"] != "LOG" or rnd.random() < 0.5]
    # seeded random class vectors on top of the TLC-enumerated single / pairwise ones
    fields_str = ["operation", "phase", "bucket", "key", "uploadId", "sourceBucket", "sourceKey", "credentialId",
                  "authType", "requestId", "traceId", "clientIp", "outcome", "errorCode", "error"]
    fields_int = ["partNumber", "statusCode", "durationMs"]
    for _ in range(ctx.pick(200, 3000)):
        d = {f: rnd.choice(["empty", "ascii", "special", "long"]) for f in fields_str}
        d.update({f: rnd.choice(["zero", "pos", "neg", "max"]) for f in fields_int})
        rtcases.append({"kind": "rt", "ser": rnd.choice(["bin", "json"]), "version": 3, "type": "LOG",
                        "ts": rnd.choice(["nanos", "second", "trail0", "preepoch"]), "d": d})
    cases += rtcases
    vlib.write_ndjson(ctx.path("cases.ndjson"), cases)

    # 2. execute on the real code
    drv = ctx.gobuild("auditlog")
    p = ctx.run([drv, "c27", ctx.path("cases.ndjson"), ctx.path("trace.ndjson"), ctx.tmp], timeout=2400,
                env={"GOMAXPROCS": "6"})
    ctx.log(p.stdout.strip().splitlines()[-1])
    trace = vlib.read_ndjson(ctx.path("trace.ndjson"))
    nbase = sum(1 for r in trace if r["kind"] == "baseline")
    baseline_ok = all(r["ok"] for r in trace if r["kind"] == "baseline")
    if nbase != 4 or (baseline_ok and len(trace) != len(cases) + nbase):
        raise vlib.Infra("driver executed %d of %d cases (%d baseline lines)" % (len(trace) - nbase, len(cases), nbase))

    # 3. TV against the model of the code
    n, flagged = ctx.validate_cases("AuditLogTamperTrace", "AuditLog.TamperTrace.cfg", ctx.path("trace.ndjson"),
                                    subst={"Deviations": ctx.deviations("D-C27")}, timeout=2400)
    ctx.evaluations = n
    tam = [r for r in trace if r["kind"] not in ("rt", "baseline")]
    rejected = [r for r in tam if r["applied"] and not r["ok"]]
    ctx.extra["distinct_nontrivial"] = len(rejected)
    ctx.extra["tamper_cases"] = ntamper
    ctx.extra["roundtrip_cases"] = len(rtcases)
    ctx.extra["accepted"] = sum(1 for r in tam if r["ok"])
    ctx.extra["noop_cases"] = sum(1 for r in tam if not r["applied"])
    ctx.extra["validator_panics"] = sum(1 for r in tam if r["reason"] == "panic")
    reasons = {}
    for r in tam:
        reasons[r["reason"] or "accepted"] = reasons.get(r["reason"] or "accepted", 0) + 1
    ctx.extra["verdict_reasons"] = reasons
    malformed = []
    for r in flagged:
        line = trace[r["l"] - 1]
        if r["verdict"] == "finding" and r["tag"]:
            ctx.finding(r["tag"], line)
        elif r["verdict"] == "malformed":
            malformed.append(line)
        else:
            vlib.write_ndjson(ctx.path("replay.ndjson"), [line])
            if line["kind"] == "rt":
                msg = "serializer round trip changed %s (%s): case %s" % (line["diff"], line["err"], json.dumps(line)[:500])
            elif line["kind"] == "baseline":
                msg = "the untampered log written by the middleware does not verify: %s" % json.dumps(line)
            elif r["verdict"] == "notapplied":
                msg = ("the planted change of %s did not survive Encode/Decode (decoded entry differs in %s): %s" %
                       ([line["field"], line["field2"]], line["changed"], json.dumps(line)[:500]))
            elif r["verdict"] == "finding":
                msg = "undetected tampering not explained by a known deviation: %s" % json.dumps(line)[:700]
            else:
                msg = ("real verdict %s (%s) but the model of validation.go says %s (%s): %s" %
                       ("accept" if line["ok"] else "reject", line["reason"],
                        "accept" if r["model_accepts"] else "reject", r["model_reason"], json.dumps(line)[:600]))
            ctx.violation(ctx.path("replay.ndjson"), msg)
    if ctx.violations:
        return "violation reported"
    if malformed:
        raise vlib.Infra("malformed case lines: %s" % json.dumps(malformed[0])[:600])
    fields_hit = set((r["field"], r["ser"]) for r in tam if r["kind"] == "field" and r["applied"])
    if len(fields_hit) < 2 * 27:
        raise vlib.Infra("only %d (field, serializer) pairs were tampered with" % len(fields_hit))
    if len(rejected) < 2:
        raise vlib.Infra("no rejected tamper case")
    ctx.sample(tam[0])
    ctx.sample(next(r for r in tam if r["kind"] == "field" and r["applied"]))
    ctx.sample(next(r for r in trace if r["kind"] == "rt"))

    # 4. binding self-test: flip one real verdict, add one round-trip difference
    bad = [dict(next(r for r in tam if r["kind"] == "field" and r["applied"] and not r["ok"])),
           dict(next(r for r in trace if r["kind"] == "rt"))]
    bad[0]["ok"] = True
    bad[1]["diff"] = ["key"]
    vlib.write_ndjson(ctx.path("selftest.ndjson"), bad)
    _, fl = ctx.validate_cases("AuditLogTamperTrace", "AuditLog.TamperTrace.cfg", ctx.path("selftest.ndjson"),
                               subst={"Deviations": ctx.deviations("D-C27")}, timeout=600)
    ctx.traces -= 2
    ctx.events -= 2
    if sorted(r["l"] for r in fl) != [1, 2]:
        raise vlib.Infra("binding self-test failed: corrupted verdicts were not flagged (%s)" % fl)
    ctx.extra["binding_selftest"] = "flipped verdict and injected round-trip difference flagged"
    ctx.extra["exhaustive"] = not ctx.quick()
    ctx.assumptions += [
        "one concrete representative per symbolic value class / position class (harness/cmd/auditlog/c27.go)",
        "the Validator resumes from its (exported, complete) state after the untampered prefix; tool.Verify on the whole "
        "file is run for accepted logs and a sample of rejected ones and must agree",
        "an attacker has the public keys and the repo's hash / Merkle code but no signing key",
    ]
    return ("%d TLC-enumerated tamper cases (field x mutation x attacker effort x position class; whole-entry edits) x "
            "{binary, JSON} + seeded byte flips / truncations, %d round-trip cases; non-trivial = tamper changed the "
            "stored bytes and was rejected") % (len(tcases), len(rtcases))
