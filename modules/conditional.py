"""C24 — Conditional.tla: bucket-routed storages are isolated (MC of routing vs. the single-storage reference + GEN + TV through the real middleware)."""
import json
import os

import vlib

import _refine as rf

PROPS = ("C24",)

CHECKS = {
    "C24": {
        "text": "Conditional.tla models conditional.go on top of the Pithos.tla reference model: lookupStorage by bucket, "
                "per-bucket delegation, ListBuckets over all map entries and the default, and cross-storage CopyObject / "
                "UploadPartCopy as read-from-source + write-to-destination. ConditionalMC.tla runs the backing storages as "
                "separate Pithos states next to a single-storage reference and TLC proves, for every routing configuration "
                "(two buckets on two storages, one storage mapped for both buckets, an unmapped bucket falling to the "
                "default, a bucket name that already exists in the default storage): Refines (every bucket of its owner "
                "shows what the reference shows, so a cross-storage copy equals a same-storage copy), OnlyOwnerTouched and "
                "ListBucketsUnion (duplicate-free union). TLC then generates configurations + API programs weighted to "
                "copies and multipart copies in all source/destination combinations (half of them with copy-source conditions), plus "
                "one cover walk through every {CopyObject, UploadPartCopy} x {cross, same storage} x copy-source condition "
                "combination (if-match / if-none-match / if-(un)modified-since absent, passing, failing; the model has the "
                "storage's own S3 precedence rule for both paths); the harness runs them through the real "
                "middleware over three real MetadataPartStorage backings wrapped in recording decorators; TLC validates every "
                "call against the model of the middleware and checks, per call, which backings were called, that every "
                "backing (read directly) shows for owned buckets what the middleware shows and for foreign buckets what it "
                "held before, and the ListBuckets answer.",
        "note": "sequential histories; the driver owns the backing storages' lifecycle (decorator Start/Stop are no-ops) and "
                "builds one middleware per program because bucket names are per program; bucket website/CORS/lifecycle/"
                "notification configuration calls are not generated; symbolic values concretised by harness/pdrv; TLC, Go "
                "toolchain and SQLite are trusted",
        "technique": "TLA+ refinement model over Pithos.tla, TLC model checking of routed storages against the reference, "
                     "TLC-generated configurations and programs replayed through the real middleware with recording "
                     "decorators, TLC trace validation",
    },
}

MC_THOROUGH = {"CfgNames": '{"split", "same", "unmapped", "stale"}', "TagSets": '{"none", "g1"}'}
STORAGES = ("S0", "S1", "S2")


def gen(ctx, n, depth, seed, cfgnames):
    subst = {"Ops": rf.tla_set(rf.ALL_OPS), "GenDepth": str(depth), "CfgNames": rf.tla_set(cfgnames)}
    r = ctx.tlc("ConditionalGen", "Conditional.Gen.cfg", workers=1, simulate="num=%d" % n, depth=depth + 1, seed=seed,
                timeout=600, count_mc=False, subst=subst)
    progs = [p for p in r.printed if isinstance(p, dict) and "calls" in p]
    if len(progs) < n:
        raise vlib.Infra("program generation produced %d of %d programs (%s)\n%s" % (len(progs), n, r.outcome, r.output[-2000:]))
    ctx.transitions += r.generated
    return progs[:n]


def sc_cover_program(ctx):
    """The copy-source condition cover (ConditionalGen!SCCoverProgram): one walk through every situation
    {CopyObject, UploadPartCopy} x {cross-storage, same-storage} x condition combination, printed by TLC."""
    r = ctx.tlc("ConditionalGen", "Conditional.Cover.cfg", workers=1, simulate="num=1", depth=1, seed=1, timeout=300,
                count_mc=False, subst={"CfgNames": '{"split"}'})
    ps = [p for p in r.printed if isinstance(p, dict) and "cover" in p]
    if not ps:
        raise vlib.Infra("copy-source condition cover was not produced (%s)\n%s" % (r.outcome, r.output[-1500:]))
    cfg = {"name": "split", "route": {"b1": "S1", "b2": "S2"}, "def": "S0", "pre": []}
    ctx.log("copy-source condition cover: %d combinations, %d calls" % (ps[0]["combos"], len(ps[0]["cover"])))
    return {"config": cfg, "calls": ps[0]["cover"], "combos": ps[0]["combos"]}


def _corrupt_touched(prog):
    """binding self-test 1: pretend a foreign backing storage was called."""
    cfg = None
    for ln in prog:
        if ln["call"]["op"] == "Config":
            cfg = ln["config"]
        if ln["call"]["op"] in ("PutObject", "DeleteObject", "PutTagging") and cfg:
            owner = cfg["route"].get(ln["call"]["b"]) or cfg["def"]
            other = [s for s in STORAGES if s != owner][0]
            ln["touched"][other] = ["HeadObject"]
            return True
    return False


def _corrupt_listing(prog):
    """binding self-test 2: empty a non-empty ListBuckets answer."""
    for ln in prog:
        if ln["call"]["op"] not in ("Reset", "Config") and len(ln["lb"]) >= 1:
            ln["lb"] = []
            return True
    return False


def _describe(w, line):
    return json.dumps(w.get("detail"), sort_keys=True)[:2500]


def run(ctx):
    # 1. design: routing + cross-storage copy refine the single-storage reference model
    if not os.environ.get("VERIF_SKIP_MC"):  # debugging aid only
        ctx.mc("ConditionalMC", "Conditional.MC.cfg", workers=ctx.pick(4, None), timeout=ctx.pick(600, 3000),
               subst=ctx.pick({}, MC_THOROUGH))
        # the modelled deviation must be observable in the model (Refines breaks), else the finding would be vacuous
        for tag, ops in (("D-C24-crosscopy-drops-meta", ["CreateBucket", "PutObject", "CopyObject"]),
                         ("D-C24-crosscopy-single-etag", ["CreateBucket", "AppendObject", "CopyObject"])):
            r = ctx.tlc("ConditionalMC", "Conditional.MC.cfg", workers=4, timeout=600,
                        subst={"Deviations": '{"%s"}' % tag, "Ops": rf.tla_set(ops)})
            if r.outcome != "invariant" or r.violated != "Refines":
                raise vlib.Infra("the model with %s does not break Refines (%s %s)" % (tag, r.outcome, r.violated))
    # 2.-4. configurations + programs from TLC, through the real middleware, trace validation
    nprog = ctx.pick(20, 240)
    depth = ctx.pick(25, 40)
    cfgnames = ["split", "same", "unmapped", "stale"]
    drv = ctx.gobuild("conditional")
    progs = gen(ctx, nprog, depth, ctx.seed * 1000 + 24, cfgnames)
    cover = sc_cover_program(ctx)
    progs.append(cover)      # always executed, under a configuration that routes the two buckets to different storages
    pf = ctx.path("programs.ndjson")
    vlib.write_ndjson(pf, [{"id": i + 1, "config": p["config"], "calls": p["calls"]} for i, p in enumerate(progs)])
    tf = ctx.path("trace.ndjson")
    p = ctx.run([drv, "run", ctx.path("state"), pf, tf], timeout=3000)
    ctx.log(p.stdout.strip().splitlines()[-1])
    opcount = rf.count_ops([p["calls"] for p in progs], {})
    ctx.traces += len(progs)
    ctx.evaluations += sum(len(p["calls"]) for p in progs)
    ctx.sample({"config": progs[0]["config"], "program": progs[0]["calls"][:8]})
    subst = {"Deviations": rf.deviations(ctx, PROPS)}
    _, _, diags = rf.run_tv(ctx, "ConditionalTrace", "Conditional.Trace.cfg", tf, "conditional", subst,
                            finding_whats=("property",), describe=_describe)
    rf.self_test(ctx, "ConditionalTrace", "Conditional.Trace.cfg", tf, subst, _corrupt_touched, "foreign-storage-called")
    rf.self_test(ctx, "ConditionalTrace", "Conditional.Trace.cfg", tf, subst, _corrupt_listing, "listing")
    # coverage of what the property depends on
    lines = vlib.read_ndjson(tf)
    cfg = None
    cross = {"CopyObject": 0, "UploadPartCopy": 0}
    cross_ok = {"CopyObject": 0, "UploadPartCopy": 0}
    byconf = {}
    for ln in lines:
        op = ln["call"]["op"]
        if op == "Config":
            cfg = ln["config"]
            byconf[cfg["name"]] = byconf.get(cfg["name"], 0) + 1
        elif op in cross:
            own = lambda b: cfg["route"].get(b) or cfg["def"]
            if own(ln["call"]["sb"]) != own(ln["call"]["b"]):
                cross[op] += 1
                if ln["res"]["err"] == "":
                    cross_ok[op] += 1
    # the cover must really have exercised every (operation, cross/same, combination), with both outcomes
    scs = {}
    cfg = None
    for ln in lines:
        op = ln["call"]["op"]
        if op == "Config":
            cfg = ln["config"]
        elif op in ("CopyObject", "UploadPartCopy") and "sc" in ln["call"] and cfg:
            own = lambda b: cfg["route"].get(b) or cfg["def"]
            key = (op, own(ln["call"]["sb"]) != own(ln["call"]["b"]), json.dumps(ln["call"]["sc"], sort_keys=True))
            scs.setdefault(key, set()).add(ln["res"]["err"])
    need = 4 * cover["combos"]
    refused = sum(1 for v in scs.values() if "PreconditionFailed" in v)
    done = sum(1 for v in scs.values() if "" in v)
    ctx.extra["copy_source_conditions"] = {"situations_executed": len(scs), "cover_situations": need,
                                           "refused": refused, "performed": done}
    if len(scs) < need or refused == 0 or done == 0:
        raise vlib.Infra("copy-source condition situations not exercised: %d of %d (refused %d, performed %d)" % (len(scs), need, refused, done))
    ctx.extra["distinct_nontrivial"] = ctx.traces
    ctx.extra["calls_by_op"] = opcount
    ctx.extra["programs_by_configuration"] = byconf
    ctx.extra["cross_storage_copies"] = cross
    ctx.extra["cross_storage_copies_successful"] = cross_ok
    missing = [o for o in rf.ALL_OPS if opcount.get(o, 0) == 0]
    if missing:
        raise vlib.Infra("operations never generated: %s" % missing)
    if cross_ok["CopyObject"] < 3 or cross_ok["UploadPartCopy"] < 1 or len(byconf) < ctx.pick(3, 4):
        raise vlib.Infra("too little cross-storage activity: %s / configurations %s" % (cross_ok, byconf))
    ctx.assumptions += [
        "programs are random walks of the model (TLC -simulate); configurations are picked by TLC from Conditional!AllConfigs",
        "the combined state of the model shows for bucket b the bucket b of its owner; backing storages are read directly "
        "(not through the decorators) after every call",
        "a rejected program is reported and dropped; the remaining programs are still validated",
    ]
    return ("TLC -simulate random walks over ConditionalGen (configuration x API calls weighted to copies/multipart copies), "
            "%d calls each, executed through conditional.NewStorageMiddleware over 3 real backing storages; every program is "
            "distinct and non-trivial (all calls logged with the views of the middleware and of every backing storage)" % depth)
