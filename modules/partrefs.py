"""C08 C09 C40 — PartRefs.tla: part reference protocol (registry / dedup index / garbage collector / tx-free reader)."""
import concurrent.futures
import json
import os
import random

import vlib

PROPS = ("C08", "C09", "C40")

_TECH = ("TLA+ state-function model (Eff), TLC model checking (safety + liveness), TLC-generated programs and forced "
         "schedules (collector stepped gate by gate, reader stepped part by part) executed on the real "
         "MetadataPartStorage, TLC trace validation of every step with the full projected state")
_NOTE = ("write transactions are atomic steps (SQLite serialises them; PostgreSQL is not available offline); objects live "
         "in one unversioned bucket (a version = one object row); the collector is run through the guarded export "
         "gc.RunOnce with a 1 ms grace window and the storage's own background loop is parked at its first gate; "
         "a slow PutObject (part id minted, transaction open) is held at a part-store gate; environment faults (orphan part, dropped / over-counted registry row) are injected by direct SQL / part-store "
         "calls in the directions the code itself produces; TLC, the Go toolchain and SQLite are trusted")
CHECKS = {
    "C08": {"text": "PartRefs.tla models every mutating operation as one atomic transaction over parts rows, part_registry, "
                    "part_dedup_index and the physical stores, the collector as one action per code section between two "
                    "gates, and environment faults. TLC proves NoReferencedPartMissing, RegistryMatchesRows and DedupSound "
                    "over all interleavings within small bounds; TLC-generated programs and forced schedules (writer "
                    "commits against every collector phase boundary) run on the real storage (filesystem, SQL and mixed "
                    "multi-store stacks) and TLC validates every step against the model with the full state read back "
                    "from SQL and the store directories; a concurrent stress run is checked on its final state.",
            "note": _NOTE, "technique": _TECH},
    "C09": {"text": "Liveness Quiesce ~> Converged (stores = referenced set, registry = row counts, dedup index only "
                    "referenced parts, no stray files) is proved by TLC under weak fairness of collector and clock on an "
                    "unconstrained small configuration; every executed program ends with quiescence, grace window and two "
                    "real collector passes, after which the logged directory listing (raw entries), registry and dedup "
                    "index must equal the model's referenced set; crash points during write transactions and collector "
                    "passes are replayed by SIGKILL in a child process, followed by restart, collector passes and the "
                    "same convergence check.",
            "note": _NOTE, "technique": _TECH},
    "C40": {"text": "The reader process of PartRefs.tla (resolve in a read transaction, lazy tx-free OpenPart/ReadPart, "
                    "snapshot for SQL stores) is model checked against overwrite / delete / transition / collector for "
                    "ReaderOutcome; TLC-generated schedules interleave the reader's part steps with writers and the "
                    "collector on the real storage through a gating part-store decorator, directly and end-to-end over "
                    "the HTTP server (Content-Length vs bytes received vs transport error).",
            "note": _NOTE, "technique": _TECH},
}

STACKS = {
    # stack -> model constants
    "fs":      {"Stores": '{"default"}', "TxFree": '{"default"}'},
    "sql":     {"Stores": '{"default"}', "TxFree": '{}'},
    "fs2":     {"Stores": '{"default", "cold"}', "TxFree": '{"default", "cold"}'},
    "classes": {"Stores": '{"default", "cold", "warm"}', "TxFree": '{"default", "cold"}'},
}


def tla_seq(xs):
    return "<<" + ", ".join('"%s"' % x for x in xs) + ">>"


def write_patterns(ctx, rng, n, depth, weights):
    """Category patterns for the random walks, drawn from the seed."""
    cats, w = zip(*weights.items())
    pats = set()
    while len(pats) < n:
        p = ["W", "W"] + rng.choices(cats, w, k=depth - 2)
        pats.add(tuple(p))
    txt = ("----------------------------- MODULE PartRefsPat -----------------------------\n"
           "Patterns == {" + ",\n  ".join(tla_seq(p) for p in sorted(pats)) + "}\n"
           "=============================================================================\n")
    d = ctx._specdir()
    open(os.path.join(d, "PartRefsPat.tla"), "w").write(txt)


def gen_walks(ctx, stack, n, depth, weights, rng, faults):
    write_patterns(ctx, rng, max(4, n // 2), depth, weights)
    sub = dict(STACKS[stack])
    sub.update({"Mode": '"walk"', "Depth": str(depth), "Faults": faults})
    r = ctx.tlc("PartRefsGen", "PartRefs.Gen.cfg", workers=1, simulate="num=%d" % n, depth=depth + 1, seed=rng.randrange(1 << 30),
                timeout=900, count_mc=False, subst=sub)
    progs = [p for p in r.printed if isinstance(p, dict) and "prog" in p]
    # TLC prints every successor of a walk's last state: keep one program per walk (seed-chosen)
    fam = {}
    for p in progs:
        fam.setdefault(json.dumps(p["prog"][:-1], sort_keys=True), []).append(p)
    out = [rng.choice(fam[k]) for k in sorted(fam)]
    if len(out) < max(1, n // 2):
        raise vlib.Infra("walk generation produced %d of %d programs (%s)\n%s" % (len(out), n, r.outcome, r.output[-2000:]))
    return out


def gen_scenarios(ctx, stack, scns, rng, sample=None, extra=None):
    sub = dict(STACKS[stack])
    if extra:
        sub.update(extra)
    sub.update({"Mode": '"scn"', "Depth": "0", "ScnSet": "{" + ", ".join(str(s) for s in scns) + "}"})
    if sample:
        r = ctx.tlc("PartRefsGen", "PartRefs.Gen.cfg", workers=1, simulate="num=%d" % sample, depth=60, seed=rng.randrange(1 << 30),
                    timeout=900, count_mc=False, subst=sub)
    else:
        r = ctx.tlc("PartRefsGen", "PartRefs.Gen.cfg", workers=1, timeout=900, count_mc=False, subst=sub)
    progs = [p for p in r.printed if isinstance(p, dict) and "prog" in p]
    if not progs:
        raise vlib.Infra("scenario generation produced nothing (%s)\n%s" % (r.outcome, r.output[-2000:]))
    # distinct schedules only
    seen, out = set(), []
    for p in progs:
        k = json.dumps(p["prog"], sort_keys=True)
        if k not in seen:
            seen.add(k)
            out.append(p)
    return out


def validate(ctx, stack, trace_path, what, extra=None):
    """TV of one driver trace; returns (lines, flagged records)."""
    sub = dict(STACKS[stack])
    if extra:
        sub.update(extra)
    sub["Deviations"] = ctx.deviations(props=PROPS)
    n, flagged = ctx.validate_cases("PartRefsTrace", "PartRefs.Trace.cfg", trace_path, timeout=1800, subst=sub)
    ctx.log("TV %s (%s): %d lines, %d flagged" % (what, stack, n, len(flagged)))
    return n, flagged


def judge(ctx, trace_path, flagged, stats):
    """Turn flagged records into findings / violations (for the property being checked)."""
    lines = None
    for r in flagged:
        if lines is None:
            lines = vlib.read_ndjson(trace_path)
        line = lines[r["l"] - 1]
        # the program the line belongs to, for the replay file
        start = r["l"] - 1
        while start > 0 and lines[start]["e"] != "reset":
            start -= 1
        prog = lines[start:r["l"]]
        if r["verdict"] == "finding":
            if r["prop"] != ctx.prop:
                stats["other_prop_findings"] = stats.get("other_prop_findings", 0) + 1
                continue
            witness = {"what": r["what"], "program": [{k: e.get(k, "") for k in ("e", "k", "c", "s", "u", "n", "src", "j", "res")} for e in prog[1:] if e["e"] != "Read"][-40:],
                       "stack": line.get("stack"), "mode": line.get("mode")}
            if r["tag"]:
                ctx.finding(r["tag"], witness, prop=r["prop"])
            else:
                rp = ctx.path("replay-%d.ndjson" % r["l"])
                vlib.write_ndjson(rp, prog)
                ctx.violation(rp, "%s: %s (stack %s, line %d: %s)" % (r["prop"], r["what"], line.get("stack"), r["l"],
                                                                  json.dumps(witness["program"][-6:])))
        else:
            rp = ctx.path("replay-%d.ndjson" % r["l"])
            vlib.write_ndjson(rp, prog)
            ctx.violation(rp, "the real storage did something the model of the code cannot explain (stack %s, step %s -> %s, differs in %s): "
                              "expected %s" % (line.get("stack"), line["e"], line["res"], r.get("differs"), json.dumps(r.get("expected"))[:900]))


def count_lines(trace, stats):
    for e in trace:
        op = e["e"]
        stats["ops"][op] = stats["ops"].get(op, 0) + 1
        if op == "Gc":
            stats["gc"][e["res"]] = stats["gc"].get(e["res"], 0) + 1
            if e["res"] == "extdelete":
                stats["extdeletes"] += 1
        if op in ("RdOpen", "RdRead") and e["res"] in ("error", "eof"):
            stats["rd"][e["res"]] = stats["rd"].get(e["res"], 0) + 1


def run_programs(ctx, drv, stack, modes, progs, name, stats, extra=None):
    """Execute the programs on the real storage once per mode; one TV over the concatenated traces."""
    pf, tf = ctx.path(name + ".progs.ndjson"), ctx.path(name + ".trace.ndjson")
    vlib.write_ndjson(pf, progs)
    trace = []
    # the driver is sequential per process (one process-wide hook handler): shard the programs
    shards = max(1, min(ctx.pick(1, 6), len(progs) // 8))
    jobs = []
    for mode in modes:
        for s in range(shards):
            part = progs[s::shards]
            sf = ctx.path("%s.%s.%d.progs.ndjson" % (name, mode, s))
            vlib.write_ndjson(sf, part)
            jobs.append((mode, s, len(part), sf, ctx.path("%s.%s.%d.ndjson" % (name, mode, s))))

    def job(j):
        mode, s, n, sf, mf = j
        return ctx.run([drv, "run", stack, mode, sf, mf, ctx.path("%s.%s.%d.work" % (name, mode, s))], timeout=3600)

    with concurrent.futures.ThreadPoolExecutor(max_workers=len(jobs)) as ex:
        outs = list(ex.map(job, jobs))
    for (mode, s, n, sf, mf), p in zip(jobs, outs):
        part = vlib.read_ndjson(mf)
        if sum(1 for e in part if e["e"] == "reset") != n:
            raise vlib.Infra("driver executed %d of %d programs" % (sum(1 for e in part if e["e"] == "reset"), n))
        trace += part
    ctx.log("%s %s: %d programs x %d shard(s), %d events" % (stack, "+".join(modes), len(progs), shards, len(trace)))
    vlib.write_ndjson(tf, trace)
    count_lines(trace, stats)
    n, flagged = validate(ctx, stack, tf, name, extra)
    judge(ctx, tf, flagged, stats)
    if len(ctx.samples) < 2 and not extra:
        body = [e for e in trace if e["e"] not in ("reset", "Read", "Adopt")]
        mid = body[len(body) // 2]
        ctx.sample({k: mid.get(k) for k in ("e", "k", "c", "s", "res", "st", "gc", "rd", "stack")})
    return tf, trace


def self_test(ctx, stack, tf, trace):
    """Binding self-test: corrupt one logged field of a recorded trace; validation must flag exactly that line."""
    # the first three programs are enough
    resets = [i for i, e in enumerate(trace) if e["e"] == "reset"]
    trace = trace[:resets[3]] if len(resets) > 3 else trace
    cand = [i for i, e in enumerate(trace) if e["e"] in ("Put", "Delete", "Copy", "Gc") and e["st"]["reg"]]
    if not cand:
        raise vlib.Infra("self-test: no suitable line")
    i = cand[len(cand) // 2]
    bad = json.loads(json.dumps(trace))
    bad[i]["st"]["reg"][0] += 1
    bf = ctx.path("selftest.ndjson")
    vlib.write_ndjson(bf, bad)
    sub = dict(STACKS[stack])
    sub["Deviations"] = ctx.deviations(props=PROPS)
    _, flagged = ctx.validate_cases("PartRefsTrace", "PartRefs.Trace.cfg", bf, timeout=1800, subst=sub)
    if not any(r["l"] == i + 1 and r["verdict"] == "mismatch" for r in flagged):
        raise vlib.Infra("binding self-test failed: a corrupted part_registry value in line %d was not flagged" % (i + 1))
    ctx.traces -= len(bad)
    ctx.events -= len(bad)
    ctx.log("binding self-test: corrupted registry value flagged at line %d" % (i + 1))


def must_violate(ctx, cfg, tag, inv, sub=None):
    """Non-vacuity: with a hypothetical breakage enabled TLC must find the property violated."""
    s = {"Deviations": '{"%s"}' % tag}
    if sub:
        s.update(sub)
    r = ctx.tlc("PartRefs", cfg, workers=4, timeout=900, subst=s, count_mc=False)
    if inv == "Reclaims" and "Temporal property Reclaims was violated" in r.output:
        ctx.log("non-vacuity: %s violates Reclaims" % tag)
        return
    if r.outcome not in ("invariant", "property") or (inv and r.violated != inv):
        raise vlib.Infra("non-vacuity check failed: with %s TLC reported %s %s instead of a violation of %s" % (tag, r.outcome, r.violated, inv))
    ctx.log("non-vacuity: %s violates %s (found after %d states)" % (tag, r.violated, r.distinct))


def run_stress(ctx, drv, stack, writers, ops, readers, stats):
    tf = ctx.path("stress-%s.trace.ndjson" % stack)
    p = ctx.run([drv, "stress", stack, str(ctx.seed), tf, ctx.path("stress-%s.work" % stack), str(writers), str(ops), str(readers)], timeout=1800)
    ctx.log(p.stdout.strip().splitlines()[-1][:600])
    trace = vlib.read_ndjson(tf)
    stats["stress_reads"] = stats.get("stress_reads", 0) + sum(1 for e in trace if e["e"] == "Read")
    stats["stress_read_errors"] = stats.get("stress_read_errors", 0) + sum(1 for e in trace if e["e"] == "Read" and e["err"])
    count_lines([e for e in trace if e["e"] not in ("Read", "reset", "Adopt")], stats)
    n, flagged = validate(ctx, stack, tf, "stress")
    judge(ctx, tf, flagged, stats)


def run_crash(ctx, drv, stack, progs, kills, stats):
    pf, tf = ctx.path("crash-%s.progs.ndjson" % stack), ctx.path("crash-%s.trace.ndjson" % stack)
    vlib.write_ndjson(pf, progs)
    p = ctx.run([drv, "crash", stack, pf, tf, ctx.path("crash-%s.work" % stack), str(kills), str(ctx.seed)], timeout=3600)
    ctx.log(p.stdout.strip().splitlines()[-1][:600])
    trace = vlib.read_ndjson(tf)
    stats["crashes"] = stats.get("crashes", 0) + sum(1 for e in trace if e["e"] == "Adopt")
    count_lines([e for e in trace if e["e"] not in ("reset", "Adopt")], stats)
    n, flagged = validate(ctx, stack, tf, "crash")
    judge(ctx, tf, flagged, stats)


def run(ctx):
    rng = random.Random(ctx.seed * 7919 + {"C08": 1, "C09": 2, "C40": 3}[ctx.prop])
    stats = {"ops": {}, "gc": {}, "rd": {}, "extdeletes": 0}
    quick = ctx.quick()
    drv = ctx.gobuild("partrefs")
    faults = '{"orphan", "regdrop", "regover", "slow"}'
    stress, crash = [], []

    if ctx.prop == "C08":
        ctx.mc("PartRefs", "PartRefs.MC.cfg", workers=ctx.pick(4, 8), timeout=3000,
               subst={"MaxOps": ctx.pick("3", "5"), "MaxId": ctx.pick("4", "5")})
        if not quick:
            ctx.mc("PartRefs", "PartRefs.MC2.cfg", workers=8, timeout=3000)
        must_violate(ctx, "PartRefs.MC.cfg", "H-C08-condemn-no-recount", "NoReferencedPartMissing", {"MaxOps": "2"})
        must_violate(ctx, "PartRefs.MC.cfg", "H-C08-copy-no-tryadd", None, {"MaxOps": "3"})
        must_violate(ctx, "PartRefs.MC.cfg", "H-C08-snapshot-orphans", None, {"MaxOps": "2"})
        weights = {"W": 6, "F": 2, "T": 1, "G": 7, "R": 0}
        # (stack, walks, scenario set, scenario sample (None = all interleavings), modes)
        plan = ctx.pick([("fs", 12, [1, 2, 3], 24, ["api"]), ("fs", 0, [10, 11], None, ["api"]), ("classes", 8, [8, 9], 10, ["api"])],
                        [("fs", 200, [1, 2, 3], None, ["api"]), ("fs", 0, [10, 11], None, ["api"]), ("sql", 0, [10, 11], None, ["api"]),
                         ("classes", 0, [10, 11], None, ["api"]), ("sql", 100, [1, 2, 3], 200, ["api"]),
                         ("fs2", 80, [8, 9], 200, ["api"]), ("classes", 200, [8, 9], 300, ["api"])])
        stress = ctx.pick([("fs", 4, 40, 2)], [("fs", 6, 300, 3), ("sql", 4, 150, 2), ("classes", 6, 300, 3)])
    elif ctx.prop == "C09":
        ctx.mc("PartRefs", "PartRefs.MCLive.cfg", workers=ctx.pick(4, 8), timeout=3000,
               subst={"MaxOps": ctx.pick("3", "4"), "MaxId": ctx.pick("3", "4")})
        must_violate(ctx, "PartRefs.MCLive.cfg", "D-C09-stray-temp", "Reclaims")
        if not quick:
            ctx.mc("PartRefs", "PartRefs.MCLive2.cfg", workers=4, timeout=1500)
            must_violate(ctx, "PartRefs.MCLive2.cfg", "H-C09-gc-default-store-only", "Reclaims")
        weights = {"W": 5, "F": 4, "T": 1, "G": 5, "R": 0}
        plan = ctx.pick([("fs", 10, [], 0, ["api"]), ("classes", 8, [], 0, ["api"])],
                        [("fs", 200, [], 0, ["api"]), ("sql", 100, [], 0, ["api"]), ("fs2", 80, [], 0, ["api"]),
                         ("classes", 200, [], 0, ["api"])])
        crash = ctx.pick([("fs", 3, 6)], [("fs", 10, 12), ("classes", 8, 10), ("sql", 4, 6)])
    else:
        big = {"MaxOps": ctx.pick("2", "3"), "MaxId": ctx.pick("4", "5")}
        ctx.mc("PartRefs", "PartRefs.MCRead.cfg", workers=4, timeout=1500, subst=dict(big))
        ctx.mc("PartRefs", "PartRefs.MCRead.cfg", workers=4, timeout=1500, subst=dict(big, TxFree="{}"))
        must_violate(ctx, "PartRefs.MCRead.cfg", "H-C40-missing-part-eof", "ReaderOutcome")
        weights = {"W": 5, "F": 1, "T": 1, "G": 3, "R": 7}
        plan = ctx.pick([("fs", 6, [4, 12, 13], None, ["api", "http"]), ("fs", 0, [5, 6, 15], 10, ["api", "http"]),
                         ("sql", 4, [4, 6, 12], 10, ["api", "http"])],
                        [("fs", 160, [4, 5, 12, 13], None, ["api", "http"]), ("fs", 0, [6, 15], 300, ["api", "http"]),
                         ("sql", 100, [4, 5, 6, 12, 13, 15], 250, ["api", "http"]),
                         ("classes", 160, [6, 7, 12, 13, 15], 350, ["api", "http"])])
        stress = ctx.pick([("fs", 3, 30, 3)], [("fs", 4, 200, 4), ("sql", 4, 150, 4), ("classes", 4, 200, 4)])

    depth = ctx.pick(16, 22)
    nprog = 0
    first = None
    for stack, nwalk, scns, sample, modes in plan:
        progs = gen_walks(ctx, stack, nwalk, depth, weights, rng, faults) if nwalk else []
        if scns:
            sp = gen_scenarios(ctx, stack, scns, rng, sample)
            stats["schedules"] = stats.get("schedules", 0) + len(sp) * len(modes)
            progs += sp
        tf, trace = run_programs(ctx, drv, stack, modes, progs, "prog-%s-%d" % (stack, len(progs)), stats)
        nprog += len(progs) * len(modes)
        if first is None:
            first = (stack, tf, trace)
        if stack == plan[0][0] and nwalk:
            for cstack, ncrash, kills in crash:
                if cstack == stack:
                    run_crash(ctx, drv, stack, progs[:ncrash], kills, stats)
    for cstack, ncrash, kills in crash:
        if cstack != plan[0][0]:
            cp = gen_walks(ctx, cstack, ncrash, depth, weights, rng, faults)
            run_crash(ctx, drv, cstack, cp, kills, stats)
    if ctx.prop == "C09":
        # a store holding far more aged unreferenced parts than any batch size: one pass must list and reclaim
        # all of them (SQL store: its deletions happen inside the condemn transaction, so the pass stays a few gates)
        big = {"MaxId": "1300"}
        mp = gen_scenarios(ctx, "sql", [14], rng, None, extra=big)
        _, mtrace = run_programs(ctx, drv, "sql", ["api"], mp, "many-sql", stats, extra=big)
        stats["many_candidates"] = max([len(e["gc"]["cand"]) for e in mtrace if e["e"] == "Gc"] + [0])
        nprog += len(mp)
    for stack, writers, ops, readers in stress:
        run_stress(ctx, drv, stack, writers, ops, readers, stats)
    self_test(ctx, *first)

    # coverage requirements: the actions the property depends on must have been exercised
    need = {"C08": [("gc", "extdelete"), ("gc", "candidates"), ("ops", "Copy"), ("ops", "Delete")],
            "C09": [("gc", "extdelete"), ("gc", "reconciled"), ("ops", "Final")],
            "C40": [("ops", "RdOpen"), ("ops", "RdRead"), ("rd", "error"), ("rd", "eof")]}[ctx.prop]
    for grp, key in need:
        if not stats[grp].get(key):
            raise vlib.Infra("coverage: %s/%s was never exercised on the real code" % (grp, key))
    if ctx.prop == "C09" and not stats.get("crashes"):
        raise vlib.Infra("coverage: no crash point was replayed")
    if ctx.prop == "C09" and stats.get("many_candidates", 0) < 1200:
        raise vlib.Infra("coverage: the many-candidates pass listed only %d candidates" % stats.get("many_candidates", 0))
    ctx.extra["ops_executed"] = stats["ops"]
    ctx.extra["collector_gates"] = stats["gc"]
    ctx.extra["reader_endings"] = stats["rd"]
    ctx.extra["programs"] = nprog
    ctx.extra["forced_schedules"] = stats.get("schedules", 0)
    for k in ("crashes", "stress_reads", "stress_read_errors", "other_prop_findings", "many_candidates"):
        if k in stats:
            ctx.extra[k] = stats[k]
    ctx.extra["distinct_nontrivial"] = {"C08": stats["extdeletes"] + stats["ops"].get("Copy", 0),
                                        "C09": stats["extdeletes"] + stats.get("crashes", 0),
                                        "C40": stats["rd"].get("error", 0) + stats["rd"].get("eof", 0)}[ctx.prop]
    ctx.level = "model_checking"
    ctx.assumptions += [
        "content symbols a/b are concretised by harness/cmd/partrefs (1000 B and 70000 B blobs)",
        "part ids are mapped to model ids in minting (ULID) order",
        "the collector's cutoff is reproducible because the driver sleeps longer than the 1 ms grace window before starting it",
    ]
    return ("programs = TLC random walks over PartRefs.tla following seed-drawn category patterns (writer / fault / clock / "
            "collector gate / reader part step) plus TLC-enumerated interleavings of fixed race scenarios; every program ends "
            "with quiescence + 2 collector passes; crash points = seed-chosen hook points (SIGKILL); non-trivial = collector "
            "physical deletions, shared-part copies, crash replays, reader sessions ending in error or complete under "
            "concurrent mutation")
