"""C30 — Chunked.tla: aws-chunked uploads store exactly the decoded payload."""
import json
import os
import random

import vlib

PROPS = ("C30",)
ALL_ALGOS = ["crc32", "crc32c", "crc64nvme", "sha1", "sha256"]
CHECKS = {
    "C30": {
        "text": "Chunked.tla is a decoder state machine mirroring awsChunkReadCloser.Read (chunk header -> data -> CRLF -> "
                "validateSignature -> ... -> zero chunk -> trailer section -> trailer signature -> trailer checksum -> EOF) "
                "over a symbolic wire with an injective chunk-signature chain, embedded in a model of SetupServer / "
                "MakeSignatureMiddleware (is the decoder installed?) and of the handler's commit-on-EOF / rollback-on-error. "
                "TLC proves StoredIsDecoded and four auxiliary invariants on the intended design for every case (payload 0..3 "
                "units, all chunkings into <=3 chunks, 4 streaming modes x 5 trailer algorithms x 2 trailer framings, 13 wire "
                "mutations at every position, auth enabled/disabled/anonymous, PutObject/UploadPart, key empty/occupied). "
                "TLC emits the case space and the wire of every executed case; the Go driver concretises the wire into bytes "
                "with real SigV4 chunk signatures and checksums, sends it to the real handler stack (server.SetupServer, "
                "sqlite metadatapart storage), observes status and a following GetObject, and TLC validates every observation "
                "against the model of the code and evaluates the property on it. Model checking is exhaustive over the symbolic "
                "space; conformance runs a seeded stratified sample of it (600 quick / 30 000 thorough = every authenticated case plus a sample of the "
                "unauthenticated ones; every (mutation, mode, auth) stratum covered).",
        "note": "symbolic signatures/checksums are injective (no HMAC/CRC collisions); one symbolic unit = one byte or one "
                "seeded block of 2..65537 bytes; framing mutations only at unit scale (chunk <= consumer read buffer); "
                "'tampered' means: contradicts integrity evidence the configuration can verify (chunk signatures need "
                "credentials, trailer checksums do not); size field altered to 0 without any verifiable evidence is excluded; "
                "requests are delivered by ServeHTTP on the SetupServer handler (1/8 of the small ones over a loopback "
                "httptest.Server); TLC, Go toolchain, sqlite trusted",
        "technique": "TLA+ step machine + result operator, TLC exhaustive MC, TLC-generated cases and wires, replay on real "
                     "code, TLC trace validation",
    },
}


def expand(factors):
    cases = []
    for f in factors:
        for m in f["muts"]:
            for op in f["ops"]:
                for prev in f["prevs"]:
                    cases.append({"chunks": f["chunks"], "mode": f["mode"], "algo": f["algo"], "tstyle": f["tstyle"],
                                  "mut": m[0], "at": m[1], "auth": f["auth"], "op": op, "prev": prev, "scale": f["scale"]})
    cases.sort(key=lambda c: json.dumps(c, sort_keys=True))
    return cases


def stratified(cases, n, rng):
    """Seeded sample that covers every (mut, mode, auth) stratum at least once."""
    strata = {}
    for c in cases:
        strata.setdefault((c["mut"], c["mode"], c["auth"]), []).append(c)
    picked = []
    for k in sorted(strata):
        picked.append(rng.choice(strata[k]))
    seen = set(json.dumps(c, sort_keys=True) for c in picked)
    rest = [c for c in cases if json.dumps(c, sort_keys=True) not in seen]
    rng.shuffle(rest)
    # two thirds of the remaining budget go to authenticated requests (the only ones that reach the decoder
    # while D-C30-no-decode-without-auth is open)
    more = max(0, n - len(picked))
    en = [c for c in rest if c["auth"] == "enabled"][:(2 * more) // 3]
    oth = [c for c in rest if c["auth"] != "enabled"][:more - len(en)]
    picked += en + oth
    rng.shuffle(picked)
    return picked


def nontrivial(r):
    return r["mut"] != "none" or len(r["chunks"]) >= 2 or r["auth"] != "enabled"


def run(ctx):
    rng = random.Random(ctx.seed)
    algos_txt = "{" + ", ".join('"%s"' % a for a in ALL_ALGOS) + "}"
    # 1. design-level MC: step machine, all cases of the MC bound, Deviations = {}
    mc_algos = ctx.pick([rng.choice(ALL_ALGOS)], ALL_ALGOS)
    mc_subst = {"Algos": "{" + ", ".join('"%s"' % a for a in mc_algos) + "}",
                "Scales": ctx.pick('{"unit"}', '{"unit", "block"}'),
                "MCOps": ctx.pick('{"%s"}' % rng.choice(["PutObject", "UploadPart"]), '{"PutObject", "UploadPart"}')}
    thorough = not ctx.quick()
    # (the same TLC run prints the factors of the case space: ChunkedGen = Chunked + emission at start-up)
    r = ctx.mc("ChunkedGen", "Chunked.MC.cfg", workers=4, timeout=ctx.pick(300, 1500), coverage=thorough, subst=mc_subst,
               env={"VERIF_EMIT": "factors"})
    needed = ["CheckAuthentication", "ReadChunkHeader", "ValidateFinalChunk", "ReadTrailerSection", "ValidateTrailerChecksum",
              "DiscardFinalCRLF", "ReadData", "DiscardCRLF", "ValidateSignature", "ReturnData", "BodyConsumed", "CommitOrRollback"]
    if thorough:   # per-action counts (TLC -coverage is slow; quick relies on the trail coverage of step 5)
        cov = {a: r.coverage.get(a, (0, 0))[1] for a in needed}
        dead = [a for a in needed if cov[a] == 0]
        if dead:
            raise vlib.Infra("decoder actions never taken in MC: %s (coverage %s)" % (dead, cov))
        ctx.extra["mc_action_counts"] = cov

    # 2. GEN stage 1: the factors of the case space (printed by the run above); product + seeded sample here
    factors = [f for f in r.printed if isinstance(f, dict) and "muts" in f]
    if not factors:
        raise vlib.Infra("factor generation failed\n%s" % r.output[-2000:])
    space = expand(factors)
    n = ctx.pick(600, 30000)
    picked = stratified(space, n, rng) if n < len(space) else space
    for i, c in enumerate(picked):
        c["l"] = i + 1
    vlib.write_ndjson(ctx.path("cases.ndjson"), picked)
    ctx.log("case space %d, executing %d" % (len(space), len(picked)))

    # 3. GEN stage 2: TLC encodes every picked case into its wire (token sequence)
    wg = ctx.tlc("ChunkedGen", "Chunked.Wire.cfg", workers=1, timeout=1800, count_mc=False,
                 env={"VERIF_EMIT": "wires", "CASE_FILE": ctx.path("cases.ndjson")})
    wires = [x for x in wg.printed if isinstance(x, dict) and "wire" in x]
    if not wg.ok() or len(wires) != len(picked):
        raise vlib.Infra("wire generation failed: %s, %d of %d wires\n%s" %
                         (wg.outcome, len(wires), len(picked), wg.output[-2000:]))
    vlib.write_ndjson(ctx.path("wires.ndjson"), wires)

    # 4. execute on the real handler stack + sqlite storage
    drv = ctx.gobuild("chunked")
    env = {"VERIF_CHUNKED_FS": "1" if (ctx.seed % 2 == 0) else "0"}
    p = ctx.run([drv, ctx.path("cases.ndjson"), ctx.path("wires.ndjson"), ctx.path("trace.ndjson"), ctx.path("data")],
                timeout=ctx.pick(600, 3000), env=env)
    ctx.log(p.stdout.strip().splitlines()[-1])
    trace = vlib.read_ndjson(ctx.path("trace.ndjson"))
    if len(trace) != len(picked):
        raise vlib.Infra("driver executed %d of %d cases" % (len(trace), len(picked)))

    # 5. TV against the model of the code (open deviations enabled); the last 4 lines are the binding
    #    self-test: an accepted and a rejected observation, each followed by a corrupted copy
    good = [i for i, r in enumerate(trace) if r["ok"] and r["stored_kind"] == "units" and len(r["stored_units"]) > 0]
    bad = [i for i, r in enumerate(trace) if not r["ok"]]
    deferred = []          # infrastructure complaints that must not mask a violation
    selftest = []
    if good and bad:
        t1 = dict(trace[good[0]])
        t1["stored_units"] = t1["stored_units"][:-1]
        t2 = dict(trace[bad[0]])
        t2["ok"] = True
        selftest = [trace[good[0]], t1, trace[bad[0]], t2]
    else:
        deferred.append("self-test needs an accepted non-empty upload and a rejected one")
    vlib.write_ndjson(ctx.path("tv.ndjson"), trace + selftest)
    devs = ctx.deviations("D-C30")
    tsub = {"Deviations": devs, "Algos": algos_txt, "Scales": '{"unit", "block"}'}
    nlines, flagged = ctx.validate_cases("ChunkedTrace", "Chunked.Trace.cfg", ctx.path("tv.ndjson"),
                                         timeout=ctx.pick(600, 3000), subst=tsub)
    nlines -= len(selftest)
    ctx.traces -= len(selftest)
    ctx.events -= len(selftest)
    ctx.evaluations = nlines
    covrec = [f for f in flagged if "coverage" in f]
    flagged = [f for f in flagged if "coverage" not in f]
    sflag = [f for f in flagged if f["l"] > len(trace)]
    flagged = [f for f in flagged if f["l"] <= len(trace)]
    seen = set(covrec[0]["coverage"]) if covrec else set()
    want = {"Header", "ZeroChunk", "Trailer", "TrailerChecksum", "FinalCRLF", "Data", "CRLF", "ValidateChunk", "Return",
            "sig", "parse", "malformed", "baddigest", "unexpectedEOF"}
    if not want <= seen:
        deferred.append("decoder states / error kinds never exercised by the executed cases: %s" % sorted(want - seen))
    ctx.extra["decoder_trail_coverage"] = sorted(seen)
    ctx.extra["distinct_nontrivial"] = sum(1 for r in trace if nontrivial(r))
    ctx.extra["exhaustive"] = (len(picked) == len(space))
    ctx.extra["all_authenticated_cases_executed"] = (
        sum(1 for c in picked if c["auth"] == "enabled") == sum(1 for c in space if c["auth"] == "enabled"))
    per = {}
    for r in trace:
        per[r["mut"]] = per.get(r["mut"], 0) + 1
    ctx.extra["cases_per_mutation"] = per
    ctx.extra["accepted"] = sum(1 for r in trace if r["ok"])
    ctx.extra["rejected"] = sum(1 for r in trace if not r["ok"])
    ctx.extra["over_tcp"] = sum(1 for r in trace if r["tcp"])
    if ctx.extra["accepted"] == 0 or ctx.extra["rejected"] == 0:
        deferred.append("degenerate run: accepted=%d rejected=%d" % (ctx.extra["accepted"], ctx.extra["rejected"]))
    for r in trace[:3]:
        ctx.sample({k: r[k] for k in ("chunks", "mode", "algo", "mut", "at", "auth", "op", "prev", "ok", "status",
                                     "stored_kind", "stored_units")})
    for rec in flagged:
        line = trace[rec["l"] - 1]
        if rec["verdict"] == "finding":
            ctx.finding(rec["tag"], line)
        else:
            vlib.write_ndjson(ctx.path("replay.ndjson"), [line])
            ctx.violation(ctx.path("replay.ndjson"),
                          "case %s: code gave %s, model of the code says %s (%s)" %
                          (json.dumps({k: line[k] for k in ("chunks", "mode", "algo", "tstyle", "mut", "at", "auth", "op",
                                                           "prev", "scale")}),
                           json.dumps(rec.get("got")), json.dumps(rec.get("expected")), rec["verdict"]))

    # 6. binding self-test verdicts
    base = set(rec["l"] - 1 for rec in flagged)
    N = len(trace)
    if selftest:
        expect = {N + 2, N + 4} | ({N + 1} if good[0] in base else set()) | ({N + 3} if bad[0] in base else set())
        if set(rec["l"] for rec in sflag) != expect:
            deferred.append("binding self-test: corrupted observations not flagged as expected: %s" % sflag)
    if deferred and not ctx.violations:
        raise vlib.Infra("; ".join(deferred))

    ctx.assumptions += [
        "symbolic signatures and checksums are injective; the driver concretises them with real HMAC-SHA256 / CRC / SHA code",
        "framing mutations (size field, truncation, missing final chunk) are executed at unit scale only",
        "Content-Length of the HTTP request always equals the (possibly truncated) body actually sent and is not signed",
    ]
    return ("TLC emits the factors of the case space of Chunked.tla (%d cases: chunking x mode x trailer algorithm x trailer "
            "framing x mutation@position x auth x op x prev x scale); %s; TLC encodes each into its wire, the driver "
            "executes it on the real server; non-trivial = mutated, multi-chunk or not plainly authenticated") % (
        len(space), "all executed" if len(picked) == len(space) else
        "seeded stratified sample of %d covering every (mutation, mode, auth) stratum" % len(picked))
