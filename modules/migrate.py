"""C37 — Migrate.tla: storage migration copies every current object faithfully (MC + GEN + TV on real storages)."""
import json
import os

import vlib
import pithos

PROPS = ("C37",)
CHECKS = {
    "C37": {
        "text": "Migrate.tla models migrator.MigrateStorage (create missing buckets, per source bucket: refuse a non-empty "
                "destination bucket, else copy every current object with content, content type, system/user metadata incl. "
                "redirect, tags and storage class) as a refinement over the Pithos.tla reference model. TLC proves C37 for the "
                "intended design on every reachable source state of a reduced transition system x a family of destinations x "
                "every bucket order. TLC then generates source programs (all metadata/tag/class classes, appended and "
                "multipart objects, versioning with noncurrent versions and delete markers) and destination programs (empty, "
                "empty same-name bucket, non-empty same-name bucket, other buckets); the driver builds both on real storage "
                "stacks, runs the real MigrateStorage and TLC validates the views of BOTH storages against the model.",
        "note": "source and destination building is bound step by step to Pithos.tla; symbolic blobs/metadata/tags are "
                "concretised by harness/pdrv plus Expires spellings registered by harness/cmd/migrate; ETag, version ids and "
                "Last-Modified of the copies are not part of the property; the order of ListBuckets is left open; SQLite "
                "metadata; TLC, the Go toolchain and the AWS SDK uploader are trusted",
        "technique": "TLA+ refinement over the Pithos reference model, TLC exhaustive design check, TLC -simulate program "
                     "generation, replay on real storage stacks, TLC trace validation",
    },
}

OPS = ["CreateBucket", "PutVersioning", "PutObject", "DeleteObject", "CopyObject", "AppendObject", "CreateUpload", "UploadPart",
       "CompleteUpload", "PutTagging"]
BIG = 6291457          # > 5 MiB: the SDK uploader's multipart path (thorough)


def inherit(mycfg, basecfg, subst=None):
    """Constants the shared Pithos cfg `basecfg` assigns and `mycfg` does not: the shared specs (PithosMC /
    PithosGen / PithosTrace) grow new constants over time; their owner maintains the shared cfg, this keeps the
    module's own cfg in step.  Returned merged with `subst` (which wins)."""
    import re
    pat = re.compile(r"^\s*(?:CONSTANTS?\s+)?(\w+)\s*=\s*(.+?)\s*$")
    def consts(path):
        out = {}
        for line in open(path):
            m = pat.match(line)
            if m and m.group(1) not in ("SPECIFICATION", "INIT", "NEXT", "INVARIANT", "PROPERTY", "VIEW"):
                out[m.group(1)] = m.group(2)
        return out
    cfgdir = os.path.join(vlib.SPEC, "cfg")
    mine, base = consts(os.path.join(cfgdir, mycfg)), consts(os.path.join(cfgdir, basecfg))
    out = {k: v for k, v in base.items() if k not in mine}
    out.update(subst or {})
    return out


def generate(ctx, nprog, ndst, depth, seed, blobs):
    subst = {"Ops": pithos.tla_set(OPS), "GenDepth": str(depth), "NDst": str(ndst), "Blobs": pithos.tla_set(blobs),
             "Deviations": ctx.deviations(props=pithos.PROPS)}
    r = ctx.tlc("MigrateGen", "Migrate.Gen.cfg", workers=1, simulate="num=%d" % nprog, depth=depth + 1, seed=seed,
                timeout=900, count_mc=False, subst=inherit("Migrate.Gen.cfg", "Pithos.MCver.cfg", subst))
    progs = [p for p in r.printed if isinstance(p, dict) and "calls" in p]
    ctx.log("GEN: %d programs, %.1fs" % (len(progs), r.wall))
    if len(progs) < nprog:
        raise vlib.Infra("program generation produced %d of %d programs (%s)\n%s" % (len(progs), nprog, r.outcome, r.output[-2000:]))
    ctx.transitions += r.generated
    return progs[:nprog]


def generate_pairs(ctx, npairs, ndst, seed, blobs):
    """Directed PAIR programs (MigrateGen PairMode): neighbouring objects in migration order, every attribute set on
    one and default on the next - pattern A inside a bucket, pattern B across the bucket boundary; npairs of each."""
    subst = {"Ops": pithos.tla_set(OPS), "GenDepth": "6", "NDst": str(ndst), "Blobs": pithos.tla_set(blobs),
             "PairMode": "TRUE", "Deviations": ctx.deviations(props=pithos.PROPS)}
    r = ctx.tlc("MigrateGen", "Migrate.Gen.cfg", workers=1, simulate="num=%d" % (4 * npairs + 8), depth=7, seed=seed,
                timeout=900, count_mc=False, subst=inherit("Migrate.Gen.cfg", "Pithos.MCver.cfg", subst))
    progs = [p for p in r.printed if isinstance(p, dict) and "calls" in p]
    ctx.transitions += r.generated
    a = [p for p in progs if p["calls"][2]["meta"] != "none"][:npairs]
    b = [p for p in progs if p["calls"][2]["meta"] == "none"][:npairs]
    if len(a) < npairs or len(b) < npairs:
        raise vlib.Infra("pair program generation produced %d/%d programs of pattern A/B, %d each wanted (%s)" %
                         (len(a), len(b), npairs, r.outcome))
    return a + b


def split_programs(lines):
    out, cur = [], None
    for ln in lines:
        if ln["call"]["op"] == "Reset":
            cur = [ln]
            out.append(cur)
        else:
            cur.append(ln)
    return out


def copy_line(group):
    """Index of a Migrate line of the group that succeeded and copied at least one object (-1: none)."""
    for i, v in enumerate(group):
        if v["call"]["op"] == "Migrate" and v["err"] == "" and any(k["versions"] for b in v["views_dst"] for k in b["keys"]):
            return i
    return -1


def falsified(group, fid=999999):
    """Binding self-test input: copy of a program's trace in which one migrated object's tag set in the logged
    destination views of a successful Migrate line is altered.  Returns (trace, variant falsified)."""
    g = json.loads(json.dumps(group))
    for ln in g:
        ln["prog"] = fid
    v = g[copy_line(g)]
    for b in v["views_dst"]:
        for k in b["keys"]:
            for ver in k["versions"]:
                ver["tags"] = "g1" if ver["tags"] != "g1" else "g2"
                return g, v["variant"]
    return None, 0


def has_copy(group):
    return copy_line(group) >= 0


def validate(ctx, groups, cfg):
    mdev = ctx.deviations("D-C37")
    dev = ctx.deviations(props=pithos.PROPS)
    records, dropped, rounds = [], [], 0
    pending = groups
    while pending:
        rounds += 1
        if rounds > 6:
            raise vlib.Infra("too many programs whose state building is rejected by Pithos.tla")
        flat = [ln for g in pending for ln in g]
        f = ctx.path("tv-%s-%d.ndjson" % (cfg, rounds))
        vlib.write_ndjson(f, flat)
        r = ctx.tlc("MigrateTrace", cfg, workers=1, timeout=2400, env={"TRACE_FILE": f}, count_mc=False, xss="64m",
                    subst=inherit(cfg, "Pithos.Trace.cfg", {"Deviations": dev, "MDeviations": mdev}))
        if r.outcome != "ok":
            raise vlib.Infra("trace validation did not run to completion: %s\n%s" % (r.outcome, r.output[-4000:]))
        ctx.transitions += r.generated
        ctx.states += r.distinct
        consumed = max(r.depth - 1, 0)
        ctx.log("TV %s round %d: %d of %d lines consumed, %.1fs" % (cfg, rounds, consumed, len(flat), r.wall))
        recs = [d for d in r.printed if isinstance(d, dict) and d.get("what") == "migrate"]
        for d in recs:
            d["line"] = flat[d["l"] - 1]
        if consumed == len(flat):
            records += recs
            ctx.events += consumed
            break
        k = pithos._prog_index(pending, consumed + 1)
        bad = flat[consumed]
        why = [d for d in r.printed if isinstance(d, dict) and d.get("l") == consumed + 1 and d.get("what") not in ("migrate", "deviation")]
        ctx.log("program %s dropped: line %d (%s, target %s) not explained while building the state%s" % (
            pending[k][0].get("prog"), consumed + 1, json.dumps(bad["call"])[:200], bad.get("target"),
            (": mismatch in " + why[0]["what"]) if why else ""))
        dropped.append({"prog": pending[k][0].get("prog"), "call": bad["call"], "what": why[0]["what"] if why else "?"})
        first = sum(len(g) for g in pending[:k])
        records += [d for d in recs if d["l"] <= first]
        ctx.events += first
        pending = pending[k + 1:]
    return records, dropped


def drive(ctx, drv, label, progs, src, dst, big):
    pf, tf = ctx.path("programs-%s.ndjson" % label), ctx.path("trace-%s.ndjson" % label)
    vlib.write_ndjson(pf, progs)
    argv = [drv, "run", src, dst, ctx.path("work-" + label), pf, tf] + ([str(BIG)] if big else [])
    p = ctx.run(argv, timeout=3000)
    ctx.log(label, "%s -> %s:" % (src, dst), p.stdout.strip().splitlines()[-1])
    groups = split_programs(vlib.read_ndjson(tf))
    if len(groups) != len(progs):
        raise vlib.Infra("driver executed %d of %d programs" % (len(groups), len(progs)))
    return groups


def coverage(ctx, records, dropped):
    f = [r["facts"] for r in records]
    ok = [r for r in records if r["line"]["err"] == ""]
    cov = {
        "migrations": len(f),
        "migrations_with_objects": sum(1 for r in ok if r["facts"]["nobj"] > 0),
        "objects_compared": sum(r["facts"]["nobj"] for r in ok),
        "dst_kinds": {k: sum(1 for x in f if x["dstkind"] == k) for k in ("empty", "nonempty", "emptysame", "other")},
        "refused_nonempty": sum(1 for r in records if r["line"]["err"] == "DestinationNotEmpty"),
        "with_glacier": sum(1 for r in ok if r["facts"]["glacier"]),
        "with_multipart_source": sum(1 for r in ok if r["facts"]["multipart"]),
        "with_big_blob": sum(1 for r in ok if r["facts"]["big"]),
        "with_6MiB_blob_uploader_multipart_path": sum(1 for r in ok if r["facts"]["big"] and r.get("bigrun")),
        "with_empty_object": sum(1 for r in ok if r["facts"]["empty"]),
        "with_noncurrent_versions": sum(1 for r in ok if r["facts"]["noncurrent"]),
        "with_delete_marker": sum(1 for r in ok if r["facts"]["marker"]),
        "with_redirect": sum(1 for r in ok if r["facts"]["redir"]),
        "two_source_buckets": sum(1 for r in records if r["facts"]["twoorders"]),
        "neighbour_pairs_in_bucket": sorted(set(a for r in ok for a in r["facts"]["pairs_in"])),
        "neighbour_pairs_across_buckets": sorted(set(a for r in ok for a in r["facts"]["pairs_cross"])),
        "sys_classes": sorted(set(s for r in ok for s in r["facts"]["sys"])),
        "tag_classes": sorted(set(s for r in ok for s in r["facts"]["tags"])),
        "ctype_classes": sorted(set(s for r in ok for s in r["facts"]["ctypes"])),
        "explained_by": {},
        "dropped_state_building": dropped[:5],
    }
    for r in records:
        key = ",".join(sorted(r["dev"])) or "intended"
        cov["explained_by"][key] = cov["explained_by"].get(key, 0) + 1
    need = ["migrations_with_objects", "refused_nonempty", "with_glacier", "with_multipart_source", "with_big_blob",
            "with_redirect", "two_source_buckets", "with_noncurrent_versions", "with_delete_marker", "with_empty_object"]
    if not ctx.quick():
        need.append("with_6MiB_blob_uploader_multipart_path")
    missing = [k for k in need if cov[k] == 0]
    missing += [k for k, v in cov["dst_kinds"].items() if v == 0]
    # order-dependent leaks: every attribute set on an object and default on the one migrated right after it
    for what in ("neighbour_pairs_in_bucket", "neighbour_pairs_across_buckets"):
        lack = {"class", "ctype", "sys", "user", "redir", "tags"} - set(cov[what])
        if lack:
            missing.append("%s lacks %s" % (what, sorted(lack)))
    # every metadata / tag / content-type class must have been migrated at least once
    for cls, want in (("sys_classes", {"none", "s1", "s2", "s3", "s4", "s5"}), ("tag_classes", {"none", "g1", "g2"}),
                      ("ctype_classes", {"none", "t1", "t2"})):
        lack = want - set(cov[cls])
        if len(lack) > (1 if ctx.quick() and cls != "tag_classes" else 0):     # quick: one class may be absent
            missing.append("%s lacks %s" % (cls, sorted(lack)))
    return cov, missing


def run(ctx):
    # 1. design level
    if not os.environ.get("VERIF_SKIP_MC"):      # debugging aid only (mutation runs)
        ctx.mc("Migrate", "Migrate.MC.cfg", workers=ctx.pick(8, 12), timeout=2400,
               subst=inherit("Migrate.MC.cfg", "Pithos.MCver.cfg", {"MaxClock": ctx.pick("3", "4")}))
    d = ctx.tlc("Migrate", "Migrate.Dev.cfg", workers=2, timeout=600, count_mc=False,
                subst=inherit("Migrate.Dev.cfg", "Pithos.MCver.cfg", {"MaxClock": "3"}))
    if d.outcome != "invariant":
        raise vlib.Infra("the model with the deviations enabled does not violate C37 within the bounds (%s)" % d.outcome)

    # 2. GEN -> real code -> TV
    drv = ctx.gobuild("migrate")
    depth = ctx.pick(12, 16)
    ndst = ctx.pick(4, 5)
    # (label, source stack, destination stack, number of programs, blob alphabet, c5 = 6 MiB)
    plan = ctx.pick([("a", "sql", "fs", 12, ["c0", "c1", "c3", "c5"], False)],
                    [("a", "sql", "fs", 90, ["c0", "c1", "c2", "c3", "c4", "c5"], False),
                     ("b", "classes", "sql", 60, ["c0", "c1", "c3", "c4", "c5"], False),
                     ("c", "fs", "classes", 40, ["c0", "c1", "c3", "c5"], False),
                     ("big", "fs", "sql", 14, ["c1", "c3", "c5"], True)])
    records, dropped, ngroups, pid = [], [], 0, 0
    todo = [(i, e, ctx.seed * 10 + i) for i, e in enumerate(plan)]
    extra_batches = 0
    while todo:
        i, (label, src, dst, nprog, blobs, big), seed = todo.pop(0)
        gp = generate(ctx, nprog, ndst, depth if not big else 10, seed, blobs)
        gp += generate_pairs(ctx, ctx.pick(2, 4), ndst, seed, blobs)
        progs = []
        for p in gp:
            pid += 1
            progs.append({"id": pid, "calls": p["calls"], "dsts": p["dsts"]})
        first = ngroups == 0
        if first:
            ctx.sample({"source_program": progs[0]["calls"][:6], "destination_programs": progs[0]["dsts"]})
        groups = drive(ctx, drv, "%s%d" % (label, pid), progs, src, dst, big)
        ngroups += len(groups)
        extra = []
        if first:
            st = [g for g in groups if has_copy(g)][:3]
            fgs = [falsified(g, 999999 - j) for j, g in enumerate(st)]
            extra = [fg for fg, _ in fgs if fg]   # none: judged after the verdicts (broken code is a verdict, not infra)
        recs, drp = validate(ctx, groups + extra, "Migrate.TraceBig.cfg" if big else "Migrate.Trace.cfg")
        if first and extra:
            # a falsified copy is conclusive if the original line was explained (not itself a mismatch)
            fakes = {(r["prog"], r["variant"]): r["verdict"] for r in recs if r["prog"] >= 999990}
            recs = [r for r in recs if r["prog"] < 999990]
            concl = []
            for j, g in enumerate(st):
                fvar = fgs[j][1]
                orig = [r["verdict"] for r in recs if r["prog"] == g[0]["prog"] and r["variant"] == fvar]
                if fgs[j][0] and orig and orig[0] != "mismatch":
                    concl.append(fakes.get((999999 - j, fvar)))
            if concl and all(v == "mismatch" for v in concl):
                ctx.extra["binding_selftest"] = "altered tag set in the logged destination of %d program(s) %s rejected" % (
                    len(concl), [g[0]["prog"] for g in st])
            elif concl:
                raise vlib.Infra("binding self-test failed: a falsified destination view was accepted: %s" % concl)
        for r in recs:
            r["bigrun"] = big
            r["stacks"] = "%s->%s" % (src, dst)
            r["group"] = next(g for g in groups if g[0]["prog"] == r["prog"])
        records += recs
        dropped += drp
        if not todo:
            cov, missing = coverage(ctx, records, dropped)
            if missing and extra_batches < 2:
                # the random programs left a coverage gap: one more batch of the first plan entry, other seed
                extra_batches += 1
                ctx.log("coverage gap: %s - running an extra batch" % missing)
                todo.append((0, plan[0], ctx.seed * 10 + 7919 * extra_batches))
    ctx.traces = len(records)
    ctx.evaluations = len(records)
    if len(dropped) * 5 > ngroups:
        raise vlib.Infra("%d of %d programs dropped while building the states: %s" % (len(dropped), ngroups, dropped[:3]))

    # 3. verdicts
    for r in records:
        line = r["line"]
        wit = {"prog": r["prog"], "variant": r["variant"], "stacks": r["stacks"], "err": line["err"], "facts": r["facts"]}
        if r["verdict"] == "finding":
            for t in r["tags"]:
                ctx.finding(t, wit)
        elif r["verdict"] == "mismatch":
            rp = ctx.path("replay-%d-%d.ndjson" % (r["prog"], r["variant"]))
            vlib.write_ndjson(rp, r["group"])
            ctx.violation(rp, "program %s destination %s (%s): migration result (err=%r %s) is not the model's (err=%r); source %s; %s" % (
                r["prog"], r["variant"], r["stacks"], line["err"], line.get("errmsg", "")[:200], r["model_err"],
                "unchanged" if r["src_ok"] else "CHANGED", pithos._view_diff(r["model_dst"], line["views_dst"])))

    if "binding_selftest" not in ctx.extra and ctx.violations == 0:
        raise vlib.Infra("no successful migration with at least one object in the first batch: binding self-test impossible")

    # 4. coverage
    ctx.extra.update(cov)
    ctx.extra["distinct_nontrivial"] = cov["migrations_with_objects"] + cov["refused_nonempty"]
    if missing and ctx.violations == 0:
        raise vlib.Infra("coverage too thin: %s (%s)" % (missing, json.dumps({k: v for k, v in cov.items() if k != "dropped_state_building"})))
    ctx.log("coverage", json.dumps({k: v for k, v in cov.items() if k != "dropped_state_building"}))
    ctx.assumptions += [
        "source/destination programs are random walks of the model (TLC -simulate), not exhaustive; the design check is exhaustive within its bounds",
        "destination programs use CreateBucket/PutObject only (unversioned destination buckets)",
        "a program whose state building Pithos.tla does not explain is dropped (reported in evidence), not judged",
    ]
    return ("TLC -simulate source programs of %d calls over PithosMC (metadata x tags x class x content type classes, append, "
            "multipart, copy, versioning) x %d destination programs each (empty / non-empty same bucket / empty same bucket / "
            "other bucket%s), plus directed PAIR programs (every attribute set on one object and default on the object migrated "
            "right after it, inside a bucket and across the bucket boundary), executed on real stack pairs %s; non-trivial = at least one object migrated and compared, or a "
            "non-empty destination refused" % (depth, ndst, " / mixed" if ndst > 4 else "",
                                              ", ".join("%s->%s" % (s, d) for _, s, d, _, _, _ in plan)))
