"""C32 — Proxy.tla: client IP / scheme only from trusted proxies."""
import json
import vlib

PROPS = ("C32",)
TAG = "D-C32-all-invalid-cidrs"
CHECKS = {
    "C32": {
        "text": "Proxy.tla models resolveClientIPAndScheme as a result operator over symbolic classes of (trust flag, CIDR "
                "configuration, peer, CF-Connecting-IP, X-Forwarded-For, X-Forwarded-Proto, base scheme). TLC proves the "
                "property on the intended design for all 23 040 cases (every header combination x four list configurations, every one of the 64 entry-class lists x a reduced header set), emits every case, the harness executes each on the "
                "real LuaAuthorizer (observed from inside the Lua script) and TLC validates every observed result against "
                "the spec. Exhaustive over the symbolic input space, so the level is model checking + conformance.",
        "note": "one concrete representative per symbolic class (harness/cmd/proxy); getRemoteIP parsing of RemoteAddr is "
                "outside this check; TLC, the Go toolchain and the Lua interpreter are trusted",
        "technique": "TLA+ result operator, TLC exhaustive case enumeration, replay on real code, TLC trace validation",
    },
}


def run(ctx):
    # 1. design-level MC: the intended resolution satisfies C32 on every case
    ctx.mc("Proxy", "Proxy.MC.cfg", timeout=300)
    # 2. GEN: TLC enumerates every case; 3. execute on the real LuaAuthorizer
    g = ctx.tlc("ProxyGen", "Proxy.Gen.cfg", workers=1, timeout=300, count_mc=False)
    if not g.ok() or not g.printed:
        raise vlib.Infra("case generation failed: %s\n%s" % (g.outcome, g.output[-2000:]))
    cases = g.printed
    vlib.write_ndjson(ctx.path("cases.ndjson"), cases)
    drv = ctx.gobuild("proxy")
    p = ctx.run([drv, ctx.path("cases.ndjson"), ctx.path("trace.ndjson")], timeout=900)
    ctx.log(p.stdout.strip().splitlines()[-1])
    trace = vlib.read_ndjson(ctx.path("trace.ndjson"))
    if len(trace) != len(cases):
        raise vlib.Infra("driver executed %d of %d cases" % (len(trace), len(cases)))
    # 4. TV against the model of the code (deviations enabled = open known findings)
    n, flagged = ctx.validate_cases("ProxyTrace", "Proxy.Trace.cfg", ctx.path("trace.ndjson"),
                                    subst={"Deviations": ctx.deviations("D-C32")})
    ctx.evaluations = n
    nontrivial = sum(1 for r in trace if r["out_ip"] != "peer" or r["out_scheme"] not in ("http",))
    ctx.extra["distinct_nontrivial"] = nontrivial
    ctx.extra["exhaustive"] = True
    ctx.sample(trace[0])
    ctx.sample(trace[len(trace) // 2])
    for r in flagged:
        line = trace[r["l"] - 1]
        if r["verdict"] == "finding":
            ctx.finding(r["tag"], line)
        else:
            vlib.write_ndjson(ctx.path("replay.ndjson"), [line])
            ctx.violation(ctx.path("replay.ndjson"),
                          "case %s: code resolved %s, model of the code says %s" %
                          (json.dumps(r["case"]), json.dumps(r["got"]), json.dumps(r["expected"])))
    ctx.assumptions += [
        "header/peer/CIDR classes are concretised by harness/cmd/proxy with one representative each",
        "observation is what the Lua script sees in request.httpRequest.clientIP/scheme",
    ]
    return ("all %d symbolic cases of Proxy.tla (trust x cidr-config x peer x CF x XFF x proto x base scheme) enumerated by "
            "TLC, each executed on the real LuaAuthorizer; non-trivial = reported ip/scheme differs from peer/http") % n
