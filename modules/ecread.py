"""C17 — ECRead.tla: the erasure-coding reader over symbolic shard files (faults, healing, never-lies)."""
import json
import random
import vlib

PROPS = ("C17",)
CHECKS = {
    "C17": {
        "text": "ECRead.tla models the reader of the erasure-coding part store (openPartReaders, the stripe loop of "
                "newPartReader with frame verification, end-of-data decision, ReconstructData, healing writers, heal scan) "
                "as a result operator Read(shard files) -> (result, shard files afterwards) over symbolic shard files and 16 "
                "fault kinds (missing, bad/short header, truncation at a frame boundary / inside a frame header / inside a "
                "payload, payload / hash / stripe-index / payload-length / dataBytes flips, trailing bytes, stale shard of a "
                "previous write, foreign shard of another part). TLC proves on the intended reader, for D+P in {2+1,2+2,3+2}, "
                "0-3 stripes incl. 0-byte parts and short last stripes, all fault combinations up to the bound: <=P faulty "
                "shards => every read returns the original bytes and missing shards are restored byte-exactly; a successful "
                "read always returns the original bytes. Cases composed from the spec's dimension sets are executed on the real "
                "store over filesystem shard stores (shard files rewritten on disk), and TLC validates result, error class, "
                "delivered length, every rewritten shard file and a second read against the model of the code; property "
                "violations are attributed to the named deviations whose branch was taken.",
        "note": "stripe block size 1024 only; faults are injected between operations (no concurrent corruption); one "
                "concretisation per symbolic fault chosen by seed from a table (harness/cmd/ecread); reconstruction from "
                "shards of different writes is assumed to differ from every written content; reedsolomon itself, TLC, Go "
                "toolchain trusted",
        "technique": "TLA+ result operator over symbolic shard files, TLC exhaustive case tree on the design, seeded/"
                     "exhaustive replay on real code, TLC trace validation",
    },
}

ALLTAGS = ["D-C17-databytes-unauthenticated", "D-C17-stale-mix", "D-C17-foreign-shard",
           "D-C17-uniform-truncation", "D-C17-trailing-data", "D-C17-heal-parity-empty"]
NONE = {"kind": "none", "f": 0, "var": ""}


def _dims(ctx):
    g = ctx.tlc("ECReadGen", "ECRead.Gen.cfg", workers=1, timeout=300, count_mc=False)
    dims = [p for p in g.printed if isinstance(p, dict) and "configs" in p]
    if not g.ok() or len(dims) != 1:
        raise vlib.Infra("dimension generation failed: %s\n%s" % (g.outcome, g.output[-2000:]))
    return dims[0]


def _compose(ctx, dims):
    """Cases from the dimension sets the spec printed. Sampling policy only (which combinations to run)."""
    rnd = random.Random(1000 + ctx.seed)
    cases = []
    seen = set()

    def add(cf, ln, faults, mode=None, lo=None, lf=None):
        alt = sorted(ln["alt"])
        c = {"D": cf["D"], "P": cf["P"], "L": ln["L"],
             "LO": rnd.choice(alt) if lo is None else lo, "LF": rnd.choice(alt) if lf is None else lf,
             "mode": mode or ("scan" if rnd.random() < scanfrac else "read"), "faults": faults}
        key = json.dumps(c, sort_keys=True)
        if key in seen:
            return
        seen.add(key)
        c["id"] = len(cases) + 1
        cases.append(c)

    def bykind(ln):
        d = {}
        for o in sorted(ln["opts"], key=lambda o: (o["kind"], o["f"], o["var"])):
            if o["kind"] != "none":
                d.setdefault(o["kind"], []).append(o)
        return d

    def pick(bk, kinds=None):
        ks = sorted(k for k in bk if kinds is None or k in kinds)
        return rnd.choice(bk[rnd.choice(ks)])

    scanfrac = ctx.pick(0.05, 0.05)
    configs = sorted(dims["configs"], key=lambda c: (c["D"], c["P"]))
    trunc = set(dims["trunckinds"]) - {"none"}
    for cf in configs:
        n = cf["D"] + cf["P"]
        lens = sorted(cf["lens"], key=lambda x: x["L"])
        for ln in lens:
            bk = bykind(ln)
            opts = [o for k in sorted(bk) for o in bk[k]]
            add(cf, ln, [NONE] * n, mode="read")
            add(cf, ln, [NONE] * n, mode="scan")
            # every single fault on every shard (quick: only 2+1 and the first/last shard elsewhere)
            for i in range(n):
                if ctx.quick() and n > 3 and i not in (0, n - 1):
                    continue
                for o in opts:
                    for lo in (sorted(ln["alt"]) if o["kind"] in ("stale", "foreign") and (not ctx.quick() or n == 3) else [None]):
                        add(cf, ln, [o if j == i else NONE for j in range(n)], lo=lo, lf=lo)
            # the same early end on every shard, all shards missing / unreadable
            for mode in ("read", "scan"):
                add(cf, ln, [bk["missing"][0]] * n, mode=mode)
            add(cf, ln, [bk["hdrbad"][0]] * n)
            for f in range(ln["K"]):
                add(cf, ln, [[o for o in bk["truncb"] if o["f"] == f][0]] * n)
                add(cf, ln, [[o for o in bk[rnd.choice(["truncb", "trunch"])] if o["f"] == f][0] for _ in range(n)])
            # thorough: every pair of faults on 2+1
            if not ctx.quick() and n == 3:
                for i in range(n):
                    for j in range(i + 1, n):
                        for a in opts:
                            for b in opts:
                                add(cf, ln, [a if s == i else b if s == j else NONE for s in range(n)])
        # seeded samples: up to P faults, P+1 faults, more, early-end faults on all shards
        per = ctx.pick(130, 2500)
        for _ in range(per):
            ln = rnd.choice(lens)
            bk = bykind(ln)
            r = rnd.random()
            if r < 0.45:
                nf = rnd.randint(1, cf["P"])
            elif r < 0.75:
                nf = cf["P"] + 1
            elif r < 0.85:
                nf = rnd.randint(cf["P"] + 1, n)
            else:
                nf = -1
            if nf < 0:
                faults = [pick(bk, trunc) if rnd.random() < 0.9 else NONE for _ in range(n)]
            else:
                who = set(rnd.sample(range(n), nf))
                # stale/foreign shards are more interesting in groups
                grp = rnd.choice(["stale", "foreign", None, None, None])
                faults = [(bk[grp][0] if grp and rnd.random() < 0.5 else pick(bk)) if s in who else NONE for s in range(n)]
            add(cf, ln, faults)
    return cases


def run(ctx):
    # 1. design level: the intended reader satisfies the property on the whole case tree
    w = ctx.pick(4, None)
    ctx.mc("ECRead", ctx.pick("ECRead.MC.cfg", "ECRead.MCThorough.cfg"), workers=w, timeout=ctx.pick(600, 3000))
    # the model of the code (open deviations): reads are idempotent (needed by the heal-scan binding)
    devs = ctx.deviations("D-C17")
    ctx.mc("ECRead", ctx.pick("ECRead.MCCode.cfg", "ECRead.MCCodeThorough.cfg"), workers=w, timeout=ctx.pick(600, 3000),
           subst={"Deviations": devs})
    # 2. cases from the spec's dimension sets; 3. execute on the real erasure-coding store
    dims = _dims(ctx)
    cases = _compose(ctx, dims)
    vlib.write_ndjson(ctx.path("cases.ndjson"), cases)
    drv = ctx.gobuild("ecread")
    import os
    os.makedirs(ctx.path("shards"), exist_ok=True)
    p = ctx.run([drv, ctx.path("cases.ndjson"), ctx.path("trace.ndjson"), ctx.path("shards")], timeout=3000)
    ctx.log(p.stdout.strip().splitlines()[-1])
    trace = vlib.read_ndjson(ctx.path("trace.ndjson"))
    if len(trace) != len(cases):
        raise vlib.Infra("driver executed %d of %d cases" % (len(trace), len(cases)))
    # 4. TV against the model of the code (deviations = open known findings)
    n, flagged = ctx.validate_cases("ECReadTrace", "ECRead.Trace.cfg", ctx.path("trace.ndjson"),
                                    subst={"Deviations": devs}, timeout=3000)
    ctx.evaluations = n
    nfind = 0
    for r in flagged:
        line = trace[r["l"] - 1]
        wit = {k: line[k] for k in ("D", "P", "L", "LO", "LF", "mode", "faults", "conc", "r1", "r2", "fresh1")}
        if r["verdict"] == "finding" and r["tags"]:
            nfind += 1
            for t in sorted(r["tags"]):
                ctx.finding(t, wit)
        elif ctx.violations >= 5:
            ctx.violations += 1          # counted; only the first five are written out as replays
        else:
            vlib.write_ndjson(ctx.path("replay.ndjson"), [line])
            if r["verdict"] == "finding":
                msg = "property violated on a path without any known deviation: %s" % json.dumps(wit)
            elif r["verdict"] == "malformed":
                msg = "case outside the spec's case space: %s" % json.dumps(line)[:600]
            else:
                msg = "case %s: real code observed %s, model of the code says %s" % (
                    json.dumps({k: line[k] for k in ("D", "P", "L", "LO", "LF", "mode", "faults", "conc")}),
                    json.dumps(r["got"]), json.dumps(r["expected"]))
            ctx.violation(ctx.path("replay.ndjson"), msg)
    ctx.extra["cases_violating_property_via_known_deviation"] = nfind
    # binding self-test: corrupt one logged field of a recorded line; validation must flag it
    probe = [json.loads(json.dumps(r)) for r in trace[:6]]
    probe[0]["r2"]["len"] += 1
    probe[1]["fresh1"][0] = not probe[1]["fresh1"][0]
    heal = next((r for r in trace if any(v["changed"] and v["frames"] for v in r["post1"])), None)
    if heal is None:
        raise vlib.Infra("no case with a healed shard was executed")
    witness_heal = heal
    heal = json.loads(json.dumps(heal))
    v = next(v for v in heal["post1"] if v["changed"] and v["frames"])
    v["frames"][-1]["db"] += 1
    probe.append(heal)
    vlib.write_ndjson(ctx.path("probe.ndjson"), probe)
    tr, ev = ctx.traces, ctx.events
    _, pf = ctx.validate_cases("ECReadTrace", "ECRead.Trace.cfg", ctx.path("probe.ndjson"), subst={"Deviations": devs})
    ctx.traces, ctx.events = tr, ev
    bad = {r["l"] for r in pf if r["verdict"] == "mismatch"}
    if not {1, 2, len(probe)} <= bad:
        raise vlib.Infra("binding self-test failed: corrupted lines 1,2,%d not all flagged (%s)" % (len(probe), sorted(bad)))
    # coverage
    kinds, outcomes, healed, nontrivial = {}, {}, 0, set()
    for r in trace:
        nf = 0
        for f in r["faults"]:
            kinds[f["kind"]] = kinds.get(f["kind"], 0) + 1
            nf += f["kind"] != "none"
        for x in (r["r1"], r["r2"]):
            k = ("ok-" + x["cls"]) if x["ok"] else ("err-" + x["err"])
            outcomes[k] = outcomes.get(k, 0) + 1
        healed += sum(1 for v in r["post1"] if v["changed"])
        if nf:
            nontrivial.add(json.dumps([r["D"], r["P"], r["L"], r["faults"]], sort_keys=True))
    allkinds = {o["kind"] for cf in dims["configs"] for ln in cf["lens"] for o in ln["opts"]}
    if set(kinds) != allkinds:
        raise vlib.Infra("fault kinds never executed: %s" % sorted(allkinds - set(kinds)))
    for need in ("ok-cur", "err-insufficient"):
        if not outcomes.get(need):
            raise vlib.Infra("outcome %s never observed" % need)
    if healed == 0 or sum(1 for r in trace if r["mode"] == "scan") == 0:
        raise vlib.Infra("healing / heal scan never exercised")
    ctx.extra["distinct_nontrivial"] = len(nontrivial)
    ctx.extra["fault_kind_counts"] = kinds
    ctx.extra["read_outcomes"] = outcomes
    ctx.extra["shard_files_rewritten_by_healing"] = healed
    ctx.extra["heal_scan_cases"] = sum(1 for r in trace if r["mode"] == "scan")
    ctx.sample({k: trace[0][k] for k in ("D", "P", "L", "faults", "r1", "r2")})
    ctx.sample({k: witness_heal[k] for k in ("D", "P", "L", "faults", "conc", "r1", "post1")})
    # every deviation the model of the code enables must have been exercised
    if not ctx.violations:
        missing = [t for t in ctx.open_tags("C17") if t not in ctx.findings_seen]
        if missing:
            raise vlib.Infra("open deviations never exercised by the executed cases: %s" % missing)
    ctx.assumptions += [
        "stripe block size 1024; contents are seeded random non-zero bytes, the three contents differ at every position",
        "one concretisation of each symbolic fault per case, chosen by seed from the driver's table (logged as conc)",
        "the heal scan is bound through the idempotence lemma (ECRead.MCCode): the scan may read the part more than once",
    ]
    return ("cases composed from the dimension sets printed by ECReadGen: all single faults, all-shard early ends, "
            "seeded samples with <=P, P+1 and more faulty shards (thorough: also all fault pairs on 2+1), each executed on "
            "the real erasure-coding store; non-trivial = distinct (D,P,L,faults) with at least one faulty shard")
