"""C36 — TxReaders.tla: a streaming / multi-range read holds its transaction until the last reader is closed."""
import json
import random
import vlib

PROPS = ("C36",)
CHECKS = {
    "C36": {
        "text": "TxReaders.tla models database.WithTxReadClosers (one read transaction, k readers, the close-hook counter) and the "
                "readers GetObject returns on a DB-backed part store (a reader touches the transaction when it opens the next part). "
                "TLC proves on the intended design, for k=0..4 readers and every order of Read/ReadToEnd/Close (repeated up to 3x)/"
                "ReadAfterClose/ConcClose (two goroutines inside Close of the same reader), that the transaction is rolled back exactly once, never before all distinct readers are closed, as "
                "soon as the last one is, and that no read of an open reader fails. TLC then emits every action sequence to depth 2k+3 "
                "for k<=2 and seeded random walks for k=3,4 as programs; the Go driver executes each on a real MetadataPartStorage over "
                "the SQL part store (multi-range GetObject on a 3-part object) and on WithTxReadClosers directly (fake readers, "
                "one-connection pool), logging per call bytes/error, finalizing rollbacks (verifhook tx.rolledback) and pool "
                "connections in use; TLC validates every log line against the spec and evaluates the property on every state. "
                "Model checking + conformance, exhaustive within the stated bounds.",
        "note": "SQLite only; rollback observed through the verifhook point tx.rolledback and sql.DB.Stats().InUse of the read pool "
                "(reached by reflection on sqliteDatabase.readOnlyDb); concurrency is covered by the atomicity of the counter in the "
                "model plus a barrier-released concurrent close round (race detector in the thorough tier), not by forced schedules; "
                "TLC, Go toolchain, database/sql and go-sqlite3 are trusted",
        "technique": "TLA+ state machine, TLC exhaustive model check, TLC-generated programs (BFS + seeded simulation) replayed on real "
                     "code, TLC trace validation with named deviation",
    },
}


def _interesting(p):
    """a reader is read after a different reader was closed"""
    closed = set()
    for s in p["steps"]:
        if s["act"] in ("Close", "ConcClose"):
            closed.add(s["i"])
        elif s["act"] in ("Read", "ReadToEnd") and any(c != s["i"] for c in closed):
            return True
    return False


def run(ctx):
    rnd = random.Random(ctx.seed)
    # 1. design-level MC (Deviations = {}): all call orders, k = 0..3 (quick) / 0..4 (thorough)
    ctx.mc("TxReaders", "TxReaders.MC.cfg", workers=ctx.pick(4, 8), timeout=1500,
           subst={"KS": ctx.pick("{0, 1, 2, 3}", "{0, 1, 2, 3, 4}")})
    # the deviation branch is alive and really breaks the property in the model
    d = ctx.tlc("TxReaders", "TxReaders.Dev.cfg", workers=1, timeout=300, count_mc=False)
    if d.outcome != "invariant" or d.violated != "ReadsOK":
        raise vlib.Infra("deviation branch of TxReaders.tla is dead: %s %s" % (d.outcome, d.violated))

    # 2. GEN: every call sequence to depth 2k+3 for k <= 2, seeded random walks for k = 3, 4
    g = ctx.tlc("TxReadersGen", "TxReaders.Gen.cfg", workers=1, timeout=900, count_mc=False,
                subst={"MaxCloses": ctx.pick("2", "3")})
    if not g.ok() or not g.printed:
        raise vlib.Infra("program generation failed: %s\n%s" % (g.outcome, g.output[-2000:]))
    exhaustive = g.printed
    s = ctx.tlc("TxReadersGen", "TxReaders.Gen.cfg", workers=1, timeout=900, count_mc=False,
                simulate="num=%d" % ctx.pick(800, 12000), depth=14, seed=ctx.seed,
                subst={"KS": "{3, 4}", "MaxCloses": "3"})
    if s.outcome not in ("ok",) or not s.printed:
        raise vlib.Infra("program simulation failed: %s\n%s" % (s.outcome, s.output[-2000:]))
    seen, sampled = set(), []
    for p in s.printed:
        key = json.dumps(p, sort_keys=True)
        if key not in seen:
            seen.add(key)
            sampled.append(p)
    ctx.log("GEN: %d exhaustive programs (k<=2), %d distinct random walks (k=3,4)" % (len(exhaustive), len(sampled)))

    progs = []
    for p in exhaustive + sampled:
        for mode in ("storage", "direct"):
            if mode == "storage" and p["k"] == 0 and not p["fnerr"]:
                continue  # GetObject without ranges returns one full-object reader: that is k = 1
            conc = any(s_["act"] == "ConcClose" for s_ in p["steps"])
            if conc and mode == "storage":
                continue  # two goroutines inside Close of one reader need the gated fake inner reader of direct mode
            if ctx.quick() and mode == "direct" and p["k"] == 2 and rnd.random() < (0.5 if conc else 0.6):
                continue  # quick: direct mode runs a seeded 40 % of the k = 2 programs (storage mode runs all)
            q = dict(p)
            q["mode"] = mode
            q["prog"] = len(progs) + 1
            progs.append(q)
    conc_iters = ctx.pick(40, 400)
    for k in (1, 2, 3, 4):
        base = next(p for p in exhaustive + sampled if p["k"] == k and not p["fnerr"])
        q = dict(base)
        q.update(mode="conc", prog=len(progs) + 1, steps=[])
        progs.append(q)
    vlib.write_ndjson(ctx.path("programs.ndjson"), progs)
    by_id = {p["prog"]: p for p in progs}

    race_failure = None
    # 3. execute on the real code (thorough: additionally a seeded sample and the concurrent rounds under the race detector)
    drv = ctx.gobuild("txreaders")
    p = ctx.run([drv, ctx.path("programs.ndjson"), ctx.path("trace.ndjson"), ctx.path("scratch"), str(conc_iters)],
                timeout=2400)
    ctx.log(p.stdout.strip().splitlines()[-1])
    if "read pool observable=true" not in p.stdout:
        raise vlib.Infra("the read pool of the sqlite database could not be observed (sqliteDatabase.readOnlyDb moved?)")
    if not ctx.quick():
        sub = [dict(q) for q in rnd.sample(progs[:-4], 6000)] + [dict(q) for q in progs[-4:]]
        for i, q in enumerate(sub):
            q["prog"] = len(progs) + i + 1
        vlib.write_ndjson(ctx.path("programs-race.ndjson"), sub)
        pr = ctx.run([ctx.gobuild("txreaders", race=True), ctx.path("programs-race.ndjson"), ctx.path("trace-race.ndjson"),
                      ctx.path("scratch-race"), "100"], timeout=2400, check=False)
        if pr.returncode != 0:
            # a data race report (or a crash) of the race build is not a verdict by itself; it ends the run as an
            # infrastructure failure unless the validated logs show a violation
            race_failure = "race build failed (exit %d): %s" % (pr.returncode, pr.stdout[-1500:])
            ctx.log(race_failure[:300])
            open(ctx.path("trace-race.ndjson"), "w").close()
            sub = []
        else:
            ctx.log("race:", pr.stdout.strip().splitlines()[-1])
        with open(ctx.path("trace.ndjson"), "a") as f:
            f.write(open(ctx.path("trace-race.ndjson")).read())
        progs += sub
        by_id = {q["prog"]: q for q in progs}
    nconc_progs = sum(1 for q in progs if q["mode"] == "conc")
    trace = vlib.read_ndjson(ctx.path("trace.ndjson"))
    resets = [r for r in trace if r["t"] == "reset"]
    aborted = "aborted after" in p.stdout   # the driver stops early when programs keep leaking their transaction
    if len(resets) != len(progs) - nconc_progs and not aborted:
        raise vlib.Infra("driver executed %d of %d programs" % (len(resets), len(progs) - nconc_progs))

    # coverage of the actions the property depends on, measured on the log
    cov = {}
    for r in trace:
        if r["t"] == "step":
            cov[r["act"]] = cov.get(r["act"], 0) + 1
        cov["t:" + r["t"]] = cov.get("t:" + r["t"], 0) + 1
        if r["t"] == "reset":
            cov["mode:" + r["mode"]] = cov.get("mode:" + r["mode"], 0) + 1
            cov["k%d" % r["k"]] = cov.get("k%d" % r["k"], 0) + 1
            if r["fnerr"]:
                cov["fnerr"] = cov.get("fnerr", 0) + 1
    repeated = sum(1 for q in progs for i in range(1, 5) if sum(1 for s_ in q["steps"] if s_ == {"act": "Close", "i": i}) > 1)
    cov["programs_with_repeated_close"] = repeated
    cov["ConcClose_forced"] = sum(1 for r in trace if r["t"] == "step" and r["act"] == "ConcClose" and r.get("forced"))
    need = ["Read", "ReadToEnd", "ReadAfterClose", "Close", "ConcClose", "ConcClose_forced", "t:end", "t:conc", "mode:storage", "mode:direct",
            "k0", "k1", "k2", "k3", "k4", "fnerr", "programs_with_repeated_close"]
    missing = [n for n in need if not cov.get(n)]
    if missing and not aborted:
        raise vlib.Infra("actions never exercised: %s" % missing)
    ctx.extra["coverage_counts"] = cov

    # binding self-test: corrupted copies of one recorded program ride along at the end of the file
    def build_selftests():
        start = next(i for i, r in enumerate(trace) if r["t"] == "reset" and r["mode"] == "storage" and r["k"] == 2
                     and not r["fnerr"] and _interesting(by_id[r["prog"]])
                     and not any(s_["act"] == "ConcClose" for s_ in by_id[r["prog"]]["steps"])
                     and not any(by_id[r["prog"]]["steps"].count(s_) > 1 for s_ in by_id[r["prog"]]["steps"] if s_["act"] == "Close"))
        end = next(i for i in range(start, len(trace)) if trace[i]["t"] == "end")
        block = trace[start:end + 1]

        def variant(pid, fn):
            b = [dict(r) for r in block]
            for r in b:
                r["prog"] = pid
            return fn(b)

        def bump_rb(b):
            i = next(j for j, r in enumerate(b) if r["t"] == "step" and r["act"] == "Close")
            for r in b[i:]:
                r["rb"] += 1
            return b

        def short_read(b):
            i = next(j for j, r in enumerate(b) if r["t"] == "step" and r["act"] in ("Read", "ReadToEnd") and r["n"] > 0)
            b[i]["n"] -= 1
            return b

        def drop_close(b):
            i = max(j for j, r in enumerate(b) if r["t"] == "step" and r["act"] == "Close")
            return b[:i] + b[i + 1:]

        def leak(b):
            b[-1]["inuse"] = 1
            return b

        return block, [variant(-1, bump_rb), variant(-2, short_read), variant(-3, drop_close), variant(-4, leak)]

    try:
        block, selftests = build_selftests()
    except (StopIteration, KeyError, IndexError, ValueError):
        block, selftests = [], None     # the log is too broken to derive the self-test; only acceptable next to violations
    with open(ctx.path("trace.ndjson"), "a") as f:
        for b in selftests or []:
            for r in b:
                f.write(json.dumps(r, separators=(",", ":")) + "\n")

    # 4. TV against the model of the code (deviations = open known findings)
    n, flagged = ctx.validate_cases("TxReadersTrace", "TxReaders.Trace.cfg", ctx.path("trace.ndjson"), timeout=1800,
                                    subst={"Deviations": ctx.deviations("D-C36")})
    bad = sorted(set(r["prog"] for r in flagged if r["prog"] < 0 and r["verdict"] == "mismatch"))
    selftest_ok = selftests is not None and bad == [-4, -3, -2, -1]
    if selftest_ok:
        ctx.extra["binding_selftest"] = "4 corrupted programs rejected (rollback count, short read, dropped Close, leaked connection)"
    ctx.events = len(trace)
    ctx.traces = len(resets) + cov.get("t:conc", 0)
    ctx.evaluations = len(trace)
    ctx.extra["programs"] = {"exhaustive_k_le_2": len(exhaustive), "random_k_3_4": len(sampled),
                             "executed": len(resets), "concurrent_rounds": cov.get("t:conc", 0)}
    ctx.extra["distinct_nontrivial"] = sum(1 for q in progs if _interesting(q))
    ctx.extra["exhaustive"] = "all call sequences to depth 2k+3 for k<=2; seeded random walks for k=3,4"
    for q in rnd.sample(progs, 3):
        ctx.sample({"program": q})
    if len(block) > 1:
        ctx.sample(block[1])

    lines_of = {}
    for r in trace:
        lines_of.setdefault(r["prog"], []).append(r)
    nfind = nviol = 0
    for r in flagged:
        if r["prog"] < 0:
            continue
        lines = lines_of.get(r["prog"], [])
        if r["verdict"] == "finding" and r["tags"]:
            nfind += 1
            for tag in r["tags"]:
                ctx.finding(tag, {"program": by_id.get(r["prog"]), "first_violation_line": r["l"], "violated": r["detail"]})
        else:
            nviol += 1
            if nviol > 5:       # keep replays/ small; the count is reported below
                ctx.violations += 1
                continue
            vlib.write_ndjson(ctx.path("replay.ndjson"), [by_id.get(r["prog"], {})] + lines)
            ctx.violation(ctx.path("replay.ndjson"),
                          "program %s line %d (%s): the code did something the model of the code does not explain; model %s; log %s" %
                          (r["prog"], r["l"], json.dumps(r["detail"]), json.dumps(r["model"]),
                           json.dumps(trace[r["l"] - 1]) if r["l"] <= len(trace) else "?"))
    if not selftest_ok and ctx.violations == 0:
        raise vlib.Infra("binding self-test: corrupted programs %s of 4 were rejected" % bad)
    if race_failure and ctx.violations == 0:
        raise vlib.Infra(race_failure)
    if aborted and ctx.violations == 0:
        raise vlib.Infra("driver aborted early but no violation was found")
    failing_reads = sum(1 for r in trace if r["t"] == "step" and r["err"] == "txdone")
    ctx.extra["programs_not_explained_by_model"] = nviol
    ctx.extra["programs_violating_property"] = nfind
    ctx.extra["reads_failed_because_tx_was_released"] = failing_reads
    ctx.assumptions += [
        "SQLite database; the read transaction's release is observed as the finalizing rollback (hook tx.rolledback) and as the "
        "read pool's connections-in-use count",
        "a read 'needs' the transaction exactly when it opens the next part (chunks of 256 MB make every part one chunk)",
        "k <= 4 readers, <= 3 Close calls per reader, 3-part object of 24 bytes; larger k only by the symmetry of the counter",
    ]
    return ("programs = call sequences over Read/ReadToEnd/Close/ReadAfterClose/ConcClose on k readers generated by TLC from TxReaders.tla "
            "(all sequences to depth 2k+3 for k<=2, seeded random walks for k=3,4), executed in storage and direct mode (quick: direct mode on a seeded 40-50 % of the k=2 programs; ConcClose programs in direct mode only); "
            "non-trivial = some reader is read after a different reader was closed")
