"""C21 — StorageOutbox.tla: the storage outbox gives read-your-writes and converges (also the outbox instance of C07)."""
import json
import os
import random

import vlib

PROPS = ("C21",)
TAG_SYNC = "D-C21-sync-write-overtakes-queued"
TAG_VER = "D-C21-versioning-race"
CHECKS = {
    "C21": {
        "text": "StorageOutbox.tla models internal/storage/outbox at the grain of its critical sections (Route = tx-free read of the "
                "inner versioning status, Enqueue = the write tx storing the entry, DrainStart/DrainPoll = the two halves of "
                "waitUntilOutboxEntriesDrained with the four wait scopes, Inner = the write-through call, worker Claim/Replay/"
                "Finalize/Release/Restart/LeaseExpire) over the Pithos.tla reference model of the inner storage. TLC proves "
                "ReadYourWrites, Converges, CondSound (C07: synchronous preconditions are decided on the accepted history), "
                "SyncWriteSeesAll and FIFO order on the intended design for 3 clients, <=4 queued entries, all interleavings. TLC "
                "then generates schedules of the model of the code (random walks with 1 and 3 clients; ALL interleavings of "
                "sampled call pairs after a fixed prefix); harness/cmd/storageoutbox forces every schedule deterministically onto "
                "the REAL outbox storage over a real sqlite MetadataPartStorage (each process parked at every critical section by "
                "decorators around the database, the queue repository and the inner storage the outbox accepts) and TLC validates "
                "the log step by step (queue table after every step, inner projection after every inner write), evaluating the "
                "property at every read and at quiescence. Model checking of the design plus conformance on forced schedules.",
        "note": "schedules are sampled (walks, strided call pairs), not exhaustive on the real code; one worker process (the "
                "multi-process lease protocol is model-checked with MaxRestarts but not driven); sqlite only; the projection is "
                "pdrv.Interp.Views; TLC, the Go toolchain and SQLite are trusted",
        "technique": "TLA+ protocol model over the Pithos reference model, TLC exhaustive MC with symmetry, TLC-generated schedules "
                     "(simulation + BFS interleavings) forced on real code through interface decorators, TLC trace validation",
    },
}

ALL_OPS = ["CreateBucket", "DeleteBucket", "PutVersioning", "PutObject", "PutObjectCond", "DeleteObject", "DeleteObjectCond",
           "AppendObject", "GetObject", "ListObjects", "HeadBucket", "ListBuckets"]
RACE_OPS_QUICK = ["PutVersioning", "PutObject", "PutObjectCond", "DeleteObject", "AppendObject", "GetObject"]
RACE_OPS_FULL = ["PutVersioning", "PutObject", "PutObjectCond", "DeleteObject", "DeleteObjectCond", "AppendObject", "GetObject",
                 "ListObjects"]
READ_OPS = ["GetObject", "HeadObject", "GetObjectTagging", "ListParts", "ListObjects", "ListObjectVersions", "HeadBucket",
            "GetVersioning", "ListMultipartUploads", "GetWebsite", "GetCORS", "GetLifecycle", "GetNotification", "ListBuckets"]
OPAQUE_OPS = ["DeleteWebsite", "DeleteCORS", "DeleteLifecycle"]     # wait like the getters, answer not modelled
SYNC_OPS = ["CompleteUpload", "CompleteUploadCond", "AbortUpload", "UploadPart", "CreateUpload", "PutTagging", "Transition",
            "AppendObject", "PutObjectCond", "DeleteObjectCond"]
# write-through calls that must have been started on the real code while a put/delete of the same key was queued
SYNC_KEYS = ["CompleteUpload:none", "CompleteUpload:inm", "CompleteUpload:ifm", "AbortUpload:none", "UploadPart:none",
             "CreateUpload:none", "PutTagging:none", "Transition:none", "AppendObject:none", "PutObject:inm", "PutObject:ifm",
             "DeleteObject:ifm"]


def call_key(call):
    return "%s:%s" % (call["op"], call.get("cond", "none"))


def started_with_pending(p, want):
    """the call kinds (by want(call) -> key or None) whose drain snapshot a schedule takes while an entry is queued"""
    pend, cur, hits = 0, {}, set()
    for x in p["steps"]:
        if x["a"] == "Invoke":
            cur[x["p"]] = x["call"]
        elif x["a"] == "Enqueue":
            pend += 1
        elif x["a"] == "Finalize":
            pend -= 1
        elif x["a"] == "DrainStart" and pend > 0 and x["p"] in cur:
            k = want(cur[x["p"]])
            if k:
                hits.add(k)
    return hits


BATCH = 150      # schedules per driver process (the driver runs with the collector off, see its main.go)


def tla_set(xs):
    return "{" + ", ".join('"%s"' % x for x in xs) + "}"


def compact(p):
    steps = []
    for s in p["steps"]:
        st = {"p": s["p"], "a": s["a"]}
        if s["a"] == "Invoke":
            st["call"] = s["call"]
        steps.append(st)
    return {"steps": steps, "taken": p.get("taken", []), "bad": bool(p.get("bad")), "heldskip": bool(p.get("heldskip"))}


def gen_walks(ctx, clients, n, freeops, seed, prefix="bucket"):
    r = ctx.tlc("StorageOutboxGen", "StorageOutbox.Sim.cfg", workers=1, simulate="num=%d" % n, depth=12 * freeops + 40, seed=seed,
                timeout=900, count_mc=False,
                subst={"Clients": tla_set(clients), "FreeOps": str(freeops), "Prefix": '"%s"' % prefix,
                       "Deviations": ctx.deviations("D-C21")})
    out, seen = [], set()
    for p in r.printed:
        if isinstance(p, dict) and "steps" in p:
            c = compact(p)
            key = json.dumps(c["steps"], sort_keys=True)
            if key not in seen:
                seen.add(key)
                out.append(c)
    if len(out) < max(1, n // 2):
        raise vlib.Infra("walk generation produced %d of %d schedules (%s)\n%s" % (len(out), n, r.outcome, r.output[-1500:]))
    ctx.transitions += r.generated
    return out


def gen_pairs(ctx, ops, stride, offset, bad_only=False, extra=None):
    """BFS: every interleaving (to quiescence) of every stride-th pair of calls on one key after the prefix."""
    subst = {"CallOps": tla_set(ops), "Stride": str(stride), "Offset": str(offset),
             "EmitBadOnly": "TRUE" if bad_only else "FALSE", "Deviations": ctx.deviations("D-C21")}
    subst.update(extra or {})
    r = ctx.tlc("StorageOutboxGen", "StorageOutbox.Race.cfg", workers=1, timeout=1500, count_mc=False, subst=subst)
    if r.outcome != "ok":
        raise vlib.Infra("pair-interleaving generation failed: %s\n%s" % (r.outcome, r.output[-2000:]))
    ctx.transitions += r.generated
    ctx.states += r.distinct
    return [compact(p) for p in r.printed if isinstance(p, dict) and "steps" in p], r


def split_progs(lines):
    progs, cur = [], None
    for ln in lines:
        if ln["ev"] in ("Reset", "FReset"):
            cur = []
            progs.append(cur)
        cur.append(ln)
    return progs


def validate(ctx, lines, name):
    """TV of a list of trace lines.  Returns (consumed, reports)."""
    f = ctx.path(name)
    vlib.write_ndjson(f, lines)
    r = ctx.tlc("StorageOutboxTrace", "StorageOutbox.Trace.cfg", workers=1, timeout=3000, env={"TRACE_FILE": f}, count_mc=False,
                subst={"Deviations": ctx.deviations("D-C21"), "PDev": ctx.deviations(props=("C02", "C11", "C13"))})
    if r.outcome != "ok":
        raise vlib.Infra("trace validation did not run to completion: %s %s\n%s" % (r.outcome, r.violated, (r.cex or r.output[-3000:])))
    ctx.states += r.distinct
    ctx.transitions += r.generated
    reports = [p for p in r.printed if isinstance(p, dict) and "what" in p]
    return r.depth - 1, reports


def run(ctx):
    rng = random.Random(ctx.seed)
    # ------------------------------------------------------------------ 1. the design holds (MC)
    # (the design-level model checks do not depend on the code under test; VERIF_SKIP_MC=1 skips them when the same
    # specification is checked against many trees in a row)
    for cfg in ([] if os.environ.get("VERIF_SKIP_MC") else
                ctx.pick(["MCq", "MCverq", "MCbucketq", "MCmpuq"], ["MC", "MCver", "MCbucket", "MCmpu", "MCrestart", "MC2workers", "MC4ops", "MC2keys"])):
        ctx.mc("StorageOutbox", "StorageOutbox.%s.cfg" % cfg, workers=ctx.pick(4, 8), timeout=3000)
    open_tags = [t for t in (TAG_SYNC, TAG_VER) if t in ctx.open_tags()]
    if ctx.tier == "thorough":
        # the model of the code (one deviation at a time) must break the property: the deviations are not vacuous
        for tag, cfg in ((TAG_SYNC, "MC"), (TAG_VER, "MCver")):
            r = ctx.tlc("StorageOutbox", "StorageOutbox.%s.cfg" % cfg, workers=4, timeout=1500, count_mc=False,
                        subst={"Deviations": '{"%s"}' % tag})
            if r.outcome != "invariant":
                raise vlib.Infra("the model with %s enabled does not violate any invariant (%s): the deviation is vacuous" % (tag, r.outcome))
            ctx.extra.setdefault("model_of_code_violates", {})[tag] = r.violated

    # ------------------------------------------------------------------ 2. GEN
    scheds = []
    # (b) all interleavings of strided call pairs (a synchronous writer / reader against an enqueuer and the worker)
    ops = ctx.pick(RACE_OPS_QUICK, RACE_OPS_FULL)
    stride = ctx.pick(16, 6)
    pairs, r = gen_pairs(ctx, ops, stride, ctx.seed % stride)
    bad = [p for p in pairs if p["bad"]]
    good = [p for p in pairs if not p["bad"]]
    rng.shuffle(bad)
    rng.shuffle(good)
    nbad, ngood = ctx.pick((14, 40), (250, 550))
    sel = bad[:nbad] + good[:ngood]
    ctx.log("pair interleavings: %d complete schedules generated (%d leave the model of the code unconverged), %d selected"
            % (len(pairs), len(bad), len(sel)))
    for p in sel:
        p["kind"] = "pairs"
    scheds += sel
    # witnesses of the open findings: make sure each open deviation is driven on the real code in every run
    for tag, wops in ((TAG_SYNC, ["PutObject", "AppendObject", "PutObjectCond"]), (TAG_VER, ["PutVersioning", "PutObject", "DeleteObject"])):
        if tag in open_tags and not any(tag in p["taken"] and p["bad"] for p in sel):
            w, _ = gen_pairs(ctx, wops, 5, 0, bad_only=True)
            w = [p for p in w if tag in p["taken"]]
            if not w:
                raise vlib.Infra("no witness schedule for open finding %s within the witness bounds" % tag)
            for p in w[:4]:
                p["kind"] = "witness"
            scheds += w[:4]
    # (c) every read the outbox wraps, started while a write of the same bucket is queued: all interleavings of
    #     (queued put / delete, read) pairs; per read operation a few schedules in which the read's drain snapshot
    #     is taken while the entry is pending
    rd, _ = gen_pairs(ctx, ["PutObject", "DeleteObject"] + READ_OPS + OPAQUE_OPS, 1, 0,
                      extra={"PairMode": '"write-read"', "Blobs": '{"c2"}', "MaxFailPolls": "1"})
    per = {}
    for p in rd:
        for k in started_with_pending(p, lambda c: c["op"] if c["op"] in READ_OPS + OPAQUE_OPS else None):
            per.setdefault(k, []).append(p)
    nper = ctx.pick(2, 8)
    for rop in READ_OPS + OPAQUE_OPS:
        cands = per.get(rop, [])
        if not cands:
            raise vlib.Infra("no generated schedule starts %s while an entry of its bucket is queued" % rop)
        rng.shuffle(cands)
        for p in cands[:nper]:
            p["kind"] = "reads"
            scheds.append(p)
    # (c') every write-through call on a key (multipart create / part / complete with and without condition / abort,
    #      tagging, transition, append, conditional put / delete) started while a put / delete of that key is queued;
    #      prefix: bucket, object and a pending multipart upload of the key with one part
    sy, _ = gen_pairs(ctx, ["PutObject", "DeleteObject"] + SYNC_OPS, 1, 0,
                      extra={"PairMode": '"write-sync"', "Prefix": '"upload"', "MaxFailPolls": "1",
                             "Blobs": ctx.pick('{"c2"}', '{"c1", "c2"}')})
    per = {}
    for p in sy:
        for k in started_with_pending(p, lambda c: call_key(c) if call_key(c) in SYNC_KEYS else None):
            per.setdefault((k, p["bad"]), []).append(p)
    for k in SYNC_KEYS:
        good, badk = per.get((k, False), []), per.get((k, True), [])
        if not good and not badk:
            raise vlib.Infra("no generated schedule starts %s while a write of its key is queued" % k)
        rng.shuffle(good)
        rng.shuffle(badk)
        n = ctx.pick(2 if k.startswith("CompleteUpload") else 1, 6)
        for p in good[:n] + badk[:ctx.pick(1, 6)]:
            p["kind"] = "sync"
            scheds.append(p)
    # ... and the known race with a multipart complete as the write-through call (the put is queued AFTER the
    # complete's drain check): the model of the code predicts the outcome, CondSound / Converges report it
    mb = [p for p in sy if p["bad"] and any(x["a"] == "Invoke" and x["call"]["op"] == "CompleteUpload" for x in p["steps"])]
    rng.shuffle(mb)
    for p in mb[:ctx.pick(3, 40)]:
        p["kind"] = "sync"
        scheds.append(p)
    # (d) two claim owners (a second outbox instance on the same database and outbox id): the oldest entry is held
    #     by one worker while the other one runs a pass with a younger entry queued
    tw, _ = gen_pairs(ctx, ["PutObject", "DeleteObject"], 1, 0,
                      extra={"Workers": '{"w", "w2"}', "Blobs": '{"c2"}', "MaxFailPolls": "0", "MaxFailClaims": "1"})
    held = [p for p in tw if p["heldskip"]]
    other = [p for p in tw if not p["heldskip"] and any(x["p"] == "w2" for x in p["steps"])]
    if not held:
        raise vlib.Infra("no generated two-worker schedule has a pass against a held head entry with a younger entry queued")
    rng.shuffle(held)
    rng.shuffle(other)
    for p in held[:ctx.pick(5, 60)] + other[:ctx.pick(3, 60)]:
        p["kind"] = "workers"
        scheds.append(p)
    # (a) long single-client histories with the worker flushing at generated points; concurrent random walks
    n1, n3 = ctx.pick((10, 12), (100, 180))
    for p in gen_walks(ctx, ["c1"], n1, ctx.pick(10, 14), ctx.seed):
        p["kind"] = "walk1"
        scheds.append(p)
    for p in gen_walks(ctx, ["c1", "c2", "c3"], n3, ctx.pick(6, 8), ctx.seed + 1000):
        p["kind"] = "walk3"
        scheds.append(p)
    for i, p in enumerate(scheds):
        p["id"] = i + 1
    ctx.sample({"kind": scheds[0]["kind"], "steps": scheds[0]["steps"][11:]})
    ctx.sample({"kind": scheds[-1]["kind"], "steps": scheds[-1]["steps"][:14]})

    # ------------------------------------------------------------------ 3. force the schedules onto the real code
    drv = ctx.gobuild("storageoutbox")
    lines = []
    stats = {"schedules": 0, "steps": 0, "infeasible": 0, "aborted": 0}
    for b in range(0, len(scheds), BATCH):
        batch = scheds[b:b + BATCH]
        sf, tf = ctx.path("sched-%d.ndjson" % b), ctx.path("trace-%d.ndjson" % b)
        vlib.write_ndjson(sf, [{"id": p["id"], "steps": p["steps"]} for p in batch])
        p = ctx.run([drv, ctx.path("state-%d" % b), sf, tf], timeout=3000)
        last = p.stdout.strip().splitlines()[-1]
        for kv in last.split():
            k, _, v = kv.partition("=")
            if k in stats:
                stats[k] += int(v)
        lines += vlib.read_ndjson(tf)
    ctx.log("driver: %s, %d trace lines" % (stats, len(lines)))
    if stats["schedules"] != len(scheds):
        raise vlib.Infra("driver executed %d of %d schedules" % (stats["schedules"], len(scheds)))
    # ------------------------------------------------------------------ 4. TV
    by_id = {p["id"]: p for p in scheds}
    progs = split_progs(lines)
    reports = []
    rejected = 0
    CHUNK = 300          # schedules per TLC run (the whole chunk is held in memory by ndJsonDeserialize)
    for c0 in range(0, len(progs), CHUNK):
        pending = progs[c0:c0 + CHUNK]
        rounds = 0
        while pending and rejected < 6:
            rounds += 1
            flat = [ln for pr in pending for ln in pr]
            consumed, reps = validate(ctx, flat, "tv-%d-%d.ndjson" % (c0, rounds))
            if consumed == len(flat):
                reports += reps
                ctx.traces += len(pending)
                ctx.events += len(flat)
                break
            # the model cannot explain line consumed+1: new behaviour of the code
            acc, k = 0, len(pending) - 1
            for i, pr in enumerate(pending):
                acc += len(pr)
                if consumed < acc:
                    k = i
                    break
            reports += [x for x in reps if x["l"] <= acc - len(pending[k])]
            ctx.traces += k
            ctx.events += acc - len(pending[k])
            badprog = pending[k]
            pid = badprog[0]["prog"]
            at = consumed - (acc - len(badprog))
            rp = ctx.path("replay-%d.json" % pid)
            json.dump({"schedule": {"id": pid, "steps": by_id[pid]["steps"]}, "stuck_at": at + 1,
                       "line": badprog[at] if at < len(badprog) else None, "trace": badprog}, open(rp, "w"))
            ln = badprog[at] if at < len(badprog) else {}
            ln = {k2: v for k2, v in ln.items() if k2 != "views"}
            ctx.violation(rp, "schedule %d (%s): the model of the code (StorageOutbox.tla with the open deviations) cannot explain "
                              "step %d of the recorded execution: %s" % (pid, by_id[pid]["kind"], at + 1, json.dumps(ln)[:700]))
            rejected += 1
            pending = pending[k + 1:]
        if rejected >= 6:
            break
    # a schedule that could not be followed means the code left the model's control flow; the validation above
    # reports that as a violation at the step where it happened - if it did not, the run is not trustworthy
    if not ctx.violations and stats["infeasible"] + stats["aborted"] > len(scheds) // 10:
        raise vlib.Infra("too many schedules could not be forced although every recorded step was explained: %s" % stats)
    # property reports
    hit = {}
    for rep in reports:
        sch = by_id.get(rep["prog"], {})
        wit = {"property": rep["what"], "schedule_kind": sch.get("kind"), "steps": [s for s in sch.get("steps", [])][11:] if sch.get("kind") in ("pairs", "witness") else sch.get("steps", [])}
        if rep["taken"]:
            for tag in rep["taken"]:
                hit[tag] = hit.get(tag, 0) + 1
                ctx.finding(tag, wit)
        else:
            rp = ctx.path("replay-prop-%d.json" % rep["prog"])
            json.dump({"schedule": {"id": rep["prog"], "steps": sch.get("steps")}, "report": rep}, open(rp, "w"))
            ctx.violation(rp, "schedule %d: %s is violated on the validated behaviour of the real code and no known deviation was "
                              "taken: %s" % (rep["prog"], rep["what"], json.dumps(rep)[:600]))
    byprop = {}
    for rep in reports:
        byprop[rep["what"]] = byprop.get(rep["what"], 0) + 1
    ctx.extra["property_reports"] = {"total": len(reports), "by_tag": hit, "by_property": byprop}
    for tag in open_tags:
        if not hit.get(tag) and not ctx.violations:
            raise vlib.Infra("open finding %s was not reproduced on the real code by its witness schedules" % tag)

    # ------------------------------------------------------------------ 4b. the undecorated counterpart
    # the single-client histories once more, against the outbox storage built WITHOUT decorators and with
    # the worker running on its own (real client/worker concurrency); skipped once violations are known
    nfree = 0
    if not ctx.violations:
        FREE = 100000
        walk1 = [p for p in scheds if p["kind"] == "walk1"][:ctx.pick(6, 1000)]
        sf, tf = ctx.path("sched-free.ndjson"), ctx.path("trace-free.ndjson")
        vlib.write_ndjson(sf, [{"id": FREE + p["id"], "steps": p["steps"]} for p in walk1])
        p = ctx.run([drv, "-free", ctx.path("state-free"), sf, tf], timeout=3000)
        ctx.log("free run: " + p.stdout.strip().splitlines()[-1])
        flines = vlib.read_ndjson(tf)
        fprogs = split_progs(flines)
        if len(fprogs) != len(walk1) or any(pr[-1]["ev"] != "FQuiesce" for pr in fprogs):
            raise vlib.Infra("free run executed %d of %d schedules" % (len(fprogs), len(walk1)))
        consumed, _ = validate(ctx, flines, "tv-free.ndjson")
        if consumed != len(flines):
            acc = 0
            for pr in fprogs:
                if consumed < acc + len(pr):
                    ln = {k2: v for k2, v in pr[consumed - acc].items() if k2 != "views"}
                    rp = ctx.path("replay-free-%d.json" % pr[0]["prog"])
                    json.dump({"mode": "free", "schedule": by_id[pr[0]["prog"] - FREE]["steps"], "trace": pr}, open(rp, "w"))
                    ctx.violation(rp, "undecorated run of schedule %d (one client, worker running freely): line %d is not what the "
                                      "accepted writes applied in order give: %s" % (pr[0]["prog"] - FREE, consumed - acc + 1, json.dumps(ln)[:700]))
                    break
                acc += len(pr)
        else:
            nfree = len(fprogs)
            ctx.traces += nfree
            ctx.events += len(flines)
            progs += fprogs
            lines += flines

    # ------------------------------------------------------------------ 5. coverage
    evs = {}
    waited, concurrent = set(), set()
    for pr in progs:
        active = set()
        for ln in pr:
            evs[ln["ev"]] = evs.get(ln["ev"], 0) + 1
            if ln["ev"] == "DrainPoll":
                waited.add(ln["prog"])
            if ln["ev"] == "Invoke":
                active.add(ln["p"])
                if len(active) >= 2:
                    concurrent.add(ln["prog"])
            if ln["ev"] == "Return":
                active.discard(ln["p"])
    # coverage gate: every read the outbox wraps took its drain snapshot at least once while an entry of the same
    # bucket was queued, and a worker ran a pass against a head entry held by the other claim owner
    pending_reads, pending_sync, held_pass = {}, {}, 0
    for pr in progs:
        pend, cur = {}, {}
        for i, ln in enumerate(pr):
            ev = ln["ev"]
            if ev == "Invoke":
                cur[ln["p"]] = ln["call"]
            elif ev == "Enqueue":
                pend[ln["eseq"]] = (ln["b"], ln["k"])
            elif ev == "Finalize" and ln.get("deleted"):
                pend.pop(ln["eseq"], None)
            elif ev == "DrainStart" and ln["p"] in cur:
                call = cur[ln["p"]]
                if call["op"] in READ_OPS + OPAQUE_OPS:
                    if any(ln["scope"] == "global" or b == call["b"] for (b, k) in pend.values()):
                        pending_reads[call["op"]] = pending_reads.get(call["op"], 0) + 1
                elif call_key(call) in SYNC_KEYS:
                    if any(b == call["b"] and k == call["k"] for (b, k) in pend.values()):
                        pending_sync[call_key(call)] = pending_sync.get(call_key(call), 0) + 1
            elif ev == "Claim" and not ln["claimed"] and len(pend) >= 2:
                held_pass += 1
    ctx.extra["reads_started_with_pending_entry"] = pending_reads
    ctx.extra["write_through_calls_started_with_queued_write_of_their_key"] = pending_sync
    ctx.extra["passes_against_held_head"] = held_pass
    if not ctx.violations:
        lacking = [o for o in READ_OPS + OPAQUE_OPS if not pending_reads.get(o)] + [k for k in SYNC_KEYS if not pending_sync.get(k)]
        if lacking:
            raise vlib.Infra("calls never started on the real code while an entry of their bucket / key was queued: %s" % lacking)
        if not held_pass:
            raise vlib.Infra("no worker pass against a held head entry was executed on the real code")
    ctx.extra["events_by_kind"] = evs
    ctx.extra["schedules_by_kind"] = {k: sum(1 for p in scheds if p["kind"] == k) for k in ("pairs", "witness", "reads", "sync", "workers", "walk1", "walk3")}
    ctx.extra["schedules_by_kind"]["free"] = nfree
    ctx.extra["schedules_with_a_real_wait"] = len(waited)
    ctx.extra["schedules_with_concurrent_calls"] = len(concurrent)
    ctx.extra["driver"] = stats
    ctx.extra["distinct_nontrivial"] = len(waited | concurrent)
    need = ["Route", "Enqueue", "DrainStart", "DrainPoll", "Inner", "Claim", "Replay", "Finalize", "Quiesce", "Return", "FCall", "FQuiesce"]
    missing = [e for e in need if not evs.get(e)]
    if missing and not ctx.violations:
        raise vlib.Infra("steps never exercised on the real code: %s" % missing)
    ctx.evaluations = len(lines)

    # ------------------------------------------------------------------ 6. binding self-test
    if not ctx.violations:
        base = None
        for pr in progs:
            if pr[-1]["ev"] == "Quiesce" and any(ln["ev"] == "Replay" and ln["op"] == "PutObject" for ln in pr):
                base = pr
                break
        if base is None:
            raise vlib.Infra("no schedule with a replayed put for the binding self-test")
        tests = {}
        # (i) the inner storage after the drain is not what the model says
        t = json.loads(json.dumps(base))
        done = False
        for b in t[-1]["views"]:
            for kv in b["keys"]:
                for v in kv["versions"]:
                    if v["content"] and not done:
                        v["content"] = v["content"] + ["c3"]
                        done = True
        tests["quiesce-content"] = t if done else None
        # (ii) the worker replays a different entry than the one it claimed
        t = json.loads(json.dumps(base))
        for ln in t:
            if ln["ev"] == "Replay":
                ln["eseq"] += 1
                break
        tests["replay-seq"] = t
        # (iii) a queue entry is still there after its finalize
        t = json.loads(json.dumps(base))
        for i, ln in enumerate(t):
            if ln["ev"] == "Finalize":
                t[i + 1]["q"] = [ln["eseq"]] + t[i + 1]["q"]
                break
        tests["stepend-queue"] = t
        res = {}
        for name, t in tests.items():
            if t is None:
                continue
            consumed, _ = validate(ctx, t, "selftest-%s.ndjson" % name)
            if consumed == len(t):
                raise vlib.Infra("binding self-test failed: corrupted trace (%s) was accepted" % name)
            res[name] = "rejected at line %d of %d" % (consumed + 1, len(t))
            if ctx.tier == "quick":
                break
        ctx.extra["binding_selftest"] = res

    ctx.assumptions += [
        "every process is parked before each transaction on the outbox database and at the entry of each inner-storage call; a "
        "step runs one process until its next parking point, so forced schedules are deterministic (no timing assumption)",
        "acceptance order = commit order of the enqueue transaction for queued writes and of the inner call for write-through "
        "writes; an accepted write is applied unconditionally in the fold",
        "calls whose queue entry can never be replayed (CreateBucket of an existing bucket, DeleteBucket of a non-empty bucket, "
        "put into a missing bucket) are not generated: the code accepts them and then retries the replay forever (the queue "
        "never drains, which the property statement does not cover)",
        "heartbeat / lease expiry need a second process and are covered by model checking only (MaxRestarts)",
        "the decorators do not change behaviour: the single-client histories are repeated on an undecorated stack with the worker "
        "running freely and validated against the fold of the accepted writes",
    ]
    return ("schedules = TLC -simulate walks of the model of the code (1 client x %d calls with the worker flushing at generated "
            "points; 3 clients) + TLC BFS: all interleavings down to quiescence of every %d-th ordered pair of calls on one key after "
            "a prefix (bucket + object); each forced on the real outbox storage; non-trivial = a call really had to wait for the "
            "worker or two calls were in flight together" % (ctx.pick(10, 14), stride))
