"""C16 — Aead.tla: encrypted parts are confidential-at-rest, tamper-evident and seekable (tink middleware, seekable.go)."""
import collections
import json
import random

import vlib

PROPS = ("C16",)
CHECKS = {
    "C16": {
        "text": "Aead.tla is a cell(byte)-level model, with scaled-down constants (segment 14, tink header 5, tag 2), of the stored "
                "object layout written by tink.go PutPart, of readPartHeaderAndDEK, of the seekable reader (seekable.go: segment "
                "arithmetic, loadSegment, Read, Seek) and of tink-go's sequential reader, over a symbolic AEAD (a segment opens iff "
                "it is the complete unmodified ciphertext of the writer's segment with that index, last-flag, DEK and part id). "
                "TLC proves (a) the reader's segment arithmetic against the writer's layout for every plaintext length and offset "
                "and (b) on the intended design, for every length, EVERY single-cell flip, EVERY truncation point, extension, "
                "segment swap/drop/duplication, foreign part id and segment-size rewrite, on both read paths and all one/two/three "
                "step seek+read scripts: a read returns exactly the plaintext slice or fails, reading to the end of a tampered "
                "object fails, untampered reads are exact. Conformance: TLC enumerates (length class x tamper catalogue x path) "
                "with symbolic positions; the Go driver writes real parts through tink.NewWithLocalKMS over a filesystem store "
                "(seekable) and a SQL store (sequential), tampers the stored bytes, runs seek/read scripts and logs result "
                "classes; TLC checks them against the model's prediction and evaluates the property on them.",
        "note": "the AEAD primitive itself (AES-GCM, HKDF, the local KMS) is trusted and modelled symbolically; the scaled model and "
                "the real layout are related by the symbolic position/length classes (boundaries +-1), which is what conformance "
                "tests; confidentiality is a smoke test only (no 32-byte plaintext window in the stored bytes).",
        "technique": "TLA+ byte-level reader models over a symbolic AEAD, TLC exhaustive MC with scaled constants, TLC case "
                     "enumeration, replay on real code, TLC trace validation",
    },
}


def _scripts(rng, path, alphabet, lc, n):
    """n random scripts of 1..3 steps over TLC's step alphabet."""
    out = []
    L0 = lc["full"] == 0 and lc["extra"] == 0
    targets = sorted(t for t in alphabet["targets"] if not (t == "len-1" and L0))
    for _ in range(n):
        k = rng.choice([1, 2, 2, 3, 3])
        if path == "seq":
            sc = [{"wh": "none", "tgt": "-", "cnt": "one"} for _ in range(k - 1)] + [{"wh": "none", "tgt": "-", "cnt": rng.choice(["one", "all", "all"])}]
        else:
            sc = []
            for _ in range(k):
                wh = rng.choice(sorted(alphabet["whences"]))
                tg = [t for t in targets if wh != "end" or t in alphabet["endtargets"]]
                sc.append({"wh": wh, "tgt": rng.choice(tg), "cnt": rng.choice(sorted(alphabet["counts"]))})
        out.append(sc)
    return out


def run(ctx):
    devs = ctx.deviations("D-C16")
    # 1. design-level MC: arithmetic + tamper evidence + seekability, exhaustive with scaled constants
    ctx.mc("Aead", "Aead.MC.cfg", workers=ctx.pick(4, 8), timeout=ctx.pick(400, 1800), subst={"MaxFull": ctx.pick("1", "3")})

    # 2. TLC enumerates the conformance combinations (model of the code = open deviations, for the probe tags)
    g = ctx.tlc("AeadGen", "Aead.Gen.cfg", workers=1, timeout=900, count_mc=False, subst={"Deviations": devs})
    if not g.ok() or not g.printed:
        raise vlib.Infra("case generation failed: %s\n%s" % (g.outcome, g.output[-2000:]))
    alphabet = [x for x in g.printed if x.get("kind") == "alphabet"]
    combos = sorted((x for x in g.printed if x.get("kind") == "combo"), key=lambda c: json.dumps(c, sort_keys=True))
    if len(alphabet) != 1 or not combos:
        raise vlib.Infra("case generation incomplete")
    alphabet = alphabet[0]

    # 3. scripts: the read-to-end probe for every combination, TLC's probes that witness an open finding, random scripts
    rng = random.Random(ctx.seed)
    nrand = ctx.pick(1, 3)
    keep = ctx.pick(0.3, 1.0)
    cases = []
    witness = collections.defaultdict(list)
    open_tags = set(ctx.open_tags("C16"))

    def add(c, script, why):
        cases.append({"case": len(cases) + 1, "lc": c["lc"], "t": c["t"], "path": c["path"], "script": script, "why": why})
        return len(cases)

    for c in combos:
        probes = c["probes"]
        hits = [p for p in probes if p["viol"] and set(p["tags"]) & open_tags]
        # quick: every combination on parts of at most one segment (cheap), a seeded sample of the longer ones
        chosen = rng.random() < keep or c["t"]["kind"] == "none" or c["lc"]["full"] <= 1
        if chosen:
            add(c, probes[0]["script"], "read-to-end")
            for sc in _scripts(rng, c["path"], alphabet, c["lc"], nrand):
                add(c, sc, "random")
        for p in hits:
            for tag in set(p["tags"]) & open_tags:
                if len(witness[tag]) < 3 or chosen:
                    witness[tag].append(add(c, p["script"], "probe"))
    for tag in open_tags:
        if tag.startswith("D-C16") and not witness[tag]:
            raise vlib.Infra("open finding %s: the model with it enabled violates the property on no probe script" % tag)
    vlib.write_ndjson(ctx.path("cases.ndjson"), cases)
    ctx.log("GEN: %d combinations (length class x tamper x path), %d cases" % (len(combos), len(cases)))

    # 4. execute on the real middleware
    drv = ctx.gobuild("aead")
    r = ctx.run([drv, ctx.path("cases.ndjson"), ctx.path("trace.ndjson")], timeout=ctx.pick(600, 2400))
    ctx.log(r.stdout.strip().splitlines()[-1])
    trace = vlib.read_ndjson(ctx.path("trace.ndjson"))
    if len(trace) != len(cases):
        raise vlib.Infra("driver executed %d of %d cases" % (len(trace), len(cases)))

    # 5. TLC validates
    flagged = []
    total = 0
    for i in range(0, len(trace), 4000):
        path = ctx.path("trace.%d.ndjson" % i)
        vlib.write_ndjson(path, trace[i:i + 4000])
        n, fl = ctx.validate_cases("AeadTrace", "Aead.Trace.cfg", path, subst={"Deviations": devs}, timeout=1800)
        total += n
        for f in fl:
            f["l"] += i
        flagged += fl
    ctx.evaluations = total

    # 6. coverage measured on the log
    kinds = collections.Counter(t["t"]["kind"] for t in trace)
    resc = collections.Counter(x["res"] for t in trace for x in t["results"])
    nontrivial = sum(1 for t in trace if t["t"]["kind"] != "none" and any(x["res"] == "err" for x in t["results"])) + \
        sum(1 for t in trace if t["t"]["kind"] == "none" and t["len"] > 0 and all(x["res"] == "exact" for x in t["results"]))
    need = {"none", "flip", "trunc", "extend", "swap", "drop", "dup", "crossid", "segsize"}
    if need - set(kinds) or resc["err"] == 0 or resc["exact"] == 0:
        raise vlib.Infra("tamper kinds / result classes never exercised: %s %s" % (sorted(need - set(kinds)), dict(resc)))
    if not any(t["path"] == "seek" and t["seekable"] for t in trace) or not any(t["path"] == "seq" and not t["seekable"] for t in trace):
        raise vlib.Infra("seekable and sequential read paths were not both exercised")
    ctx.extra["distinct_nontrivial"] = nontrivial
    ctx.extra["tamper_kinds"] = dict(kinds)
    ctx.extra["result_classes"] = dict(resc)
    ctx.extra["combinations"] = len(combos)
    ctx.sample({k: trace[0][k] for k in ("lc", "t", "path", "script", "results", "len", "stored")})
    mid = trace[len(trace) // 2]
    ctx.sample({k: mid[k] for k in ("lc", "t", "path", "script", "results", "len", "stored")})

    # 7. verdicts
    for f in flagged:
        line = trace[f["l"] - 1]
        wit = {k: line[k] for k in ("lc", "t", "path", "script", "results", "len", "detail")}
        if f["verdict"] == "finding" and f["tag"]:
            ctx.finding(f["tag"], wit)
            continue
        replay = ctx.path("replay-%d.ndjson" % line["case"])
        vlib.write_ndjson(replay, [cases[line["case"] - 1], line])
        what = {"mismatch": "the model of the code predicts other result classes",
                "finding": "the property is violated without a known deviation",
                "malformed": "case not well-formed for the model (generator/driver defect)"}[f["verdict"]]
        ctx.violation(replay, "len %d (%s) tamper %s path %s script %s: %s; observed %s leak=%s seekable=%s, model %s; %s" % (
            line["len"], json.dumps(line["lc"]), json.dumps(line["t"]), line["path"], json.dumps(line["script"]), what,
            json.dumps([[x["res"], x["wrong"]] for x in line["results"]]), line["leak"], line["seekable"],
            json.dumps([[x["res"], x["wrong"]] for x in f["expected"]]), line["detail"]))
    for tag, ids in witness.items():
        if tag not in ctx.findings_seen:
            ctx.violation(None, "open finding %s: none of TLC's witness cases %s violates the property on the real code any more - "
                                "if it was fixed, mark it fixed in known_findings/aead.json" % (tag, ids[:5]),
                          data=[cases[i - 1] for i in ids[:3]])
    ctx.extra["witness_cases"] = {k: v[:5] for k, v in witness.items()}

    # 8. binding self-test: corrupt one logged result class; TLC must reject that line
    victim = next((i for i, t in enumerate(trace) if t["t"]["kind"] == "none" and t["len"] > 0 and t["results"][0]["res"] == "exact"), None)
    if victim is None:
        raise vlib.Infra("binding self-test: no untampered exact read found")
    bad = json.loads(json.dumps(trace[victim]))
    bad["results"][0]["res"] = "short"
    vlib.write_ndjson(ctx.path("selftest.ndjson"), [trace[victim], bad])
    ev0, tr0, evs0 = ctx.evaluations, ctx.traces, ctx.events
    _, fl = ctx.validate_cases("AeadTrace", "Aead.Trace.cfg", ctx.path("selftest.ndjson"), subst={"Deviations": devs})
    ctx.evaluations, ctx.traces, ctx.events = ev0, tr0, evs0
    if [(f["l"], f["verdict"]) for f in fl] != [(2, "mismatch")]:
        raise vlib.Infra("binding self-test failed: a corrupted result class was not rejected (%s)" % fl)
    ctx.extra["binding_selftest"] = "corrupted result class of case %d rejected" % trace[victim]["case"]

    ctx.assumptions += [
        "AES-GCM / HKDF / scrypt-derived local KMS are trusted (symbolic AEAD)",
        "one tamper per case; bit flips flip bit 0 of one byte per symbolic cell class",
        "the scaled model (css 14) and the real layout (css 131072) are related through symbolic boundary classes",
        "confidentiality: smoke test only",
    ]
    return ("TLC enumerates all %d applicable (length class x tamper x path) combinations; %s of them run the read-to-end script "
            "plus %d random seek/read script(s) of <=3 steps (seeded), plus TLC's probe scripts for open findings; non-trivial = "
            "tampered case with a failing read, or untampered non-empty case read exactly" % (len(combos), "all on parts of <= 1 segment and 30% of the longer ones" if keep < 1 else "all", nrand))
