"""C10 — TxFs.tla: operations are all-or-nothing across process crashes (SIGKILL at every hook point)."""
import collections
import copy
import json
import os
import random
import vlib

PROPS = ("C10",)
TAG = "D-C10-delete-window"
CHECKS = {
    "C10": {
        "text": "TxFs.tla explodes one mutating operation into the syscall-level steps of its write transaction "
                "(temp file create/write, pre-commit renames, SQL COMMIT, after-commit removes) for 1-3 filesystem part "
                "directories, with Crash at every step boundary and Restart. TLC proves VisibleReadable and AllOrNothing "
                "on the intended design (a recovery pass at Start that moves a *.txbackup file back when its part file is "
                "missing) for every step boundary of every operation "
                "kind, generates programs, and every program is replayed on the real storage: a child process is SIGKILLed "
                "at each hook point of the operation's write transaction, a fresh process observes directories and API "
                "state, and TLC validates hook order, directory contents and API view against the model of the code and "
                "evaluates the property; a stack with the notification middleware in front runs the same operations nested in "
                "an outer transaction. Exhaustive over crash points of the generated programs; level = model checking "
                "+ replay conformance.",
        "note": "crash = SIGKILL of the process (page cache survives; power loss / fsync ordering is not modelled); unversioned "
                "bucket, two keys, contents c2/c3(/c4); GC does not run during the operation; TLC, Go and SQLite atomic commit trusted",
        "technique": "TLA+ step-level model with Crash/Restart, TLC exhaustive MC, TLC-generated programs, SIGKILL replay at "
                     "verifhook points, TLC trace validation",
    },
}

REQUIRED = ["put-new", "overwrite", "delete", "copy-shared", "copy-cross", "complete", "abort", "transition-cross", "put-dedup",
            "bulk-delete"]
QUICK_KINDS = {
    "fs": ["put-new", "overwrite", "delete", "delete-mp", "put-dedup", "copy-shared", "copy-shared-overwrite", "complete",
           "complete-overwrite", "abort", "uploadpart-replace", "transition-shared", "bulk-delete-mp"],
    "classes": ["copy-cross", "transition-cross"],
    # notification middleware in front: the operation is nested in the middleware's outer transaction
    "fs-notif": ["delete", "bulk-delete-mp", "overwrite", "put-dedup"],
}
QUICK_GC = {"delete", "overwrite", "transition-cross"}


def pick_programs(ctx, stack, programs, rng):
    """Seeded choice of programs per kind; prefers programs whose last operation touches files (n > 2)."""
    by_kind = collections.defaultdict(list)
    for p in programs:
        by_kind[p["kind"]].append(p)
    chosen = []
    if ctx.quick():
        kinds, per = QUICK_KINDS.get(stack, []), 1
    else:
        kinds, per = sorted(by_kind), {"fs": 4, "classes": 3, "ec21": 2, "fs-notif": 2}[stack]
    for kind in kinds:
        cand = sorted(by_kind.get(kind, []), key=lambda p: json.dumps(p, sort_keys=True))
        if not cand:
            continue
        rich = [p for p in cand if p["n"] > 2] or cand
        if ctx.quick():   # the longest transaction of the kind: it has both the part writes and the part deletes
            rich = [p for p in rich if p["n"] == max(q["n"] for q in rich)]
        rng.shuffle(rich)
        # distinct shapes (number of instructions, program length) first, then fill up
        picked, seen = [], set()
        for p in rich:
            if (p["n"], len(p["prog"])) not in seen and len(picked) < per:
                seen.add((p["n"], len(p["prog"])))
                picked.append(p)
        for p in rich:
            if len(picked) < per and p not in picked:
                picked.append(p)
        chosen += picked
    return chosen


def run(ctx):
    rng = random.Random(ctx.seed * 7919 + 17)
    devs = ctx.deviations("D-C10")
    if os.environ.get("VERIF_C10_ASSUME_FIXED"):
        # testing aid for a repaired tree (VERIF_REPO=<tree with proposed_fixes/D-C10-delete-window.diff applied>):
        # conformance then runs against the intended design, i.e. with the recovery pass at Start
        devs = "{}"
    stacks = ctx.pick(["fs", "classes", "fs-notif"], ["fs", "classes", "ec21", "fs-notif"])
    workers = 4 if ctx.quick() else 8
    # 1. design-level MC: every step boundary of every operation kind, intended design (recovery at Start)
    for stack in stacks:
        if os.environ.get("VERIF_SKIP_MC") or (stack == "fs-notif" and ctx.quick()):
            continue   # fs-notif differs from fs by one effect-free after-commit step
        ms = ctx.pick(1, 2)
        r = ctx.mc("TxFs", "TxFs.MC.cfg", workers=workers, timeout=ctx.pick(600, 3000),
                   subst={"Stack": '"%s"' % stack, "MaxSetup": str(ms)})
    # the model of the code (no recovery) must violate the property: guards against a vacuous invariant
    r = ctx.tlc("TxFs", "TxFs.MC.cfg", workers=workers, timeout=600, count_mc=False,
                subst={"Stack": '"fs"', "MaxSetup": "1", "Deviations": '{"%s"}' % TAG})
    if r.outcome != "invariant":
        raise vlib.Infra("TxFs with the deviation enabled does not violate the property (%s): vacuous?\n%s" % (r.outcome, r.output[-1500:]))
    ctx.log("MC with %s enabled: %s violated, as it must be" % (TAG, r.violated))

    crashd = ctx.gobuild("crashd")
    txfs = ctx.gobuild("txfs")
    all_lines, table = [], {}
    kinds_run = collections.Counter()
    ncase = 0
    strays = []
    for stack in stacks:
        # 2. GEN: TLC enumerates programs (set-up + operation under test) with their kind
        gen_setup = 2 if (stack == "fs" or not ctx.quick()) else 1
        if stack == "ec21":
            gen_setup = 1
        if stack == "fs-notif":
            gen_setup = ctx.pick(1, 2)
        contents = '{"c2", "c3", "c4"}' if stack == "ec21" else '{"c2", "c3"}'   # c4 spans several EC stripes
        g = ctx.tlc("TxFsGen", "TxFs.Gen.cfg", workers=1, timeout=ctx.pick(600, 3000), count_mc=False,
                    subst={"Stack": '"%s"' % stack, "MaxSetup": str(gen_setup), "Contents": contents})
        if not g.ok() or not g.printed:
            raise vlib.Infra("program generation failed on %s: %s\n%s" % (stack, g.outcome, g.output[-2000:]))
        chosen = pick_programs(ctx, stack, g.printed, rng)
        ctx.log("GEN %s: %d programs of %d kinds, %d chosen (%.1fs)" %
                (stack, len(g.printed), len(set(p["kind"] for p in g.printed)), len(chosen), g.wall))
        if not chosen:
            raise vlib.Infra("no program chosen for stack " + stack)
        # 3. Detail: symbolic calls, hook points and predicted outcome of every crash point
        sel = ctx.path("sel-%s.ndjson" % stack)
        vlib.write_ndjson(sel, [{"prog": p["prog"]} for p in chosen])
        d = ctx.tlc("TxFsTrace", "TxFs.Detail.cfg", workers=1, timeout=900, count_mc=False, env={"TRACE_FILE": sel},
                    subst={"Stack": '"%s"' % stack})
        if not d.ok() or len(d.printed) != len(chosen) or any("malformed" in x for x in d.printed):
            raise vlib.Infra("detail run failed on %s: %s\n%s" % (stack, d.outcome, d.output[-2000:]))
        cases = []
        gc_kinds_done = set()
        for det in d.printed:
            ncase += 1
            gc = (det["kind"] in QUICK_GC) if ctx.quick() else (det["kind"] not in gc_kinds_done)
            gc_kinds_done.add(det["kind"])
            cases.append({"id": ncase, "stack": stack, "kind": det["kind"], "prog": det["prog"], "calls": det["calls"], "gc": gc})
            off = det["off"]
            table.setdefault("%s/%s" % (stack, det["kind"]), {
                "program": [o["op"] for o in det["prog"]],
                "points": det["points"],
                "design": det["design"][off:],   # outcome of a crash at point i, last = after return
                "code": det["code"][off:]})
        cf = ctx.path("cases-%s.ndjson" % stack)
        vlib.write_ndjson(cf, cases)
        # 4. replay on the real code: SIGKILL at every hook point
        tf, sf = ctx.path("trace-%s.ndjson" % stack), ctx.path("strays-%s.ndjson" % stack)
        p = ctx.run([txfs, crashd, cf, tf, sf, ctx.path("work-" + stack), str(ctx.pick(8, 12))], timeout=ctx.pick(900, 3600))
        ctx.log("replay %s: %s" % (stack, p.stdout.strip().splitlines()[-1]))
        trace = vlib.read_ndjson(tf)
        strays += vlib.read_ndjson(sf)
        per_case = collections.Counter(r["case"] for r in trace)
        for c in cases:
            rec = [r for r in trace if r["case"] == c["id"] and r["k"] == 0]
            if len(rec) != 1 or per_case[c["id"]] != rec[0]["npoints"] + 1:
                raise vlib.Infra("case %d: %d lines for %s hook points" % (c["id"], per_case[c["id"]], rec and rec[0]["npoints"]))
            kinds_run[c["kind"]] += 1
        # 5. TV against the model of the code; 6. binding self-test in the same TLC run (first stack): two
        #    recorded lines with one corrupted observed field each are appended and must be rejected
        ncorrupt = 0
        if stack == stacks[0]:
            crash_lines = [r for r in trace if r["k"] > 0 and r["npoints"] > 2]
            a, b = copy.deepcopy(crash_lines[0]), copy.deepcopy(crash_lines[-1])
            d0 = sorted(a["files"])[0]
            a["files"][d0]["tmp"] += 1
            b["points"][-1] = "tx.rolledback"
            vlib.write_ndjson(tf, trace + [a, b])
            ncorrupt = 2
        n, flagged = ctx.validate_cases("TxFsTrace", "TxFs.Trace.cfg", tf, timeout=ctx.pick(900, 3000),
                                        subst={"Stack": '"%s"' % stack, "Deviations": devs})
        selftest = [f for f in flagged if f["l"] > len(trace)]
        flagged = [f for f in flagged if f["l"] <= len(trace)]
        all_lines += trace
        # verdicts of this stack right away (a later infrastructure failure must not unsay them)
        for f in flagged:
            line = trace[f["l"] - 1]
            wit = {"stack": line["stack"], "kind": line["kind"], "program": [o["op"] for o in line["prog"]], "crash_at_point": f["k"],
                   "point": f["point"], "view_after_restart": line["view"]["objs"], "why": line["view"].get("why"), "files": line["files"]}
            if f["verdict"] == "finding":
                ctx.finding(f["tag"], wit)
            else:
                rp = ctx.path("replay-%d-%d.ndjson" % (f["case"], f["k"]))
                vlib.write_ndjson(rp, [line])
                ctx.violation(rp, "%s at case %d (%s on %s) crash point %d (%s): model of the code expects %s, observed %s" %
                              (f["verdict"], f["case"], line["kind"], line["stack"], f["k"], f["point"],
                               json.dumps(f.get("expected"))[:700], json.dumps(f.get("got"))[:700]))
        if ncorrupt:
            got = sorted((f["l"] - len(trace), f["verdict"]) for f in selftest)
            clean = not any(f["case"] in (a["case"], b["case"]) for f in flagged)
            ok = (got == [(1, "mismatch-files"), (2, "mismatch-points")]) if clean else \
                ([g[0] for g in got] == [1, 2] and all(g[1].startswith("mismatch") for g in got))
            if not ok:
                raise vlib.Infra("binding self-test: corrupted lines not flagged as expected: %s" % got)
            ctx.traces -= ncorrupt
            ctx.events -= ncorrupt
            ctx.log("binding self-test ok: corrupted directory listing and corrupted hook order are rejected")
    missing = [k for k in REQUIRED if not any(x == k or x.startswith(k + "-") for x in kinds_run)]
    if missing:
        raise vlib.Infra("operation kinds never replayed: %s" % missing)

    # stray-file report (observation only; property C09 is judged elsewhere)
    rep = collections.OrderedDict()
    def nz(fc):
        return {d: {k: v for k, v in c.items() if v and k != "finalref"} for d, c in fc.items() if any(v for k, v in c.items() if k != "finalref")}
    for s in strays:
        if s["k"] == 0:
            continue
        key = "%s/%s@%d:%s" % (s["stack"], s["kind"], s["k"], s["point"])
        e = {"after_crash": nz(s["files"])}
        if "gc_files" in s:
            e["after_gc"] = nz(s["gc_files"])
            e["gc_changed_api_view"] = not s["gc_view_same"]
        rep.setdefault(key, e)
    # evidence keeps the crash points that were followed by a GC run (all of them are in the scratch strays-*.ndjson)
    ctx.extra["stray_report"] = collections.OrderedDict(list((k, v) for k, v in rep.items() if "after_gc" in v)[:300])
    never = sorted(set(k.split("@")[1].split(":")[1] + " " + json.dumps(v["after_gc"], sort_keys=True)
                       for k, v in rep.items() if v.get("after_gc")))
    ctx.extra["strays_surviving_gc"] = never
    ctx.log("stray files surviving two GC runs (point, classes): %s" % never[:12])
    ctx.extra["crash_points"] = table
    crash = [r for r in all_lines if r["k"] > 0]
    ctx.evaluations = len(all_lines)
    ctx.extra["crash_runs"] = len(crash)
    ctx.extra["cases"] = ncase
    ctx.extra["kinds_replayed"] = dict(kinds_run)
    ctx.extra["distinct_nontrivial"] = len(set((r["stack"], r["kind"], r["k"]) for r in crash if r["npoints"] > 2))
    ctx.extra["outcomes_observed"] = dict(collections.Counter(
        "unreadable" if any(v == ["unreadable"] for v in r["view"]["objs"].values())
        else ("pre" if r["obs_h"] == r["pre_h"] else "post" if r["obs_h"] == r["post_h"] else "neither") for r in crash))
    for r in crash[:2] + [x for x in crash if any(v == ["unreadable"] for v in x["view"]["objs"].values())][:2]:
        ctx.sample({k: r[k] for k in ("stack", "kind", "k", "points", "view", "files")})
    ctx.level = "model_checking"
    ctx.assumptions += [
        "crash = SIGKILL of the process at a verifhook point; the page cache survives (no power loss / fsync ordering)",
        "hook points counted only for the write transaction of the operation under test (read-only transactions ignored)",
        "unversioned bucket, keys k1/k2, blob symbols of pdrv; erasure-coded stack only in the thorough tier",
        "Last-Modified is excluded from the full projection compared between the recording run and the crashed run",
    ]
    return ("programs = up to %d set-up operations + one operation under test, enumerated by TLC from TxFsGen and chosen per "
            "operation kind (seeded); every hook point of the operation's write transaction is a crash case; non-trivial = "
            "the operation writes or deletes part files") % 2
