"""C22 — NotifyOutbox.tla: notification outbox entries exactly for committed mutations; at-least-once or dead-letter; bounded backoff."""
import copy
import json
import os
import random
import re
import threading
import vlib

PROPS = ("C22",)
CHECKS = {
    "C22": {
        "text": "NotifyOutbox.tla models the notification middleware at the grain of the code: the mutation transaction "
                "(inner mutation, notification-configuration read, one Save per (event, matching rule) and EventBridge, "
                "pre-commit/SQL commit, rollback) and the dispatcher (Claim with lease and attempts+1, tx-free Publish, "
                "Delete | DeadLetter at MaxAttempts | Release with min(MaxBackoff, MinBackoff*2^(attempts-1)), worker crash "
                "and lease expiry). TLC proves EntryIffCommitted, DeletedOnlyAfterDelivery, DeadLetterOnlyAfterMax, "
                "AttemptsNeverExceedMax, BackoffBounded and the liveness property AtLeastOnceOrDead (fair dispatcher, "
                "unconstrained config) for every fault placement and publisher script within the bounds. Conformance: TLC "
                "random walks over the same actions generate cases (rules with event/prefix/suffix filters, versioning, "
                "EventBridge, MaxAttempts, backoff limits, lease, mutation programs over all event-emitting mutation kinds "
                "with fault placements, publisher scripts incl. crashes, model-informed clock advances, long-outage presets of the "
                "attempt counter) plus a deterministic spec-generated backoff sweep (attempt numbers 1..3, around the cap, "
                "22/23, 33..36, 44/45, 62..65, 100 x MinBackoff/MaxBackoff configurations incl. default and inverted limits x "
                "MaxAttempts unlimited/120, the exact Backoff(attempt) checked by BackoffBounded); the Go driver runs "
                "them on the real StorageMiddleware + real SQLRepository on sqlite and TLC validates every logged step "
                "(outbox table after every mutation, every Claim/Publish/Delete/Release/DeadLetter, final drain) against the "
                "spec with all invariants evaluated in every state. Level: model checking of the design + trace-validated "
                "sampling of the implementation.",
        "note": "single dispatcher instance with BatchSize=1/Concurrency=1 on real code (two workers only in the model); "
                "faults are injected through the Repository/Publisher/Storage interfaces and the tx.precommit/tx.sqlcommit "
                "verifhook points; the dispatcher clock is injected through the Repository decorator (1 unit = 1 h, backoff "
                "read from the arguments of one ReleaseClaim call); liveness on real code = settled after script+2 drain "
                "rounds with the clock advanced; real AWS publishers (RegistryPublisher) are outside this check; "
                "TLC, the Go toolchain and sqlite are trusted",
        "technique": "TLA+ state machine, TLC exhaustive safety + liveness checking, TLC -simulate case generation, "
                     "replay on real code with test doubles and fault hooks, TLC trace validation",
    },
}

CHUNK_LINES = 6000


def _cases_from(printed):
    cases = []
    for h in printed:
        if not isinstance(h, list) or not h or h[0].get("op") != "Cfg":
            continue
        cases.append({"cfg": h[0]["cfg"], "script": h[0]["script"], "prog": h[1:]})
    return cases


def _split_cases(trace):
    """list of (first_index, lines) per case (a case starts with a Reset line)."""
    out, cur, start = [], [], 0
    for i, r in enumerate(trace):
        if r["t"] == "Reset" and cur:
            out.append((start, cur))
            cur, start = [], i
        cur.append(r)
    if cur:
        out.append((start, cur))
    return out


def _chunks(per_case):
    chunks, cur, n = [], [], 0
    for start, lines in per_case:
        if cur and n + len(lines) > CHUNK_LINES:
            chunks.append(cur)
            cur, n = [], 0
        cur.append((start, lines))
        n += len(lines)
    if cur:
        chunks.append(cur)
    return chunks


class _TV:
    """Result of validating one trace file."""

    def __init__(self, r, nlines):
        self.r = r
        self.nlines = nlines
        self.consumed = max(r.depth - 1, 0)
        self.kind = "ok"
        self.where = None  # 0-based index of the offending line within the file
        if r.outcome == "ok":
            if self.consumed != nlines:
                self.kind, self.where = "stuck", self.consumed
        elif r.outcome == "invariant":
            ls = re.findall(r"^/\\ l = (\d+)", r.output, re.M)
            self.kind = "invariant"
            self.where = (int(ls[-1]) - 2) if ls else None  # state after consuming line l-1
        else:
            self.kind = "infra"


def _validate(ctx, path, nlines, timeout=1200, coverage=False):
    r = ctx.tlc("NotifyOutboxTrace", "NotifyOutbox.Trace.cfg", workers=1, timeout=timeout, env={"TRACE_FILE": path},
                count_mc=False, coverage=coverage)
    return _TV(r, nlines)


def _parallel(jobs, width=3):
    """jobs: list of zero-arg callables; returns results in order."""
    res = [None] * len(jobs)
    err = []
    sem = threading.Semaphore(width)

    def work(i):
        with sem:
            try:
                res[i] = jobs[i]()
            except BaseException as e:  # noqa
                err.append(e)

    ths = [threading.Thread(target=work, args=(i,)) for i in range(len(jobs))]
    for t in ths:
        t.start()
    for t in ths:
        t.join()
    if err:
        raise err[0]
    return res


def _stats(trace):
    s = {"cases": 0, "mutations": 0, "committed_with_entries": 0, "committed_no_match": 0, "natural_inner_failures": 0,
         "entries": 0, "publish_ok": 0, "publish_fail": 0, "publish_crash": 0, "release": 0, "deadletter": 0, "delete": 0,
         "lease_expiry_claims": 0, "claim_none": 0, "advance": 0, "final": 0}
    rolled = {}
    kinds_committed = set()
    evs = set()
    claimed = set()
    nrows = 0
    att = {}
    rel_attempts = set()
    for r in trace:
        t = r["t"]
        if t == "Reset":
            s["cases"] += 1
            att = {}
            claimed = set()
            nrows = 0
        elif t == "Mutate":
            s["mutations"] += 1
            new = len(r["rows"]) - nrows
            if r["result"] == "ok":
                kinds_committed.add(r["kind"])
                if new > 0:
                    s["committed_with_entries"] += 1
                    s["entries"] += new
                    for row in r["rows"][-new:]:
                        evs.add(row["ev"]["cat"] + ":" + row["ev"]["sub"])
                else:
                    s["committed_no_match"] += 1
            elif r["fired"]:
                rolled[r["fault"]] = rolled.get(r["fault"], 0) + 1
            else:
                s["natural_inner_failures"] += 1
            nrows = len(r["rows"])
        elif t == "OutboxRows":
            nrows = len(r["rows"])
            claimed = set(row["id"] for row in r["rows"] if row["claimed"])
        elif t == "Preset":
            s["preset"] = s.get("preset", 0) + 1
        elif t == "Claim":
            att[r["id"]] = r["attempts"]
            if r["id"] in claimed:
                s["lease_expiry_claims"] += 1
        elif t == "Publish":
            o = r["outcome"]
            s["publish_ok" if o == "ok" else "publish_fail" if o == "fail" else "publish_crash"] += 1
        elif t == "Release":
            s["release"] += 1
            rel_attempts.add(att.get(r["id"], 0))
        elif t == "DeadLetter":
            s["deadletter"] += 1
        elif t == "Delete":
            s["delete"] += 1
        elif t == "ClaimNone":
            s["claim_none"] += 1
        elif t == "Advance":
            s["advance"] += 1
        elif t == "Final":
            s["final"] += 1
    s["attempt_numbers_at_release"] = sorted(rel_attempts)
    s["rolled_back_by_fault"] = rolled
    s["mutation_kinds_committed"] = sorted(kinds_committed)
    s["event_names_enqueued"] = sorted(evs)
    return s


def _nontrivial_cases(per_case):
    """cases in which the outbox was exercised beyond the trivial path: at least one entry was enqueued and
    (a fault rolled a mutation back or a publish failed/crashed); distinct by (cfg, program)."""
    seen = set()
    for _, lines in per_case:
        entries = any(r["t"] == "Mutate" and r["rows"] for r in lines)
        rough = any((r["t"] == "Mutate" and r["fired"]) or (r["t"] == "Publish" and r["outcome"] != "ok") for r in lines)
        if entries and rough:
            key = json.dumps([[r.get("kind"), r.get("key"), r.get("fault"), r.get("outcome"), r.get("d")] for r in lines
                              if r["t"] in ("Mutate", "Publish", "Advance")] + [lines[0]["cfg"]], sort_keys=True)
            seen.add(key)
    return len(seen)


def _selftest_variants(per_case, rng):
    """Binding self-test: corrupt one logged field of a recorded case; every variant must be rejected."""
    variants = []
    want = {"release": None, "rows": None, "applied": None, "attempt": None}
    order = list(range(len(per_case)))
    rng.shuffle(order)
    for ci in order:
        _, lines = per_case[ci]
        for i, r in enumerate(lines):
            if want["release"] is None and r["t"] == "Release":
                want["release"] = (ci, i)
            if want["rows"] is None and r["t"] == "Mutate" and r["result"] == "ok" and r["rows"] and \
                    any(x["attempts"] == 0 for x in r["rows"]):
                want["rows"] = (ci, i)
            if want["applied"] is None and r["t"] == "Mutate" and r["fired"]:
                want["applied"] = (ci, i)
            if want["attempt"] is None and r["t"] == "Publish":
                want["attempt"] = (ci, i)
        if all(v is not None for v in want.values()):
            break
    for name, loc in want.items():
        if loc is None:
            continue
        ci, i = loc
        lines = copy.deepcopy(per_case[ci][1])
        r = lines[i]
        if name == "release":
            r["delta"] = r["delta"] * 3 + 3600 * 9      # a backoff far beyond every configured limit
        elif name == "rows":
            r["rows"] = r["rows"][:-1]                   # the last enqueued row disappears from the table
        elif name == "applied":
            r["applied"] = not r["applied"]              # a rolled-back mutation left a visible effect
        elif name == "attempt":
            r["attempt"] = r["attempt"] + 1              # publisher saw another attempt number
        variants.append((name, lines))
    return variants


def run(ctx):
    rng = random.Random(ctx.seed)
    ctx._specdir()

    # ---- 1. design-level model checking (in the background while the real code is driven)
    mc_res = {}
    if ctx.quick():
        groups = [[("NotifyOutbox.MC.cfg", 2, 600), ("NotifyOutbox.MCSafety.cfg", 2, 600)]]
    else:
        groups = [[("NotifyOutbox.MCLive2.cfg", 6, 3000)],
                  [("NotifyOutbox.MCFull.cfg", 4, 3000), ("NotifyOutbox.MCEb.cfg", 4, 1800),
                   ("NotifyOutbox.MCTwoWorkers.cfg", 4, 1800), ("NotifyOutbox.MC.cfg", 4, 900)]]

    def mc_job(group):
        try:
            for cfg, workers, timeout in group:
                mc_res[cfg] = ctx.mc("NotifyOutbox", cfg, workers=workers, timeout=timeout)
        except BaseException as e:  # noqa
            mc_res["error"] = e

    if os.environ.get("VERIF_SKIP_MC"):  # debugging aid only (mutation / seeded runs)
        groups = []
    mc_threads = [threading.Thread(target=mc_job, args=(g,)) for g in groups]
    for t in mc_threads:
        t.start()

    try:
        # ---- 2. GEN: cases from random walks over the spec's own actions
        ncases = ctx.pick(70, 1000)
        cases = []
        batches = ctx.pick([(ncases, 45, 8)], [(400, 45, 8), (300, 70, 12), (300, 30, 5)])
        for bi, (num, depth, maxmut) in enumerate(batches):
            g = ctx.tlc("NotifyOutboxGen", "NotifyOutbox.Gen.cfg", workers=1, timeout=900, simulate="num=%d" % num, depth=depth,
                        seed=ctx.seed * 1000 + bi, count_mc=False, subst={"GenDepth": str(depth), "GenMaxMut": str(maxmut)})
            if g.outcome not in ("ok",):
                raise vlib.Infra("case generation failed: %s\n%s" % (g.outcome, g.output[-3000:]))
            cases += _cases_from(g.printed)
        # deterministic backoff sweep: attempt classes (1,2,3, around the cap, 22..23, 33..36, 44..45, 62..65, 100)
        # x MinBackoff/MaxBackoff configurations (incl. default / inverted limits) x MaxAttempts {unlimited, 120}
        sw = ctx.tlc("NotifyOutboxGen", "NotifyOutbox.Sweep.cfg", workers=1, timeout=300, count_mc=False)
        sweep = _cases_from(sw.printed)
        if sw.outcome != "ok" or len(sweep) < 10:
            raise vlib.Infra("backoff sweep generation failed: %s, %d cases\n%s" % (sw.outcome, len(sweep), sw.output[-2000:]))
        rng.shuffle(sweep)
        nrandom = len(cases)
        cases = sweep + cases
        if nrandom < ncases // 2:
            raise vlib.Infra("case generation produced only %d cases" % len(cases))
        vlib.write_ndjson(ctx.path("cases.ndjson"), cases)
        ctx.log("GEN: %d random-walk cases + %d backoff-sweep cases (%d steps)" % (nrandom, len(sweep), sum(len(c["prog"]) for c in cases)))

        # ---- 3. execute on the real middleware
        drv = ctx.gobuild("notify")
        p = ctx.run([drv, ctx.path("cases.ndjson"), ctx.path("trace.ndjson")], timeout=ctx.pick(600, 2400))
        ctx.log(p.stdout.strip().splitlines()[-1])
        trace = vlib.read_ndjson(ctx.path("trace.ndjson"))
        per_case = _split_cases(trace)
        if len(per_case) != len(cases):
            raise vlib.Infra("driver executed %d of %d cases" % (len(per_case), len(cases)))

        # ---- 4. TV, in chunks of whole cases
        chunks = _chunks(per_case)
        jobs = []
        files = []
        for ci, ch in enumerate(chunks):
            path = ctx.path("trace-%03d.ndjson" % ci)
            lines = [r for _, ls in ch for r in ls]
            vlib.write_ndjson(path, lines)
            files.append((path, lines, ch))
            jobs.append(lambda path=path, n=len(lines), cov=(ci == 0): _validate(ctx, path, n, coverage=cov))
        # binding self-test variants run alongside
        variants = _selftest_variants(per_case, rng)
        if len(variants) < 3:
            raise vlib.Infra("binding self-test: the recorded trace offers only %d corruptible events" % len(variants))
        vjobs = []
        for name, lines in variants:
            path = ctx.path("selftest-%s.ndjson" % name)
            vlib.write_ndjson(path, lines)
            vjobs.append(lambda path=path, n=len(lines): _validate(ctx, path, n, timeout=300))
        results = _parallel(jobs + vjobs, width=ctx.pick(3, 5))
        tv, st = results[:len(jobs)], results[len(jobs):]

        for (name, _), v in zip(variants, st):
            if v.kind == "infra":
                raise vlib.Infra("binding self-test %s: TLC failed: %s\n%s" % (name, v.r.outcome, v.r.output[-2000:]))
            if v.kind == "ok":
                raise vlib.Infra("binding self-test: corrupted trace (%s) was accepted" % name)
        ctx.extra["binding_selftest"] = {name: (v.kind + (":" + v.r.violated if v.r.violated else "")) for (name, _), v in zip(variants, st)}
        ctx.log("binding self-test: %s" % ctx.extra["binding_selftest"])

        cov = {}
        for (path, lines, ch), v in zip(files, tv):
            if v.kind == "infra":
                raise vlib.Infra("trace validation failed to run: %s %s\n%s" % (v.r.outcome, v.r.violated, v.r.output[-3000:]))
            ctx.states += v.r.distinct
            ctx.transitions += v.r.generated
            for k, c in v.r.coverage.items():
                cov[k] = max(cov.get(k, 0), c[1])
            if v.kind == "ok":
                ctx.traces += len(ch)
                ctx.events += len(lines)
                continue
            # locate the offending case, re-validate it alone (reproduction), report
            where = v.where if v.where is not None else 0
            acc = 0
            bad = ch[-1]
            for start, ls in ch:
                if acc <= where < acc + len(ls):
                    bad = (start, ls)
                    break
                acc += len(ls)
            rp = ctx.path("replay-%d.ndjson" % bad[0])
            vlib.write_ndjson(rp, bad[1])
            again = _validate(ctx, rp, len(bad[1]), timeout=300)
            if again.kind == "ok":
                raise vlib.Infra("violation in %s (line %d, %s) did not reproduce on the isolated case" % (path, where, v.kind))
            if again.kind == "infra":
                raise vlib.Infra("re-validation failed: %s\n%s" % (again.r.outcome, again.r.output[-2000:]))
            line = bad[1][again.where] if again.where is not None and again.where < len(bad[1]) else {}
            if again.kind == "invariant":
                msg = "property invariant %s of NotifyOutbox.tla violated by the real code at trace line %s: %s" % (
                    again.r.violated, again.where, json.dumps(line)[:900])
            elif line.get("t") == "Final":
                msg = "AtLeastOnceOrDead: after %s drain rounds with the clock advanced an entry is neither delivered nor " \
                      "dead-lettered (case %s)" % (line.get("rounds"), bad[1][0].get("case"))
            else:
                msg = "the model cannot explain trace line %s of case %s (%d lines accepted before it): %s" % (
                    again.where, bad[1][0].get("case"), again.consumed, json.dumps(line)[:900])
            ctx.violation(rp, msg)

        # ---- 5. coverage, measured on what the real code did
        s = _stats(trace)
        ctx.extra["trace_stats"] = s
        ctx.extra["tv_action_coverage"] = cov
        ctx.extra["distinct_nontrivial"] = _nontrivial_cases(per_case)
        ctx.evaluations = len(trace)
        needed = {"committed_with_entries": s["committed_with_entries"], "committed_no_match": s["committed_no_match"],
                  "natural_inner_failures": s["natural_inner_failures"], "publish_ok": s["publish_ok"],
                  "publish_fail": s["publish_fail"], "publish_crash": s["publish_crash"], "release": s["release"],
                  "deadletter": s["deadletter"], "delete": s["delete"], "lease_expiry_claims": s["lease_expiry_claims"],
                  "final": s["final"]}
        for f in ("inner", "config", "save1", "commit", "precommit"):
            needed["rollback:" + f] = s["rolled_back_by_fault"].get(f, 0)
        all_events = {"ObjectCreated:Put", "ObjectCreated:Copy", "ObjectCreated:CompleteMultipartUpload", "ObjectRemoved:Delete",
                      "ObjectRemoved:DeleteMarkerCreated", "ObjectTagging:Put", "ObjectTagging:Delete",
                      "LifecycleExpiration:Delete", "LifecycleExpiration:DeleteMarkerCreated", "LifecycleTransition:"}
        seen_events = set(s["event_names_enqueued"]) & all_events
        needed["event_names(%d of %d)" % (len(seen_events), len(all_events))] = \
            1 if len(seen_events) >= ctx.pick(7, len(all_events)) else 0
        ra = set(s["attempt_numbers_at_release"])
        needed["backoff_at_attempts_1..3"] = 1 if {1, 2, 3} <= ra else 0
        needed["backoff_at_attempts_33..36"] = 1 if {33, 34, 35, 36} <= ra else 0
        needed["backoff_at_attempts_62..65"] = 1 if {62, 63, 64, 65} <= ra else 0
        needed["backoff_at_attempt_100"] = 1 if 100 in ra else 0
        missing = [k for k, v in needed.items() if v == 0]
        if missing and not ctx.violations:
            raise vlib.Infra("behaviour the property depends on was never exercised: %s" % missing)
        if not ctx.violations:
            for a in ("TMutate", "TClaim", "TPublish", "TDelete", "TRelease", "TDeadLetter", "TCrash", "TFinal", "TClaimNone"):
                if a in cov and cov[a] == 0:
                    raise vlib.Infra("trace action %s never taken" % a)
        ctx.log("coverage: %s" % json.dumps({k: v for k, v in s.items() if not isinstance(v, list)}))
        ok_cases = [c for c in per_case if any(r["t"] == "Release" for r in c[1])]
        for c in (ok_cases[:2] or per_case[:2]):
            ctx.sample([{k: v for k, v in r.items() if k != "rows"} for r in c[1][:12]])
    finally:
        for t in mc_threads:
            t.join()
    if "error" in mc_res:
        raise mc_res["error"]

    ctx.assumptions += [
        "the dispatcher's clock is injected through the Repository decorator (all time arguments shifted by the virtual offset); "
        "1 logical unit = 1 h; a case that takes more than 450 s of real time aborts the run (exit 2)",
        "backoff is read as nextAttemptAt - now from the arguments of one ReleaseClaim call (no cross-call clocks)",
        "worker crash = panic inside Publisher.Publish recovered by the driver + a new StorageMiddleware instance (new claim owner)",
        "BatchSize=1, Concurrency=1 (the defaults) on real code; two concurrent workers are explored in the model only",
        "AppendObject emits no event (events.go defines none): modelled as a pass-through outside the notification transaction",
        "large attempt numbers are reached by raising the attempts column of idle pending rows directly in the table "
        "(Preset = long outage); Backoff is a function of the attempt number only",
        "attempts may exceed MaxAttempts by one per lease expiry (crashed worker): AttemptsNeverExceedMax is stated as "
        "attempts <= MaxAttempts + lease expiries of that entry",
    ]
    return ("TLC -simulate walks over NotifyOutbox.tla's actions (seeded) emit cases = (rules/filters/versioning/EventBridge/"
            "MaxAttempts/backoff/lease/stack, publisher script incl. crashes, program of mutations x fault placement, "
            "dispatcher passes, model-informed clock advances, long-outage presets) + the spec's deterministic backoff sweep "
            "over attempt-number classes x backoff limits; each runs on the real StorageMiddleware and is "
            "trace-validated; non-trivial = at least one entry enqueued and (a fault rolled a mutation back or a publish "
            "failed/crashed), distinct by configuration + program")
