----------------------------- MODULE Integrity -----------------------------
(***************************************************************************)
(* C39 - the integrity validator flags exactly the corrupted objects.      *)
(*                                                                         *)
(* Models internal/storage/integrity/validator.go:                         *)
(*   Validator.ValidateAll   -> ValidateAll   (list buckets, list CURRENT  *)
(*                              objects, validate each, delete if asked)   *)
(*   Validator.validateObject-> ValidateObject (one GetPart + checksum     *)
(*                              comparison per part row of the latest row) *)
(*   verifyObjectChecksums   -> ObjectChecksumOK                           *)
(*   findPartStore           -> PartStoreFound                             *)
(* as constructed by cmd/pithos.go:validateStorage                         *)
(*   NewValidator(storage, dbContainer, deleteCorrupted, force).           *)
(*                                                                         *)
(* The storage is a Pithos.tla state S built by an API program.  What is   *)
(* on disk is S plus a CORRUPTION SET over physical parts.  A physical     *)
(* part is named by (part store, byte content): metadatapart deduplicates  *)
(* parts per store by (sha256,size), copies share part ids, so all part    *)
(* rows of one store with equal bytes are backed by the same stored bytes  *)
(* - and the harness damages every file of that store holding those bytes. *)
(* The validator covers the objects ListObjects returns, i.e. the CURRENT  *)
(* non-delete-marker version of every key; noncurrent versions and pending *)
(* uploads are not validated (their parts can still be corrupted and, if   *)
(* shared, flag the current objects sharing them).                         *)
(***************************************************************************)
EXTENDS PithosMC

CONSTANT IDeviations     \* deviation tags of this module the code is known to have

Stacks == {"fs", "classes"}
Kinds  == {"flip", "truncate", "extend", "missing"}

\* part store that holds the bytes of a part routed by storage class `class` (harness/stacks:
\* "classes" routes GLACIER to the extra store "cold"); Pithos.tla records the routing class of
\* every part row in v.pcls
StoreOf(stack, class) == IF stack = "classes" /\ class = "GLACIER" THEN "cold" ELSE "default"

\* bytes of a part: the empty blob contributes nothing
PBytes(p) == SelectSeq(p, LAMBDA c : c # "c0")

\* physical part behind part row i of version v
PartRef(stack, v, i) == [store |-> StoreOf(stack, v.pcls[i]), c |-> PBytes(v.parts[i])]
PartRefs(stack, v) == {PartRef(stack, v, i) : i \in 1..Len(v.parts)}

\* every physical part some row references: all versions of all keys + pending uploads
AllParts(St, stack) ==
  UNION {UNION {UNION {PartRefs(stack, St.objs[b][k][i]) : i \in {n \in 1..Len(St.objs[b][k]) : ~St.objs[b][k][n].dm}}
                : k \in Keys} : b \in Buckets}
  \cup UNION {{[store |-> StoreOf(stack, St.ups[u].class), c |-> PBytes(St.ups[u].parts[j].c)]
                : j \in 1..Len(St.ups[u].parts)} : u \in 1..Len(St.ups)}

\* kinds that change the stored bytes of a part with these bytes
KindsFor(p) == IF p.c = <<>> THEN {"extend", "missing"} ELSE Kinds

\* A corruption set: records [store, c, kind], at most one kind per physical part.
Damage(corr, p) == IF \E x \in corr : x.store = p.store /\ x.c = p.c
                   THEN (CHOOSE x \in corr : x.store = p.store /\ x.c = p.c).kind ELSE "none"
CorrSetsK(St, stack, kinds) ==
  UNION {{ {[store |-> p.store, c |-> p.c, kind |-> f[p]] : p \in Q} : f \in {g \in [Q -> kinds] : \A p \in Q : g[p] \in KindsFor(p)} }
         : Q \in SUBSET AllParts(St, stack)}
CorrSets(St, stack) == CorrSetsK(St, stack, Kinds)

\* ------------------------------------------------------------ the objects covered
\* ListBuckets x ListAllObjectsOfBucket: current, non-delete-marker versions
Cur(St) == {o \in Buckets \X Keys : Exists(St, o[1]) /\ HasCurrent(St.objs[o[1]][o[2]])}
CurV(St, o) == Current(St.objs[o[1]][o[2]])

\* ------------------------------------------------------------ intended meaning (the property)
\* "stored part bytes no longer match the recorded checksums": some referenced part is damaged
ObjCorrupted(St, stack, corr, o) == \E p \in PartRefs(stack, CurV(St, o)) : Damage(corr, p) # "none"
Report(St, stack, corr) == {o \in Cur(St) : ObjCorrupted(St, stack, corr, o)}

\* ------------------------------------------------------------ the code, at its grain
\* stored bytes of a part as a term; recorded checksums are those of the undamaged bytes;
\* checksums are assumed collision free on the harness' byte strings
Stored(corr, p) == [c |-> p.c, dmg |-> Damage(corr, p)]
Recorded(p) == [c |-> p.c, dmg |-> "none"]
\* validateObject, per part row: GetPart fails for a missing file, otherwise the streamed
\* checksums are compared with the row's
PartFailure(corr, p) ==
  IF Damage(corr, p) = "missing" THEN "getpart"
  ELSE IF Stored(corr, p) # Recorded(p) THEN "checksum" ELSE ""
\* verifyObjectChecksums on an object whose parts all verified: recomputes the object's
\* checksums from the part rows.  The code takes the "single part" branch for every object
\* with exactly one part row and compares the part's plain MD5 with the object's ETag - which
\* is a composite "-1" ETag for appended objects and one-part multipart uploads
\* ("D-C39-single-part-composite-etag").
ObjectChecksumOK(D, v) ==
  IF "D-C39-single-part-composite-etag" \in D THEN ~(Len(v.parts) = 1 /\ ~v.single) ELSE TRUE
ValidateObject(D, St, stack, corr, o) ==
  LET v == CurV(St, o)
      pf == {i \in 1..Len(v.parts) : PartFailure(corr, PartRef(stack, v, i)) # ""}
  IN IF pf # {} THEN FALSE ELSE ObjectChecksumOK(D, v)

\* findPartStore: reflection for a struct field implementing PartStore.  metadataPartStorage
\* holds *NamedPartStores, which is not a PartStore ("D-C39-partstore-lookup"): never found.
PartStoreFound(D) == "D-C39-partstore-lookup" \notin D

\* deletion of the failed objects, in listing order (bucket, key); DeleteObject without a
\* version id (delete marker in versioned buckets)
ObjOrder == <<<<"b1", "k1">>, <<"b1", "k2">>, <<"b2", "k1">>, <<"b2", "k2">>>>
RECURSIVE DeleteAll(_, _, _)
DeleteAll(St, failed, i) ==
  IF i > Len(ObjOrder) THEN St
  ELSE IF ObjOrder[i] \in failed
       THEN DeleteAll(DeleteObject(St, ObjOrder[i][1], ObjOrder[i][2], -1, "none").s, failed, i + 1)
       ELSE DeleteAll(St, failed, i + 1)

NoReport == [err |-> "nopartstore", failed |-> {}, passed |-> {}, deleted |-> {}]
ValidateAll(D, St, stack, corr, del) ==
  IF ~PartStoreFound(D) THEN [s |-> St, r |-> NoReport]
  ELSE LET failed == {o \in Cur(St) : ~ValidateObject(D, St, stack, corr, o)}
       IN [s |-> IF del THEN DeleteAll(St, failed, 1) ELSE St,
           r |-> [err |-> "", failed |-> failed, passed |-> Cur(St) \ failed,
                  deleted |-> IF del THEN failed ELSE {}]]

\* ------------------------------------------------------------ the property C39
\* every corrupted object reported, no intact object reported; with deleteCorrupted exactly
\* the corrupted objects are deleted and the intact ones keep their current version
Untouched(St, St2, o) == HasCurrent(St2.objs[o[1]][o[2]]) /\ CurV(St2, o) = CurV(St, o)
C39Holds(St, stack, corr, del, a) ==
  LET rep == Report(St, stack, corr) IN
  IF a.r.err # "" THEN rep = {} /\ a.s = St
  ELSE /\ a.r.failed = rep
       /\ a.r.passed = Cur(St) \ rep
       /\ a.r.deleted = (IF del THEN rep ELSE {})
       /\ IF del THEN /\ Cur(a.s) = Cur(St) \ rep
                      /\ \A o \in Cur(St) \ rep : Untouched(St, a.s, o)
          ELSE a.s = St

\* ------------------------------------------------------------ design-level check
\* A reduced transition system over Pithos.tla (one bucket, the calls that create the part
\* structures the property speaks about: single part, appended, multipart, copied = shared
\* parts, identical content = deduplicated parts, several versions, delete markers, a pending
\* upload).  On every reachable storage state, for every corruption set over its physical
\* parts and both deletion modes, the validator of the intended design satisfies C39.
CONSTANTS MCKinds,        \* corruption kinds enumerated by the design check
          MCStacks        \* stacks enumerated by the design check
\* the calls of PithosMC's alphabet (cfg: Ops, one bucket, no conditions/metadata) narrowed to
\* those that matter here; fields are tested only if the alphabet has them
Has(c, f) == f \in DOMAIN c
ICalls(St) ==
  {c \in Calls(St) :
     /\ c.op = "PutVersioning" => c.status = "Enabled"
     /\ c.op = "CopyObject" => c.svid = -1 /\ c.mdir = "COPY" /\ c.tdir = "COPY"
     /\ c.op = "DeleteObject" => c.vid = -1
     /\ c.op = "AppendObject" => c.off = "none"
     /\ c.op \in {"CreateUpload", "UploadPart", "CompleteUpload"} => c.k = "k2"
     /\ c.op \in {"UploadPart", "CompleteUpload"} => c.u = 1
     /\ c.op = "CompleteUpload" => c.manifest = "all"
     /\ (c.op = "CreateUpload" /\ Has(c, "cktype")) => c.cktype = "none"}
IInit == /\ S = Apply(InitState(Buckets, Keys, Deviations), [op |-> "CreateBucket", b |-> "b1"]).s
         /\ res = NoRes /\ hist = <<>>
INext == /\ S.clock < MaxClock
         /\ \E c \in ICalls(S) : Apply(S, c).r.err = "" /\ Step(c)
ISpec == IInit /\ [][INext]_vars

MCCorrSets(St, stack) == CorrSetsK(St, stack, MCKinds)
DesignHolds ==
  \A stack \in MCStacks : \A corr \in MCCorrSets(S, stack) : \A del \in BOOLEAN :
     C39Holds(S, stack, corr, del, ValidateAll({}, S, stack, corr, del))
\* the same with this module's deviations (must FAIL when IDeviations # {}: shows that the
\* deviations are observable within the bounds)
CodeHolds ==
  \A stack \in MCStacks : \A corr \in MCCorrSets(S, stack) : \A del \in BOOLEAN :
     C39Holds(S, stack, corr, del, ValidateAll(IDeviations, S, stack, corr, del))
\* The model state without time stamps and clock (the design check does not depend on them).
\* Breadth-first search reaches every such state first by a shortest program; PutVersioning is
\* the only call that does not advance the clock and it changes bver for good, so a shortest
\* program also has the least clock: the view loses no behaviour within MaxClock.
IView == [bver |-> S.bver, ups |-> S.ups,
          objs |-> [b \in Buckets |-> [k \in Keys |->
                     [i \in 1..Len(S.objs[b][k]) |-> [vid |-> S.objs[b][k][i].vid, dm |-> S.objs[b][k][i].dm,
                        latest |-> S.objs[b][k][i].latest, parts |-> S.objs[b][k][i].parts,
                        single |-> S.objs[b][k][i].single, class |-> S.objs[b][k][i].class,
                        seq1 |-> S.objs[b][k][i].seq1, pcls |-> S.objs[b][k][i].pcls]]]]]
=============================================================================
