----------------------------- MODULE MigrateGen -----------------------------
(* GEN for C37: a random walk over PithosMC (TLC -simulate, PithosGen's state-aware     *)
(* argument choice) builds the SOURCE state; at GenDepth calls the program is printed    *)
(* together with destination programs, one per destination kind, chosen with knowledge   *)
(* of the source state reached:                                                          *)
(*   empty      no bucket at all                                                          *)
(*   nonempty   a source bucket exists in the destination and holds an object             *)
(*   emptysame  a source bucket exists in the destination, empty                          *)
(*   other      a bucket that is NOT a source bucket exists and holds an object           *)
(*   mixed      one source bucket non-empty, another bucket present                       *)
(* No expected results.                                                                   *)
EXTENDS Migrate, PithosGen

CONSTANT NDst          \* number of destination kinds emitted per program (a prefix of AllKinds)
AllKinds == <<"empty", "nonempty", "emptysame", "other", "mixed">>
DstKinds == SubSeq(AllKinds, 1, NDst)

Create(b) == [op |-> "CreateBucket", b |-> b]
RandPut(b) == [PutTemplate EXCEPT !.b = b, !.k = R(Keys), !.blob = R(Blobs), !.ctype = R(CTypes), !.meta = R(MetaSets),
                                   !.tags = R(TagSets), !.class = R(Classes)]
DstProg(kind, St) ==
  LET live == SrcBuckets(St)
      b == IF live # {} THEN R(live) ELSE R(Buckets)
      others == Buckets \ {b}
      foreign == Buckets \ live
      o == IF foreign # {} THEN R(foreign) ELSE b
  IN CASE kind = "empty"     -> <<>>
       [] kind = "emptysame" -> << Create(b) >>
       [] kind = "nonempty"  -> << Create(b), RandPut(b) >>
       [] kind = "other"     -> << Create(o), RandPut(o) >>
       [] kind = "mixed"     -> << Create(b), RandPut(b) >> \o
                                (IF others # {} THEN LET x == R(others) IN << Create(x) >> ELSE <<>>)

\* operation weights of the source-building walk
MOpW == <<"CreateBucket", "CreateBucket", "PutVersioning", "PutVersioning", "PutVersioning", "DeleteObject", "PutObject", "PutObject", "PutObject", "PutObject",
          "PutObject", "DeleteObject", "DeleteObject", "CopyObject", "CopyObject", "AppendObject", "AppendObject",
          "CreateUpload", "UploadPart", "UploadPart", "CompleteUpload", "CompleteUpload", "PutTagging">>
MOpWSel == SelectSeq(MOpW, LAMBDA o : o \in Ops)
Succeeds(c) == Apply(S, c).r.err = ""
\* now and then: delete (without version id) a current object of a versioned bucket, so that
\* delete markers and noncurrent versions - which must NOT be migrated - occur in most batches
VersionedCur(St) == {o \in Buckets \X Keys : St.bver[o[1]] \in {"Enabled", "Suspended"} /\ HasCurrent(St.objs[o[1]][o[2]])}
MarkerCall(St) == LET o == R(VersionedCur(St)) IN [op |-> "DeleteObject", b |-> o[1], k |-> o[2], vid |-> -1, cond |-> "none"]
MGenNext == LET c1 == IF VersionedCur(S) # {} /\ R(1..6) = 1 THEN MarkerCall(S) ELSE RandCall(RW(MOpWSel), S)
                c2 == RandCall(RW(MOpWSel), S)
                c3 == RandCall(RW(MOpWSel), S)
            IN Step(IF Succeeds(c1) THEN c1 ELSE IF Succeeds(c2) THEN c2 ELSE c3)

MEmit == IF Len(hist) = GenDepth
         THEN PrintT(ToJson([calls |-> hist, kinds |-> DstKinds,
                             dsts |-> [i \in 1..Len(DstKinds) |-> DstProg(DstKinds[i], S)]]))
         ELSE TRUE
=============================================================================
