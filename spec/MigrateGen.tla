----------------------------- MODULE MigrateGen -----------------------------
(* GEN for C37: a random walk over PithosMC (TLC -simulate, state-aware argument         *)
(* choice) builds the SOURCE state; at GenDepth calls the program is printed    *)
(* together with destination programs, one per destination kind, chosen with knowledge   *)
(* of the source state reached:                                                          *)
(*   empty      no bucket at all                                                          *)
(*   nonempty   a source bucket exists in the destination and holds an object             *)
(*   emptysame  a source bucket exists in the destination, empty                          *)
(*   other      a bucket that is NOT a source bucket exists and holds an object           *)
(*   mixed      one source bucket non-empty, another bucket present                       *)
(* No expected results.                                                                   *)
EXTENDS Migrate, Json

CONSTANT GenDepth

\* ---------------------------------------------------------------- generator core
\* Self-contained (PithosMC only): random, state-aware argument choice in the style of
\* PithosGen.  Every call is built from a TEMPLATE taken from PithosMC's own alphabet
\* Calls(..) for that operation, so it always has exactly the fields Apply expects; the fields
\* named here are overridden, any other field keeps a value the configuration allows.
R(s) == RandomElement(s)
RW(q) == q[RandomElement(1..Len(q))]     \* weighted choice: q lists values with multiplicity
GenFresh == InitState(Buckets, Keys, Deviations)
TemplateOf(op) == IF \E x \in Calls(GenFresh) : x.op = op
                  THEN CHOOSE x \in {y \in Calls(GenFresh) : y.op = op} : TRUE ELSE [op |-> op]
\* constants: evaluated once
TCreateBucket == TemplateOf("CreateBucket")
TPutVersioning == TemplateOf("PutVersioning")
TPutObject == TemplateOf("PutObject")
TDeleteObject == TemplateOf("DeleteObject")
TCopyObject == TemplateOf("CopyObject")
TAppendObject == TemplateOf("AppendObject")
TCreateUpload == TemplateOf("CreateUpload")
TUploadPart == TemplateOf("UploadPart")
TUploadPartCopy == TemplateOf("UploadPartCopy")
TCompleteUpload == TemplateOf("CompleteUpload")
TPutTagging == TemplateOf("PutTagging")
TTransition == TemplateOf("Transition")

\* state-aware pickers: mostly hit things that exist, sometimes things that do not
Live(St) == {b \in Buckets : St.bver[b] # "Absent"}
PB(St) == IF Live(St) # {} /\ R(1..10) # 1 THEN R(Live(St)) ELSE R(Buckets)
KeysWith(St, b) == {k \in Keys : St.objs[b][k] # <<>>}
PK(St, b) == IF KeysWith(St, b) # {} /\ R(1..4) # 1 THEN R(KeysWith(St, b)) ELSE R(Keys)
PV(St, b, k) ==
  LET vs == St.objs[b][k] IN
  IF R(1..5) <= 2 THEN -1
  ELSE IF vs # <<>> /\ R(1..8) # 1 THEN vs[R(1..Len(vs))].vid
  ELSE R(0..St.nv)
PU(St) == IF St.ups # <<>> /\ R(1..8) # 1 THEN St.ups[R(1..Len(St.ups))].uid ELSE R(Uids(St))

RandCall(op, St) ==
  LET b == PB(St)
      k == PK(St, b)
      sb == PB(St)
      sk == PK(St, sb)
      u == PU(St)
      ub == IF UpIdx(St, u) # 0 /\ R(1..8) # 1 THEN St.ups[UpIdx(St, u)].b ELSE b
      uk == IF UpIdx(St, u) # 0 /\ R(1..8) # 1 THEN St.ups[UpIdx(St, u)].k ELSE k
  IN
  CASE op = "CreateBucket"   -> [TCreateBucket EXCEPT !.b = R(Buckets)]
    [] op = "PutVersioning"  -> [TPutVersioning EXCEPT !.b = b, !.status = R({"Enabled", "Suspended"})]
    [] op = "PutObject"      -> [TPutObject EXCEPT !.b = b, !.k = R(Keys), !.blob = R(Blobs), !.ctype = R(CTypes),
                                                   !.meta = R(MetaSets), !.tags = R(TagSets), !.class = R(Classes), !.cond = "none"]
    [] op = "DeleteObject"   -> [TDeleteObject EXCEPT !.b = b, !.k = k, !.vid = PV(St, b, k), !.cond = "none"]
    [] op = "CopyObject"     -> [TCopyObject EXCEPT !.sb = sb, !.sk = sk, !.svid = PV(St, sb, sk), !.b = b, !.k = R(Keys),
                                                    !.mdir = R({"COPY", "REPLACE"}), !.tdir = R({"COPY", "REPLACE"}),
                                                    !.ctype = R(CTypes), !.meta = R(MetaSets), !.tags = R(TagSets), !.class = R(Classes)]
    [] op = "AppendObject"   -> [TAppendObject EXCEPT !.b = b, !.k = k, !.blob = R(Blobs),
                                                      !.off = RW(<<"none", "none", "none", "match", "match", "mismatch">>)]
    [] op = "CreateUpload"   -> [TCreateUpload EXCEPT !.b = b, !.k = R(Keys), !.ctype = R(CTypes), !.meta = R(MetaSets),
                                                      !.tags = R(TagSets), !.class = R(Classes)]
    [] op = "UploadPart"     -> [TUploadPart EXCEPT !.b = ub, !.k = uk, !.u = u, !.n = R(1..MaxParts), !.blob = R(Blobs)]
    [] op = "UploadPartCopy" -> [TUploadPartCopy EXCEPT !.sb = sb, !.sk = sk, !.svid = PV(St, sb, sk), !.b = ub, !.k = uk,
                                                        !.u = u, !.n = R(1..MaxParts)]
    [] op = "CompleteUpload" -> [TCompleteUpload EXCEPT !.b = ub, !.k = uk, !.u = u, !.cond = "none",
                                   !.manifest = RW(<<"none", "none", "all", "all", "all", "all", "missing", "reversed", "badetag", "extra">>)]
    [] op = "PutTagging"     -> [TPutTagging EXCEPT !.b = b, !.k = k, !.vid = PV(St, b, k), !.tags = R(TagSets)]
    [] op = "Transition"     -> [TTransition EXCEPT !.b = b, !.k = k, !.vid = PV(St, b, k), !.class = R(Classes \ {None}),
                                                    !.cond = "none"]

First == [TCreateBucket EXCEPT !.b = "b1"]
GenInit == /\ S = Apply(GenFresh, First).s
           /\ res = NoRes
           /\ hist = <<First>>
Succeeds(c) == Apply(S, c).r.err = ""
\* ------------------------------------------------------------ end of generator core

CONSTANT NDst          \* number of destination kinds emitted per program (a prefix of AllKinds)
AllKinds == <<"empty", "nonempty", "emptysame", "other", "mixed">>
DstKinds == SubSeq(AllKinds, 1, NDst)

Create(b) == [TCreateBucket EXCEPT !.b = b]
RandPut(b) == [PutTemplate EXCEPT !.b = b, !.k = R(Keys), !.blob = R(Blobs), !.ctype = R(CTypes), !.meta = R(MetaSets),
                                   !.tags = R(TagSets), !.class = R(Classes)]
DstProg(kind, St) ==
  LET live == SrcBuckets(St)
      b == IF live # {} THEN R(live) ELSE R(Buckets)
      others == Buckets \ {b}
      foreign == Buckets \ live
      o == IF foreign # {} THEN R(foreign) ELSE b
  IN CASE kind = "empty"     -> <<>>
       [] kind = "emptysame" -> << Create(b) >>
       [] kind = "nonempty"  -> << Create(b), RandPut(b) >>
       [] kind = "other"     -> << Create(o), RandPut(o) >>
       [] kind = "mixed"     -> << Create(b), RandPut(b) >> \o
                                (IF others # {} THEN LET x == R(others) IN << Create(x) >> ELSE <<>>)

\* operation weights of the source-building walk
MOpW == <<"CreateBucket", "CreateBucket", "PutVersioning", "PutVersioning", "PutVersioning", "DeleteObject", "PutObject", "PutObject", "PutObject", "PutObject",
          "PutObject", "DeleteObject", "DeleteObject", "CopyObject", "CopyObject", "AppendObject", "AppendObject",
          "CreateUpload", "UploadPart", "UploadPart", "CompleteUpload", "CompleteUpload", "PutTagging">>
MOpWSel == SelectSeq(MOpW, LAMBDA o : o \in Ops)
\* now and then: delete (without version id) a current object of a versioned bucket, so that
\* delete markers and noncurrent versions - which must NOT be migrated - occur in most batches
VersionedCur(St) == {o \in Buckets \X Keys : St.bver[o[1]] \in {"Enabled", "Suspended"} /\ HasCurrent(St.objs[o[1]][o[2]])}
MarkerCall(St) == LET o == R(VersionedCur(St)) IN [TDeleteObject EXCEPT !.b = o[1], !.k = o[2], !.vid = -1, !.cond = "none"]
MGenNext == LET c1 == IF VersionedCur(S) # {} /\ R(1..6) = 1 THEN MarkerCall(S) ELSE RandCall(RW(MOpWSel), S)
                c2 == RandCall(RW(MOpWSel), S)
                c3 == RandCall(RW(MOpWSel), S)
            IN Step(IF Succeeds(c1) THEN c1 ELSE IF Succeeds(c2) THEN c2 ELSE c3)

\* PAIR programs (PairMode): order-dependent leaks between consecutively migrated objects.  Both
\* buckets get both keys; one key of each bucket is RICH (content type, system + user metadata,
\* redirect (set "1"), tags and a non-default storage class all set), the other PLAIN (everything at
\* its default).  Pattern A (k1 rich, k2 plain): every attribute is set on an object and default on
\* the one migrated right after it inside the bucket.  Pattern B (k1 plain, k2 rich): the same across
\* the bucket boundary, whatever the bucket order.  The pattern is drawn at call 3 and read back.
CONSTANT PairMode
RichPut(b, k) == [TPutObject EXCEPT !.b = b, !.k = k, !.blob = R(Blobs), !.ctype = R(CTypes \ {None}),
                                    !.meta = IF b = "b1" THEN "1" ELSE R(MetaSets \ {None, "1"}),
                                    !.tags = R(TagSets \ {None}), !.class = R(Classes \ {None, "STANDARD"}), !.cond = "none"]
PlainPut(b, k) == [TPutObject EXCEPT !.b = b, !.k = k, !.blob = R(Blobs), !.ctype = None, !.meta = None, !.tags = None,
                                     !.class = R(Classes \cap {None, "STANDARD"}), !.cond = "none"]
PairLen == 6
PairCall(i) ==
  LET A == IF i = 3 THEN R(BOOLEAN) ELSE hist[3].meta # None IN
  CASE i = 2 -> Create("b2")
    [] i = 3 -> IF A THEN RichPut("b1", "k1") ELSE PlainPut("b1", "k1")
    [] i = 4 -> IF A THEN PlainPut("b1", "k2") ELSE RichPut("b1", "k2")
    [] i = 5 -> IF A THEN RichPut("b2", "k1") ELSE PlainPut("b2", "k1")
    [] i = 6 -> IF A THEN PlainPut("b2", "k2") ELSE RichPut("b2", "k2")
MPairNext == IF PairMode /\ Len(hist) < PairLen THEN Step(PairCall(Len(hist) + 1)) ELSE MGenNext

MEmit == IF Len(hist) = GenDepth
         THEN PrintT(ToJson([calls |-> hist, kinds |-> DstKinds,
                             dsts |-> [i \in 1..Len(DstKinds) |-> DstProg(DstKinds[i], S)]]))
         ELSE TRUE
=============================================================================
