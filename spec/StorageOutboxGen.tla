-------------------------- MODULE StorageOutboxGen --------------------------
(***************************************************************************)
(* GEN / RP for C21 (and the outbox instance of C07): schedules of the     *)
(* model of the CODE (the deviations enabled), i.e. sequences of steps     *)
(*   [p, a, call]   p = client or "w" (worker), a = action name            *)
(* without any expected result.  harness/cmd/storageoutbox forces each     *)
(* schedule onto the real outbox storage (every process is parked at each  *)
(* of these critical sections) and logs what the code did; the log is      *)
(* validated by StorageOutboxTrace.tla.                                    *)
(*                                                                         *)
(*  * RandomCalls = TRUE, `-simulate`: random walks - long histories of    *)
(*    one client with the worker flushing at arbitrary points (Sim1), or   *)
(*    several concurrent clients (Sim3);                                   *)
(*  * RandomCalls = FALSE, BFS: after a fixed prefix (bucket, object) ALL  *)
(*    programs of FreeOps calls and ALL their interleavings with the       *)
(*    worker, down to quiescence (the race schedules).                     *)
(* In the walks the worker is paused / resumed at generated points (queued  *)
(* entries pile up, calls really wait) and up to MaxFailPolls polls of a    *)
(* drain wait are scheduled while the wait is NOT over (the real call must  *)
(* then sleep and poll again - this exposes a wait that ends too early).    *)
(* Only complete schedules are emitted (every call returned, queue empty,  *)
(* worker idle).  Calls whose queue entry could never be replayed          *)
(* (CreateBucket of an existing bucket, DeleteBucket of a non-empty one,   *)
(* a put into a missing bucket - the code accepts them and then retries    *)
(* their replay forever, which blocks the queue) are not generated.        *)
(***************************************************************************)
EXTENDS StorageOutbox, Json

CONSTANTS RandomCalls,   \* TRUE: one random call per Invoke (simulation); FALSE: programs from Pairs (BFS)
          Prefix,        \* "none" | "bucket" | "object": forced sequential prefix
          FreeOps,       \* number of calls after the prefix
          Stride, Offset, \* BFS: the pairs <<call of c1, call of c2>> number Offset, Offset+Stride, ... are explored
          EmitBadOnly,   \* print only schedules at whose end the model of the code has NOT converged
          MaxFailPolls,  \* polls of a drain wait that find the wait NOT over (the code sleeps 200 ms and polls again)
          MaxFailClaims, \* passes of a worker that find the oldest entry held by another claim owner
          PairMode       \* BFS: "all" pairs of calls | "write-read" / "write-sync": a queued write against every read /
                         \* every write-through call

VARIABLES sched, phase, pfx, prg, npoll,
          nfc,      \* [n |-> failed claims so far, skip |-> one of them happened with a younger entry queued]
          paused    \* random walks: the worker is paused / resumed at generated points, so that queued
                    \* entries pile up and reads / write-through calls really have to wait for it
gvars == <<vars, sched, phase, pfx, prg, npoll, nfc, paused>>

P1 == CHOOSE c \in Clients : \A d \in Clients : c = "c1" \/ d # "c1"
PB == CHOOSE b \in Buckets : \A d \in Buckets : b = "b1" \/ d # "b1"
PK == CHOOSE k \in Keys : \A d \in Keys : k = "k1" \/ d # "k1"
PBl == CHOOSE x \in Blobs : \A y \in Blobs : x = "c1" \/ y # "c1"
PBl2 == CHOOSE x \in Blobs : \A y \in Blobs : x = "c2" \/ y # "c2"
PrefixCalls == CASE Prefix = "bucket" -> <<MkCall("CreateBucket", PB, "", "", "none", "none", "", "")>>
                 [] Prefix = "object" -> <<MkCall("CreateBucket", PB, "", "", "none", "none", "", ""),
                                           MkCall("PutObject", PB, PK, PBl, "none", "none", "", "")>>
                 \* bucket, object, and a pending multipart upload of the same key with one part
                 [] Prefix = "upload" -> <<MkCall("CreateBucket", PB, "", "", "none", "none", "", ""),
                                           MkCall("PutObject", PB, PK, PBl, "none", "none", "", ""),
                                           MkCall("CreateUpload", PB, PK, "", "none", "none", "", ""),
                                           MkCallU("UploadPart", PB, PK, PBl2, "none", "", 1)>>
                 [] OTHER -> <<>>

Rec(p, a, call) == sched' = Append(sched, [p |-> p, a |-> a, call |-> call])

\* ---- which calls make sense to start now (see the header)
Busy(c) == \E d \in Clients \ {c} : cl[d].pc # "idle" /\ IsWrite(cl[d].call)
BucketOpPending(c) == \E d \in Clients \ {c} : cl[d].pc # "idle" /\ AlwaysQueued(cl[d].call)
Sensible(c, call) ==
  /\ IsWrite(call) => ~BucketOpPending(c)
  /\ call.op = "CreateBucket" => (~Exists(virt, call.b) /\ ~Busy(c))
  /\ call.op = "DeleteBucket" => (Exists(virt, call.b) /\ BucketEmpty(virt, call.b) /\ ~Busy(c))
  /\ Routed(call) => Exists(virt, call.b)

\* BFS: every ordered pair of calls (c1's, c2's) on the prefix key, in TLC's fixed set order
OnPK(call) == call.b \in {PB, ""} /\ call.k \in {"", PK}
PairSet == IF PairMode = "write-read"
           THEN {<<a, b>> : a \in {x \in Calls : OnPK(x) /\ Routed(x)}, b \in {x \in Calls : OnPK(x) /\ IsRead(x)}}
           ELSE IF PairMode = "write-sync"   \* a queued write against every write-through call
           THEN {<<a, b>> : a \in {x \in Calls : OnPK(x) /\ Routed(x)},
                            b \in {x \in Calls : OnPK(x) /\ IsWrite(x) /\ ~Routed(x) /\ ~AlwaysQueued(x)}}
           ELSE {<<a, b>> : a \in {x \in Calls : OnPK(x)}, b \in {x \in Calls : OnPK(x)}}
Pairs == SetToSeq(PairSet)
P2 == CHOOSE c \in Clients \ {P1} : \A d \in Clients \ {P1} : c = "c2" \/ d # "c2"

GInvoke(c) ==
  /\ cnt.ops < Len(PrefixCalls) + FreeOps
  /\ IF RandomCalls
     THEN LET ok == {call \in Calls : Sensible(c, call)} IN
          /\ ok # {}
          /\ \E call \in {RandomElement(ok)} : Invoke(c, call) /\ Rec(c, "Invoke", call)
          /\ prg' = prg /\ paused' = paused /\ npoll' = npoll /\ nfc' = nfc
     ELSE /\ prg[c] # <<>>
          /\ Invoke(c, Head(prg[c])) /\ Rec(c, "Invoke", Head(prg[c]))
          /\ prg' = [prg EXCEPT ![c] = Tail(@)] /\ paused' = paused /\ npoll' = npoll /\ nfc' = nfc

\* a poll that finds an entry of the snapshot still queued: no change in the model; the real call must
\* go on waiting (this is what exposes a wait that ends too early)
FailedPoll(c) ==
  /\ cl[c].pc = "poll" /\ ~CodeDone(c) /\ npoll < MaxFailPolls
  /\ npoll' = npoll + 1
  /\ Rec(c, "DrainPoll", NoCall)
  /\ UNCHANGED <<vars, prg, paused, nfc>>

ClientStep(c) ==
  /\ prg' = prg /\ paused' = paused /\ npoll' = npoll /\ nfc' = nfc
  /\ \/ Route(c) /\ Rec(c, "Route", NoCall)
     \/ Enqueue(c) /\ Rec(c, "Enqueue", NoCall)
     \/ DrainStart(c) /\ Rec(c, "DrainStart", NoCall)
     \/ DrainPoll(c) /\ Rec(c, "DrainPoll", NoCall)
     \/ Inner(c) /\ Rec(c, "Inner", NoCall)

W1 == CHOOSE w \in Workers : \A d \in Workers : w = "w" \/ d # "w"
ReplayOK(w) == wk[w].pc = "claimed" /\ ApplyEntry(inner, queue[QIdx(wk[w].seq)]).r.err = ""
WorkerStep(w) ==
  /\ prg' = prg /\ ~paused /\ paused' = paused /\ npoll' = npoll /\ nfc' = nfc
  /\ \/ Claim(w) /\ Rec(w, "Claim", NoCall)
     \/ ReplayOK(w) /\ Replay(w) /\ Rec(w, "Replay", NoCall)
     \/ Finalize(w) /\ Rec(w, "Finalize", NoCall)
\* a pass of worker w while another claim owner holds the oldest entry: the claim must fail and w
\* must not touch any younger entry (no change in the model)
FailedClaim(w) ==
  /\ wk[w].pc = "idle" /\ queue # <<>> /\ queue[1].owner \notin {"", w} /\ nfc.n < MaxFailClaims /\ ~paused
  /\ nfc' = [n |-> nfc.n + 1, skip |-> nfc.skip \/ Len(queue) >= 2]
  /\ Rec(w, "Claim", NoCall)
  /\ UNCHANGED <<vars, prg, paused, npoll>>

WorkerCan == \/ (wk[W1].pc = "idle" /\ queue # <<>> /\ queue[1].owner = "")
             \/ wk[W1].pc \in {"claimed", "replayed"}
AllIdle == \A c \in Clients : cl[c].pc = "idle"

\* the forced prefix: client P1 runs the prefix calls one after the other, the worker drains
\* the queue after each
PrefixNext ==
  /\ phase = "prefix"
  /\ IF WorkerCan THEN WorkerStep(W1) /\ UNCHANGED <<phase, pfx>>
     ELSE IF cl[P1].pc # "idle" THEN ClientStep(P1) /\ UNCHANGED <<phase, pfx>>
     ELSE IF pfx < Len(PrefixCalls)
     THEN Invoke(P1, PrefixCalls[pfx + 1]) /\ Rec(P1, "Invoke", PrefixCalls[pfx + 1]) /\ pfx' = pfx + 1 /\ phase' = phase /\ prg' = prg /\ paused' = paused /\ npoll' = npoll /\ nfc' = nfc
     ELSE phase' = "free" /\ UNCHANGED <<vars, sched, pfx, prg, paused, npoll, nfc>>

\* not a step of the code: only changes which schedules the walk can produce
TogglePause ==
  /\ RandomCalls
  /\ IF paused THEN TRUE ELSE cnt.ops < Len(PrefixCalls) + FreeOps   \* no new pause once every call was started
  /\ paused' = ~paused
  /\ UNCHANGED <<vars, sched, prg, npoll, nfc>>

FreeNext ==
  /\ phase = "free"
  /\ UNCHANGED <<phase, pfx>>
  /\ \/ \E c \in Clients : GInvoke(c) \/ ClientStep(c) \/ FailedPoll(c)
     \/ \E w \in Workers : WorkerStep(w) \/ FailedClaim(w)
     \/ TogglePause

GInit == /\ Init /\ sched = <<>> /\ phase = "prefix" /\ pfx = 0 /\ paused = FALSE /\ npoll = 0 /\ nfc = [n |-> 0, skip |-> FALSE]
         /\ IF RandomCalls THEN prg = [c \in Clients |-> <<>>]
            ELSE \E i \in {j \in 1..Len(Pairs) : j % Stride = Offset % Stride} :
                   prg = [c \in Clients |-> IF c = P1 THEN <<Pairs[i][1]>> ELSE IF c = P2 THEN <<Pairs[i][2]>> ELSE <<>>]
GNext == PrefixNext \/ FreeNext
GSpec == GInit /\ [][GNext]_gvars

Terminal == /\ phase = "free" /\ AllIdle /\ Drained
            /\ cnt.ops = Len(PrefixCalls) + FreeOps
\* the schedule is printed once it is complete
Bad == Proj(inner) # Proj(virt) \/ ~ReadYourWrites \/ ~CondSound
Emit == IF Terminal /\ (Bad \/ ~EmitBadOnly) THEN PrintT(ToJson([steps |-> sched, taken |-> taken, bad |-> Bad, heldskip |-> nfc.skip])) ELSE TRUE
=============================================================================
