------------------------- MODULE AuditLogTamperTrace -------------------------
(* TV for C27: one executed case per ndjson line (tamper cases and round-trip cases).
   The verdict of the real Validator / decoder is compared with the model's. *)
EXTENDS AuditLogTamper, Json, IOUtils
Trace == ndJsonDeserialize(IOEnv.TRACE_FILE)
VARIABLE l

ToSet(s) == {s[i] : i \in 1..Len(s)}

CaseOf(r) == [kind |-> r.kind, pos |-> r.pos, field |-> r.field, field2 |-> r.field2, mut |-> r.mut, mode |-> r.mode]

\* fields the case (or, for byte flips, the observed decoding) changed in the entry at r.pos
TouchedFields(r) ==
  IF r.kind = "bytes" THEN ToSet(r.changed)
  ELSE IF r.kind = "field" THEN {r.field} \cup (IF r.field2 = "" THEN {} ELSE {r.field2})
  ELSE {}

WellFormed(r) ==
  IF r.kind = "bytes"
  THEN r.pos \in PosClasses /\ ToSet(r.changed) \subseteq FieldsOfKind(KindAt(r.pos))
       /\ r.permille \in 0..999 /\ r.bit \in 0..7
  ELSE IF r.kind = "trunc" THEN r.pos \in PosClasses /\ r.permille \in 1..999
  ELSE CaseOf(r) \in TamperCases

\* the tampered model log for the executed case
ModelLog(r) ==
  IF r.kind = "bytes"
  THEN ReplaceAt(L, Idx(r.pos), MutateAll(L[Idx(r.pos)], ToSet(r.changed)))
  ELSE Apply(CaseOf(r))

\* a tamper that turned out to be the identity on the real bytes (e.g. clearing an empty field)
NoOp(r) == ~r.applied

\* byte level: a stream that no longer decodes into the same number of entries is rejected by the
\* decoder or (entries lost / merged) by the chain check; a cut inside an entry either drops the
\* partial entry (pure suffix cut) or fails to decode
Derailed(r) == r.kind \in {"bytes", "trunc"} /\ (r.structure \/ r.decode_err)

ModelAccepts(r) ==
  IF NoOp(r) THEN TRUE
  ELSE IF Derailed(r) THEN FALSE
  ELSE IF r.kind = "trunc" THEN TRUE
  ELSE Validate(ModelLog(r)).ok

RealChange(r) ==
  IF NoOp(r) THEN FALSE
  ELSE IF Derailed(r) THEN TRUE
  ELSE IF r.kind = "trunc" THEN FALSE
  ELSE ~IsPrefixOfL(ModelLog(r))

\* the harness must have applied what the case says: the named fields differ after decoding
Applied(r) ==
  IF r.kind = "field" /\ ~NoOp(r) /\ ~r.decode_err /\ ~r.structure
  THEN TouchedFields(r) \subseteq ToSet(r.changed) ELSE TRUE

TamperVerdict(r) ==
  IF ~WellFormed(r) THEN "malformed"
  ELSE IF ~Applied(r) THEN "notapplied"
  ELSE IF r.ok # ModelAccepts(r) THEN "mismatch"
  ELSE IF r.kind = "forge" THEN "ok"          \* conformance of the grounding checks only: the forger holds keys
  ELSE IF r.ok /\ RealChange(r) THEN "finding"
  ELSE "ok"

RTCaseOf(r) == [kind |-> "rt", ser |-> r.ser, version |-> r.version, type |-> r.type, ts |-> r.ts, d |-> r.d]
RTVerdict(r) ==
  IF ~RTCaseOK(RTCaseOf(r)) THEN "malformed"
  ELSE IF r.err # "" \/ r.diff # <<>> THEN "mismatch"      \* Decode(Encode(e)) = e for every representable e
  ELSE "ok"

\* the untampered logs (L and the foreign log F), in each encoding, must verify
BaselineVerdict(r) == IF r.ok = Validate(IF r.log = "L" THEN L ELSE F).ok THEN "ok" ELSE "mismatch"

Verdict(r) == IF r.kind = "rt" THEN RTVerdict(r) ELSE IF r.kind = "baseline" THEN BaselineVerdict(r) ELSE TamperVerdict(r)

Report(i) ==
  LET r == Trace[i]
      v == Verdict(r) IN
  IF v = "ok" THEN TRUE
  ELSE PrintT(ToJson([l |-> i, verdict |-> v,
                      tag |-> IF v = "finding" THEN TagOf(TouchedFields(r)) ELSE "",
                      model_accepts |-> IF r.kind = "baseline" THEN TRUE ELSE IF r.kind = "rt" \/ v \in {"malformed", "notapplied"} THEN FALSE ELSE ModelAccepts(r),
                      model_reason |-> IF r.kind \in {"rt", "trunc", "baseline"} \/ v \in {"malformed", "notapplied"} \/ NoOp(r) \/ Derailed(r)
                                       THEN "" ELSE Validate(ModelLog(r)).reason]))

TInit == l = 1 /\ Logs /\ case = [kind |-> "trace"]
TNext == l <= Len(Trace) /\ Report(l) /\ l' = l + 1 /\ UNCHANGED <<case, L, F>>
=============================================================================
