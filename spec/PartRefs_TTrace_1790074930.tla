---- MODULE PartRefs_TTrace_1790074930 ----
EXTENDS Sequences, TLCExt, Toolbox, Naturals, TLC, PartRefs

_expression ==
    LET PartRefs_TEExpression == INSTANCE PartRefs_TEExpression
    IN PartRefs_TEExpression!expression
----

_trace ==
    LET PartRefs_TETrace == INSTANCE PartRefs_TETrace
    IN PartRefs_TETrace!trace
----

_inv ==
    ~(
        TLCGet("level") = Len(_TETrace)
        /\
        S = ([slow |-> [c |-> "", act |-> FALSE, k |-> "", s |-> "", id |-> 0], obj |-> [k1 |-> <<1>>, k2 |-> <<>>], upl |-> [u1 |-> [st |-> "", act |-> FALSE, key |-> "", parts |-> <<0, 0>>]], reg |-> <<-1, -1, -1, -1>>, ddx |-> {}, phys |-> [default |-> {1}], info |-> <<[c |-> "a", st |-> "default"], [c |-> "", st |-> ""], [c |-> "", st |-> ""], [c |-> "", st |-> ""]>>, nid |-> 2, old |-> 1..1, stray |-> {}, gc |-> [st |-> "default", pc |-> "extdelete", cut |-> 1..1, obs |-> {}, dirty |-> {}, todo |-> {}, cand |-> {}, ext |-> {1}, xid |-> 1, trk |-> {}], rd |-> [st |-> "idle", key |-> "", man |-> <<>>, pos |-> 0, cur |-> 0, got |-> <<>>, err |-> FALSE, snap |-> {}], res |-> "extdelete", nops |-> 2, nrd |-> 0, quiet |-> FALSE, faulted |-> FALSE])
    )
----

_init ==
    /\ S = _TETrace[1].S
----

_next ==
    /\ \E i,j \in DOMAIN _TETrace:
        /\ \/ /\ j = i + 1
              /\ i = TLCGet("level")
        /\ S  = _TETrace[i].S
        /\ S' = _TETrace[j].S

\* Uncomment the ASSUME below to write the states of the error trace
\* to the given file in Json format. Note that you can pass any tuple
\* to `JsonSerialize`. For example, a sub-sequence of _TETrace.
    \* ASSUME
    \*     LET J == INSTANCE Json
    \*         IN J!JsonSerialize("PartRefs_TTrace_1790074930.json", _TETrace)

=============================================================================

 Note that you can extract this module `PartRefs_TEExpression`
  to a dedicated file to reuse `expression` (the module in the 
  dedicated `PartRefs_TEExpression.tla` file takes precedence 
  over the module `PartRefs_TEExpression` below).

---- MODULE PartRefs_TEExpression ----
EXTENDS Sequences, TLCExt, Toolbox, Naturals, TLC, PartRefs

expression == 
    [
        \* To hide variables of the `PartRefs` spec from the error trace,
        \* remove the variables below.  The trace will be written in the order
        \* of the fields of this record.
        S |-> S
        
        \* Put additional constant-, state-, and action-level expressions here:
        \* ,_stateNumber |-> _TEPosition
        \* ,_SUnchanged |-> S = S'
        
        \* Format the `S` variable as Json value.
        \* ,_SJson |->
        \*     LET J == INSTANCE Json
        \*     IN J!ToJson(S)
        
        \* Lastly, you may build expressions over arbitrary sets of states by
        \* leveraging the _TETrace operator.  For example, this is how to
        \* count the number of times a spec variable changed up to the current
        \* state in the trace.
        \* ,_SModCount |->
        \*     LET F[s \in DOMAIN _TETrace] ==
        \*         IF s = 1 THEN 0
        \*         ELSE IF _TETrace[s].S # _TETrace[s-1].S
        \*             THEN 1 + F[s-1] ELSE F[s-1]
        \*     IN F[_TEPosition - 1]
    ]

=============================================================================



Parsing and semantic processing can take forever if the trace below is long.
 In this case, it is advised to uncomment the module below to deserialize the
 trace from a generated binary file.

\*
\*---- MODULE PartRefs_TETrace ----
\*EXTENDS IOUtils, TLC, PartRefs
\*
\*trace == IODeserialize("PartRefs_TTrace_1790074930.bin", TRUE)
\*
\*=============================================================================
\*

---- MODULE PartRefs_TETrace ----
EXTENDS TLC, PartRefs

trace == 
    <<
    ([S |-> [slow |-> [c |-> "", act |-> FALSE, k |-> "", s |-> "", id |-> 0], obj |-> [k1 |-> <<>>, k2 |-> <<>>], upl |-> [u1 |-> [st |-> "", act |-> FALSE, key |-> "", parts |-> <<0, 0>>]], reg |-> <<-1, -1, -1, -1>>, ddx |-> {}, phys |-> [default |-> {}], info |-> <<[c |-> "", st |-> ""], [c |-> "", st |-> ""], [c |-> "", st |-> ""], [c |-> "", st |-> ""]>>, nid |-> 1, old |-> {}, stray |-> {}, gc |-> [st |-> "", pc |-> "idle", cut |-> {}, obs |-> {}, dirty |-> {}, todo |-> {}, cand |-> {}, ext |-> {}, xid |-> 0, trk |-> {}], rd |-> [st |-> "idle", key |-> "", man |-> <<>>, pos |-> 0, cur |-> 0, got |-> <<>>, err |-> FALSE, snap |-> {}], res |-> "", nops |-> 0, nrd |-> 0, quiet |-> FALSE, faulted |-> FALSE]]),
    ([S |-> [slow |-> [c |-> "a", act |-> TRUE, k |-> "k1", s |-> "default", id |-> 1], obj |-> [k1 |-> <<>>, k2 |-> <<>>], upl |-> [u1 |-> [st |-> "", act |-> FALSE, key |-> "", parts |-> <<0, 0>>]], reg |-> <<-1, -1, -1, -1>>, ddx |-> {}, phys |-> [default |-> {}], info |-> <<[c |-> "a", st |-> "default"], [c |-> "", st |-> ""], [c |-> "", st |-> ""], [c |-> "", st |-> ""]>>, nid |-> 2, old |-> {}, stray |-> {}, gc |-> [st |-> "", pc |-> "idle", cut |-> {}, obs |-> {}, dirty |-> {}, todo |-> {}, cand |-> {}, ext |-> {}, xid |-> 0, trk |-> {}], rd |-> [st |-> "idle", key |-> "", man |-> <<>>, pos |-> 0, cur |-> 0, got |-> <<>>, err |-> FALSE, snap |-> {}], res |-> "ok", nops |-> 1, nrd |-> 0, quiet |-> FALSE, faulted |-> FALSE]]),
    ([S |-> [slow |-> [c |-> "a", act |-> TRUE, k |-> "k1", s |-> "default", id |-> 1], obj |-> [k1 |-> <<>>, k2 |-> <<>>], upl |-> [u1 |-> [st |-> "", act |-> FALSE, key |-> "", parts |-> <<0, 0>>]], reg |-> <<-1, -1, -1, -1>>, ddx |-> {}, phys |-> [default |-> {}], info |-> <<[c |-> "a", st |-> "default"], [c |-> "", st |-> ""], [c |-> "", st |-> ""], [c |-> "", st |-> ""]>>, nid |-> 2, old |-> 1..1, stray |-> {}, gc |-> [st |-> "", pc |-> "idle", cut |-> {}, obs |-> {}, dirty |-> {}, todo |-> {}, cand |-> {}, ext |-> {}, xid |-> 0, trk |-> {}], rd |-> [st |-> "idle", key |-> "", man |-> <<>>, pos |-> 0, cur |-> 0, got |-> <<>>, err |-> FALSE, snap |-> {}], res |-> "ok", nops |-> 1, nrd |-> 0, quiet |-> FALSE, faulted |-> FALSE]]),
    ([S |-> [slow |-> [c |-> "a", act |-> TRUE, k |-> "k1", s |-> "default", id |-> 1], obj |-> [k1 |-> <<>>, k2 |-> <<>>], upl |-> [u1 |-> [st |-> "", act |-> FALSE, key |-> "", parts |-> <<0, 0>>]], reg |-> <<-1, -1, -1, -1>>, ddx |-> {}, phys |-> [default |-> {}], info |-> <<[c |-> "a", st |-> "default"], [c |-> "", st |-> ""], [c |-> "", st |-> ""], [c |-> "", st |-> ""]>>, nid |-> 2, old |-> 1..1, stray |-> {}, gc |-> [st |-> "", pc |-> "begin", cut |-> 1..1, obs |-> {}, dirty |-> {}, todo |-> {}, cand |-> {}, ext |-> {}, xid |-> 0, trk |-> {}], rd |-> [st |-> "idle", key |-> "", man |-> <<>>, pos |-> 0, cur |-> 0, got |-> <<>>, err |-> FALSE, snap |-> {}], res |-> "begin", nops |-> 1, nrd |-> 0, quiet |-> FALSE, faulted |-> FALSE]]),
    ([S |-> [slow |-> [c |-> "a", act |-> TRUE, k |-> "k1", s |-> "default", id |-> 1], obj |-> [k1 |-> <<>>, k2 |-> <<>>], upl |-> [u1 |-> [st |-> "", act |-> FALSE, key |-> "", parts |-> <<0, 0>>]], reg |-> <<-1, -1, -1, -1>>, ddx |-> {}, phys |-> [default |-> {}], info |-> <<[c |-> "a", st |-> "default"], [c |-> "", st |-> ""], [c |-> "", st |-> ""], [c |-> "", st |-> ""]>>, nid |-> 2, old |-> 1..1, stray |-> {}, gc |-> [st |-> "", pc |-> "observed", cut |-> 1..1, obs |-> {}, dirty |-> {}, todo |-> {}, cand |-> {}, ext |-> {}, xid |-> 0, trk |-> {}], rd |-> [st |-> "idle", key |-> "", man |-> <<>>, pos |-> 0, cur |-> 0, got |-> <<>>, err |-> FALSE, snap |-> {}], res |-> "observed", nops |-> 1, nrd |-> 0, quiet |-> FALSE, faulted |-> FALSE]]),
    ([S |-> [slow |-> [c |-> "", act |-> FALSE, k |-> "", s |-> "", id |-> 0], obj |-> [k1 |-> <<1>>, k2 |-> <<>>], upl |-> [u1 |-> [st |-> "", act |-> FALSE, key |-> "", parts |-> <<0, 0>>]], reg |-> <<1, -1, -1, -1>>, ddx |-> {[c |-> "a", st |-> "default", id |-> 1]}, phys |-> [default |-> {1}], info |-> <<[c |-> "a", st |-> "default"], [c |-> "", st |-> ""], [c |-> "", st |-> ""], [c |-> "", st |-> ""]>>, nid |-> 2, old |-> 1..1, stray |-> {}, gc |-> [st |-> "", pc |-> "observed", cut |-> 1..1, obs |-> {}, dirty |-> {1}, todo |-> {}, cand |-> {}, ext |-> {}, xid |-> 0, trk |-> {}], rd |-> [st |-> "idle", key |-> "", man |-> <<>>, pos |-> 0, cur |-> 0, got |-> <<>>, err |-> FALSE, snap |-> {}], res |-> "ok", nops |-> 2, nrd |-> 0, quiet |-> FALSE, faulted |-> FALSE]]),
    ([S |-> [slow |-> [c |-> "", act |-> FALSE, k |-> "", s |-> "", id |-> 0], obj |-> [k1 |-> <<1>>, k2 |-> <<>>], upl |-> [u1 |-> [st |-> "", act |-> FALSE, key |-> "", parts |-> <<0, 0>>]], reg |-> <<1, -1, -1, -1>>, ddx |-> {[c |-> "a", st |-> "default", id |-> 1]}, phys |-> [default |-> {1}], info |-> <<[c |-> "a", st |-> "default"], [c |-> "", st |-> ""], [c |-> "", st |-> ""], [c |-> "", st |-> ""]>>, nid |-> 2, old |-> 1..1, stray |-> {}, gc |-> [st |-> "", pc |-> "reconciled", cut |-> 1..1, obs |-> {}, dirty |-> {}, todo |-> {}, cand |-> {}, ext |-> {}, xid |-> 0, trk |-> {}], rd |-> [st |-> "idle", key |-> "", man |-> <<>>, pos |-> 0, cur |-> 0, got |-> <<>>, err |-> FALSE, snap |-> {}], res |-> "reconciled", nops |-> 2, nrd |-> 0, quiet |-> FALSE, faulted |-> FALSE]]),
    ([S |-> [slow |-> [c |-> "", act |-> FALSE, k |-> "", s |-> "", id |-> 0], obj |-> [k1 |-> <<1>>, k2 |-> <<>>], upl |-> [u1 |-> [st |-> "", act |-> FALSE, key |-> "", parts |-> <<0, 0>>]], reg |-> <<1, -1, -1, -1>>, ddx |-> {[c |-> "a", st |-> "default", id |-> 1]}, phys |-> [default |-> {1}], info |-> <<[c |-> "a", st |-> "default"], [c |-> "", st |-> ""], [c |-> "", st |-> ""], [c |-> "", st |-> ""]>>, nid |-> 2, old |-> 1..1, stray |-> {}, gc |-> [st |-> "default", pc |-> "store", cut |-> 1..1, obs |-> {}, dirty |-> {}, todo |-> {}, cand |-> {}, ext |-> {}, xid |-> 0, trk |-> {}], rd |-> [st |-> "idle", key |-> "", man |-> <<>>, pos |-> 0, cur |-> 0, got |-> <<>>, err |-> FALSE, snap |-> {}], res |-> "store", nops |-> 2, nrd |-> 0, quiet |-> FALSE, faulted |-> FALSE]]),
    ([S |-> [slow |-> [c |-> "", act |-> FALSE, k |-> "", s |-> "", id |-> 0], obj |-> [k1 |-> <<1>>, k2 |-> <<>>], upl |-> [u1 |-> [st |-> "", act |-> FALSE, key |-> "", parts |-> <<0, 0>>]], reg |-> <<1, -1, -1, -1>>, ddx |-> {[c |-> "a", st |-> "default", id |-> 1]}, phys |-> [default |-> {1}], info |-> <<[c |-> "a", st |-> "default"], [c |-> "", st |-> ""], [c |-> "", st |-> ""], [c |-> "", st |-> ""]>>, nid |-> 2, old |-> 1..1, stray |-> {}, gc |-> [st |-> "default", pc |-> "candidates", cut |-> 1..1, obs |-> {}, dirty |-> {}, todo |-> {}, cand |-> {1}, ext |-> {}, xid |-> 0, trk |-> {}], rd |-> [st |-> "idle", key |-> "", man |-> <<>>, pos |-> 0, cur |-> 0, got |-> <<>>, err |-> FALSE, snap |-> {}], res |-> "candidates", nops |-> 2, nrd |-> 0, quiet |-> FALSE, faulted |-> FALSE]]),
    ([S |-> [slow |-> [c |-> "", act |-> FALSE, k |-> "", s |-> "", id |-> 0], obj |-> [k1 |-> <<1>>, k2 |-> <<>>], upl |-> [u1 |-> [st |-> "", act |-> FALSE, key |-> "", parts |-> <<0, 0>>]], reg |-> <<-1, -1, -1, -1>>, ddx |-> {}, phys |-> [default |-> {1}], info |-> <<[c |-> "a", st |-> "default"], [c |-> "", st |-> ""], [c |-> "", st |-> ""], [c |-> "", st |-> ""]>>, nid |-> 2, old |-> 1..1, stray |-> {}, gc |-> [st |-> "default", pc |-> "extdelete", cut |-> 1..1, obs |-> {}, dirty |-> {}, todo |-> {}, cand |-> {}, ext |-> {1}, xid |-> 1, trk |-> {}], rd |-> [st |-> "idle", key |-> "", man |-> <<>>, pos |-> 0, cur |-> 0, got |-> <<>>, err |-> FALSE, snap |-> {}], res |-> "extdelete", nops |-> 2, nrd |-> 0, quiet |-> FALSE, faulted |-> FALSE]])
    >>
----


=============================================================================

---- CONFIG PartRefs_TTrace_1790074930 ----
CONSTANTS
    Keys = { "k1" , "k2" }
    Uploads = { "u1" }
    Contents = { "a" , "b" }
    Stores = { "default" }
    TxFree = { "default" }
    MaxId = 4
    MaxOps = 2
    MaxReads = 0
    Faults = { "orphan" , "regdrop" , "regover" , "slow" }
    Preload = "none"
    Deviations = { "H-C08-snapshot-orphans" }

INVARIANT
    _inv

CHECK_DEADLOCK
    \* CHECK_DEADLOCK off because of PROPERTY or INVARIANT above.
    FALSE

INIT
    _init

NEXT
    _next

CONSTANT
    _TETrace <- _trace

ALIAS
    _expression
=============================================================================
\* Generated on Tue Sep 22 11:02:28 UTC 2026