------------------------------- MODULE Range -------------------------------
(***************************************************************************)
(* C05 - range reads return exactly the requested slice.                   *)
(*                                                                         *)
(* Two layers in one module:                                               *)
(*  (1) INTENDED: Resolve(h, n) - RFC 7233 section 2.1 / 4.1 / 4.4 as the  *)
(*      property states it: per byte-range-spec clamp last-byte-pos to     *)
(*      n-1, suffix ranges count from the end, 416 iff no requested range  *)
(*      is satisfiable.                                                    *)
(*  (2) CODE: result operators named after the Go functions they model,    *)
(*      at the grain of the decisions the code takes:                      *)
(*        parseRangeHeader, generateContentRangeValue, the size loop of    *)
(*        getObjectHandler      internal/http/server/object_read.go        *)
(*        normalizeAndValidateRanges, createRangeReader, GetObject         *)
(*                              internal/storage/metadatapart/object_read.go*)
(*        lazyPartSequenceReadCloser (part plan: GetPart/skip/limit)       *)
(*                              internal/storage/metadatapart/metadatapart.go*)
(*        SkipNBytes / NewLimitedEndReadCloser  internal/ioutils/limit.go  *)
(*        (seek vs. discard; observable only through the bytes returned)   *)
(*      Where the code is known to deviate from (1) the branch is guarded  *)
(*      by a tag in the deviation set D (CONSTANT Deviations at top level).*)
(*                                                                         *)
(* Positions are integers.  int64 extremes are stand-ins that the harness  *)
(* concretises:  I64MAX = 2^63-1,  U64 = 2^63 (first value that does not   *)
(* fit an int64),  I64MIN = -2^63 (what I64MAX+1 wraps to).  Every real    *)
(* object is far smaller than I64MAX-1, which is all the model relies on.  *)
(* None (-1) = position absent.                                            *)
(***************************************************************************)
EXTENDS Integers, Sequences, FiniteSets, TLC

CONSTANT Deviations      \* set of deviation tags the code is known to have

TagOverflow   == "D-C05-int64-overflow"
TagMultirange == "D-C05-multirange-416"
AllTags       == {TagOverflow, TagMultirange}

I64MAX == 2000000000
U64    == I64MAX + 1
I64MIN == 0 - I64MAX - 1
None   == 0 - 1

Min(a, b) == IF a < b THEN a ELSE b

RECURSIVE SumSeq(_)
SumSeq(s) == IF s = <<>> THEN 0 ELSE Head(s) + SumSeq(Tail(s))

\* an object = [parts : sequence of part sizes, q : an interior offset]
Size(obj)         == SumSeq(obj.parts)
PartStart(obj, k) == SumSeq(SubSeq(obj.parts, 1, k - 1))

\* a header = [form, specs]; form "none" = no Range header, "ranges" =
\* "bytes=" byte-range-set, anything else = a class of header that does not
\* match the byte-ranges-specifier grammar.  spec = [f, l] (None = absent;
\* f = None means suffix-byte-range-spec with suffix-length l).
RangesForm == "ranges"

(***************************************************************************)
(* (1) INTENDED - RFC 7233                                                 *)
(***************************************************************************)
\* 2.1: "A byte-range-spec is invalid if the last-byte-pos value is present
\* and less than the first-byte-pos"; "-" alone matches no production.
WellFormed(s) == /\ ~(s.f = None /\ s.l = None)
                 /\ (s.f # None /\ s.l # None) => s.f <= s.l

\* the property quantifies over syntactically valid Range headers only
Judged(h) == /\ h.form = RangesForm
             /\ Len(h.specs) > 0
             /\ \A i \in 1..Len(h.specs) : WellFormed(h.specs[i])

\* 2.1: satisfiable = first-byte-pos < current length, or non-zero suffix
\* length.  A suffix range on a zero-length representation selects no byte
\* and cannot be described by a Content-Range; it is treated as
\* unsatisfiable (stated assumption, see modules/range.py).
Satisfiable(s, n) == IF s.f = None THEN s.l > 0 /\ n > 0 ELSE s.f < n

Slice(s, n) ==
  IF s.f = None THEN [lo |-> n - Min(s.l, n), hi |-> n - 1]
  ELSE [lo |-> s.f, hi |-> IF s.l = None THEN n - 1 ELSE Min(s.l, n - 1)]

Full        == [kind |-> "full", slices |-> <<>>]
Unsat       == [kind |-> "unsat", slices |-> <<>>]
Partial(sl) == [kind |-> "partial", slices |-> sl]

Resolve(h, n) ==
  IF ~Judged(h) THEN Full             \* no header / header to be ignored
  ELSE LET sat == SelectSeq(h.specs, LAMBDA s : Satisfiable(s, n)) IN
       IF sat = <<>> THEN Unsat
       ELSE Partial([i \in 1..Len(sat) |-> Slice(sat[i], n)])

\* independent, set-based reading of the same RFC text (used by TLC to
\* cross-check Resolve on small objects): the bytes a spec asks for
ReqBytes(s, n) ==
  {b \in 0..(n - 1) : IF s.f = None THEN b >= n - s.l
                      ELSE b >= s.f /\ (s.l = None \/ b <= s.l)}

(***************************************************************************)
(* (2) CODE                                                                *)
(***************************************************************************)
\* storage.ByteRange{Start,End}: hs/he = pointer non-nil, e exclusive
BR(hs, s, he, e) == [hs |-> hs, s |-> s, he |-> he, e |-> e]
NoBR == BR(FALSE, 0, FALSE, 0)

\* strconv.ParseInt(text, 10, 64): values above 2^63-1 are a range error,
\* which parseRangeHeader turns into errInvalidByteRange (=> 416).
\* Intended (proposed_fixes/D-C05-int64-overflow.diff): no object can hold
\* 2^63-1 bytes, so every position >= 2^63-2 means "beyond the end" and is
\* clamped to 2^63-2; then last+1 cannot overflow either.
ParseInt(v, D) ==
  IF TagOverflow \in D
  THEN (IF v <= I64MAX THEN [ok |-> TRUE, v |-> v] ELSE [ok |-> FALSE, v |-> 0])
  ELSE [ok |-> TRUE, v |-> Min(v, I64MAX - 1)]

\* "excEnd := *end + 1": wraps to -2^63 for last-byte-pos = 2^63-1
\* (only reachable when ParseInt does not clamp).
ExclusiveEnd(l, D) == IF l = I64MAX THEN I64MIN ELSE l + 1

ParseSpec(s, D) ==
  LET pf == IF s.f = None THEN [ok |-> TRUE, v |-> 0] ELSE ParseInt(s.f, D)
      pl == IF s.l = None THEN [ok |-> TRUE, v |-> 0] ELSE ParseInt(s.l, D)
  IN IF s.f = None /\ s.l = None THEN [err |-> TRUE, r |-> NoBR]
     ELSE IF ~pf.ok \/ ~pl.ok THEN [err |-> TRUE, r |-> NoBR]
     ELSE IF s.f = None THEN [err |-> FALSE, r |-> BR(FALSE, 0, TRUE, pl.v)]
     ELSE IF s.l = None THEN [err |-> FALSE, r |-> BR(TRUE, pf.v, FALSE, 0)]
     ELSE [err |-> FALSE, r |-> BR(TRUE, pf.v, TRUE, ExclusiveEnd(pl.v, D))]

\* parseRangeHeader: error => the handler answers 416 without touching storage
parseRangeHeader(h, D) ==
  IF h.form = "none" THEN [err |-> FALSE, ranges |-> <<>>]
  ELSE IF h.form # RangesForm \/ Len(h.specs) = 0 THEN [err |-> TRUE, ranges |-> <<>>]
  ELSE LET ps == [i \in 1..Len(h.specs) |-> ParseSpec(h.specs[i], D)] IN
       IF \E i \in 1..Len(ps) : ps[i].err THEN [err |-> TRUE, ranges |-> <<>>]
       ELSE [err |-> FALSE, ranges |-> [i \in 1..Len(ps) |-> ps[i].r]]

\* normalizeAndValidateRanges + the "globalStart >= globalEnd" guard of
\* createRangeReader, per range:
\*   "bad"   the range is malformed for the storage API (negative start,
\*           start >= end before clamping: reversed / wrapped end)
\*   "unsat" well-formed but selects no byte of an n-byte object
\*   "ok"
Classify(r, n) ==
  IF ~r.hs /\ ~r.he THEN "ok"         \* whole object (GetObject's default; empty body if n = 0)
  ELSE IF ~r.hs THEN (IF r.e <= 0 \/ n = 0 THEN "unsat" ELSE "ok")   \* suffix
  ELSE IF r.s < 0 THEN "bad"
  ELSE IF r.he /\ r.s >= r.e THEN "bad"
  ELSE IF r.s >= (IF r.he THEN Min(r.e, n) ELSE n) THEN "unsat"
  ELSE "ok"

\* absolute half-open interval the reader of an "ok" range delivers
Normalize(r, n) ==
  IF ~r.hs /\ ~r.he THEN [lo |-> 0, hi |-> n - 1]
  ELSE IF ~r.hs THEN [lo |-> n - Min(r.e, n), hi |-> n - 1]
  ELSE [lo |-> r.s, hi |-> (IF r.he THEN Min(r.e, n) ELSE n) - 1]

\* createRangeReader: which parts are opened, how much is skipped
\* (ioutils.SkipNBytes) and how much is delivered (NewLimitedEndReadCloser)
PartPlan(obj, lo, hi) ==
  LET ks == SelectSeq([k \in 1..Len(obj.parts) |-> k],
                      LAMBDA k : /\ lo < PartStart(obj, k) + obj.parts[k]
                                 /\ hi + 1 > PartStart(obj, k)) IN
  [i \in 1..Len(ks) |->
     LET k  == ks[i]
         ps == PartStart(obj, k)
         a  == IF lo > ps THEN lo - ps ELSE 0
         b  == IF hi + 1 < ps + obj.parts[k] THEN hi + 1 - ps ELSE obj.parts[k]
     IN [part |-> k, skip |-> a, limit |-> b - a]]

\* the global byte indexes a plan delivers, in order
RECURSIVE PlanBytes(_, _)
PlanBytes(obj, plan) ==
  IF plan = <<>> THEN <<>>
  ELSE LET e == Head(plan) IN
       [j \in 1..e.limit |-> PartStart(obj, e.part) + e.skip + j - 1] \o PlanBytes(obj, Tail(plan))

\* metadataPartStorage.GetObject(ranges): ErrInvalidRange or one reader per range.
\* Code: the first range that is not "ok" fails the whole call.
\* Intended: malformed input is rejected, unsatisfiable ranges are dropped,
\* ErrInvalidRange only if nothing remains.
GetObject(ranges, obj, D) ==
  LET n   == Size(obj)
      eff == IF ranges = <<>> THEN <<NoBR>> ELSE ranges
      cls == [i \in 1..Len(eff) |-> Classify(eff[i], n)]
      oks == SelectSeq([i \in 1..Len(eff) |-> i], LAMBDA i : cls[i] = "ok")
      Err == [err |-> "InvalidRange", ranges |-> <<>>, slices |-> <<>>]
  IN IF \E i \in 1..Len(eff) : cls[i] = "bad" THEN Err
     ELSE IF TagMultirange \in D /\ (\E i \in 1..Len(eff) : cls[i] # "ok") THEN Err
     ELSE IF oks = <<>> THEN Err
     ELSE [err |-> "", ranges |-> [j \in 1..Len(oks) |-> eff[oks[j]]],
           slices |-> [j \in 1..Len(oks) |-> Normalize(eff[oks[j]], n)]]

PlanLen(obj, slices) ==
  SumSeq([i \in 1..Len(slices) |-> Len(PartPlan(obj, slices[i].lo, slices[i].hi))])

\* generateContentRangeValue(br, objectSize) -> "bytes lo-hi/size"
generateContentRangeValue(r, n) ==
  [lo |-> IF r.hs THEN r.s ELSE IF r.he THEN n - Min(r.e, n) ELSE 0,
   hi |-> IF r.hs /\ r.he THEN Min(r.e, n) - 1 ELSE n - 1]

\* the "Calculate sizes for each range" loop of getObjectHandler
HandlerSize(r, n) ==
  IF ~r.hs /\ r.he THEN Min(r.e, n)
  ELSE IF r.hs THEN (IF r.he THEN Min(r.e, n) ELSE n) - r.s
  ELSE 0

\* getObjectHandler: status, the Content-Range claims, the byte intervals the
\* readers deliver and the lengths the handler copies (io.CopyN)
getObjectHandler(h, obj, D) ==
  LET n  == Size(obj)
      pr == parseRangeHeader(h, D)
      R416 == [status |-> 416, slices |-> <<>>, body |-> <<>>, lens |-> <<>>]
  IN IF pr.err THEN R416
     ELSE LET g == GetObject(pr.ranges, obj, D) IN
          IF g.err # "" THEN R416
          ELSE IF pr.ranges = <<>>
          THEN [status |-> 200, slices |-> <<>>, body |-> g.slices, lens |-> <<n>>]
          ELSE [status |-> 206,
                slices |-> [i \in 1..Len(g.ranges) |-> generateContentRangeValue(g.ranges[i], n)],
                body   |-> g.slices,
                lens   |-> [i \in 1..Len(g.ranges) |-> HandlerSize(g.ranges[i], n)]]

\* what a client can see of it
HttpOut(x) == [status |-> x.status, slices |-> x.slices]
CodeHTTP(h, obj, D) == HttpOut(getObjectHandler(h, obj, D))

IntendedHTTP(h, obj) ==
  LET r == Resolve(h, Size(obj)) IN
  [status |-> CASE r.kind = "full" -> 200 [] r.kind = "unsat" -> 416 [] OTHER -> 206,
   slices |-> r.slices]

\* the storage API takes []ByteRange; the header is converted the way
\* parseRangeHeader does it.  Representable = every number fits an int64.
StorageRepresentable(h) ==
  /\ h.form \in {"none", RangesForm}
  /\ \A i \in 1..Len(h.specs) :
        LET s == h.specs[i] IN
        /\ ~(s.f = None /\ s.l = None)
        /\ s.f <= I64MAX /\ s.l <= I64MAX
        /\ (s.f # None => s.l < I64MAX)
ToStorage(h) ==
  [i \in 1..Len(h.specs) |->
     LET s == h.specs[i] IN
     IF s.f = None THEN BR(FALSE, 0, TRUE, s.l)
     ELSE IF s.l = None THEN BR(TRUE, s.f, FALSE, 0)
     ELSE BR(TRUE, s.f, TRUE, s.l + 1)]
StorageOut(g) == [err |-> g.err, slices |-> g.slices]
CodeStorage(h, obj, D) == StorageOut(GetObject(ToStorage(h), obj, D))
IntendedStorage(h, obj) ==
  LET r == Resolve(h, Size(obj)) IN
  IF r.kind = "unsat" THEN [err |-> "InvalidRange", slices |-> <<>>]
  ELSE IF r.kind = "full" THEN [err |-> "", slices |-> <<[lo |-> 0, hi |-> Size(obj) - 1]>>]
  ELSE [err |-> "", slices |-> r.slices]

\* which listed deviation explains a difference between code and intention
BlameHTTP(h, obj, D) ==
  IF CodeHTTP(h, obj, D \cap {TagOverflow}) # IntendedHTTP(h, obj) THEN TagOverflow
  ELSE IF CodeHTTP(h, obj, D \cap {TagMultirange}) # IntendedHTTP(h, obj) THEN TagMultirange
  ELSE "none"
BlameStorage(h, obj, D) ==
  IF CodeStorage(h, obj, D \cap {TagMultirange}) # IntendedStorage(h, obj) THEN TagMultirange
  ELSE "none"

(***************************************************************************)
(* Symbolic cases (GEN / TV): positions relative to the object             *)
(***************************************************************************)
Kinds  == {"empty", "one", "single", "seg", "mp2", "mp3"}
Styles == {"plain", "ows", "zeros"}
GarbageForms == {"nounit", "otherunit", "alpha", "nodash", "emptyset"}
Forms  == {"none", RangesForm} \cup GarbageForms

NParts(kind) == CASE kind = "empty" -> 0 [] kind = "mp2" -> 2 [] kind = "mp3" -> 3 [] OTHER -> 1

NonePos == [b |-> "none", o |-> 0]
SymPos(kind) ==
  {[b |-> "z", o |-> 0], [b |-> "z", o |-> 1],
   [b |-> "s", o |-> 0], [b |-> "s", o |-> 1],
   [b |-> "imax", o |-> 0 - 1], [b |-> "imax", o |-> 0], [b |-> "umax", o |-> 0]}
  \cup (IF kind # "empty" THEN {[b |-> "s", o |-> 0 - 1]} ELSE {})
  \cup (IF kind \in {"single", "seg", "mp2", "mp3"} THEN [b : {"q"}, o : {0 - 1, 0, 1}] ELSE {})
  \cup (IF kind \in {"mp2", "mp3"} THEN [b : {"p1"}, o : {0 - 1, 0, 1}] ELSE {})
  \cup (IF kind = "mp3" THEN [b : {"p2"}, o : {0 - 1, 0, 1}] ELSE {})
SymSpecs(kind) == [f : SymPos(kind) \cup {NonePos}, l : SymPos(kind) \cup {NonePos}]

Val(p, obj) ==
  CASE p.b = "none" -> None
    [] p.b = "z"    -> p.o
    [] p.b = "s"    -> Size(obj) + p.o
    [] p.b = "p1"   -> PartStart(obj, 2) + p.o
    [] p.b = "p2"   -> PartStart(obj, 3) + p.o
    [] p.b = "q"    -> obj.q + p.o
    [] p.b = "imax" -> I64MAX + p.o
    [] p.b = "umax" -> U64

\* a symbolic case = [obj : kind, form, style, specs : Seq(SymSpecs(obj))]
WellFormedCase(c, obj) ==
  /\ c.obj \in Kinds /\ c.form \in Forms /\ c.style \in Styles
  /\ Len(obj.parts) = NParts(c.obj)
  /\ \A k \in 1..Len(obj.parts) : obj.parts[k] >= 1
  /\ c.obj = "one" => obj.parts = <<1>>
  /\ c.obj \in {"single", "seg", "mp2", "mp3"} => obj.q >= 2 /\ obj.q + 2 < obj.parts[1]
  /\ Size(obj) < I64MAX - 1
  /\ IF c.form = RangesForm
     THEN Len(c.specs) >= 1 /\ \A i \in 1..Len(c.specs) : c.specs[i] \in SymSpecs(c.obj)
     ELSE c.specs = <<>>

HeaderOf(c, obj) ==
  [form |-> c.form,
   specs |-> [i \in 1..Len(c.specs) |-> [f |-> Val(c.specs[i].f, obj), l |-> Val(c.specs[i].l, obj)]]]

\* small objects with the same order of symbolic positions as the driver's
\* objects; GEN uses them to label each enumerated case with the intended
\* result kind so that the pipeline can stratify its sampling of lists
ModelObj(kind) ==
  CASE kind = "empty"  -> [parts |-> <<>>, q |-> 0]
    [] kind = "one"    -> [parts |-> <<1>>, q |-> 0]
    [] kind = "single" -> [parts |-> <<9>>, q |-> 4]
    [] kind = "seg"    -> [parts |-> <<12>>, q |-> 7]
    [] kind = "mp2"    -> [parts |-> <<7, 4>>, q |-> 3]
    [] kind = "mp3"    -> [parts |-> <<8, 1, 5>>, q |-> 4]

(***************************************************************************)
(* Exhaustive checking on small concrete objects (Range.MC.cfg)            *)
(***************************************************************************)
CONSTANTS MaxParts, MaxPartSize, MaxSize, MaxSpecs

RECURSIVE SeqsUpTo(_, _)
SeqsUpTo(S, k) == IF k = 0 THEN {<<>>}
                  ELSE LET prev == SeqsUpTo(S, k - 1) IN
                       prev \cup {Append(s, x) : s \in {t \in prev : Len(t) = k - 1}, x \in S}

MCObjects == {[parts |-> p, q |-> 0] : p \in {pp \in SeqsUpTo(1..MaxPartSize, MaxParts) : SumSeq(pp) <= MaxSize}}
MCPos(obj)   == (0..(Size(obj) + 1)) \cup {I64MAX - 1, I64MAX, U64}
MCSpecs(obj) == [f : MCPos(obj) \cup {None}, l : MCPos(obj) \cup {None}]
\* one initial state per (object, header); no transitions - the state space is the case space.
\* Headers: no Range, one unparsable class, and "bytes=" followed by every list of <= MaxSpecs specs.
VARIABLES mobj, mhdr
vars == <<mobj, mhdr>>
Init == /\ mobj \in MCObjects
        /\ \/ mhdr \in {[form |-> "none", specs |-> <<>>], [form |-> "alpha", specs |-> <<>>]}
           \/ \E k \in 0..MaxSpecs : \E ss \in [1..k -> MCSpecs(mobj)] :
                 mhdr = [form |-> RangesForm, specs |-> ss]
Next == UNCHANGED vars
Spec == Init /\ [][Next]_vars

\* sanity of the RFC transcription ------------------------------------------
\* (operators take the resolved value as an argument so that TLC evaluates it once)
WithinBounds(res, n) ==
  \A i \in 1..Len(res.slices) : 0 <= res.slices[i].lo /\ res.slices[i].lo <= res.slices[i].hi /\ res.slices[i].hi <= n - 1
SlicesWithinBounds == WithinBounds(Resolve(mhdr, Size(mobj)), Size(mobj))

\* Resolve agrees with the set-based reading: every satisfiable spec yields
\* exactly the bytes it asks for, in request order, nothing else
Exact(h, res, n) ==
  Judged(h) =>
    LET req == SelectSeq([i \in 1..Len(h.specs) |-> ReqBytes(h.specs[i], n)], LAMBDA B : B # {}) IN
    /\ Len(req) = Len(res.slices)
    /\ \A i \in 1..Len(req) : req[i] = res.slices[i].lo..res.slices[i].hi
ExactSlices == Exact(mhdr, Resolve(mhdr, Size(mobj)), Size(mobj))

Unsat416(h, res, n) ==
  Judged(h) => (res.kind = "unsat" <=> \A i \in 1..Len(h.specs) : ReqBytes(h.specs[i], n) = {})
Unsat416Iff == Unsat416(mhdr, Resolve(mhdr, Size(mobj)), Size(mobj))

Shape(h, res) ==
  /\ res.kind = "partial" <=> res.slices # <<>>
  /\ ~Judged(h) => res = Full
KindShape == Shape(mhdr, Resolve(mhdr, Size(mobj)))

\* the design (code model without deviations) satisfies the property --------
DesignConformsHTTP    == Judged(mhdr) => CodeHTTP(mhdr, mobj, {}) = IntendedHTTP(mhdr, mobj)
DesignConformsStorage == (Judged(mhdr) /\ StorageRepresentable(mhdr)) =>
                           CodeStorage(mhdr, mobj, {}) = IntendedStorage(mhdr, mobj)
\* same statement about the model of the code as it is (Range.Dev.cfg expects a violation)
CodeConformsHTTP      == Judged(mhdr) => CodeHTTP(mhdr, mobj, Deviations) = IntendedHTTP(mhdr, mobj)
BlameIsTotal ==
  (Judged(mhdr) /\ CodeHTTP(mhdr, mobj, AllTags) # IntendedHTTP(mhdr, mobj)) => BlameHTTP(mhdr, mobj, AllTags) \in AllTags

\* the handler's three independent computations agree (under any deviation set)
HandlerConsistent ==
  \A D \in SUBSET AllTags :
    LET x == getObjectHandler(mhdr, mobj, D) IN
    x.status = 206 =>
      /\ x.slices = x.body
      /\ \A i \in 1..Len(x.slices) : x.lens[i] = x.slices[i].hi - x.slices[i].lo + 1

\* createRangeReader's part plan delivers exactly lo..hi
PlanExact(obj, res) ==
  \A i \in 1..Len(res.slices) :
    LET sl == res.slices[i]
        plan == PartPlan(obj, sl.lo, sl.hi) IN
    /\ PlanBytes(obj, plan) = [j \in 1..(sl.hi - sl.lo + 1) |-> sl.lo + j - 1]
    /\ \A e \in 1..Len(plan) : plan[e].limit >= 1 /\ plan[e].skip >= 0
PartPlanExact == PlanExact(mobj, Resolve(mhdr, Size(mobj)))
=============================================================================
