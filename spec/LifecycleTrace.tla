--------------------------- MODULE LifecycleTrace ---------------------------
(* TV: one executed case per ndjson line.  A line carries the rule set and the *)
(* events of one or more sweeps of the REAL reconciler:                        *)
(*   state   - the store as it is now (scripted tier: the case; real-store     *)
(*             tier: observed through ListObjectVersions before every call)    *)
(*   list    - a listing call of the reconciler returned (= snapshot)          *)
(*   replace - the scripted store replaced the current object of a key         *)
(*   call    - a mutating call the reconciler made, with the store's answer    *)
(*             (judge = FALSE: a call the driver made itself to probe the real   *)
(*             store's guard semantics; only compared with the model store)     *)
(* Every call that takes effect is judged with Allowed (Lifecycle.tla) in the  *)
(* model state it hits; the scripted store's answers are checked against the   *)
(* model store (Apply) as well.                                                *)
EXTENDS Lifecycle, Json, IOUtils

Trace == ndJsonDeserialize(IOEnv.TRACE_FILE)
VARIABLE l

ToSet(s) == {s[i] : i \in 1..Len(s)}
NormVersion(v) == [uid |-> v.uid, id |-> v.id, dm |-> v.dm, created |-> v.created, mtime |-> v.mtime,
                   size |-> v.size, tags |-> ToSet(v.tags), class |-> v.class, etag |-> v.etag]
NormStore(e) ==
  [ver |-> e.ver,
   objs |-> [i \in 1..Len(e.objs) |->
               [key |-> e.objs[i].key,
                chain |-> [j \in 1..Len(e.objs[i].chain) |-> NormVersion(e.objs[i].chain[j])]]],
   ups |-> {[key |-> u.key, id |-> u.id, initiated |-> u.initiated] : u \in ToSet(e.ups)}]
NormRule(r) ==
  [on |-> r.on, prefix |-> r.prefix, tags |-> ToSet(r.tags), gt |-> r.gt, lt |-> r.lt, legacy |-> r.legacy,
   exp |-> [kind |-> r.exp.kind, n |-> r.exp.n],
   trans |-> [i \in 1..Len(r.trans) |-> [kind |-> r.trans[i].kind, n |-> r.trans[i].n, class |-> r.trans[i].class]],
   nve |-> [days |-> r.nve.days, keep |-> r.nve.keep],
   nvt |-> [i \in 1..Len(r.nvt) |-> [days |-> r.nvt[i].days, keep |-> r.nvt[i].keep, class |-> r.nvt[i].class]],
   abort |-> r.abort]
NormRules(rs) == [i \in 1..Len(rs) |-> NormRule(rs[i])]
CallOf(e) == Call(e.op, e.key, e.vid, e.ifmatch, 0, e.class, e.upload)
Proj(S, k) == LET pch == ChainOf(S, k) IN [i \in 1..Len(pch) |-> <<pch[i].uid, pch[i].class>>]

EmptyStore == [ver |-> "Unversioned", objs |-> <<>>, ups |-> {}]

\* Which known deviation (if any) explains a call that the property forbids.
Explain(S, P, R, tnow, c) ==
  LET sch == ChainOf(S, c.key) IN
  IF /\ Has("D-C25-etag-guard")
     /\ c.vid = 0 /\ c.ifmatch # "" /\ c.op \in {"DeleteObject", "Transition"}
     /\ Len(sch) > 0 /\ Last(sch).uid \notin Uids(ChainOf(P, c.key))   \* a replacement ...
     /\ Len(ChainOf(P, c.key)) > 0
     /\ Last(ChainOf(P, c.key)).etag = c.ifmatch                      \* ... of the listed object
     /\ AllowedQ(P, R, tnow, c, Truth)                                 \* which was due
  THEN "D-C25-etag-guard"
  ELSE IF /\ Has("D-C25-newer-noncurrent-plus-one")
          /\ AllowedQ(S, R, tnow, c, [order |-> "truth", slack |-> TRUE])
  THEN "D-C25-newer-noncurrent-plus-one"
  ELSE IF /\ Has("D-C25-noncurrent-order")
          /\ c.vid # 0
          /\ \/ AllowedQ(S, R, tnow, c, [order |-> "mtime", slack |-> FALSE])
             \/ Has("D-C25-newer-noncurrent-plus-one")
                /\ AllowedQ(S, R, tnow, c, [order |-> "mtime", slack |-> TRUE])
  THEN "D-C25-noncurrent-order"
  ELSE ""

\* walk the events of one line; w = [S, P, S0, now, nuid, touched, out]
Step(w, e, i, R) ==
  CASE e.e = "state" -> [w EXCEPT !.S = NormStore(e), !.P = NormStore(e), !.S0 = NormStore(e), !.now = e.now, !.touched = {}]
    [] e.e = "list" -> [w EXCEPT !.P = w.S]
    [] e.e = "replace" -> [w EXCEPT !.S = Replace(w.S, e.key, e.etag, w.now, w.nuid),
                                    !.nuid = w.nuid + 1, !.touched = w.touched \cup {e.key}]
    [] e.e = "call" ->
         LET c == CallOf(e)
             a == Apply(w.S, c, w.now, w.nuid, FALSE)
             okStore == ~e.check \/ (a.res = e.res /\ Proj(a.S, c.key) = e.after)
             \* the preference for expiration is also satisfied if the expiration of this very
             \* thing was not surely due in the last observed state before the sweep's passes
             \* (S0): an earlier pass of the same sweep may have removed its successor
             expOK == \/ c.key \in w.touched
                      \/ ExpWinsOKSP(w.S, w.P, R, w.now, c)
                      \/ (SameThing(w.S, w.S0, c) /\ ExpWinsOK(w.S0, R, w.now, c, Truth))
             ok == DueOKSP(w.S, w.P, R, w.now, c) /\ KeepsOKSP(w.S, w.P, R, w.now, c) /\ expOK
             tag == Explain(w.S, w.P, R, w.now, c)
             v == IF ~okStore THEN "storemodel"
                  ELSE IF ~e.judge \/ e.res # "ok" \/ ~a.eff THEN "ok"
                  ELSE IF ok THEN "ok"
                  ELSE IF tag # "" THEN "finding" ELSE "mismatch" IN
         [w EXCEPT !.S = a.S, !.nuid = w.nuid + 1,
                   !.out = IF v = "ok" THEN w.out
                           ELSE Append(w.out, [ev |-> i, verdict |-> v, tag |-> tag,
                                               due |-> DueOKSP(w.S, w.P, R, w.now, c),
                                               keeps |-> KeepsOKSP(w.S, w.P, R, w.now, c),
                                               expwins |-> ExpWinsOKSP(w.S, w.P, R, w.now, c),
                                               model_res |-> a.res, model_after |-> Proj(a.S, c.key)])]
    [] OTHER -> w

RECURSIVE Walk(_, _, _, _)
Walk(w, evs, i, R) == IF i > Len(evs) THEN w ELSE Walk(Step(w, evs[i], i, R), evs, i + 1, R)

Flags(r) ==
  Walk([S |-> EmptyStore, P |-> EmptyStore, S0 |-> EmptyStore, now |-> 0, nuid |-> 100, touched |-> {}, out |-> <<>>],
       r.events, 1, NormRules(r.rules)).out

Report(i) ==
  LET fl == Flags(Trace[i]) IN
  IF fl = <<>> THEN TRUE
  ELSE PrintT(ToJson([l |-> i, id |-> Trace[i].id, flags |-> fl]))

Frozen == /\ store = 0 /\ rules = 0 /\ now = 0 /\ pc = 0 /\ snap = 0 /\ acts = 0
          /\ nuid = 0 /\ races = 0 /\ rounds = 0 /\ touched = 0
TInit == l = 1 /\ Frozen
TNext == l <= Len(Trace) /\ Report(l) /\ l' = l + 1 /\ UNCHANGED vars
=============================================================================
