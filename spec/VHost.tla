------------------------------- MODULE VHost -------------------------------
(***************************************************************************)
(* C33 - virtual-hosted and path-style requests address the same resource; *)
(* website-endpoint and custom-domain requests never change state.         *)
(*                                                                         *)
(* Models, as result operators over symbolic requests, the routing chain   *)
(* of internal/http/server/server.go:SetupServer                           *)
(*   middleware/hostrouting.go   MakeHostnameRoutingHandler   (c.kind)     *)
(*   middleware/virtualhostbucketaddressing.go                             *)
(*       MakeVirtualHostBucketAddressingMiddleware  -> VHostWith           *)
(*   net/http ServeMux on URL.EscapedPath() (clean-path redirect, pattern  *)
(*       "/{bucket}" vs "/{bucket}/{key...}")       -> Route               *)
(*   the handler chosen by method                   -> BucketOp, ObjectOp  *)
(*   server/website.go, the website mux (GET/HEAD only) -> WebsiteExplained*)
(* down to the (method, bucket, key) the storage layer receives.           *)
(*                                                                         *)
(* A key is a sequence of wire tokens (how it is written in the request    *)
(* target): c plain character, sl "/", e2f "%2F", e2fl "%2f", e25 "%25",   *)
(* sp "%20", u a percent-encoded two-byte UTF-8 character, plus "+".       *)
(* Decode gives the key's characters.  The harness (harness/cmd/vhost)     *)
(* concretises tokens and bucket classes and maps observed keys back to    *)
(* character symbols.                                                      *)
(* The case sets are in VHostGen.tla, the trace binding in VHostTrace.tla. *)
(***************************************************************************)
EXTENDS Naturals, Sequences, FiniteSets, TLC

CONSTANT Deviations      \* set of deviation tags the code is known to have

KeySyms   == {"c", "sl", "e2f", "e2fl", "e25", "sp", "u", "plus"}
KeyChars  == {"c", "sl", "pct", "sp", "u", "plus"}
Buckets   == {"plain", "hyphen", "dotted"}
Methods   == {"GET", "HEAD", "PUT", "DELETE", "POST"}      \* POST is POST ?uploads
HostForms == {"bare", "port"}
Kinds     == {"api", "website", "custom"}

IsCase(c) == /\ c.kind \in Kinds /\ c.bucket \in Buckets /\ c.method \in Methods /\ c.hostform \in HostForms
             /\ \A i \in 1..Len(c.key) : c.key[i] \in KeySyms

\* storage.Storage methods that do not change state; every other method is a mutator
ReadOnlyOps == {"ListBuckets", "HeadBucket", "GetBucketWebsiteConfiguration", "GetBucketCORSConfiguration",
                "GetBucketLifecycleConfiguration", "GetBucketNotificationConfiguration",
                "GetBucketVersioningConfiguration", "GetObjectTagging", "ListObjects", "ListObjectVersions",
                "HeadObject", "GetObject", "ListMultipartUploads", "ListParts"}

\* ------------------------------------------------------------------ model
EscSlash == {"e2f", "e2fl"}
CharOf(s) == CASE s = "c" -> "c" [] s \in {"sl", "SEP"} \cup EscSlash -> "sl" [] s = "e25" -> "pct"
               [] s = "sp" -> "sp" [] s = "u" -> "u" [] s = "plus" -> "plus"
Decode(key) == [i \in 1..Len(key) |-> CharOf(key[i])]

\* What the router sees of the key: ServeMux matches URL.EscapedPath().  While
\* the escaped form of the request target is kept (rawKept) only a literal "/"
\* separates segments and "%2F" is an opaque character; once URL.Path has been
\* rewritten without URL.RawPath the escaped path is recomputed from the decoded
\* path and every "/" of the key is a separator.
MuxView(key, rawKept) ==
  [i \in 1..Len(key) |-> IF key[i] = "sl" \/ (key[i] \in EscSlash /\ ~rawKept) THEN "SEP" ELSE key[i]]

BucketOp(m) == CASE m = "GET" -> "ListObjects" [] m = "HEAD" -> "HeadBucket" [] m = "PUT" -> "CreateBucket"
                 [] m = "DELETE" -> "DeleteBucket" [] m = "POST" -> "none"
ObjectOp(m) == CASE m = "GET" -> "GetObject" [] m = "HEAD" -> "HeadObject" [] m = "PUT" -> "PutObject"
                 [] m = "DELETE" -> "DeleteObject" [] m = "POST" -> "CreateMultipartUpload"

Call(op, b, k) == [op |-> op, bucket |-> b, key |-> k]

\* T = what follows "/<bucket>" in the path the ServeMux routes on (<<>> = nothing)
Unclean(T) == \E i \in 1..(Len(T) - 1) : T[i] = "SEP" /\ T[i + 1] = "SEP"
Route(b, m, T) ==
  IF T = <<>> THEN (IF BucketOp(m) = "none" THEN <<>> ELSE <<Call(BucketOp(m), b, <<>>)>>)
  ELSE IF Unclean(T) THEN <<>>                  \* redirect to the cleaned path, no handler
  ELSE IF Len(T) = 1 THEN <<>>                  \* "/<bucket>/": empty key, rejected by the handler
  ELSE <<Call(ObjectOp(m), b, [i \in 1..(Len(T) - 1) |-> CharOf(T[i + 1])])>>

\* storage calls of the path-style request  /<bucket>[/<key>]
PathStyle(c) ==
  Route(c.bucket, c.method, IF c.key = <<>> THEN <<>> ELSE <<"SEP">> \o MuxView(c.key, TRUE))

\* storage calls of the virtual-hosted request  Host: <bucket>.<endpoint>, /<key>
\*   devs = {} : the rewrite the property needs - prefix the bucket to the path as
\*               sent, map the bare "/" to the bucket itself
\*   D-C33-trailing-slash : strings.TrimSuffix("/"+bucket+r.URL.Path, "/") drops the last "/" of every key
\*   D-C33-escaped-slash  : only URL.Path is rewritten; URL.RawPath goes stale, so "%2F" becomes a separator
VHostWith(c, devs) ==
  LET full == <<"SEP">> \o MuxView(c.key, "D-C33-escaped-slash" \notin devs)
      last == full[Len(full)]
      T    == IF c.key = <<>> THEN <<>>
              ELSE IF "D-C33-trailing-slash" \in devs /\ last \in {"SEP"} \cup EscSlash
                   THEN SubSeq(full, 1, Len(full) - 1)
                   ELSE full
  IN Route(c.bucket, c.method, T)

VHostCode(c)     == VHostWith(c, Deviations)     \* model of the code
VHostIntended(c) == VHostWith(c, {})             \* what the property demands

\* the storage calls a request reaches, by addressing style (model of the code)
Target(style, c) == IF style = "path" THEN PathStyle(c) ELSE VHostCode(c)

\* website endpoint and custom domains: the website mux serves GET and HEAD only,
\* by reading the website configuration and objects of the bucket named by the host
WebsiteOps == {"GetBucketWebsiteConfiguration", "GetObject", "HeadObject"}
WebsiteExplained(c, calls) ==
  IF c.method \in {"GET", "HEAD"}
  THEN \A i \in 1..Len(calls) : calls[i].op \in WebsiteOps /\ calls[i].bucket = c.bucket
  ELSE calls = <<>>

\* ---------------------------------------------------------------- property
SameTarget(callsPath, callsVHost) == callsPath = callsVHost
NoMutation(calls) == \A i \in 1..Len(calls) : calls[i].op \in ReadOnlyOps
C33Holds(c, callsPath, callsVHost) ==
  IF c.kind = "api" THEN SameTarget(callsPath, callsVHost) ELSE NoMutation(callsVHost)

\* which deviation a broken api case is attributed to
TagOf(c) ==
  IF VHostWith(c, Deviations \ {"D-C33-trailing-slash"}) = PathStyle(c) THEN "D-C33-trailing-slash"
  ELSE IF VHostWith(c, Deviations \ {"D-C33-escaped-slash"}) = PathStyle(c) THEN "D-C33-escaped-slash"
  ELSE IF Deviations \cap {"D-C33-trailing-slash", "D-C33-escaped-slash"} # {} THEN "D-C33-escaped-slash"
  ELSE "unattributed"

\* the deviations are not vacuous: each one alone breaks the property on a witness
ASSUME DeviationsBite ==
  LET w1 == [kind |-> "api", bucket |-> "plain", key |-> <<"c", "sl">>, method |-> "PUT", hostform |-> "bare"]
      w2 == [kind |-> "api", bucket |-> "plain", key |-> <<"e2f", "c">>, method |-> "PUT", hostform |-> "bare"]
      w0 == [kind |-> "api", bucket |-> "plain", key |-> <<>>, method |-> "GET", hostform |-> "bare"]
  IN /\ PathStyle(w1) = <<Call("PutObject", "plain", <<"c", "sl">>)>>
     /\ VHostWith(w1, {"D-C33-trailing-slash"}) = <<Call("PutObject", "plain", <<"c">>)>>
     /\ PathStyle(w2) = <<Call("PutObject", "plain", <<"sl", "c">>)>>
     /\ VHostWith(w2, {"D-C33-escaped-slash"}) = <<>>
     /\ VHostWith(w0, {}) = <<Call("ListObjects", "plain", <<>>)>>
=============================================================================
