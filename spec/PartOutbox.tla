----------------------------- MODULE PartOutbox -----------------------------
(***************************************************************************)
(* C18 - the outbox part store is consistent with its committed history.   *)
(*                                                                         *)
(* Models internal/storage/metadatapart/partstore/outbox/outbox.go and     *)
(* internal/storage/database/sqlite/repository/partoutboxentry/sqlite.go   *)
(* at the grain of their critical sections:                                *)
(*   Commit        a client write transaction that called the outbox       *)
(*                 store's PutPart / DeletePart (storePartOutboxEntry +    *)
(*                 content chunks in the SAME SQL transaction): its        *)
(*                 entries become visible atomically at commit, a rolled   *)
(*                 back transaction leaves nothing;                        *)
(*   Claim         claimNextOutboxEntry / ClaimFirstPartOutboxEntry: only  *)
(*                 the OLDEST entry (ORDER BY id ASC LIMIT 1) is a         *)
(*                 candidate; CAS on version, claim free or lease expired; *)
(*   Heartbeat     startPartOutboxHeartbeat / ExtendPartOutboxEntryClaim:  *)
(*                 extends the lease iff claim_owner is still this worker; *)
(*   ReplayStart   replayPutPart opens the lazy chunk reader and the inner *)
(*                 store consumes the entry's content (fails with          *)
(*                 errPartOutboxEntryVanished when the entry is gone);     *)
(*                 replayDeletePart starts;                                *)
(*   ReplayEnd     the tx-free inner-store PutPart / DeletePart takes      *)
(*                 effect.  It is NOT atomic with any database step: a     *)
(*                 slow replay overlaps everything else;                   *)
(*   Finalize      finalizePartOutboxEntry /                               *)
(*                 DeletePartOutboxEntryByClaimOwner: delete iff owner;    *)
(*   Release       releasePartOutboxEntry after a failed replay;           *)
(*   LeaseExpire   the wall clock passes claim_until;                      *)
(*   WorkerCrash   the worker dies holding a claim; it restarts with a new *)
(*                 claimOwner (outboxId:ULID made in New);                 *)
(*   Read1/2/3     GetPart / GetPartIds: first the outbox lookup (one SQL  *)
(*                 snapshot), then - when the lookup does not decide -     *)
(*                 the inner store, which is outside that snapshot (Read2),*)
(*                 then the return (Read3): the ORDER of the two reads is  *)
(*                 part of the model - the outbox view must not be newer   *)
(*                 than the inner view, or an entry flushed in between is  *)
(*                 in neither.                                             *)
(* SQLite gives every transaction a snapshot, so the `!entryExists` retry  *)
(* and mid-read fallback branches of GetPart / lazyOutboxChunkReadCloser   *)
(* (statement-level isolation, Postgres) are unreachable here and are not  *)
(* modelled.                                                               *)
(*                                                                         *)
(* Intended design vs. code.  Without fencing of the inner-store write a   *)
(* replay that started under a lease which was then lost can land after    *)
(* the new owner finished the entry AND later entries of the same part.    *)
(* The design therefore needs the guard "an inner-store mutation takes     *)
(* effect only while the worker still owns the entry" (a fencing token or  *)
(* an equivalent); the code has no such guard: named deviation             *)
(* D-C18-stale-replay-after-lost-lease.                                    *)
(***************************************************************************)
EXTENDS Integers, Sequences, FiniteSets, TLC

CONSTANTS Parts,        \* part ids
          Workers,      \* worker names (strings)
          Deviations,   \* enabled named deviations
          MaxEntries,   \* bound on entries ever created          (model checking only)
          MaxCrashes,   \* bound on worker crashes                (model checking only)
          MaxHB,        \* bound on heartbeats                    (model checking only)
          MaxReads      \* bound on reads                         (model checking only)

StaleTag == "D-C18-stale-replay-after-lost-lease"

NoC == "-"              \* "no content": the part does not exist
NoOwner == <<>>

VARIABLES entries,    \* pending outbox entries in id order: [id, part, op, content, owner, lease, ver]
          nextId,     \* id of the next entry
          committed,  \* part -> content after the committed history (NoC = absent)
          inner,      \* part -> content in the inner store (NoC = absent)
          pc,         \* worker -> "idle" | "claimed" | "replaying" | "replayed" | "failed"
          held,       \* worker -> [id, part, op, content] of the entry it works on (content read at ReplayStart)
          inc,        \* worker -> incarnation (claimOwner changes on restart)
          rd,         \* the reader: [st, kind, part, snap, win, res, ok]
          stale,      \* TRUE once an inner-store mutation was applied by a worker that no longer owned the entry
          cnt         \* [crash, hb, reads] counters (bounds only)

vars == <<entries, nextId, committed, inner, pc, held, inc, rd, stale, cnt>>

Me(w) == <<w, inc[w]>>
NoHeld == [id |-> 0, part |-> "", op |-> "", content |-> NoC]
IdleRd == [st |-> "idle", kind |-> "", part |-> "", snap |-> [p \in Parts |-> "none"],
           win |-> [p \in Parts |-> {}], res |-> [p \in Parts |-> NoC], ok |-> TRUE]

Init == /\ entries = <<>> /\ nextId = 1
        /\ committed = [p \in Parts |-> NoC]
        /\ inner = [p \in Parts |-> NoC]
        /\ pc = [w \in Workers |-> "idle"]
        /\ held = [w \in Workers |-> NoHeld]
        /\ inc = [w \in Workers |-> 0]
        /\ rd = IdleRd
        /\ stale = FALSE
        /\ cnt = [crash |-> 0, hb |-> 0, reads |-> 0]

\* ------------------------------------------------------------- helpers
Idx(id) == CHOOSE i \in 1..Len(entries) : entries[i].id = id
Has(id) == \E i \in 1..Len(entries) : entries[i].id = id
Owns(w) == Has(held[w].id) /\ entries[Idx(held[w].id)].owner = Me(w)

HasFor(es, p) == \E i \in 1..Len(es) : es[i].part = p
LastFor(es, p) == es[CHOOSE i \in 1..Len(es) : es[i].part = p /\ \A j \in (i + 1)..Len(es) : es[j].part # p]
\* what the outbox lookup decides for part p: "none" (ask the inner store), NoC (deleted) or the content
Lookup(es, p) == IF ~HasFor(es, p) THEN "none"
                 ELSE IF LastFor(es, p).op = "Put" THEN LastFor(es, p).content ELSE NoC
\* GetPart as one atomic observation (FindLastPartOutboxEntryByPartId, then the inner store)
View(p) == IF Lookup(entries, p) = "none" THEN inner[p] ELSE Lookup(entries, p)
\* GetPartIds as one atomic observation
ViewIds == {p \in Parts : View(p) # NoC}

RECURSIVE ApplyOps(_, _)
ApplyOps(cm, ops) == IF ops = <<>> THEN cm
                     ELSE ApplyOps([cm EXCEPT ![Head(ops).part] =
                                        IF Head(ops).op = "Put" THEN Head(ops).content ELSE NoC], Tail(ops))
NewEntries(ops, base) ==
  [i \in 1..Len(ops) |-> [id |-> base + i - 1, part |-> ops[i].part, op |-> ops[i].op,
                           content |-> IF ops[i].op = "Put" THEN ops[i].content ELSE NoC,
                           owner |-> NoOwner, lease |-> FALSE, ver |-> 0]]

\* every value a committed transaction gives part p (a transaction that writes p twice exposes, to a
\* read that overlaps its flush, also the first value: still the effect of a committed operation)
Touched(ops, p) == {(IF ops[i].op = "Put" THEN ops[i].content ELSE NoC) : i \in {j \in 1..Len(ops) : ops[j].part = p}}

\* ------------------------------------------------------------- client transactions
\* ops: sequence of [op, part, content]; ok = the transaction commits
Commit(ops, ok) ==
  /\ IF ok
     THEN /\ entries' = entries \o NewEntries(ops, nextId)
          /\ nextId' = nextId + Len(ops)
          /\ committed' = ApplyOps(committed, ops)
          /\ rd' = IF rd.st = "inner"
                   THEN [rd EXCEPT !.win = [p \in Parts |-> rd.win[p] \cup Touched(ops, p)]]
                   ELSE rd
     ELSE UNCHANGED <<entries, nextId, committed, rd>>
  /\ UNCHANGED <<inner, pc, held, inc, stale, cnt>>

\* ------------------------------------------------------------- worker
\* result of ClaimFirstPartOutboxEntry: "none" (no entry), "busy" (first entry held under a live lease), "claimed"
ClaimResult(es) == IF es = <<>> THEN "none"
                   ELSE IF es[1].owner = NoOwner \/ ~es[1].lease THEN "claimed" ELSE "busy"
\* es = the entries as the claim statement sees them (trace validation passes the entries with their
\* leases expired when the wall clock has, or may have, passed claim_until - see PartOutboxTrace!TClaim)
ClaimOn(es, w) ==
  /\ pc[w] = "idle"
  /\ IF ClaimResult(es) = "claimed"
     THEN /\ entries' = [es EXCEPT ![1] = [@ EXCEPT !.owner = Me(w), !.lease = TRUE, !.ver = @ + 1]]
          /\ pc' = [pc EXCEPT ![w] = "claimed"]
          /\ held' = [held EXCEPT ![w] = [id |-> es[1].id, part |-> es[1].part, op |-> es[1].op, content |-> NoC]]
     ELSE entries' = es /\ UNCHANGED <<pc, held>>
  /\ UNCHANGED <<nextId, committed, inner, inc, rd, stale, cnt>>
Claim(w) == ClaimOn(entries, w)

\* the replay reader runs in its own read transaction (inner = nil): a vanished entry fails the replay
ReplayStart(w) ==
  /\ pc[w] = "claimed"
  /\ IF held[w].op = "Put"
     THEN IF Has(held[w].id)
          THEN /\ held' = [held EXCEPT ![w].content = entries[Idx(held[w].id)].content]
               /\ pc' = [pc EXCEPT ![w] = "replaying"]
          ELSE /\ pc' = [pc EXCEPT ![w] = "failed"] /\ UNCHANGED held
     ELSE /\ pc' = [pc EXCEPT ![w] = "replaying"] /\ UNCHANGED held
  /\ UNCHANGED <<entries, nextId, committed, inner, inc, rd, stale, cnt>>

\* the inner-store mutation lands.  Intended design: fenced by ownership.  Code: unconditional.
Applies(w) == Owns(w) \/ StaleTag \in Deviations
ReplayEnd(w) ==
  /\ pc[w] = "replaying"
  /\ inner' = IF Applies(w)
              THEN [inner EXCEPT ![held[w].part] = IF held[w].op = "Put" THEN held[w].content ELSE NoC]
              ELSE inner
  /\ stale' = (stale \/ (Applies(w) /\ ~Owns(w)))
  /\ pc' = [pc EXCEPT ![w] = "replayed"]
  /\ UNCHANGED <<entries, nextId, committed, held, inc, rd, cnt>>

\* the heartbeat goroutine lives from the start of the replay until stopHeartbeat returns
Heartbeat(w) ==
  /\ pc[w] \in {"replaying", "replayed", "failed"}
  /\ IF Owns(w)
     THEN entries' = [entries EXCEPT ![Idx(held[w].id)] = [@ EXCEPT !.lease = TRUE, !.ver = @ + 1]]
     ELSE UNCHANGED entries
  /\ cnt' = [cnt EXCEPT !.hb = @ + 1]
  /\ UNCHANGED <<nextId, committed, inner, pc, held, inc, rd, stale>>

Finalize(w) ==
  /\ pc[w] = "replayed"
  /\ entries' = IF Owns(w) THEN SelectSeq(entries, LAMBDA e : e.id # held[w].id) ELSE entries
  /\ pc' = [pc EXCEPT ![w] = "idle"]
  /\ held' = [held EXCEPT ![w] = NoHeld]
  /\ UNCHANGED <<nextId, committed, inner, inc, rd, stale, cnt>>

Release(w) ==
  /\ pc[w] = "failed"
  /\ entries' = IF Owns(w)
                THEN [entries EXCEPT ![Idx(held[w].id)] = [@ EXCEPT !.owner = NoOwner, !.lease = FALSE, !.ver = @ + 1]]
                ELSE entries
  /\ pc' = [pc EXCEPT ![w] = "idle"]
  /\ held' = [held EXCEPT ![w] = NoHeld]
  /\ UNCHANGED <<nextId, committed, inner, inc, rd, stale, cnt>>

\* time passes beyond claim_until of every claimed entry that was not extended
ExpireAll(es) == [i \in 1..Len(es) |-> [es[i] EXCEPT !.lease = FALSE]]
LeaseExpire ==
  /\ \E i \in 1..Len(entries) : entries[i].lease
  /\ entries' = ExpireAll(entries)
  /\ UNCHANGED <<nextId, committed, inner, pc, held, inc, rd, stale, cnt>>

\* the worker dies at any point while it holds work (in particular between Replay and Finalize)
\* and restarts with a fresh claimOwner; an inner-store write that had not landed never lands
WorkerCrash(w) ==
  /\ pc[w] # "idle"
  /\ pc' = [pc EXCEPT ![w] = "idle"]
  /\ held' = [held EXCEPT ![w] = NoHeld]
  /\ inc' = [inc EXCEPT ![w] = @ + 1]
  /\ cnt' = [cnt EXCEPT !.crash = @ + 1]
  /\ UNCHANGED <<entries, nextId, committed, inner, rd, stale>>

\* ------------------------------------------------------------- reader
\* kind "get": GetPart (with or without a transaction - both do the lookup in one snapshot and read the
\* inner store outside it), kind "ids": GetPartIds.  win[p] = the committed values of p since the read
\* began; the read is correct iff what it returns for p is one of them.
\* a finished read returned, for every part it speaks about, a value that was the latest committed one
\* at some instant of the read (reads that overlap no commit must return exactly the committed value)
ReadOK(kind, part, res, win) ==
  IF kind = "get" THEN res[part] \in win[part]
  ELSE \A p \in Parts : IF res[p] = "in" THEN \E v \in win[p] : v # NoC ELSE NoC \in win[p]
\* a finished read keeps only its result and verdict (canonical form keeps the state space small)
Done(kind, part, res, win) == [IdleRd EXCEPT !.st = "done", !.kind = kind, !.part = part, !.res = res,
                                             !.ok = ReadOK(kind, part, res, win)]

\* GetPartIds: inner ids, minus pending deletes, plus pending puts (of the snapshot taken in Read1)
IdsResult(snap, inn) == [q \in Parts |-> IF snap[q] = "none" THEN (IF inn[q] # NoC THEN "in" ELSE "out")
                                          ELSE IF snap[q] = NoC THEN "out" ELSE "in"]
Read1(kind, p) ==
  /\ rd.st \in {"idle", "done"}
  /\ LET snap == [q \in Parts |-> Lookup(entries, q)]
         win0 == [q \in Parts |-> {committed[q]}]
     IN IF kind = "get" /\ snap[p] # "none"
        THEN rd' = Done(kind, p, [q \in Parts |-> IF q = p THEN snap[p] ELSE NoC], win0)
        ELSE rd' = [IdleRd EXCEPT !.st = "inner", !.kind = kind, !.part = p, !.snap = snap, !.win = win0]
  /\ cnt' = [cnt EXCEPT !.reads = @ + 1]
  /\ UNCHANGED <<entries, nextId, committed, inner, pc, held, inc, stale>>

\* the inner store has answered; the result is fixed here (nothing is read afterwards)
Read2 ==
  /\ rd.st = "inner"
  /\ rd' = [Done(rd.kind, rd.part,
                 IF rd.kind = "get" THEN [q \in Parts |-> IF q = rd.part THEN inner[q] ELSE NoC]
                 ELSE IdsResult(rd.snap, inner), rd.win) EXCEPT !.st = "got"]
  /\ UNCHANGED <<entries, nextId, committed, inner, pc, held, inc, stale, cnt>>

\* the call returns; whatever the workers did since Read2 cannot change the answer any more
Read3 ==
  /\ rd.st = "got"
  /\ rd' = [rd EXCEPT !.st = "done"]
  /\ UNCHANGED <<entries, nextId, committed, inner, pc, held, inc, stale, cnt>>

\* ------------------------------------------------------------- model checking
PutOps == [op : {"Put"}, part : Parts, content : {"c"}]
DelOps == [op : {"Delete"}, part : Parts, content : {NoC}]
\* contents are made distinguishable: the k-th op of the transaction starting at id n writes "c<n+k-1>"
Stamp(ops, base) == [i \in 1..Len(ops) |-> IF ops[i].op = "Put" THEN [ops[i] EXCEPT !.content = "c" \o ToString(base + i - 1)] ELSE ops[i]]
TxShapes == {<<a>> : a \in PutOps \cup DelOps} \cup {<<a, b>> : a \in PutOps \cup DelOps, b \in PutOps \cup DelOps}

Next ==
  \/ \E ops \in TxShapes : nextId + Len(ops) - 1 <= MaxEntries /\ Commit(Stamp(ops, nextId), TRUE)
  \/ \E w \in Workers : \/ (ClaimResult(entries) = "claimed" /\ Claim(w))
                        \/ ReplayStart(w) \/ ReplayEnd(w) \/ Finalize(w) \/ Release(w)
                        \/ (cnt.hb < MaxHB /\ Heartbeat(w))
                        \/ (cnt.crash < MaxCrashes /\ WorkerCrash(w))
  \/ LeaseExpire
  \/ (cnt.reads < MaxReads /\ \E k \in {"get", "ids"}, p \in Parts : Read1(k, p))
  \/ Read2 \/ Read3

Spec == Init /\ [][Next]_vars
\* the version column only grows and influences nothing: model checking identifies states up to it
MCView == <<[i \in 1..Len(entries) |-> [entries[i] EXCEPT !.ver = 0]], nextId, committed, inner, pc, held, inc, rd, stale, cnt>>

\* ------------------------------------------------------------- properties
TypeOK == /\ \A i \in 1..Len(entries) : entries[i].part \in Parts /\ entries[i].op \in {"Put", "Delete"}
          /\ \A i, j \in 1..Len(entries) : i < j => entries[i].id < entries[j].id
          /\ \A w \in Workers : pc[w] \in {"idle", "claimed", "replaying", "replayed", "failed"}

ReadsSeeLatestCommitted == rd.ok

\* an atomic observation (no step in between) sees exactly the committed state
QuiescentReadsExact == \A p \in Parts : View(p) = committed[p]

WorkerIdle == \A w \in Workers : pc[w] = "idle"
IdleImpliesInnerExact == (entries = <<>> /\ WorkerIdle) => inner = committed

\* at most one entry is claimed under a live lease, and it is the oldest one
OnlyFirstLeased == \A i \in 1..Len(entries) : entries[i].lease => i = 1
=============================================================================
