------------------------------- MODULE Routing -------------------------------
(***************************************************************************)
(* C31 - no request takes effect without the authorizer's permission.      *)
(*                                                                         *)
(* Models, as result operators over a symbolic request,                    *)
(*   - the dispatch of internal/http/server/server.go (ServeMux patterns,  *)
(*     host routing) and of the secondary routers routeBucketGetHandler,   *)
(*     routeBucketPutHandler, routeBucketDeleteHandler, postBucketHandler  *)
(*     (bucket.go, delete.go), getObjectOrListPartsHandler (object_read.go)*)
(*     createMultipartUploadOrCompleteMultipartUploadHandler,              *)
(*     uploadPartOrPutObjectHandler (object_write.go),                     *)
(*     abortMultipartUploadOrDeleteObjectHandler (delete.go),              *)
(*     serveWebsiteGetObject/HeadObject + websitePrepare (website.go):     *)
(*     operator Route;                                                     *)
(*   - the operation name, bucket, key and copy source each handler hands  *)
(*     to authorizeRequest / authorizeCopyRequest (protocol.go): HandlerOp,*)
(*     AuthB, AuthK, AuthSB, AuthSK;                                       *)
(*   - the storage.Storage methods each handler calls before / after the   *)
(*     authorization: PreAuthCalls, HandlerCalls;                          *)
(*   - isReadOnly of authorization/lua/luaauthorizer.go: ReadOnlyOps.      *)
(* The property side is two tables: MethodEffects (what each               *)
(* storage.Storage method does) and Covers (which effects an operation     *)
(* name legitimately covers), plus the invariants over a recorded call log *)
(* of one request (AuthorizedBeforeEffect, DenyMeansNoEffect,              *)
(* ReadOnlyOpsDoNotMutate, PerItemHooksExact, NoUnauthorizedData).         *)
(* The harness (harness/cmd/routing) concretises every symbol.             *)
(***************************************************************************)
EXTENDS Naturals, Sequences, FiniteSets, TLC

CONSTANT Deviations      \* set of deviation tags the code is known to have

\* ------------------------------------------------------------ request space
Eps     == {"api", "web"}
Methods == {"GET", "HEAD", "PUT", "POST", "DELETE", "OPTIONS", "PATCH"}
Shapes  == {"root", "bucket", "bucketslash", "object"}        \* /  /b  /b/  /b/k
SubRes  == {"versioning", "versions", "cors", "lifecycle", "notification", "website",
            "uploads", "listtype2", "uploadId", "partNumber", "append", "tagging",
            "delete", "unknown"}
Flags   == {"copysrc", "taghdr", "offset", "range", "versionId"}
Bodies  == {"none", "raw", "versioningxml", "corsxml", "lifecyclexml", "notificationxml",
            "websitexml", "taggingxml", "deletexml", "completexml"}
Buckets == {"bv", "bu", "be", "bn"}   \* versioned+configs / plain / empty / not existing
Keys    == {"k1", "k2", "kmp", "kn", "kdir"}
Pages   == {"none", "max1", "delim"}

Ops == {"ListBuckets", "HeadBucket", "ListMultipartUploads", "ListObjects", "CreateBucket",
        "DeleteBucket", "HeadObject", "HeadObjectVersion", "ListParts", "GetObject",
        "GetObjectVersion", "CreateMultipartUpload", "CompleteMultipartUpload", "UploadPart",
        "UploadPartCopy", "PutObject", "CopyObject", "AppendObject", "AbortMultipartUpload",
        "DeleteObject", "DeleteObjectVersion", "DeleteObjects", "GetBucketCORS", "PutBucketCORS",
        "DeleteBucketCORS", "GetBucketWebsite", "PutBucketWebsite", "DeleteBucketWebsite",
        "GetBucketVersioning", "PutBucketVersioning", "ListObjectVersions", "GetObjectTagging",
        "PutObjectTagging", "DeleteObjectTagging", "GetObjectVersionTagging",
        "PutObjectVersionTagging", "DeleteObjectVersionTagging", "GetBucketLifecycle",
        "PutBucketLifecycle", "DeleteBucketLifecycle", "GetBucketNotification",
        "PutBucketNotification"}

\* per-item hook consulted for the results of an operation, and the items the
\* fixture makes such a request enumerate (used to aim deny-by-item programs)
HookOf(op) ==
  CASE op = "ListBuckets" -> "listBucket"
    [] op = "ListObjects" -> "listObject"
    [] op = "DeleteObjects" -> "deleteEntry"
    [] op = "ListMultipartUploads" -> "listUpload"
    [] op = "ListParts" -> "listPart"
    [] OTHER -> "none"
HookOps == {op \in Ops : HookOf(op) # "none"}
HookItems(op) ==
  CASE op = "ListBuckets" -> {"bv", "bu", "be"}
    [] op = "ListObjects" -> {"k1", "k2", "ksrc", "kidx", "kerr", "kdidx", "docs/"}
    [] op = "DeleteObjects" -> {"k1", "kn", "k2"}
    [] op = "ListMultipartUploads" -> {"kmp"}
    [] op = "ListParts" -> {"1", "2"}
    [] OTHER -> {}
ItemSyms == UNION {HookItems(op) : op \in HookOps}
KeySyms  == {"k1", "k2", "kmp", "kn", "kdir", "ksrc", "kidx", "kerr"}
Programs == {[mode |-> "allow", arg |-> ""], [mode |-> "deny", arg |-> ""]}
            \cup [mode : {"denyop"}, arg : Ops]
            \cup [mode : {"denykey"}, arg : KeySyms]
            \cup [mode : {"denyitem"}, arg : ItemSyms]
            \cup [mode : {"random"}, arg : {"0", "1", "2", "3", "4", "5", "6", "7"}]

AtMost(S, n) == {s \in SUBSET S : Cardinality(s) <= n}

ApiSkeletons == [ep : {"api"}, method : Methods, shape : Shapes,
                 subs : AtMost(SubRes, 2), flags : AtMost(Flags, 2)]
WebSkeletons == [ep : {"web"}, method : Methods, shape : {"root", "object"},
                 subs : AtMost(SubRes, 1), flags : SUBSET {"range", "versionId"}]
Skeletons == ApiSkeletons \cup WebSkeletons

Has(c, s)  == s \in c.subs
Flag(c, f) == f \in c.flags

\* ------------------------------------------------- model of the dispatch
BucketRoute(c) ==
  CASE c.method = "HEAD" -> "headBucket"
    [] c.method = "GET" ->
         IF Has(c, "versioning") THEN "getBucketVersioning"
         ELSE IF Has(c, "versions") THEN "listObjectVersions"
         ELSE IF Has(c, "cors") THEN "getBucketCORS"
         ELSE IF Has(c, "lifecycle") THEN "getBucketLifecycle"
         ELSE IF Has(c, "notification") THEN "getBucketNotification"
         ELSE IF Has(c, "website") THEN "getBucketWebsite"
         ELSE IF Has(c, "uploads") THEN "listMultipartUploads"
         ELSE IF Has(c, "listtype2") THEN "listObjectsV2"
         ELSE "listObjects"
    [] c.method = "PUT" ->
         IF Has(c, "versioning") THEN "putBucketVersioning"
         ELSE IF Has(c, "cors") THEN "putBucketCORS"
         ELSE IF Has(c, "lifecycle") THEN "putBucketLifecycle"
         ELSE IF Has(c, "notification") THEN "putBucketNotification"
         ELSE IF Has(c, "website") THEN "putBucketWebsite"
         ELSE "createBucket"
    [] c.method = "DELETE" ->
         IF Has(c, "cors") THEN "deleteBucketCORS"
         ELSE IF Has(c, "lifecycle") THEN "deleteBucketLifecycle"
         ELSE IF Has(c, "website") THEN "deleteBucketWebsite"
         ELSE "deleteBucket"
    [] c.method = "POST" -> IF Has(c, "delete") THEN "deleteObjects" ELSE "none"
    [] OTHER -> "none"

ObjectRoute(c) ==
  CASE c.method = "HEAD" -> "headObject"
    [] c.method = "GET" ->
         IF Has(c, "uploadId") THEN "listParts"
         ELSE IF Has(c, "tagging") THEN "getObjectTagging"
         ELSE "getObject"
    [] c.method = "POST" ->
         IF Has(c, "uploads") THEN "createMultipartUpload"
         ELSE IF Has(c, "uploadId") THEN "completeMultipartUpload"
         ELSE "none"
    [] c.method = "PUT" ->
         IF Has(c, "uploadId") \/ Has(c, "partNumber")
         THEN (IF Flag(c, "copysrc") THEN "uploadPartCopy" ELSE "uploadPart")
         ELSE IF Flag(c, "copysrc") THEN "copyObject"
         ELSE IF Has(c, "append") THEN "appendObject"
         ELSE IF Has(c, "tagging") THEN "putObjectTagging"
         ELSE "putObject"
    [] c.method = "DELETE" ->
         IF Has(c, "uploadId") THEN "abortMultipartUpload"
         ELSE IF Has(c, "tagging") THEN "deleteObjectTagging"
         ELSE "deleteObject"
    [] OTHER -> "none"

\* "none" = the request reaches no handler that authorizes or touches storage
\* (405 from the mux / OPTIONS handlers, 404 of the POST router, invalid key).
Route(c) ==
  IF c.ep = "web"
  THEN (CASE c.method = "GET" -> "webGet" [] c.method = "HEAD" -> "webHead" [] OTHER -> "none")
  ELSE CASE c.shape = "root" -> (IF c.method \in {"GET", "HEAD"} THEN "listBuckets" ELSE "none")
         [] c.shape = "bucketslash" -> "none"
         [] c.shape = "bucket" -> BucketRoute(c)
         [] c.shape = "object" -> ObjectRoute(c)

\* the request body the routed handler parses (so that it can take effect)
BodyFor(c) ==
  LET h == Route(c) IN
  CASE h = "putBucketVersioning" -> "versioningxml"
    [] h = "putBucketCORS" -> "corsxml"
    [] h = "putBucketLifecycle" -> "lifecyclexml"
    [] h = "putBucketNotification" -> "notificationxml"
    [] h = "putBucketWebsite" -> "websitexml"
    [] h = "putObjectTagging" -> "taggingxml"
    [] h = "deleteObjects" -> "deletexml"
    [] h = "completeMultipartUpload" -> "completexml"
    [] h \in {"putObject", "appendObject", "uploadPart"} -> "raw"
    [] OTHER -> "none"

VersionedName(base) ==
  CASE base = "HeadObject" -> "HeadObjectVersion"
    [] base = "GetObject" -> "GetObjectVersion"
    [] base = "DeleteObject" -> "DeleteObjectVersion"
    [] base = "GetObjectTagging" -> "GetObjectVersionTagging"
    [] base = "PutObjectTagging" -> "PutObjectVersionTagging"
    [] base = "DeleteObjectTagging" -> "DeleteObjectVersionTagging"

BaseOp(h) ==
  CASE h = "listBuckets" -> "ListBuckets"
    [] h = "headBucket" -> "HeadBucket"
    [] h = "getBucketVersioning" -> "GetBucketVersioning"
    [] h = "listObjectVersions" -> "ListObjectVersions"
    [] h = "getBucketCORS" -> "GetBucketCORS"
    [] h = "getBucketLifecycle" -> "GetBucketLifecycle"
    [] h = "getBucketNotification" -> "GetBucketNotification"
    [] h = "getBucketWebsite" -> "GetBucketWebsite"
    [] h = "listMultipartUploads" -> "ListMultipartUploads"
    [] h \in {"listObjects", "listObjectsV2"} -> "ListObjects"
    [] h = "putBucketVersioning" -> "PutBucketVersioning"
    [] h = "putBucketCORS" -> "PutBucketCORS"
    [] h = "putBucketLifecycle" -> "PutBucketLifecycle"
    [] h = "putBucketNotification" -> "PutBucketNotification"
    [] h = "putBucketWebsite" -> "PutBucketWebsite"
    [] h = "createBucket" -> "CreateBucket"
    [] h = "deleteBucketCORS" -> "DeleteBucketCORS"
    [] h = "deleteBucketLifecycle" -> "DeleteBucketLifecycle"
    [] h = "deleteBucketWebsite" -> "DeleteBucketWebsite"
    [] h = "deleteBucket" -> "DeleteBucket"
    [] h = "deleteObjects" -> "DeleteObjects"
    [] h \in {"headObject", "webHead"} -> "HeadObject"
    [] h = "listParts" -> "ListParts"
    [] h = "getObjectTagging" -> "GetObjectTagging"
    [] h \in {"getObject", "webGet"} -> "GetObject"
    [] h = "createMultipartUpload" -> "CreateMultipartUpload"
    [] h = "completeMultipartUpload" -> "CompleteMultipartUpload"
    [] h = "uploadPartCopy" -> "UploadPartCopy"
    [] h = "uploadPart" -> "UploadPart"
    [] h = "copyObject" -> "CopyObject"
    [] h = "appendObject" -> "AppendObject"
    [] h = "putObjectTagging" -> "PutObjectTagging"
    [] h = "putObject" -> "PutObject"
    [] h = "abortMultipartUpload" -> "AbortMultipartUpload"
    [] h = "deleteObjectTagging" -> "DeleteObjectTagging"
    [] h = "deleteObject" -> "DeleteObject"

VersionAware == {"headObject", "getObject", "getObjectTagging", "putObjectTagging",
                 "deleteObjectTagging", "deleteObject"}
\* does the handler address an explicit version (versionId query present)?
UsesVersion(h, c) == h \in VersionAware /\ Flag(c, "versionId")

HandlerOp(h, c) == IF UsesVersion(h, c) THEN VersionedName(BaseOp(h)) ELSE BaseOp(h)

ObjectHandlers == {"headObject", "listParts", "getObjectTagging", "getObject",
                   "createMultipartUpload", "completeMultipartUpload", "uploadPartCopy",
                   "uploadPart", "copyObject", "appendObject", "putObjectTagging", "putObject",
                   "abortMultipartUpload", "deleteObjectTagging", "deleteObject"}
CopyHandlers == {"uploadPartCopy", "copyObject"}
WebHandlers  == {"webGet", "webHead"}

\* fixture facts the website handlers depend on
HasWebsite(b) == b = "bv"
WebKey(c)     == IF c.shape = "root" THEN "kidx" ELSE c.key
ErrDocKey     == "kerr"

AuthB(h, c)  == IF h = "listBuckets" THEN "" ELSE c.bkt
AuthK(h, c)  == IF h \in ObjectHandlers THEN c.key
                ELSE IF h \in WebHandlers /\ HasWebsite(c.bkt) THEN WebKey(c)
                ELSE ""
AuthSB(h, c) == IF h \in CopyHandlers THEN "bu" ELSE ""
AuthSK(h, c) == IF h \in CopyHandlers THEN "ksrc" ELSE ""

\* storage calls: [m |-> method, tgt |-> which object the call addresses]
\*   "req"    the bucket/key (and copy source) the request was authorized for
\*   "probe"  <key>/index.html looked up by tryWebsiteDirectoryRedirect
\*   "errdoc" the bucket's configured error document
PreAuthCalls(h) ==
  IF h \in WebHandlers THEN {[m |-> "GetBucketWebsiteConfiguration", tgt |-> "req"]} ELSE {}

ErrDocDeviation == "D-C31-website-errdoc-unauthorized"

HandlerCalls(h) ==
  LET R(m) == {[m |-> m, tgt |-> "req"]} IN
  CASE h = "none" -> {}
    [] h = "listBuckets" -> R("ListBuckets")
    [] h = "headBucket" -> R("HeadBucket")
    [] h = "getBucketVersioning" -> R("GetBucketVersioningConfiguration")
    [] h = "putBucketVersioning" -> R("PutBucketVersioningConfiguration")
    [] h = "listObjectVersions" -> R("ListObjectVersions")
    [] h = "getBucketCORS" -> R("GetBucketCORSConfiguration")
    [] h = "putBucketCORS" -> R("PutBucketCORSConfiguration")
    [] h = "deleteBucketCORS" -> R("DeleteBucketCORSConfiguration")
    [] h = "getBucketLifecycle" -> R("GetBucketLifecycleConfiguration")
    [] h = "putBucketLifecycle" -> R("PutBucketLifecycleConfiguration")
    [] h = "deleteBucketLifecycle" -> R("DeleteBucketLifecycleConfiguration")
    [] h = "getBucketNotification" -> R("GetBucketNotificationConfiguration")
    [] h = "putBucketNotification" -> R("PutBucketNotificationConfiguration")
    [] h = "getBucketWebsite" -> R("GetBucketWebsiteConfiguration")
    [] h = "putBucketWebsite" -> R("PutBucketWebsiteConfiguration")
    [] h = "deleteBucketWebsite" -> R("DeleteBucketWebsiteConfiguration")
    [] h = "listMultipartUploads" -> R("ListMultipartUploads")
    [] h \in {"listObjects", "listObjectsV2"} -> R("ListObjects")
    [] h = "createBucket" -> R("CreateBucket")
    [] h = "deleteBucket" -> R("DeleteBucket")
    [] h = "deleteObjects" -> R("DeleteObjects")
    [] h = "headObject" -> R("HeadObject")
    [] h = "listParts" -> R("ListParts")
    [] h = "getObjectTagging" -> R("GetObjectTagging")
    [] h = "getObject" -> R("GetObject")
    [] h = "createMultipartUpload" -> R("CreateMultipartUpload")
    [] h = "completeMultipartUpload" -> R("CompleteMultipartUpload")
    [] h = "uploadPartCopy" -> R("UploadPartCopy")
    [] h = "uploadPart" -> R("UploadPart")
    [] h = "copyObject" -> R("CopyObject")
    [] h = "appendObject" -> R("AppendObject")
    [] h = "putObjectTagging" -> R("PutObjectTagging")
    [] h = "putObject" -> R("PutObject")
    [] h = "abortMultipartUpload" -> R("AbortMultipartUpload")
    [] h = "deleteObjectTagging" -> R("DeleteObjectTagging")
    [] h = "deleteObject" -> R("DeleteObject")
    [] h \in WebHandlers ->
         R(IF h = "webGet" THEN "GetObject" ELSE "HeadObject")
         \cup {[m |-> "HeadObject", tgt |-> "probe"], [m |-> "GetObject", tgt |-> "errdoc"]}

\* serveErrorDocument reads the bucket's error document.  Intended: only after an
\* authorization of its own (GetObject on the error document's key).  The code
\* reads it under the authorization of the requested key (deviation).
ErrDocOwnAuth == ErrDocDeviation \notin Deviations
ErrDocOp == "GetObject"

\* isReadOnly of the Lua authorizer
ReadOnlyOps == {"ListBuckets", "HeadBucket", "HeadObject", "HeadObjectVersion",
                "ListMultipartUploads", "ListObjects", "ListParts", "GetObject",
                "GetObjectVersion", "GetBucketWebsite", "GetBucketCORS",
                "GetBucketNotification", "GetObjectTagging", "GetObjectVersionTagging"}

\* ------------------------------------------------------- property tables
\* what a storage.Storage method does
MethodEffects(m) ==
  CASE m = "CreateBucket" -> {"CreateBucket"}
    [] m = "DeleteBucket" -> {"DeleteBucket"}
    [] m = "ListBuckets" -> {"ListBuckets"}
    [] m = "HeadBucket" -> {"ReadBucketMeta"}
    [] m = "GetBucketVersioningConfiguration" -> {"ReadCfg.versioning"}
    [] m = "PutBucketVersioningConfiguration" -> {"MutCfg.versioning"}
    [] m = "GetBucketWebsiteConfiguration" -> {"ReadCfg.website"}
    [] m \in {"PutBucketWebsiteConfiguration", "DeleteBucketWebsiteConfiguration"} -> {"MutCfg.website"}
    [] m = "GetBucketCORSConfiguration" -> {"ReadCfg.cors"}
    [] m \in {"PutBucketCORSConfiguration", "DeleteBucketCORSConfiguration"} -> {"MutCfg.cors"}
    [] m = "GetBucketLifecycleConfiguration" -> {"ReadCfg.lifecycle"}
    [] m \in {"PutBucketLifecycleConfiguration", "DeleteBucketLifecycleConfiguration"} -> {"MutCfg.lifecycle"}
    [] m = "GetBucketNotificationConfiguration" -> {"ReadCfg.notification"}
    [] m = "PutBucketNotificationConfiguration" -> {"MutCfg.notification"}
    [] m = "ListObjects" -> {"ReadListing.objects"}
    [] m = "ListObjectVersions" -> {"ReadListing.versions"}
    [] m = "ListMultipartUploads" -> {"ReadListing.uploads"}
    [] m = "ListParts" -> {"ReadListing.parts"}
    [] m = "HeadObject" -> {"ReadMeta"}
    [] m = "GetObject" -> {"ReadData"}
    [] m \in {"PutObject", "AppendObject", "DeleteObject", "TransitionObjectStorageClass"} -> {"MutObject"}
    [] m = "CopyObject" -> {"ReadSrcData", "MutObject"}
    [] m = "DeleteObjects" -> {"MutObjects"}
    [] m \in {"CreateMultipartUpload", "UploadPart", "AbortMultipartUpload"} -> {"MutUpload"}
    [] m = "UploadPartCopy" -> {"ReadSrcData", "MutUpload"}
    [] m = "CompleteMultipartUpload" -> {"MutObject", "MutUpload"}
    [] m = "GetObjectTagging" -> {"ReadTags"}
    [] m \in {"PutObjectTagging", "DeleteObjectTagging"} -> {"MutTags"}
    [] OTHER -> {"Unknown"}

MutEffects == {"CreateBucket", "DeleteBucket", "MutCfg.versioning", "MutCfg.website", "MutCfg.cors",
               "MutCfg.lifecycle", "MutCfg.notification", "MutObject", "MutObjects", "MutUpload",
               "MutTags", "Unknown"}
DataEffects == {"ReadData", "ReadSrcData"}
\* the effects C31 speaks about: "reads object data or changes any state"
Protected(e) == e \in MutEffects \cup DataEffects
Mutates(m)   == MethodEffects(m) \cap MutEffects # {}
ObjectLevel  == {"ReadMeta", "ReadData", "MutObject", "MutUpload", "ReadTags", "MutTags",
                 "ReadListing.parts", "ReadSrcData"}

\* which effects an operation name legitimately covers
Covers(op) ==
  CASE op = "ListBuckets" -> {"ListBuckets"}
    [] op = "HeadBucket" -> {"ReadBucketMeta"}
    [] op = "ListMultipartUploads" -> {"ReadListing.uploads"}
    [] op = "ListObjects" -> {"ReadListing.objects"}
    [] op = "ListObjectVersions" -> {"ReadListing.versions"}
    [] op = "CreateBucket" -> {"CreateBucket"}
    [] op = "DeleteBucket" -> {"DeleteBucket"}
    [] op \in {"HeadObject", "HeadObjectVersion"} -> {"ReadMeta"}
    [] op = "ListParts" -> {"ReadListing.parts"}
    [] op \in {"GetObject", "GetObjectVersion"} -> {"ReadData", "ReadMeta"}
    [] op \in {"CreateMultipartUpload", "UploadPart", "AbortMultipartUpload"} -> {"MutUpload"}
    [] op = "CompleteMultipartUpload" -> {"MutObject", "MutUpload"}
    [] op = "UploadPartCopy" -> {"MutUpload", "ReadSrcData"}
    [] op \in {"PutObject", "AppendObject", "DeleteObject", "DeleteObjectVersion"} -> {"MutObject"}
    [] op = "CopyObject" -> {"MutObject", "ReadSrcData"}
    [] op = "DeleteObjects" -> {"MutObjects"}
    [] op = "GetBucketCORS" -> {"ReadCfg.cors"}
    [] op \in {"PutBucketCORS", "DeleteBucketCORS"} -> {"MutCfg.cors"}
    [] op = "GetBucketWebsite" -> {"ReadCfg.website"}
    [] op \in {"PutBucketWebsite", "DeleteBucketWebsite"} -> {"MutCfg.website"}
    [] op = "GetBucketVersioning" -> {"ReadCfg.versioning"}
    [] op = "PutBucketVersioning" -> {"MutCfg.versioning"}
    [] op = "GetBucketLifecycle" -> {"ReadCfg.lifecycle"}
    [] op \in {"PutBucketLifecycle", "DeleteBucketLifecycle"} -> {"MutCfg.lifecycle"}
    [] op = "GetBucketNotification" -> {"ReadCfg.notification"}
    [] op = "PutBucketNotification" -> {"MutCfg.notification"}
    [] op \in {"GetObjectTagging", "GetObjectVersionTagging"} -> {"ReadTags"}
    [] op \in {"PutObjectTagging", "DeleteObjectTagging", "PutObjectVersionTagging",
               "DeleteObjectVersionTagging"} -> {"MutTags"}
    [] OTHER -> {}

\* operation names that exist in a plain and an explicit-version variant: the
\* plain one does not cover an access to an explicit version and vice versa
PlainVariant == {"HeadObject", "GetObject", "DeleteObject", "GetObjectTagging",
                 "PutObjectTagging", "DeleteObjectTagging"}
VersionVariant == {VersionedName(o) : o \in PlainVariant}
VersionOk(op, ver) == (op \in PlainVariant => ~ver) /\ (op \in VersionVariant => ver)

\* ------------------------------------------------- design-level property
\* Every storage call of the routed handler that reads object data or mutates
\* is made for the authorized target under an operation that covers it; nothing
\* protected happens before the authorization; read-only operations route to
\* handlers without mutators.
DesignHolds(c) ==
  LET h  == Route(c)
      op == HandlerOp(h, c) IN
  h # "none" =>
    /\ op \in Ops
    /\ \A call \in HandlerCalls(h) : \A e \in MethodEffects(call.m) :
         Protected(e) => \/ /\ call.tgt = "req"
                            /\ e \in Covers(op)
                            /\ VersionOk(op, UsesVersion(h, c))
                         \/ /\ call.tgt = "errdoc" /\ ErrDocOwnAuth
                            /\ e \in Covers(ErrDocOp)
    /\ \A call \in PreAuthCalls(h) : \A e \in MethodEffects(call.m) : ~Protected(e)
    /\ op \in ReadOnlyOps => \A call \in HandlerCalls(h) : ~Mutates(call.m)
    /\ BodyFor(c) \in Bodies

\* ------------------------------------------------------ exhaustive checking
VARIABLE case
Init == case \in Skeletons
Next == UNCHANGED case
Spec == Init /\ [][Next]_case
DesignInv == DesignHolds(case)
=============================================================================
