------------------------------- MODULE Listing -------------------------------
(***************************************************************************)
(* C06 - listings are complete, ordered, duplicate-free and prefix-exact.  *)
(*                                                                         *)
(* Result operators (one page) and the paging client for                   *)
(*   ListObjects v1/v2   sqlMetadataStore.listObjects                      *)
(*                       (metadatastore/sql/object_read.go)                *)
(*                       Server.listAndFilterObjects (http/server/bucket.go)*)
(*   ListObjectVersions  sqlMetadataStore.ListObjectVersions               *)
(*                       Server.listObjectVersionsHandler (versioning.go)  *)
(*   ListMultipartUploads sqlMetadataStore.ListMultipartUploads            *)
(*                       (metadatastore/sql/multipart.go)                  *)
(*                       Server.listAndFilterMultipartUploads (bucket.go)  *)
(*   ListParts           sqlMetadataStore.ListParts (multipart.go)         *)
(*                       Server.listAndFilterParts (object_read.go)        *)
(* and the SQL predicates of database/sqlite/repository/object/sqlite.go   *)
(* (key LIKE prefix||'%', key > marker, ORDER BY).                         *)
(*                                                                         *)
(* Keys are sequences over the ordered symbol alphabet                     *)
(*      1 '%'   2 '/'   3 'A'   4 '_'   5 'a'   6 'e-acute'                 *)
(* whose ranks equal the UTF-8 byte order of the characters the harness    *)
(* uses, so lexicographic order on symbol sequences = S3 (byte) order.     *)
(* Version / upload ids are ordinals in creation order (ULIDs are          *)
(* monotonic per process); version id 0 is the 'null' version.             *)
(*                                                                         *)
(* APIs of a case: "store" = storage.Storage method, "v1"/"v2"/"v2s" =      *)
(* ListObjects through HTTP (marker, continuation-token, start-after),     *)
(* "http" = the other listings through HTTP.  One-character delimiters.    *)
(*                                                                         *)
(* Every operator takes the deviation set D explicitly: D = {} is the      *)
(* intended design (what C06 demands), D = open tags is the model of what  *)
(* the code is known to do.                                                *)
(***************************************************************************)
EXTENDS Integers, Sequences, FiniteSets, TLC, SequencesExt

CONSTANT Deviations      \* deviation tags the code is known to have (conformance)

TagWild     == "D-C06-like-wildcards"            \* '%' and '_' in the prefix act as SQL LIKE wildcards
TagCase     == "D-C06-like-case"                 \* prefix match is ASCII case-insensitive (SQLite LIKE)
TagObjDelim == "D-C06-delim-truncation"          \* ListObjects delimiter-mode paging (store op + handler loop)
TagUplDelim == "D-C06-uploads-delim-truncation"  \* ListMultipartUploads delimiter-mode paging
TagNull     == "D-C06-null-version-order"        \* 'null' version always sorted last within a key
AllTags     == {TagWild, TagCase, TagObjDelim, TagUplDelim, TagNull}

PageCap == 24            \* same constant as pageCap in harness/cmd/listing

PCT == 1   SLASH == 2   UPA == 3   USC == 4   LOA == 5   EAC == 6
Sym == 1..6
Fold(s) == IF s = UPA THEN LOA ELSE s       \* SQLite LIKE folds ASCII letters only

\* secondary-marker encodings shared with the harness
MAbsent == -1            \* not sent / not returned
MEmpty  == -2            \* present but the empty string

\* ------------------------------------------------------------- sequences
MinI(a, b) == IF a < b THEN a ELSE b
Take(s, n) == SubSeq(s, 1, MinI(n, Len(s)))
Drop(s, n) == SubSeq(s, n + 1, Len(s))
LastOr(s, dflt) == IF Len(s) = 0 THEN dflt ELSE s[Len(s)]
Has(s, d)   == \E i \in 1..Len(s) : s[i] = d
Count(s, d) == Cardinality({i \in 1..Len(s) : s[i] = d})
Mem(s, x)   == \E i \in 1..Len(s) : s[i] = x
MapSeq(s, F(_)) == [i \in 1..Len(s) |-> F(s[i])]

RECURSIVE DedupR(_, _)
DedupR(s, acc) == IF Len(s) = 0 THEN acc
                  ELSE DedupR(Tail(s), IF Mem(acc, Head(s)) THEN acc ELSE Append(acc, Head(s)))
Dedup(s) == DedupR(s, <<>>)             \* keep first occurrences, in order

\* lexicographic order on symbol sequences (= UTF-8 byte order of the strings)
RECURSIVE LtR(_, _, _)
LtR(a, b, i) == IF i > Len(a) THEN i <= Len(b)
                ELSE IF i > Len(b) THEN FALSE
                ELSE IF a[i] < b[i] THEN TRUE
                ELSE IF a[i] > b[i] THEN FALSE
                ELSE LtR(a, b, i + 1)
Lt(a, b) == LtR(a, b, 1)
MaxKey(a, b) == IF Lt(a, b) THEN b ELSE a
SortKeys(S) == SetToSortSeq(S, Lt)

\* ------------------------------------------------------- prefix matching
\* SQLite:  key LIKE prefix || '%'.   wild: '%' / '_' of the prefix are
\* wildcards; fold: ASCII case-insensitive.  Like(p,k,FALSE,FALSE) = IsPrefix(p,k).
RECURSIVE Like(_, _, _, _)
Like(p, k, wild, fold) ==
  IF Len(p) = 0 THEN TRUE
  ELSE IF wild /\ p[1] = PCT
       THEN \E i \in 0..Len(k) : Like(Tail(p), Drop(k, i), wild, fold)
  ELSE IF Len(k) = 0 THEN FALSE
  ELSE IF wild /\ p[1] = USC THEN Like(Tail(p), Tail(k), wild, fold)
  ELSE /\ IF fold THEN Fold(p[1]) = Fold(k[1]) ELSE p[1] = k[1]
       /\ Like(Tail(p), Tail(k), wild, fold)

Matches(p, k, D) == Like(p, k, TagWild \in D, TagCase \in D)

\* determineCommonPrefix(prefix, key, delimiter) for a one-character delimiter:
\* nil (<<>>) unless the key has more delimiter-separated segments than the
\* prefix; else the key up to and including its (Count(prefix)+1)-th delimiter.
\* For a key that starts with the prefix this is prefix + rest up to the first
\* delimiter of the rest, i.e. the S3 common prefix.
NthPos(k, d, n) == CHOOSE i \in 1..Len(k) : k[i] = d /\ Count(SubSeq(k, 1, i), d) = n
CPsym(p, k, d) == IF Count(k, d) <= Count(p, d) THEN <<>>
                  ELSE SubSeq(k, 1, NthPos(k, d, Count(p, d) + 1))
CP(p, k, dl) == IF Len(dl) = 0 THEN <<>> ELSE CPsym(p, k, dl[1])
\* strings.Contains(strings.TrimPrefix(key, prefix), delimiter)
Grouped(p, k, dl) == /\ Len(dl) > 0
                     /\ Has(IF IsPrefix(p, k) THEN Drop(k, Len(p)) ELSE k, dl[1])

\* ------------------------------------------------------------ page records
\* entry of a page: key k, secondary id v (version / upload ordinal, part number), dm flag
Ent(k, v, dm) == [k |-> k, v |-> v, dm |-> dm]
KeyEnt(k) == Ent(k, 0, FALSE)
Page(objs, cps, trunc, n1, n1set, n2) ==
  [objs |-> objs, cps |-> cps, trunc |-> trunc, n1 |-> n1, n1set |-> n1set, n2 |-> n2]

(***************************************************************************)
(* ListObjects                                                             *)
(***************************************************************************)
\* rows selected by the SQL query, ascending
ObjRows(keys, p, after, D) == SortKeys({k \in keys : Matches(p, k, D) /\ Lt(after, k)})

\* sqlMetadataStore.listObjects as written: in delimiter mode it counts raw
\* keys for IsTruncated, reports the common prefixes of ALL remaining keys and
\* the first max ungrouped keys.
CodeSqlListObjects(keys, p, dl, after, max, D) ==
  LET M == ObjRows(keys, p, after, D) IN
  IF Len(dl) = 0
  THEN [objs |-> Take(M, max), cps |-> <<>>, trunc |-> Len(M) > max]
  ELSE [objs |-> Take(SelectSeq(M, LAMBDA k : ~Grouped(p, k, dl)), max),
        cps  |-> Dedup(SelectSeq(MapSeq(M, LAMBDA k : CP(p, k, dl)), LAMBDA c : Len(c) > 0)),
        trunc |-> Len(M) > max]

\* merged S3 entries of an ascending key sequence
KEnt(k) == [t |-> "key", k |-> k]
CEnt(c) == [t |-> "cp", k |-> c]
EntriesOf(M, p, dl) ==
  Dedup(MapSeq(M, LAMBDA k : IF Len(CP(p, k, dl)) > 0 THEN CEnt(CP(p, k, dl)) ELSE KEnt(k)))
KeysIn(E) == MapSeq(SelectSeq(E, LAMBDA e : e.t = "key"), LAMBDA e : e.k)
CpsIn(E)  == MapSeq(SelectSeq(E, LAMBDA e : e.t = "cp"), LAMBDA e : e.k)

\* intended storage operation: one S3 page of at most max entries (keys and
\* common prefixes together); a start-after equal to a common prefix skips
\* the keys that common prefix stands for.
IntSqlListObjects(keys, p, dl, after, max, D) ==
  LET M == SelectSeq(ObjRows(keys, p, after, D),
                     LAMBDA k : ~(Len(after) > 0 /\ CP(p, k, dl) = after))
      E == EntriesOf(M, p, dl)
      P == Take(E, max)
  IN [objs |-> KeysIn(P), cps |-> CpsIn(P), trunc |-> Len(E) > max]

SqlListObjects(keys, p, dl, after, max, D) ==
  IF TagObjDelim \in D \/ Len(dl) = 0
  THEN CodeSqlListObjects(keys, p, dl, after, max, D)
  ELSE IntSqlListObjects(keys, p, dl, after, max, D)

\* client rule for the storage API (storage.ListBucketResult has no next
\* marker): continue after the greatest of last key / last common prefix
ClientNext(objs, cps) == MaxKey(LastOr(objs, <<>>), LastOr(cps, <<>>))

StoreObjectsPage(keys, p, dl, m1, max, D) ==
  LET r == SqlListObjects(keys, p, dl, m1, max, D)
      nx == IF r.trunc THEN ClientNext(r.objs, r.cps) ELSE <<>>
  IN Page(MapSeq(r.objs, KeyEnt), r.cps, r.trunc, nx, Len(nx) > 0, MAbsent)

\* Server.listAndFilterObjects as written (authorizer allows everything):
\* sa/saSet = startAfter pointer, cO/cC = collectedObjects/collectedPrefixes.
RECURSIVE CodeListAndFilterObjects(_, _, _, _, _, _, _, _, _, _)
CodeListAndFilterObjects(keys, p, dl, max, D, sa, saSet, cO, cC, fuel) ==
  LET r == CodeSqlListObjects(keys, p, dl, IF saSet THEN sa ELSE <<>>, max, D)
      O == r.objs
      C == r.cps
      room == max - Len(cO)
  IN IF fuel = 0 THEN Page(<<>>, <<>>, TRUE, <<0>>, TRUE, MAbsent)    \* never observed
     ELSE IF Len(O) >= room
     THEN LET hasMore == room < Len(O) \/ Len(C) > 0 \/ r.trunc IN
          Page(MapSeq(cO \o Take(O, room), KeyEnt), cC, hasMore,
               IF hasMore THEN O[room] ELSE <<>>, hasMore, MAbsent)
     ELSE LET nO == cO \o O
              nC == Dedup(cC \o C)
              lastSet == Len(C) > 0 \/ Len(O) > 0 \/ saSet
              last == IF Len(C) > 0 THEN C[Len(C)] ELSE IF Len(O) > 0 THEN O[Len(O)] ELSE sa
          IN IF ~r.trunc \/ ~lastSet \/ (saSet /\ sa = last)
             THEN Page(MapSeq(nO, KeyEnt), nC, FALSE, <<>>, FALSE, MAbsent)
             ELSE CodeListAndFilterObjects(keys, p, dl, max, D, last, TRUE, nO, nC, fuel - 1)

HttpObjectsPage(keys, p, dl, m1, m1set, max, D) ==
  IF TagObjDelim \in D \/ Len(dl) = 0
  THEN CodeListAndFilterObjects(keys, p, dl, max, D, m1, m1set, <<>>, <<>>, 40)
  ELSE LET r == IntSqlListObjects(keys, p, dl, IF m1set THEN m1 ELSE <<>>, max, D) IN
       Page(MapSeq(r.objs, KeyEnt), r.cps, r.trunc,
            IF r.trunc THEN ClientNext(r.objs, r.cps) ELSE <<>>, r.trunc, MAbsent)

(***************************************************************************)
(* ListMultipartUploads: rows are [k, v] (v = upload ordinal)              *)
(***************************************************************************)
UplLt(a, b) == Lt(a.k, b.k) \/ (a.k = b.k /\ a.v < b.v)
\* key > $3 OR ($4 <> '' AND key = $3 AND upload_id > $4)
UplRows(U, p, km, um, D) ==
  SetToSortSeq({r \in U : /\ Matches(p, r.k, D)
                          /\ (Lt(km, r.k) \/ (um >= 1 /\ r.k = km /\ r.v > um))}, UplLt)

\* sqlMetadataStore.ListMultipartUploads as written
CodeSqlListUploads(U, p, dl, km, um, max, D) ==
  LET M == UplRows(U, p, km, um, D)
      none == [k |-> <<>>, v |-> MAbsent]
  IN IF Len(dl) = 0
     THEN [objs |-> Take(M, max), cps |-> <<>>, trunc |-> Len(M) > max, nx |-> LastOr(Take(M, max), none)]
     ELSE LET ng == {i \in 1..Len(M) : ~Grouped(p, M[i].k, dl)}
              \* the markers advance over every row while len(uploads) < max
              stop == IF Cardinality(ng) >= max
                      THEN CHOOSE i \in ng : Cardinality({j \in ng : j <= i}) = max
                      ELSE Len(M)
          IN [objs |-> Take(SelectSeq(M, LAMBDA r : ~Grouped(p, r.k, dl)), max),
              cps  |-> Dedup(SelectSeq(MapSeq(M, LAMBDA r : CP(p, r.k, dl)), LAMBDA c : Len(c) > 0)),
              trunc |-> Len(M) > max,
              nx |-> IF Len(M) = 0 THEN none ELSE M[stop]]

\* intended: one S3 page of at most max entries; the next markers name the
\* last row consumed (the last upload folded into the last common prefix)
RECURSIVE IntUplWalk(_, _, _, _, _, _, _, _, _)
IntUplWalk(M, p, dl, max, i, n, ups, cps, last) ==
  IF i > Len(M) THEN [objs |-> ups, cps |-> cps, trunc |-> FALSE, nx |-> last]
  ELSE LET c == CP(p, M[i].k, dl) IN
       IF Len(c) > 0 /\ Mem(cps, c) THEN IntUplWalk(M, p, dl, max, i + 1, n, ups, cps, M[i])
       ELSE IF n >= max THEN [objs |-> ups, cps |-> cps, trunc |-> TRUE, nx |-> last]
       ELSE IF Len(c) > 0 THEN IntUplWalk(M, p, dl, max, i + 1, n + 1, ups, Append(cps, c), M[i])
       ELSE IntUplWalk(M, p, dl, max, i + 1, n + 1, Append(ups, M[i]), cps, M[i])
IntSqlListUploads(U, p, dl, km, um, max, D) ==
  IntUplWalk(UplRows(U, p, km, um, D), p, dl, max, 1, 0, <<>>, <<>>, [k |-> <<>>, v |-> MAbsent])

SqlListUploads(U, p, dl, km, um, max, D) ==
  IF TagUplDelim \in D \/ Len(dl) = 0
  THEN CodeSqlListUploads(U, p, dl, km, um, max, D)
  ELSE IntSqlListUploads(U, p, dl, km, um, max, D)

UplEnt(r) == Ent(r.k, r.v, FALSE)
\* storage result: NextKeyMarker / NextUploadIdMarker are plain strings, "" = none
StoreUploadsPage(U, p, dl, m1, m2, max, D) ==
  LET r == SqlListUploads(U, p, dl, m1, m2, max, D) IN
  Page(MapSeq(r.objs, UplEnt), r.cps, r.trunc, r.nx.k, Len(r.nx.k) > 0, r.nx.v)

\* Server.listAndFilterMultipartUploads as written (authorizer allows everything)
RECURSIVE CodeListAndFilterUploads(_, _, _, _, _, _, _, _, _, _, _)
CodeListAndFilterUploads(U, p, dl, max, D, km, kmSet, um, cO, cC, fuel) ==
  LET r == CodeSqlListUploads(U, p, dl, IF kmSet THEN km ELSE <<>>, um, max, D)
      O == r.objs
      C == r.cps
      room == max - Len(cO)
  IN IF fuel = 0 THEN Page(<<>>, <<>>, TRUE, <<0>>, TRUE, MAbsent)    \* never observed
     ELSE IF Len(O) >= room
     THEN LET hasMore == room < Len(O) \/ Len(C) > 0 \/ r.trunc IN
          Page(MapSeq(cO \o Take(O, room), UplEnt), cC, hasMore,
               IF hasMore THEN O[room].k ELSE <<>>, hasMore, IF hasMore THEN O[room].v ELSE MAbsent)
     ELSE LET nO == cO \o O
              nC == Dedup(cC \o C)
              lastK == IF Len(C) > 0 THEN C[Len(C)] ELSE IF Len(O) > 0 THEN O[Len(O)].k ELSE km
              lastKSet == Len(C) > 0 \/ Len(O) > 0 \/ kmSet
              lastU == IF Len(C) > 0 THEN MEmpty ELSE IF Len(O) > 0 THEN O[Len(O)].v ELSE um
          IN IF \/ ~r.trunc
                \/ ~lastKSet \/ lastU = MAbsent
                \/ (kmSet /\ um # MAbsent /\ km = lastK /\ um = lastU)
             THEN Page(MapSeq(nO, UplEnt), nC, FALSE, <<>>, FALSE, MAbsent)
             ELSE CodeListAndFilterUploads(U, p, dl, max, D, lastK, TRUE, lastU, nO, nC, fuel - 1)

HttpUploadsPage(U, p, dl, m1, m1set, m2, max, D) ==
  IF TagUplDelim \in D \/ Len(dl) = 0
  THEN CodeListAndFilterUploads(U, p, dl, max, D, m1, m1set, m2, <<>>, <<>>, 40)
  ELSE LET r == IntSqlListUploads(U, p, dl, IF m1set THEN m1 ELSE <<>>, m2, max, D) IN
       Page(MapSeq(r.objs, UplEnt), r.cps, r.trunc,
            IF r.trunc THEN r.nx.k ELSE <<>>, r.trunc, IF r.trunc THEN r.nx.v ELSE MAbsent)

(***************************************************************************)
(* ListObjectVersions: rows are [k, v, dm, t]  (v = 0 'null', t = recency) *)
(***************************************************************************)
\* version history semantics of pithos (object_write.go PutObject, delete.go
\* DeleteObject without version id, PutBucketVersioningConfiguration)
RECURSIVE RunProg(_, _, _, _, _, _)
RunProg(prog, i, status, rows, n, vids) ==
  IF i > Len(prog) THEN [rows |-> rows, vids |-> vids]
  ELSE LET s == prog[i]
           nonull == {r \in rows : ~(r.k = s.key /\ r.v = 0)}
       IN CASE s.op = "enable"  -> RunProg(prog, i + 1, "enabled", rows, n, Append(vids, MAbsent))
            [] s.op = "suspend" -> RunProg(prog, i + 1, "suspended", rows, n, Append(vids, MAbsent))
            [] s.op = "put" ->
                 IF status = "enabled"
                 THEN RunProg(prog, i + 1, status, rows \cup {[k |-> s.key, v |-> n + 1, dm |-> FALSE, t |-> i]}, n + 1, Append(vids, n + 1))
                 ELSE RunProg(prog, i + 1, status, nonull \cup {[k |-> s.key, v |-> 0, dm |-> FALSE, t |-> i]}, n, Append(vids, 0))
            [] s.op = "del" ->
                 IF status = "enabled"
                 THEN RunProg(prog, i + 1, status, rows \cup {[k |-> s.key, v |-> n + 1, dm |-> TRUE, t |-> i]}, n + 1, Append(vids, n + 1))
                 ELSE IF status = "suspended"
                 THEN RunProg(prog, i + 1, status, nonull \cup {[k |-> s.key, v |-> n + 1, dm |-> TRUE, t |-> i]}, n + 1, Append(vids, n + 1))
                 ELSE RunProg(prog, i + 1, status, nonull, n, Append(vids, MAbsent))
History(prog) == RunProg(prog, 1, "none", {}, 0, <<>>)
\* keys whose most recent version is not a delete marker (what ListObjects sees)
Visible(rows) == {r.k : r \in {x \in rows : ~x.dm /\ \A y \in rows : y.k = x.k => y.t <= x.t}}

\* ORDER BY key ASC, COALESCE(NULLIF(version_id,'null'),'') DESC: ULIDs newest
\* first, 'null' last (= ordinal descending); intended: most recent first.
VerLt(a, b, D) == Lt(a.k, b.k) \/ (a.k = b.k /\ IF TagNull \in D THEN a.v > b.v ELSE a.t > b.t)
VerAfter(r, rows, km, vm, D) ==
  \/ Lt(km, r.k)
  \/ /\ r.k = km
     /\ IF TagNull \in D THEN r.v < vm
        ELSE \E m \in rows : m.k = km /\ m.v = vm /\ m.t > r.t
VerRows(rows, p, km, vm, D) ==
  SetToSortSeq({r \in rows : Matches(p, r.k, D) /\ VerAfter(r, rows, km, vm, D)},
               LAMBDA a, b : VerLt(a, b, D))

\* the emit loop of sqlMetadataStore.ListObjectVersions
RECURSIVE VerWalk(_, _, _, _, _, _, _, _, _)
VerWalk(M, p, dl, max, i, n, vers, cps, last) ==
  IF i > Len(M) THEN [objs |-> vers, cps |-> cps, trunc |-> FALSE, nx |-> last]
  ELSE LET c == CP(p, M[i].k, dl) IN
       IF Len(c) > 0
       THEN IF Mem(cps, c) THEN VerWalk(M, p, dl, max, i + 1, n, vers, cps, M[i])
            ELSE IF n >= max THEN [objs |-> vers, cps |-> cps, trunc |-> TRUE, nx |-> last]
            ELSE VerWalk(M, p, dl, max, i + 1, n + 1, vers, Append(cps, c), M[i])
       ELSE IF n >= max THEN [objs |-> vers, cps |-> cps, trunc |-> TRUE, nx |-> last]
       ELSE IF ~Grouped(p, M[i].k, dl)
            THEN VerWalk(M, p, dl, max, i + 1, n + 1, Append(vers, M[i]), cps, M[i])
            ELSE VerWalk(M, p, dl, max, i + 1, n, vers, cps, last)

VerEnt(r) == Ent(r.k, r.v, r.dm)
VersionsPage(rows, p, dl, m1, m2, max, D, http) ==
  LET r == VerWalk(VerRows(rows, p, m1, m2, D), p, dl, max, 1, 0, <<>>, <<>>, [k |-> <<>>, v |-> MAbsent])
      es == MapSeq(r.objs, VerEnt)
      \* the XML response carries Version and DeleteMarker elements as two lists
      shown == IF http THEN SelectSeq(es, LAMBDA e : ~e.dm) \o SelectSeq(es, LAMBDA e : e.dm) ELSE es
  IN Page(shown, r.cps, r.trunc, IF r.trunc THEN r.nx.k ELSE <<>>, r.trunc /\ Len(r.nx.k) > 0,
          IF r.trunc THEN r.nx.v ELSE MAbsent)

(***************************************************************************)
(* ListParts: S = set of part numbers                                      *)
(***************************************************************************)
PartsPage(S, m2, max, http) ==
  LET rest == SetToSortSeq({n \in S : n > m2}, LAMBDA a, b : a < b)
      full == Len(rest) >= max
      objs == Take(rest, max)
      trunc == Len(rest) > max
  IN Page(MapSeq(objs, LAMBDA n : Ent(<<>>, n, FALSE)), <<>>, trunc, <<>>, FALSE,
          \* the store reports the marker whenever the page is full, the handler only when truncated
          IF full /\ (trunc \/ ~http) THEN objs[max] ELSE MAbsent)

(***************************************************************************)
(* cases, runs, the property                                               *)
(***************************************************************************)
\* a case: kind, keys (objects), prog (versions), ups (uploads, creation order),
\* parts (upload order), prefix, delim, max
UplSet(c) == {[k |-> c.ups[i], v |-> i] : i \in 1..Len(c.ups)}
\* ListObjects through HTTP: v1 marker, v2 continuation-token, v2 start-after
HttpObjApis == {"v1", "v2", "v2s"}
ApisOf(kind) == CASE kind = "objects"  -> <<"store", "v1", "v2", "v2s">>
                  [] kind = "versions" -> <<"store", "http", "v2">>
                  [] kind = "uploads"  -> <<"store", "http">>
                  [] kind = "parts"    -> <<"store", "http">>

KeySetOf(c) == IF c.kind = "versions" THEN Visible(History(c.prog).rows)
               ELSE {c.keys[i] : i \in 1..Len(c.keys)}

ModelPage(c, api, m1, m1set, m2, D) ==
  LET mk == IF m1set THEN m1 ELSE <<>> IN
  IF api \in HttpObjApis THEN HttpObjectsPage(KeySetOf(c), c.prefix, c.delim, m1, m1set, c.max, D)
  ELSE CASE c.kind = "objects"  -> StoreObjectsPage(KeySetOf(c), c.prefix, c.delim, mk, c.max, D)
         [] c.kind = "versions" -> VersionsPage(History(c.prog).rows, c.prefix, c.delim, mk, m2, c.max, D, api = "http")
         [] c.kind = "uploads"  -> IF api = "store"
                                   THEN StoreUploadsPage(UplSet(c), c.prefix, c.delim, mk, m2, c.max, D)
                                   ELSE HttpUploadsPage(UplSet(c), c.prefix, c.delim, m1, m1set, m2, c.max, D)
         [] c.kind = "parts"    -> PartsPage({c.parts[i] : i \in 1..Len(c.parts)}, m2, c.max, api = "http")

Sent(pg, m1, m1set, m2) == [m1 |-> m1, m1set |-> m1set, m2 |-> m2] @@ pg

\* the paging client of harness/cmd/listing (follow): start without markers,
\* resend the returned markers while the page is truncated
RECURSIVE Follow(_, _, _, _, _, _, _)
Follow(c, api, D, m1, m1set, m2, pages) ==
  LET pg == ModelPage(c, api, m1, m1set, m2, D)
      ps == Append(pages, Sent(pg, IF m1set THEN m1 ELSE <<>>, m1set, m2))
  IN IF ~pg.trunc THEN [pages |-> ps, end |-> "done"]
     ELSE IF ~pg.n1set /\ pg.n2 = MAbsent THEN [pages |-> ps, end |-> "stuck"]
     ELSE IF Len(ps) >= PageCap THEN [pages |-> ps, end |-> "loop"]
     ELSE Follow(c, api, D, IF pg.n1set THEN pg.n1 ELSE <<>>, pg.n1set, pg.n2, ps)
Run(c, api, D) == Follow(c, api, D, <<>>, FALSE, MAbsent, <<>>)

\* ------------------------------------------------- the full S3 answer
\* Expected(keys, prefix, delim): keys that start byte-for-byte with the
\* prefix, ascending, those containing the delimiter after the prefix grouped
\* into common prefixes.
S3Grouped(p, k, dl) == Len(dl) > 0 /\ Has(Drop(k, Len(p)), dl[1])
S3CP(p, k, dl) == LET r == Drop(k, Len(p))
                      j == CHOOSE i \in 1..Len(r) : r[i] = dl[1] /\ ~Has(SubSeq(r, 1, i - 1), dl[1])
                  IN SubSeq(k, 1, Len(p) + j)
ExpectedKeys(keys, p, dl) == SortKeys({k \in keys : IsPrefix(p, k) /\ ~S3Grouped(p, k, dl)})
ExpectedCps(keys, p, dl)  == SortKeys({S3CP(p, k, dl) : k \in {x \in keys : IsPrefix(p, x) /\ S3Grouped(p, x, dl)}})

\* what a complete run must have yielded: the entry sequence and the common prefixes
ExpectedEntries(c, api) ==
  IF api \in HttpObjApis \/ c.kind = "objects"
  THEN MapSeq(ExpectedKeys(KeySetOf(c), c.prefix, c.delim), KeyEnt)
  ELSE CASE c.kind = "versions" ->
              MapSeq(SetToSortSeq({r \in History(c.prog).rows : IsPrefix(c.prefix, r.k) /\ ~S3Grouped(c.prefix, r.k, c.delim)},
                                  LAMBDA a, b : VerLt(a, b, {})), VerEnt)
         [] c.kind = "uploads" ->
              MapSeq(SetToSortSeq({r \in UplSet(c) : IsPrefix(c.prefix, r.k) /\ ~S3Grouped(c.prefix, r.k, c.delim)}, UplLt), UplEnt)
         [] c.kind = "parts" ->
              MapSeq(SetToSortSeq({c.parts[i] : i \in 1..Len(c.parts)}, LAMBDA a, b : a < b), LAMBDA n : Ent(<<>>, n, FALSE))
AllKeysOf(c, api) ==
  IF api \in HttpObjApis \/ c.kind = "objects" THEN KeySetOf(c)
  ELSE CASE c.kind = "versions" -> {r.k : r \in History(c.prog).rows}
         [] c.kind = "uploads"  -> {c.ups[i] : i \in 1..Len(c.ups)}
         [] c.kind = "parts"    -> {}
ExpectedPrefixes(c, api) == ExpectedCps(AllKeysOf(c, api), c.prefix, c.delim)

RECURSIVE ConcatObjs(_, _)
ConcatObjs(pages, i) == IF i > Len(pages) THEN <<>> ELSE pages[i].objs \o ConcatObjs(pages, i + 1)
RECURSIVE ConcatCps(_, _)
ConcatCps(pages, i) == IF i > Len(pages) THEN <<>> ELSE pages[i].cps \o ConcatCps(pages, i + 1)

\* C06 on one run: paging terminates, and following the markers yielded every
\* matching entry exactly once, in S3 order, and nothing else.  The XML of
\* ListObjectVersions has separate Version / DeleteMarker lists, so through
\* HTTP the order is demanded within each list.
\* storage.ListBucketResult (ListObjects at the storage API) carries no
\* continuation marker, so in delimiter mode there is no marker to "follow":
\* those runs are checked for conformance only, C06 is not evaluated on them.
PropertyApplies(c, api) == ~(c.kind = "objects" /\ api = "store" /\ Len(c.delim) > 0)

Complete(c, api, run) ==
  LET got == ConcatObjs(run.pages, 1)
      exp == ExpectedEntries(c, api)
  IN /\ run.end = "done"
     /\ IF c.kind = "versions" /\ api = "http"
        THEN /\ SelectSeq(got, LAMBDA e : ~e.dm) = SelectSeq(exp, LAMBDA e : ~e.dm)
             /\ SelectSeq(got, LAMBDA e : e.dm) = SelectSeq(exp, LAMBDA e : e.dm)
        ELSE got = exp
     /\ ConcatCps(run.pages, 1) = ExpectedPrefixes(c, api)
PagingComplete(c, api, run) == PropertyApplies(c, api) => Complete(c, api, run)

\* --------------------------------------------- exhaustive design checking
\* bounded case space of the design-level check (cfg: MCSyms, MCKeyLen, ...)
CONSTANTS MCSyms, MCKeyLen, MCKeys, MCPrefixLen, MCMax, MCDelimSyms, MCProgLen, MCKinds
MCDelims == {<<>>} \cup {<<d>> : d \in MCDelimSyms}
SeqsUpTo(S, lo, hi) == UNION {[1..n -> S] : n \in lo..hi}
MCKeyUniverse == SeqsUpTo(MCSyms, 1, MCKeyLen)
MCKeySets == {ks \in SUBSET MCKeyUniverse : Cardinality(ks) <= MCKeys}
MCShapes == [prefix : SeqsUpTo(MCSyms, 0, MCPrefixLen), delim : MCDelims, max : 1..MCMax]
MCTwoKeys == SetToSeq({k \in MCKeyUniverse : Len(k) <= 2 /\ k[1] = LOA})   \* keys used by histories / uploads
Blank == [kind |-> "", keys |-> <<>>, prog |-> <<>>, ups |-> <<>>, parts |-> <<>>, prefix |-> <<>>, delim |-> <<>>, max |-> 1]
MCSteps == {[op |-> o, key |-> <<>>] : o \in {"enable", "suspend"}}
           \cup {[op |-> o, key |-> MCTwoKeys[i]] : o \in {"put", "del"}, i \in 1..MinI(2, Len(MCTwoKeys))}
MCCases ==
  (IF "objects" \in MCKinds
   THEN {[Blank EXCEPT !.kind = "objects", !.keys = SetToSeq(ks), !.prefix = s.prefix, !.delim = s.delim, !.max = s.max]
          : ks \in MCKeySets, s \in MCShapes} ELSE {})
  \cup
  (IF "versions" \in MCKinds
   THEN {[Blank EXCEPT !.kind = "versions", !.prog = pr, !.prefix = s.prefix, !.delim = s.delim, !.max = s.max]
          : pr \in UNION {[1..n -> MCSteps] : n \in 0..MCProgLen},
            s \in {x \in MCShapes : Len(x.prefix) <= 1}} ELSE {})
  \cup
  (IF "uploads" \in MCKinds
   THEN {[Blank EXCEPT !.kind = "uploads", !.ups = us, !.prefix = s.prefix, !.delim = s.delim, !.max = s.max]
          : us \in SeqsUpTo(MCKeyUniverse, 0, MCKeys), s \in MCShapes} ELSE {})
  \cup
  (IF "parts" \in MCKinds
   THEN {[Blank EXCEPT !.kind = "parts", !.parts = ps, !.max = m]
          : ps \in SeqsUpTo(1..4, 0, 4), m \in 1..MCMax} ELSE {})

VARIABLE case
Init == case \in MCCases
Next == UNCHANGED case
Spec == Init /\ [][Next]_case

\* the paging-completeness theorem on the intended design, every API (for the
\* marker-less storage ListObjects under the ClientNext rule as well)
DesignHolds ==
  \A i \in 1..Len(ApisOf(case.kind)) :
    LET api == ApisOf(case.kind)[i] IN Complete(case, api, Run(case, api, {}))
=============================================================================
