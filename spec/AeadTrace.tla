----------------------------- MODULE AeadTrace -----------------------------
(* TV for C16: one executed case per ndjson line (harness/cmd/aead).  The      *)
(* model (scaled constants, Deviations = open tags) predicts the result class  *)
(* of every script step; the logged classes must be equal; the property is     *)
(* evaluated on the logged classes.                                            *)
EXTENDS AeadGen, IOUtils

Trace == ndJsonDeserialize(IOEnv.TRACE_FILE)
VARIABLE l

TamperOf(r) == T(r.t.kind, r.t.unit, r.t.j, r.t.j2, r.t.where)
ScriptOf(r) == [i \in 1..Len(r.script) |-> SStep(r.script[i].wh, r.script[i].tgt, r.script[i].cnt)]
Logged(r) == [i \in 1..Len(r.results) |-> [res |-> r.results[i].res, wrong |-> r.results[i].wrong]]
WellFormed(r) ==
  LET lc == [full |-> r.lc.full, extra |-> r.lc.extra]
      t == TamperOf(r) IN
  /\ lc \in LenClasses /\ r.path \in {"seek", "seq"}
  /\ Applicable(LenOf(lc), t)
  /\ StepsOk(ScriptOf(r), LenOf(lc)) /\ ScriptOk(r.path, Concrete(ScriptOf(r), LenOf(lc)))
  /\ Len(r.results) = Len(r.script)
Verdict(r) ==
  IF ~WellFormed(r) THEN [v |-> "malformed", tag |-> "", pred |-> <<>>]
  ELSE LET L == LenOf([full |-> r.lc.full, extra |-> r.lc.extra])
           t == TamperOf(r)
           sc == Concrete(ScriptOf(r), L)
           e == Exec(r.path, L, t, sc)
           pred == e.rs
           tags == e.tags IN
       IF Logged(r) # pred \/ r.seekable # (r.path = "seek") \/ r.leak
       THEN [v |-> "mismatch", tag |-> "", pred |-> pred]
       ELSE IF ~PropC16(t, sc, Logged(r))
            THEN [v |-> "finding", pred |-> pred, tag |-> IF tags = {} THEN "" ELSE CHOOSE x \in tags : TRUE]
            ELSE [v |-> "ok", tag |-> "", pred |-> pred]
Report(i) ==
  LET v == Verdict(Trace[i]) IN
  IF v.v = "ok" THEN TRUE ELSE PrintT(ToJson([l |-> i, verdict |-> v.v, tag |-> v.tag, expected |-> v.pred]))
TInit == l = 1 /\ case = Alphabet /\ len = 0 /\ tam = Unset /\ path = "-"
TNext == l <= Len(Trace) /\ Report(l) /\ l' = l + 1 /\ UNCHANGED <<case, len, tam, path>>
=============================================================================
