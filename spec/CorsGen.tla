------------------------------- MODULE CorsGen -------------------------------
(***************************************************************************)
(* The case sets of Cors.tla.  Used twice:                                 *)
(*   MC  (Cors.MC.cfg)  : the intended response satisfies C34 on every     *)
(*                        case x environment                               *)
(*   GEN (Cors.Gen.cfg) : print every case as JSON; harness/cmd/cors       *)
(*                        executes them on the real code                   *)
(***************************************************************************)
EXTENDS Cors, Json

CONSTANT Tier           \* "quick" | "thorough": size of the structural family

\* Access-Control-Request-Headers: sequence of header lines, each a sequence
\* of comma separated items, each a name (<<>> = empty item)
AcrhForms == { <<>>,                        \* header absent
               << <<A>> >>,                 \* "a"
               << <<B>> >>,                 \* "b"
               << <<A, B>> >>,              \* "a, b"
               << <<A>>, <<B>> >>,          \* two header lines "a" and "b"
               << <<>>, <<B>> >>,           \* a blank first line, then "b"
               << <<AB>> >>,                \* "ab"
               << <<A, <<>>, B>> >> }       \* "a, , b"

RuleOf(o, m, h) == [origins |-> o, methods |-> m, headers |-> h]

\* the case variant is exercised on every pattern in thorough, on patterns of
\* length <= 2 in quick
Kinds(p) == IF Tier = "quick" /\ Len(p) > 2 THEN {"plain"} ELSE {"plain", "upper"}

\* family "origin": the wildcard matcher through AllowedOrigins, exhaustive
CasesOrigin ==
  { [fam |-> "origin", rules |-> <<RuleOf(<<pk[1]>>, <<"GET">>, <<>>)>>,
     origin |-> v, okind |-> pk[2], method |-> "GET", acrm |-> "none", acrh |-> <<>>, hkind |-> "plain"]
    : pk \in {x \in Patterns \X {"plain", "upper"} : x[2] \in Kinds(x[1])}, v \in Values }

\* family "header": the wildcard matcher through AllowedHeaders in a preflight
CasesHeader ==
  { [fam |-> "header", rules |-> <<RuleOf(<<S>>, <<"PUT">>, <<pk[1]>>)>>,
     origin |-> A, okind |-> "plain", method |-> "OPTIONS", acrm |-> "PUT", acrh |-> << <<v>> >>, hkind |-> pk[2]]
    : pk \in {x \in Patterns \X {"plain", "upper"} : x[2] \in Kinds(x[1])}, v \in Values }

\* family "struct": rule lists, first match, conjunction of the three criteria,
\* preflight detection, header list parsing
OriginLists == {<<S>>, <<A>>, <<B>>, <<A, S>>, <<S, A>>}
MethodLists == {<<"GET">>, <<"PUT">>, <<"GET", "PUT">>}
HeaderLists == {<<>>, <<S>>, <<A>>, <<A, B>>, <<AS>>}
Rules1 == IF Tier = "quick"
          THEN {RuleOf(o, m, h) : o \in {<<A>>, <<A, S>>, <<S, A>>}, m \in {<<"GET">>, <<"GET", "PUT">>},
                                  h \in {<<>>, <<A>>, <<AS>>}}
          ELSE {RuleOf(o, m, h) : o \in OriginLists, m \in MethodLists, h \in HeaderLists}
Rules2 == IF Tier = "quick"
          THEN {RuleOf(<<S>>, <<"GET", "PUT">>, <<S>>), RuleOf(<<A>>, <<"PUT">>, <<A, B>>),
                RuleOf(<<B>>, <<"GET">>, <<>>)}
          ELSE {RuleOf(o, m, h) : o \in {<<S>>, <<A>>}, m \in {<<"GET">>, <<"GET", "PUT">>},
                                  h \in {<<>>, <<S>>, <<A, B>>}}
RuleLists == {<<>>} \cup {<<r>> : r \in Rules1} \cup {<<r1, r2>> : r1 \in Rules1, r2 \in Rules2}

OriginForms == {[origin |-> <<>>, okind |-> "absent"], [origin |-> <<>>, okind |-> "blank"],
                [origin |-> A, okind |-> "plain"], [origin |-> B, okind |-> "padded"]}
PreflightForms ==
  IF Tier = "quick"
  THEN {[method |-> "OPTIONS", acrm |-> a, acrh |-> h] : a \in {"GET", "PUT"}, h \in AcrhForms}
       \cup {[method |-> "OPTIONS", acrm |-> "put", acrh |-> h] : h \in {<<>>, << <<A>>, <<B>> >>}}
       \cup {[method |-> "OPTIONS", acrm |-> "DELETE", acrh |-> <<>>]}
  ELSE {[method |-> "OPTIONS", acrm |-> a, acrh |-> h] : a \in {"GET", "PUT", "put", "DELETE"}, h \in AcrhForms}
ReqForms ==
  {[method |-> m, acrm |-> "none", acrh |-> h] : m \in {"GET", "PUT"}, h \in {<<>>, << <<B>> >>}}
  \cup {[method |-> "GET", acrm |-> "PUT", acrh |-> <<>>]}                 \* not a preflight: not OPTIONS
  \cup {[method |-> "OPTIONS", acrm |-> a, acrh |-> <<>>] : a \in {"none", "blank"}}
  \cup PreflightForms

CasesStruct ==
  { [fam |-> "struct", rules |-> rl, origin |-> o.origin, okind |-> o.okind,
     method |-> q.method, acrm |-> q.acrm, acrh |-> q.acrh, hkind |-> "plain"]
    : rl \in RuleLists, o \in OriginForms, q \in ReqForms }

Cases == CasesOrigin \cup CasesHeader \cup CasesStruct

\* ------------------------------------------------------ exhaustive checking
VARIABLES case, env
vars == <<case, env>>
\* the model depends on the environment only through env.target
MCEnvs == {[mode |-> "direct", addr |-> "path", res |-> "object", target |-> "self"],
           [mode |-> "e2e", addr |-> "vhost", res |-> "bucket", target |-> "other"]}
          \cup (IF Tier = "quick" THEN {} ELSE {[mode |-> "e2e", addr |-> "vhost", res |-> "object", target |-> "self"]})
ASSUME MCEnvs \subseteq Envs
Init == case \in Cases /\ env \in MCEnvs
Next == UNCHANGED vars
Spec == Init /\ [][Next]_vars

\* design-level: the intended response satisfies the property on all cases
DesignHolds == IsCase(case) /\ C34Holds(case, env, ResponseIntended(case, env))

GInit == case \in Cases /\ env = [mode |-> "direct", addr |-> "path", res |-> "object", target |-> "self"]
GSpec == GInit /\ [][Next]_vars
Emit == PrintT(ToJson(case))
=============================================================================
