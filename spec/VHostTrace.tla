----------------------------- MODULE VHostTrace -----------------------------
(* TV: one executed case per ndjson line (harness/cmd/vhost)                *)
EXTENDS VHost, Json, IOUtils
Trace == ndJsonDeserialize(IOEnv.TRACE_FILE)
VARIABLE l

CaseOf(r) == [kind |-> r.kind, bucket |-> r.bucket, key |-> r.key, method |-> r.method, hostform |-> r.hostform]
\* a logged call is [op, bucket class, key characters]
CallsOf(cs) == [i \in 1..Len(cs) |-> Call(cs[i][1], cs[i][2], cs[i][3])]

Verdict(r) ==
  LET c  == CaseOf(r)
      cp == CallsOf(r.calls_path)
      cv == CallsOf(r.calls_vhost) IN
  IF ~IsCase(c) THEN "malformed"
  ELSE IF c.kind = "api" /\ (cp # Target("path", c) \/ cv # Target("vhost", c)) THEN "mismatch"
  ELSE IF c.kind # "api" /\ (cp # <<>> \/ ~WebsiteExplained(c, cv)) THEN "mismatch"
  ELSE IF ~C33Holds(c, cp, cv) THEN "finding"
  ELSE "ok"
Report(i) ==
  LET r == Trace[i]
      v == Verdict(r) IN
  IF v = "ok" THEN TRUE
  ELSE PrintT(ToJson([l |-> i, verdict |-> v,
                      tag |-> IF v = "finding" THEN TagOf(CaseOf(r)) ELSE "",
                      expected_path |-> IF v = "mismatch" /\ r.kind = "api" THEN PathStyle(CaseOf(r)) ELSE <<>>,
                      expected_vhost |-> IF v = "mismatch" /\ r.kind = "api" THEN VHostCode(CaseOf(r)) ELSE <<>>,
                      got_path |-> r.calls_path, got_vhost |-> r.calls_vhost]))
TInit == l = 1
TNext == l <= Len(Trace) /\ Report(l) /\ l' = l + 1
=============================================================================
