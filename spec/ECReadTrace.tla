---------------------------- MODULE ECReadTrace ----------------------------
(* TV: one executed case per ndjson line (harness/cmd/ecread).  The model of  *)
(* the code (ECRead with the open deviations) must reproduce, for the case's  *)
(* symbolic shard files: the result of the first access (unless it was the    *)
(* heal scan, whose result is not observable), every shard file afterwards,   *)
(* which shard files are byte-equal to freshly encoded ones, and the result   *)
(* and shard files of a second read.  The property is evaluated on the        *)
(* model's (= the observed) results.                                          *)
EXTENDS ECRead, Json, IOUtils
Trace == ndJsonDeserialize(IOEnv.TRACE_FILE)
VARIABLE l

CaseOf(r) == [D |-> r.D, P |-> r.P, L |-> r.L, LO |-> r.LO, LF |-> r.LF, mode |-> r.mode,
              faults |-> [i \in 1..Len(r.faults) |->
                            [kind |-> r.faults[i].kind, f |-> r.faults[i].f, var |-> r.faults[i].var]]]
Res(x) == [ok |-> x.ok, len |-> x.len, cls |-> x.cls, err |-> x.err, stripe |-> x.stripe]
ScanRes == [ok |-> FALSE, len |-> -1, cls |-> "", err |-> "scan", stripe |-> -1]

PayTag(c, pay, i, k) == IF pay[1] = "empty" THEN "empty" ELSE VerOfPay(c, pay, i, k)
\* how the driver describes shard file i after an access (a) given the file before (b)
ViewOf(c, b, a, i) ==
  IF a = b THEN [changed |-> FALSE, hdr |-> "", frames |-> <<>>, tail |-> 0]
  ELSE [changed |-> TRUE, hdr |-> a.hdr,
        frames |-> [j \in 1..Len(a.frames) |->
                      [idx |-> a.frames[j].idx, db |-> a.frames[j].db, plen |-> a.frames[j].plen,
                       pay |-> PayTag(c, a.frames[j].pay, i, j - 1)]],
        tail |-> 0]
Views(c, b, a) == [i \in 1..N(c) |-> ViewOf(c, b[i], a[i], i)]

Expected(c) ==
  LET pre == Shards(c)
      r1 == R1(c)
      r2 == Read(c, r1.post) IN
  [r1 |-> IF c.mode = "scan" THEN ScanRes ELSE Res(r1),
   post1 |-> Views(c, pre, r1.post),
   fresh1 |-> [i \in 1..N(c) |-> IsFresh(c, r1.post[i], i)],
   r2 |-> Res(r2),
   post2 |-> Views(c, r1.post, r2.post),
   holds |-> C17Holds(c, r1, r2),
   tags |-> r1.via \cup r2.via]

View(v) == [changed |-> v.changed, hdr |-> v.hdr, tail |-> v.tail,
            frames |-> [j \in 1..Len(v.frames) |->
                          [idx |-> v.frames[j].idx, db |-> v.frames[j].db, plen |-> v.frames[j].plen,
                           pay |-> v.frames[j].pay]]]
Got(r) == [r1 |-> Res(r.r1), post1 |-> [i \in 1..Len(r.post1) |-> View(r.post1[i])],
           fresh1 |-> [i \in 1..Len(r.fresh1) |-> r.fresh1[i]],
           r2 |-> Res(r.r2), post2 |-> [i \in 1..Len(r.post2) |-> View(r.post2[i])]]
Obs(e) == [r1 |-> e.r1, post1 |-> e.post1, fresh1 |-> e.fresh1, r2 |-> e.r2, post2 |-> e.post2]

Report(i) ==
  LET r == Trace[i]
      c == CaseOf(r) IN
  IF ~ValidCase(c)
  THEN PrintT(ToJson([l |-> i, verdict |-> "malformed", tags |-> {}, expected |-> "", got |-> ""]))
  ELSE LET e == Expected(c)
           g == Got(r) IN
       IF Obs(e) # g
       THEN PrintT(ToJson([l |-> i, verdict |-> "mismatch", tags |-> e.tags, expected |-> Obs(e), got |-> g]))
       ELSE IF ~e.holds
       THEN PrintT(ToJson([l |-> i, verdict |-> "finding", tags |-> e.tags, expected |-> "", got |-> ""]))
       ELSE TRUE

TInit == /\ l = 1 /\ pos = 1 /\ lim = "any"
         /\ case = [D |-> 2, P |-> 1, L |-> 0, LO |-> 0, LF |-> 0, mode |-> "read",
                    faults |-> [i \in 1..3 |-> NoFault]]
TNext == l <= Len(Trace) /\ Report(l) /\ l' = l + 1 /\ UNCHANGED vars
=============================================================================
