------------------------------ MODULE CacheGen ------------------------------
(* GEN: schedules for the forced-schedule leg.  A schedule is the sequence of  *)
(* [thread, begin?, operation] steps of a behaviour of Cache.tla (the model    *)
(* of the code: Deviations = open findings).  Random walks (-simulate) emit    *)
(* the schedule when no thread can move any more; the Witness* invariants      *)
(* make TLC's BFS emit the SHORTEST schedule that breaks a property in the     *)
(* model - a candidate that only counts if the real code reproduces it.        *)
EXTENDS Cache, Json

VARIABLES sched, init0

StepRec(t, b, o) == [th |-> t, begin |-> b, kind |-> o.kind, k |-> o.k, v |-> o.v]

GInit == /\ \E p \in Persistors : \E P \in (IF Level = "part" THEN SUBSET Keys ELSE {{}}) :
              /\ S = InitState([pers |-> p, lk |-> LimitKind, ln |-> LimitN], P)
              /\ init0 = P
         /\ sched = <<>>
GNext == /\ \E t \in Threads :
              \/ \E S2 \in StepSet(S, t) : S' = S2 /\ sched' = Append(sched, StepRec(t, 0, S.op[t]))
              \/ S.nops[t] < MaxOps /\ \E o \in Ops : \E S2 \in BeginSet(S, t, o) :
                    S' = S2 /\ sched' = Append(sched, StepRec(t, 1, o))
         /\ UNCHANGED init0
GSpec == GInit /\ [][GNext]_<<S, sched, init0>>

Terminal == \A t \in Threads : /\ StepSet(S, t) = {}
                               /\ (S.nops[t] >= MaxOps \/ \A o \in Ops : BeginSet(S, t, o) = {})
Out(w) == PrintT(ToJson([witness |-> w, pers |-> S.cfg.pers, init |-> init0, sched |-> sched]))
Emit == IF Terminal /\ Len(sched) > 0 THEN Out("") ELSE TRUE

WitnessGet == IF GetReturnsCompletedSet(S) THEN TRUE ELSE Out("InvGet") /\ FALSE
WitnessPart == IF PartCacheExact(S) THEN TRUE ELSE Out("InvPart") /\ FALSE
WitnessPanic == IF NoPanic(S) THEN TRUE ELSE Out("InvNoPanic") /\ FALSE
=============================================================================
