------------------------------ MODULE CacheGen ------------------------------
(* GEN: schedules for the forced-schedule leg.  A schedule is the sequence of  *)
(* [thread, begin?, operation] steps of a behaviour of Cache.tla (the model    *)
(* of the code: Deviations = open findings) from an initial configuration      *)
(* (level, persistor, limit, initially stored part ids).  Random walks         *)
(* (-simulate) emit the schedule when no thread can move any more; the         *)
(* Witness* invariants make TLC's BFS emit the SHORTEST schedule that breaks a *)
(* property in the model - a candidate that only counts if the real code       *)
(* reproduces it.                                                              *)
EXTENDS Cache, Json

CONSTANTS Levels           \* subset of {"cache", "part"}

VARIABLES sched, init0, lvl, hist
gvars == <<S, sched, init0, lvl, hist>>

\* limit configurations: key limit 1 / 2, size limit 3 chunks (one value fits, two do not),
\* size limit 1 chunk (every value is larger than the whole cache)
Limits == IF LimitKind = "all"
          THEN {[lk |-> "keys", ln |-> 1], [lk |-> "keys", ln |-> 2], [lk |-> "size", ln |-> 3], [lk |-> "size", ln |-> 1]}
          ELSE {[lk |-> LimitKind, ln |-> LimitN]}

OpsOf(lv) == IF lv = "cache" THEN CacheOps ELSE PartOps
StepRec(t, b, o) == [th |-> t, begin |-> b, kind |-> o.kind, k |-> o.k, v |-> o.v]
\* the walk's own Invoke/Return history with the MODEL's results: used to check that the behaviours of the
\* intended design (Deviations = {}) are linearisable under CacheLin.tla (the two specs agree)
HistEv(t, b, o, S2) ==
  (IF b = 1 THEN <<[t |-> "inv", c |-> t, kind |-> IF o.kind = "csets" THEN "cset" ELSE IF o.kind = "pputi" THEN "pput" ELSE o.kind,
                    k |-> o.k, v |-> o.v, n |-> IF o.v = PB THEN 4 ELSE NChunks]>>
   ELSE <<>>) \o
  (IF S2.pc[t] = "done" THEN <<[t |-> "ret", c |-> t, st |-> S2.res[t].st, chunks |-> S2.res[t].chunks]>> ELSE <<>>)

GInit == /\ \E lv \in Levels : \E p \in Persistors : \E lim \in Limits :
            \E P \in (IF lv = "part" THEN SUBSET Keys ELSE {{}}) :
              \* a fill-on-miss runs in a goroutine of the cache part store: a policy panic there kills the
              \* process, so that configuration is exercised by the driver's panicprobe instead
              /\ ~(lv = "part" /\ lim = [lk |-> "size", ln |-> 1])
              /\ S = InitState([pers |-> p, lk |-> lim.lk, ln |-> lim.ln], P)
              /\ init0 = P /\ lvl = lv
         /\ sched = <<>> /\ hist = <<>>
GNext == /\ \E t \in Threads :
              \/ \E S2 \in StepSet(S, t) : /\ S' = S2 /\ sched' = Append(sched, StepRec(t, 0, S.op[t]))
                                              /\ hist' = hist \o HistEv(t, 0, S.op[t], S2)
              \/ S.nops[t] < MaxOps /\ \E o \in OpsOf(lvl) : \E S2 \in BeginSet(S, t, o) :
                    /\ S' = S2 /\ sched' = Append(sched, StepRec(t, 1, o))
                    /\ hist' = hist \o HistEv(t, 1, o, S2)
         /\ UNCHANGED <<init0, lvl>>
GSpec == GInit /\ [][GNext]_gvars

\* no thread can move: every level has an operation that begins without the cache mutex
Terminal == \A t \in Threads : ~CanStep(S, t) /\ ~(S.pc[t] \in {"idle", "done"} /\ S.nops[t] < MaxOps)
Out(w) == PrintT(ToJson([witness |-> w, level |-> lvl, pers |-> S.cfg.pers, lk |-> S.cfg.lk, ln |-> S.cfg.ln,
                         init |-> init0, sched |-> sched, hist |-> hist]))
Emit == IF Terminal /\ Len(sched) > 0 THEN Out("") ELSE TRUE

WitnessGet == IF GetReturnsCompletedSet(S) THEN TRUE ELSE Out("InvGet") /\ FALSE
WitnessPart == IF PartCacheExact(S) THEN TRUE ELSE Out("InvPart") /\ FALSE
WitnessPanic == IF NoPanic(S) THEN TRUE ELSE Out("InvNoPanic") /\ FALSE
=============================================================================
