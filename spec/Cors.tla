-------------------------------- MODULE Cors --------------------------------
(***************************************************************************)
(* C34 - CORS headers are granted only by a matching rule.                 *)
(*                                                                         *)
(* Models, as result operators over symbolic inputs,                       *)
(*   internal/http/middleware/cors.go                                      *)
(*     MakeCORSMiddlewareWithResolver  -> Response                         *)
(*     isPreflightRequest              -> IsPreflight                      *)
(*     findMatchingRule                -> FirstMatch / RuleMatches         *)
(*     matchOrigin                     -> OriginPat                        *)
(*     matchMethod                     -> method \in Range(rule.methods)   *)
(*     matchRequestedHeaders           -> HeadersOK                        *)
(*     parseHeaderList                 -> Flatten (+ RequestedCode)        *)
(*     wildcardMatch                   -> Wildcard                         *)
(*   internal/http/server/cors.go                                          *)
(*     resolveCORSRulesForRequest / bucketFromPath -> EffRules             *)
(*   (plus, end to end, PutBucketCORS/DeleteBucketCORS, the corscache      *)
(*   storage middleware and the virtual-host path rewrite in front of it). *)
(*                                                                         *)
(* Strings are sequences of symbols over Sigma; "*" is the wildcard.       *)
(* Letter case, padding and the way a header list is cut into lines are    *)
(* concretisation attributes (okind, hkind, the line structure of acrh);   *)
(* the harness (harness/cmd/cors) turns them into bytes.  The case sets    *)
(* that TLC enumerates are in CorsGen.tla, the trace binding in CorsTrace. *)
(*                                                                         *)
(* Documented semantics (doc comment of wildcardMatch, S3 CORS): a pattern *)
(* holds at most one "*", which stands for any, possibly empty, sequence   *)
(* of characters; everything else is literal.  Origins and header names    *)
(* are compared case-insensitively, the request method (or, in a           *)
(* preflight, Access-Control-Request-Method) after upper-casing.  The      *)
(* first rule matching origin, method and - in a preflight - every         *)
(* requested header wins.                                                  *)
(***************************************************************************)
EXTENDS Naturals, Sequences, FiniteSets, TLC

CONSTANT Deviations      \* set of deviation tags the code is known to have

Star  == "*"
Sigma == {"a", "b", "q"}          \* q is concretised as "?" (a literal, never a wildcard)
PSyms == Sigma \cup {Star}

Range(s) == {s[i] : i \in 1..Len(s)}
SeqsUpTo(S, lo, hi) == UNION {[1..n -> S] : n \in lo..hi}
Stars(p) == Cardinality({i \in 1..Len(p) : p[i] = Star})

Values   == SeqsUpTo(Sigma, 1, 3)                       \* origins, header names
Patterns == {p \in SeqsUpTo(PSyms, 1, 3) : Stars(p) <= 1}

\* ----------------------------------------------------------------- inputs
S  == <<Star>>
A  == <<"a">>
B  == <<"b">>
AB == <<"a", "b">>
AS == <<"a", Star>>

Methods   == {"GET", "PUT", "OPTIONS"}
Acrms     == {"none", "blank", "GET", "PUT", "put", "DELETE"}
OKinds    == {"absent", "blank", "plain", "upper", "padded"}
HKinds    == {"plain", "upper", "padded"}

\* well-formedness of a case read back from a trace (cheap, no set enumeration)
IsPatternList(l) == \A i \in 1..Len(l) : l[i] \in Patterns
IsRule(r) == /\ Len(r.origins) >= 1 /\ IsPatternList(r.origins) /\ IsPatternList(r.headers)
             /\ Len(r.methods) >= 1 /\ Range(r.methods) \subseteq Methods
IsCase(c) ==
  /\ \A i \in 1..Len(c.rules) : IsRule(c.rules[i])
  /\ c.okind \in OKinds /\ c.hkind \in HKinds /\ c.method \in Methods /\ c.acrm \in Acrms
  /\ (c.okind \in {"absent", "blank"}) <=> (c.origin = <<>>)
  /\ c.origin = <<>> \/ c.origin \in Values
  /\ \A i \in 1..Len(c.acrh) : \A j \in 1..Len(c.acrh[i]) : c.acrh[i][j] = <<>> \/ c.acrh[i][j] \in Values

\* execution environment of a case (chosen by the pipeline, checked here)
Envs == [mode : {"direct"}, addr : {"path"}, res : {"object"}, target : {"self"}]
        \cup [mode : {"e2e"}, addr : {"path", "vhost"}, res : {"bucket", "object"}, target : {"self", "other"}]

\* ------------------------------------------------------------------ model
\* wildcardMatch: the single "*" stands for any (possibly empty) sequence
Wildcard(p, v) ==
  IF \E i \in 1..Len(p) : p[i] = Star
  THEN LET i   == CHOOSE j \in 1..Len(p) : p[j] = Star
           pre == SubSeq(p, 1, i - 1)
           suf == SubSeq(p, i + 1, Len(p))
       IN  \E k \in 0..Len(v) :
             /\ Len(v) = Len(pre) + k + Len(suf)
             /\ SubSeq(v, 1, Len(pre)) = pre
             /\ SubSeq(v, Len(pre) + k + 1, Len(v)) = suf
  ELSE p = v

HasOrigin(c)   == c.okind \notin {"absent", "blank"}
IsPreflight(c) == c.method = "OPTIONS" /\ c.acrm \notin {"none", "blank"}
Upper(m)       == IF m = "put" THEN "PUT" ELSE m
ReqMethod(c)   == IF IsPreflight(c) THEN Upper(c.acrm) ELSE c.method

\* parseHeaderList over the given header lines: non-empty names in order
RECURSIVE FlattenLine(_)
FlattenLine(items) ==
  IF items = <<>> THEN <<>>
  ELSE (IF Head(items) = <<>> THEN <<>> ELSE <<Head(items)>>) \o FlattenLine(Tail(items))
RECURSIVE Flatten(_)
Flatten(lines) == IF lines = <<>> THEN <<>> ELSE FlattenLine(Head(lines)) \o Flatten(Tail(lines))

\* what the request asks for: every name of every Access-Control-Request-Headers line
RequestedIntended(c) == Flatten(c.acrh)
\* what the code looks at
RequestedCode(c) ==
  IF "D-C34-acrh-first-line-only" \in Deviations
  THEN (IF c.acrh = <<>> THEN <<>> ELSE FlattenLine(c.acrh[1]))     \* r.Header.Get: first line only
  ELSE RequestedIntended(c)

\* matchOrigin: index of the first allowed origin pattern that matches, 0 if none
OriginPat(rule, o) ==
  IF \E j \in 1..Len(rule.origins) : Wildcard(rule.origins[j], o)
  THEN CHOOSE j \in 1..Len(rule.origins) :
         /\ Wildcard(rule.origins[j], o)
         /\ \A k \in 1..(j - 1) : ~Wildcard(rule.origins[k], o)
  ELSE 0

\* matchRequestedHeaders
HeadersOK(allowed, requested) ==
  \A i \in 1..Len(requested) : \E j \in 1..Len(allowed) : Wildcard(allowed[j], requested[i])

RuleMatches(rule, o, m, requested, pf) ==
  /\ OriginPat(rule, o) # 0
  /\ m \in Range(rule.methods)
  /\ pf => HeadersOK(rule.headers, requested)

\* findMatchingRule: index of the first matching rule, 0 if none
FirstMatch(rules, o, m, requested, pf) ==
  IF \E i \in 1..Len(rules) : RuleMatches(rules[i], o, m, requested, pf)
  THEN CHOOSE i \in 1..Len(rules) :
         /\ RuleMatches(rules[i], o, m, requested, pf)
         /\ \A k \in 1..(i - 1) : ~RuleMatches(rules[k], o, m, requested, pf)
  ELSE 0

\* resolveCORSRulesForRequest: the configuration of the addressed bucket only
EffRules(c, env) == IF env.target = "self" THEN c.rules ELSE <<>>

Untouched == [status |-> "next", next |-> TRUE, acao |-> "none", rule |-> 0, vary |-> FALSE,
              amethods |-> <<>>, ach |-> {}]

\* MakeCORSMiddlewareWithResolver with the given reading of the requested headers
ResponseWith(c, env, requested) ==
  IF ~HasOrigin(c) THEN Untouched
  ELSE
    LET rules == EffRules(c, env)
        pf    == IsPreflight(c)
        i     == FirstMatch(rules, c.origin, ReqMethod(c), requested, pf)
    IN IF i = 0
       THEN IF pf THEN [Untouched EXCEPT !.status = "403", !.next = FALSE, !.vary = (rules # <<>>)]
                  ELSE [Untouched EXCEPT !.vary = (rules # <<>>)]
       ELSE LET rule == rules[i]
                acao == IF rule.origins[OriginPat(rule, c.origin)] = S THEN "star" ELSE "origin"
            IN IF pf
               THEN [status |-> "200", next |-> FALSE, acao |-> acao, rule |-> i, vary |-> TRUE,
                     amethods |-> rule.methods,
                     ach |-> {"access-control-allow-origin", "access-control-allow-methods", "access-control-max-age"}
                             \cup (IF rule.headers # <<>> THEN {"access-control-allow-headers"} ELSE {})]
               ELSE [status |-> "next", next |-> TRUE, acao |-> acao, rule |-> i, vary |-> TRUE,
                     amethods |-> <<>>,
                     ach |-> {"access-control-allow-origin", "access-control-expose-headers"}]

Response(c, env)         == ResponseWith(c, env, RequestedCode(c))       \* model of the code
ResponseIntended(c, env) == ResponseWith(c, env, RequestedIntended(c))   \* what the property demands

\* ---------------------------------------------------------------- property
\* index of the rule that matches the request as the property reads it
IntendedMatch(c, env) ==
  FirstMatch(EffRules(c, env), c.origin, ReqMethod(c), RequestedIntended(c), IsPreflight(c))

AcaoOnlyByRule(c, env, out)  == out.acao # "none" => HasOrigin(c) /\ IntendedMatch(c, env) # 0
PreflightIffRule(c, env, out) ==
  HasOrigin(c) /\ IsPreflight(c) =>
    /\ (out.status = "200") <=> (IntendedMatch(c, env) # 0)
    /\ IntendedMatch(c, env) = 0 => out.status = "403" /\ ~out.next      \* rejected, not forwarded
NonCorsUntouched(c, env, out) == ~HasOrigin(c) => out = Untouched

C34Holds(c, env, out) ==
  AcaoOnlyByRule(c, env, out) /\ PreflightIffRule(c, env, out) /\ NonCorsUntouched(c, env, out)

\* the matcher agrees with the obvious special cases (guards against a vacuous Wildcard)
ASSUME MatcherSane ==
  /\ \A v \in Values : Wildcard(S, v) /\ Wildcard(v, v)
  /\ Wildcard(AS, A) /\ Wildcard(AS, AB) /\ ~Wildcard(AS, B) /\ ~Wildcard(<<"a", Star, "a">>, A)
  /\ ~Wildcard(<<"q">>, A) /\ Wildcard(<<"a", Star, "a">>, <<"a", "a">>)
=============================================================================
