----------------------------- MODULE CacheTrace -----------------------------
(* TV of forced schedules (harness/cmd/cache forced).  One line per schedule   *)
(* step: the thread released, whether it began an operation, and what the real *)
(* code then did: the gate where the thread parked next ("at", and for the     *)
(* eviction gate the key about to be removed) or, when the operation finished, *)
(* its result.  A line is explained when some successor of Cache.tla (model of *)
(* the code, Deviations = open findings) for that thread has exactly that      *)
(* observation.  Rounds are independent: every "reset" line is an initial      *)
(* state, and a round whose lines were all explained prints "accepted".        *)
(* The property predicates of Cache.tla are evaluated on every finished        *)
(* operation; a failure is printed with the deviation it is attributed to.     *)
EXTENDS Cache, Json, IOUtils

Trace == ndJsonDeserialize(IOEnv.TRACE_FILE)

VARIABLES l, rd, ended
tvars == <<S, l, rd, ended>>

SeqRange(s) == {s[i] : i \in 1..Len(s)}
ChunksOf(e) == [i \in 1..Len(e.chunks) |-> [k |-> e.chunks[i].k, v |-> e.chunks[i].v, i |-> e.chunks[i].i]]

TInit == \E i \in {j \in 1..Len(Trace) : Trace[j].t = "reset"} :
            /\ l = i + 1 /\ rd = Trace[i].round /\ ended = FALSE
            /\ S = InitState([pers |-> Trace[i].pers, lk |-> Trace[i].lk, ln |-> Trace[i].ln], SeqRange(Trace[i].init))

Match(S2, t, e) ==
  /\ S2.pc[t] = e.at
  /\ (e.at = "evict") => Head(S2.ev[t]) = e.key
  /\ (e.at = "done") => (S2.res[t].st = e.st /\ S2.res[t].chunks = ChunksOf(e))

\* property evaluation on the operation that just finished
Flag(S2, t, e) ==
  IF e.at # "done" THEN TRUE
  ELSE LET kind == S2.op[t].kind
           bad == CASE S2.res[t].st = "panic" -> TRUE
                    [] kind = "cget" -> ~GetOK(S2, t)
                    [] kind = "pget" -> ~PartGetOK(S2, t)
                    [] OTHER -> FALSE
           tag == CASE S2.res[t].st = "panic" -> "D-C19-lfu-oversize-panic"
                    [] kind = "cget" -> "D-C19-partial-read"
                    [] kind = "pget" /\ S2.res[t].st = "hit" /\ ~PartGetWhole(S2, t) -> "D-C19-partial-read"
                    [] kind = "pget" /\ PartGetWhole(S2, t) -> "D-C19-stale-after-delete"
                    [] OTHER -> "none"
       IN IF bad THEN PrintT(ToJson([round |-> rd, l |-> l, verdict |-> IF tag \in Deviations THEN "finding" ELSE "violation",
                                     tag |-> tag, kind |-> kind, k |-> S2.op[t].k, st |-> S2.res[t].st,
                                     chunks |-> S2.res[t].chunks]))
          ELSE TRUE

TStep == /\ ~ended /\ l <= Len(Trace) /\ Trace[l].t = "step"
         /\ LET e == Trace[l]
                t == e.th
                cands == IF e.begin = 1 THEN BeginSet(S, t, [kind |-> e.kind, k |-> e.k, v |-> e.v]) ELSE StepSet(S, t)
            IN \E S2 \in cands : Match(S2, t, e) /\ S' = S2 /\ Flag(S2, t, e)
         /\ l' = l + 1 /\ UNCHANGED <<rd, ended>>

TEnd == /\ ~ended /\ (IF l > Len(Trace) THEN TRUE ELSE Trace[l].t = "reset")
        /\ ended' = TRUE
        /\ PrintT(ToJson([round |-> rd, verdict |-> "accepted"]))
        /\ UNCHANGED <<S, l, rd>>

TNext == TStep \/ TEnd
TSpec == TInit /\ [][TNext]_tvars

\* diagnostics for a single rejected round (workers 1): last line reached
HW == TLCSet(7, IF TLCGet(7) > l THEN TLCGet(7) ELSE l)
ReportHW == PrintT(ToJson([highwater |-> TLCGet(7), lines |-> Len(Trace)]))
=============================================================================
