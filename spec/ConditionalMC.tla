---------------------------- MODULE ConditionalMC ----------------------------
(* MC for C24: the backing storages are SEPARATE Pithos states (own version /      *)
(* upload id counters, own clocks); every call is routed as conditional.go routes   *)
(* it; S (PithosMC's state) is the single-storage REFERENCE executing the same      *)
(* calls.  TLC proves, for every configuration in Configs:                          *)
(*   Refines           bucket b of Owner(b) shows what the reference shows for b    *)
(*                     (modulo ids and clocks) - in particular a cross-storage copy *)
(*                     gives the result of a same-storage copy                      *)
(*                     (CrossCopyEqualsSameCopy), and results agree                 *)
(*   OnlyOwnerTouched  a call changes only the storages it may touch                *)
(*   ListBucketsUnion  the listing is the duplicate-free union of all storages      *)
(* Calls naming explicit version ids are excluded here (ids are storage-local);     *)
(* trace validation covers them on the combined state.                              *)
EXTENDS Conditional

CONSTANTS Storages, CfgNames

VARIABLES St,      \* storage name -> Pithos state
          cfg,     \* the configuration of this behaviour
          um,      \* reference upload id -> [s |-> storage, u |-> its local upload id]
          lres     \* result of the last call as the middleware returned it

cvars == <<S, res, hist, St, cfg, um, lres>>

NoVidC(c) == /\ ("vid" \in DOMAIN c => c.vid = -1) /\ ("svid" \in DOMAIN c => c.svid = -1)

Local(umm, s, u) == IF u \in 1..Len(umm) /\ umm[u].s = s THEN umm[u].u ELSE 0
Loc(umm, s, c) == IF "u" \in DOMAIN c THEN [c EXCEPT !.u = Local(umm, s, c.u)] ELSE c

\* the routed call on the separate storages: [st, um, r]
SApply(StF, umm, cf, c) ==
  LET do == Owner(cf, c.b)
      lc == Loc(umm, do, c) IN
  IF Cross(cf, c)
  THEN LET so == Owner(cf, c.sb)
           a == IF c.op = "CopyObject" THEN CrossCopyObject(StF[so], StF[do], lc, StF[do].dev)
                ELSE CrossUploadPartCopy(StF[so], StF[do], lc)
       IN [st |-> [StF EXCEPT ![do] = a.s], um |-> umm, r |-> a.r]
  ELSE LET a == Apply(StF[do], lc)
       IN [st |-> [StF EXCEPT ![do] = a.s],
           um |-> IF c.op = "CreateUpload" /\ a.r.err = "" THEN Append(umm, [s |-> do, u |-> a.r.uid]) ELSE umm,
           r |-> a.r]

PreState(cf, s) ==
  LET I == InitState(Buckets, Keys, Deviations) IN
  [I EXCEPT !.bver = [b \in Buckets |-> IF \E i \in 1..Len(cf.pre) : cf.pre[i].s = s /\ cf.pre[i].b = b
                                        THEN "Unset" ELSE "Absent"]]

CInit == /\ cfg \in {c \in AllConfigs : c.name \in CfgNames}
         /\ S = InitState(Buckets, Keys, Deviations) /\ res = NoRes /\ hist = <<>>
         /\ St = [s \in Storages |-> PreState(cfg, s)]
         /\ um = <<>> /\ lres = NoRes

CStep(c) == LET r == SApply(St, um, cfg, c) IN
            /\ St' = r.st /\ um' = r.um /\ lres' = r.r
            /\ S' = Apply(S, c).s /\ res' = Apply(S, c).r /\ hist' = <<c>>
            /\ cfg' = cfg

CNextMC == S.clock < MaxClock /\ \E c \in {x \in Calls(S) : NoVidC(x)} : CStep(c)
CSpec == CInit /\ [][CNextMC]_cvars

\* ---- projections modulo ids and clocks
VerProj(v) == [null |-> v.vid = 0, dm |-> v.dm, latest |-> v.latest, parts |-> v.parts, single |-> v.single,
               ctype |-> v.ctype, meta |-> v.meta, tags |-> v.tags, class |-> v.class, ck |-> v.ck]
BucketProj(T, b) ==
  [ver |-> T.bver[b],
   keys |-> [k \in Keys |-> [i \in 1..Len(T.objs[b][k]) |-> VerProj(T.objs[b][k][i])]],
   ups |-> LET mine == SelectSeq(T.ups, LAMBDA u : u.b = b) IN
           [i \in 1..Len(mine) |-> [k |-> mine[i].k, ctype |-> mine[i].ctype, meta |-> mine[i].meta,
                                    tags |-> mine[i].tags, class |-> mine[i].class, parts |-> mine[i].parts]]]
ResProj(r) == [err |-> r.err, null |-> r.vid = 0, dm |-> r.dm]

\* C24 (isolation + cross-copy): the routed system refines the single-storage reference
Refines == /\ \A b \in Buckets : BucketProj(St[Owner(cfg, b)], b) = BucketProj(S, b)
           /\ ResProj(lres) = ResProj(res)
\* C24 (isolation): storages that the call may not touch do not change
OnlyOwnerTouched ==
  [][\A s \in Storages : s \notin Touch(cfg, hist'[1]) => St'[s] = St[s]]_cvars
\* C24 (listing): duplicate-free union of all storages
ExistsInMC(s, b) == St[s].bver[b] # "Absent"
ListBucketsUnion ==
  LET q == CListBuckets(ExistsInMC, cfg, Deviations) IN
  /\ NoDup(q)
  /\ {q[i] : i \in 1..Len(q)} =
       {b \in Buckets : \E s \in {cfg.def} \cup {Entries(cfg)[i] : i \in 1..Len(Entries(cfg))} : ExistsInMC(s, b)}

CView == <<S, St, cfg, um, lres>>
=============================================================================
