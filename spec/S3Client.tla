------------------------------- MODULE S3Client -------------------------------
(***************************************************************************)
(* C38 - the S3 client backend behaves like the storage it forwards to.    *)
(*                                                                         *)
(* Models internal/storage/s3client/s3client.go: every storage.Storage     *)
(* call is translated into an aws-sdk-go-v2 S3 request to an endpoint      *)
(* whose storage is again the Pithos.tla reference model (state Sc), and   *)
(* the response is translated back.  SCApply(Sc, call) = [s |-> endpoint   *)
(* state afterwards, r |-> what the CLIENT returns].  With no deviation    *)
(* enabled the client is transparent: SCApply = Pithos!Apply.              *)
(*                                                                         *)
(* Named deviations (each one a place where s3client.go loses or changes   *)
(* something that the S3 protocol could carry):                            *)
(*  write path (the endpoint ends up in another state, or answers another  *)
(*  result, than the direct storage)                                       *)
(*   D-C38-put-drops-tags            PutObject never sends x-amz-tagging   *)
(*   D-C38-copy-drops-tagging        CopyObject never sends the tagging    *)
(*                                   directive / tag set (always COPY)     *)
(*   D-C38-complete-drops-conditions CompleteMultipartUpload never sends   *)
(*                                   If-Match / If-None-Match              *)
(*   D-C38-append-not-implemented    AppendObject returns ErrNotImplemented*)
(*   D-C38-transition-via-copy       TransitionObjectStorageClass is a     *)
(*                                   self CopyObject (new version / new    *)
(*                                   write, redirect lost) and is not      *)
(*                                   implemented for an explicit version   *)
(*   D-C38-expires-reserialised      the Expires header is parsed and      *)
(*                                   re-serialised (the raw value is not   *)
(*                                   preserved)                            *)
(*   D-C38-complete-md5-not-forwarded  CompleteMultipartUpload forwards    *)
(*                                   the x-amz-checksum-* values but not   *)
(*                                   the declared whole-object MD5: a      *)
(*                                   wrong digest is not refused           *)
(*   D-C38-put-no-version-id         PutObjectResult carries no VersionID  *)
(*   D-C38-errors-not-translated     most S3 error codes are returned as   *)
(*                                   SDK errors, not as storage.Err*       *)
(*  read path (the client reports something else than the endpoint holds)  *)
(*   D-C38-notfound-as-nosuchbucket  every 404 of Head/GetObject becomes   *)
(*                                   ErrNoSuchBucket                       *)
(*   D-C38-get-heads-current         GetObject(versionId) takes the        *)
(*                                   metadata from HeadObject WITHOUT the  *)
(*                                   version id (current version's         *)
(*                                   metadata, or 404 when there is no     *)
(*                                   current version)                      *)
(*   D-C38-listuploads-nil-deref     ListMultipartUploads dereferences     *)
(*                                   optional response fields: panic       *)
(***************************************************************************)
EXTENDS PithosMC

CTags == {"D-C38-put-drops-tags", "D-C38-copy-drops-tagging", "D-C38-complete-drops-conditions",
          "D-C38-append-not-implemented", "D-C38-transition-via-copy", "D-C38-expires-reserialised",
          "D-C38-put-no-version-id", "D-C38-errors-not-translated",
          "D-C38-notfound-as-nosuchbucket", "D-C38-get-heads-current", "D-C38-listuploads-nil-deref",
          "D-C38-complete-md5-not-forwarded"}

\* the S3 error code the pithos server sends for an error kind of the model
SrvCode(kind) ==
  CASE kind = "DeleteMarker" -> "NotFound"      \* 404 with x-amz-delete-marker and no error document
    [] kind \in {"PartSequenceConflict", "InvalidUploadSequence"} -> "InternalError"
    [] OTHER -> kind
\* <<operation, code>> pairs that s3client.go maps back to a storage.Err* value
Translated ==
  {<<"CreateBucket", "BucketAlreadyExists">>, <<"DeleteBucket", "NoSuchBucket">>, <<"DeleteBucket", "BucketNotEmpty">>,
   <<"PutObject", "PreconditionFailed">>, <<"PutTagging", "NoSuchKey">>}
  \cup ({"CopyObject", "UploadPartCopy", "Transition"} \X {"NoSuchBucket", "NoSuchKey", "PreconditionFailed", "not implemented"})

\* Kinds that reach the wire as InternalError cannot be told apart by ANY client: never translated.
Untranslatable(kind) == kind \in {"PartSequenceConflict", "InvalidUploadSequence"}
\* How the client reports an error of kind `kind` of call `op`:
\*   translated (tr = TRUE): a storage error value - the harness (pdrv.ErrKind) logs the model KIND;
\*   untranslated: the SDK's API error - the harness logs the S3 error CODE the server sent (SrvCode).
IsTranslated(op, kind, dev) ==
  kind = "" \/ (~Untranslatable(kind) /\ (<<op, SrvCode(kind)>> \in Translated \/ "D-C38-errors-not-translated" \notin dev))
CErrOf(op, kind, dev) ==
  [err |-> IF IsTranslated(op, kind, dev) THEN kind ELSE SrvCode(kind), tr |-> IsTranslated(op, kind, dev),
   vid |-> -1, dm |-> FALSE, uid |-> -1]
\* client result of a forwarded call whose endpoint result is r
CRes(c, r, dev) ==
  [CErrOf(c.op, r.err, dev) EXCEPT
     !.vid = IF c.op = "PutObject" /\ r.err = "" /\ "D-C38-put-no-version-id" \in dev THEN 0 ELSE r.vid,
     !.dm = r.dm, !.uid = r.uid]
CErr(kind) == [err |-> kind, tr |-> TRUE, vid |-> -1, dm |-> FALSE, uid |-> -1]

FwdC(c, dev) ==
  CASE c.op = "PutObject"      -> [c EXCEPT !.tags = IF "D-C38-put-drops-tags" \in dev THEN None ELSE @]
    [] c.op = "CopyObject"     -> [c EXCEPT !.tdir = IF "D-C38-copy-drops-tagging" \in dev THEN "COPY" ELSE @]
    [] c.op = "CompleteUpload" -> [c EXCEPT !.cond = IF "D-C38-complete-drops-conditions" \in dev THEN "none" ELSE @,
                                            \* the declared whole-object MD5 (ChecksumInput.ETag) is not sent
                                            !.cksum = IF "D-C38-complete-md5-not-forwarded" \in dev THEN "none" ELSE @]
    [] OTHER -> c

\* the raw Expires value (only metadata set 1 carries one) does not survive parse + re-serialise
ExpSys(m) == [m EXCEPT !.sys = IF @ = "s1" THEN "other" ELSE @]
ExpMap(St) ==
  [St EXCEPT !.objs = [b \in DOMAIN St.objs |-> [k \in DOMAIN St.objs[b] |->
                         [i \in 1..Len(St.objs[b][k]) |-> [St.objs[b][k][i] EXCEPT !.meta = ExpSys(@)]]]],
             !.ups = [i \in 1..Len(St.ups) |-> [St.ups[i] EXCEPT !.meta = ExpSys(@)]]]

\* TransitionObjectStorageClass as the client performs it
TransViaCopy(St, c) ==
  IF c.vid # -1 THEN Err(St, "not implemented")
  ELSE LET src == SrcLookup(St, c.b, c.k, -1) IN
       IF src.err # "" THEN Err(St, src.err)
       ELSE IF c.cond = "ifm-stale" THEN Err(St, "PreconditionFailed")
       ELSE CopyObject(St, c.b, c.k, -1, c.b, c.k, "COPY", "COPY", None, EmptyMeta, None, c.class)

\* GetObject = HeadObject (for the metadata), then GetObject (for the body).
\* HEAD answers carry no error document.  A 404 (bucket or key or version absent, current version a delete
\* marker) reaches the client as types.NotFound, which s3client.go maps to ErrNoSuchBucket whatever was missing
\* (D-C38-notfound-as-nosuchbucket); any other status - 405 for a version id that names a delete marker - is not
\* types.NotFound and is returned as the SDK's error (D-C38-errors-not-translated).
Http404(kind) == kind \in {"NoSuchKey", "NoSuchBucket", "DeleteMarker"}
\* HEAD 404: with D-C38-notfound-as-nosuchbucket always ErrNoSuchBucket; the repaired code tells a current delete
\* marker (header), a missing bucket (HeadBucket) and a missing key apart and returns the storage error value.
\* Any other HEAD status goes the general way (translated or not).
HeadErr(kind, dev) ==
  IF Http404(kind) THEN CErr(IF "D-C38-notfound-as-nosuchbucket" \in dev THEN "NoSuchBucket" ELSE kind)
  ELSE CErrOf("HeadObject", kind, dev)
\* with D-C38-get-heads-current the HEAD is issued WITHOUT the version id (current version's metadata);
\* the repaired code heads the requested version
GetViaClient(St, c, dev) ==
  LET cur == GetObject(St, c.b, c.k, -1).r
      req == GetObject(St, c.b, c.k, c.vid).r IN
  IF "D-C38-get-heads-current" \in dev
  THEN IF cur.err # "" THEN HeadErr(cur.err, dev)
       ELSE IF req.err # "" THEN CErrOf("GetObject", req.err, dev)
       ELSE [CErr("") EXCEPT !.vid = cur.vid]
  ELSE IF req.err # "" THEN HeadErr(req.err, dev)
       ELSE [CErr("") EXCEPT !.vid = req.vid]

\* A rule of the S3 protocol itself (enforced by the server's copy handler, as AWS does): a CopyObject onto
\* the same bucket and key that changes neither the metadata (directive COPY) nor the storage class is an
\* illegal request.  The storage API performs such a copy; over S3 it cannot be expressed.  Not a deviation
\* of the client - but from here on the two runs may legitimately differ.
IllegalSelfCopy(c) == c.op = "CopyObject" /\ c.sb = c.b /\ c.sk = c.k /\ c.mdir = "COPY" /\ c.class = None

SCApply(St, c) ==
  LET dev == St.dev
      exp(T) == IF "D-C38-expires-reserialised" \in dev THEN ExpMap(T) ELSE T IN
  IF IllegalSelfCopy(c) THEN [s |-> St, r |-> [CErr("InvalidRequest") EXCEPT !.tr = FALSE]]   \* no storage error value exists for it
  ELSE IF c.op = "GetObject" THEN [s |-> St, r |-> GetViaClient(St, c, dev)]
  ELSE IF c.op = "AppendObject" /\ "D-C38-append-not-implemented" \in dev
  THEN [s |-> St, r |-> CErr("not implemented")]
  ELSE IF c.op = "Transition" /\ "D-C38-transition-via-copy" \in dev
  THEN LET a == TransViaCopy(St, c) IN [s |-> exp(a.s), r |-> CRes(c, a.r, dev)]
  ELSE LET a == Apply(St, FwdC(c, dev)) IN [s |-> exp(a.s), r |-> CRes(c, a.r, dev)]

\* what a transparent client returns for the same call on the same state
Ideal(St, c) == LET a == Apply(St, c) IN [s |-> a.s, r |-> CRes(c, a.r, {})]
\* C38 deviations to which the difference between the client and a transparent client at this call is attributed.
\* Judged in the context of all enabled deviations (switching the tag off changes the outcome); only when no
\* single tag is decisive in context (two deviations each sufficient) the tags that matter in isolation are named.
\* A call whose outcome equals the transparent one takes no deviation.
CNeeded(St, c) ==
  LET full == SCApply(St, c) IN
  {t \in St.dev \cap CTags : LET o == SCApply([St EXCEPT !.dev = @ \ {t}], c) IN o.r # full.r \/ Strip(o.s) # Strip(full.s)}
CAlone(St, c) ==
  {t \in St.dev \cap CTags :
     LET base == St.dev \ CTags
         d == SCApply([St EXCEPT !.dev = base \cup {t}], c)
         i == SCApply([St EXCEPT !.dev = base], c)
     IN d.r # i.r \/ Strip(d.s) # Strip(i.s)}
CTakenAt(St, c) ==
  LET full == SCApply(St, c)
      none == SCApply([St EXCEPT !.dev = @ \ CTags], c) IN
  IF full.r = none.r /\ Strip(full.s) = Strip(none.s) THEN {}
  ELSE IF CNeeded(St, c) # {} THEN CNeeded(St, c) ELSE CAlone(St, c)
\* every deviation that could matter for this call (used to try repaired variants of the code)
CRelevant(St, c) == CNeeded(St, c) \cup CAlone(St, c)
=============================================================================
