---------------------------- MODULE AuditLogCore ----------------------------
(***************************************************************************)
(* C26 / C27 - pure part of the audit-log model (no variables).            *)
(*                                                                         *)
(* Models                                                                  *)
(*   internal/auditlog/entry.go      Entry, CalculateHash, Sign, Verify    *)
(*   internal/auditlog/merkle.go     CalculateMerkleRoot                   *)
(*   internal/auditlog/validation.go Validator.ValidateEntry               *)
(*   internal/storage/middlewares/audit/audit.go                           *)
(*        NewAuditLogMiddleware (genesis), log (entry + grounding),        *)
(*        emitGrounding; the table of wrapped storage.Storage methods      *)
(*   internal/auditlog/sink/writer.go NewFileSink (recovery on restart)    *)
(*                                                                         *)
(* An entry is a record                                                    *)
(*   [version, ts, type, d, prev, hash, sig]                               *)
(* d = record of the detail fields (LogFields for LOG, GroundingFields for *)
(* GROUNDING, the empty record for GENESIS).  String fields are TLA+       *)
(* strings, numeric fields integers.  Hashes, signatures and Merkle roots  *)
(* are symbolic and injective by construction:                             *)
(*   H(e)      = <<"H", version, ts, type, [hashed fields of d], prev>>    *)
(*   Sign(h)   = <<"SIG", h>>      (only the key holder can build it)      *)
(*   Merkle(b) = <<"MR", Len(b), last hash of b>>                          *)
(* (the buffers of writer and validator are always chains - an entry is    *)
(* appended only after its prev link was checked - and the last hash of a  *)
(* chain nests all earlier ones, so this is injective on what can occur    *)
(* and keeps the size of the values linear)                                *)
(* so "detected" in the model means exactly: the tampered value is covered *)
(* by a hash / signature / chain link that the validator re-checks.        *)
(***************************************************************************)
EXTENDS Integers, Sequences, FiniteSets, TLC

CONSTANTS Deviations,   \* set of deviation tags the code is known to have
          BlockSize     \* auditlog.GroundingBlockSize (1000 in the code)

\* ------------------------------------------------------------ field tables
StringLogFields == {"operation", "phase", "bucket", "key", "uploadId", "sourceBucket", "sourceKey",
                    "credentialId", "authType", "requestId", "traceId", "clientIp",
                    "outcome", "errorCode", "error"}
IntLogFields    == {"partNumber", "statusCode", "durationMs"}
LogFields       == StringLogFields \cup IntLogFields
GroundingFields == {"merkleRoot", "sigEd25519", "sigMlDsa87"}
EnvelopeFields  == {"version", "timestamp", "type", "previousHash", "hash", "signature"}
V1HashedFields  == {"operation", "phase", "bucket", "key", "uploadId", "partNumber", "credentialId", "error"}
CopySourceFields == {"sourceBucket", "sourceKey"}

\* fields of d covered by Entry.CalculateHash.  The property (C27) demands every
\* recorded field; the code leaves the copy source out of the hash.
HashedLogFields(version) ==
  IF version <= 1 THEN V1HashedFields
  ELSE IF "D-C27-copy-source-unhashed" \in Deviations THEN LogFields \ CopySourceFields
  ELSE LogFields

HashedFields(e) ==
  IF "operation" \in DOMAIN e.d THEN HashedLogFields(e.version) \cap DOMAIN e.d ELSE DOMAIN e.d

NoDetails == [x \in {} |-> x]

\* ------------------------------------------------------------ symbolic crypto
H(e)          == <<"H", e.version, e.ts, e.type, [f \in HashedFields(e) |-> e.d[f]], e.prev>>
GenesisPrev   == <<"H", 0, 0, "pithos", NoDetails, <<>>>>   \* sha512("pithos")
ZeroHash      == <<"H", 0, 0, "zero", NoDetails, <<>>>>     \* 64 zero bytes: "no log yet"
Sign(h)       == <<"SIG", h>>
VerifySig(h, s) == s = Sign(h)
Merkle(buf)   == IF buf = <<>> THEN <<"MR", 0, ZeroHash>> ELSE <<"MR", Len(buf), buf[Len(buf)]>>
\* The Ed25519 signature over a Merkle root names the root by (length, content of its last hash)
\* instead of nesting it: a root with the same last content but another history needs re-hashed
\* entries, and whoever can re-sign those (Ed25519 key) can re-sign the root as well.  The ML-DSA
\* signature nests the root: it is what still binds the history when the Ed25519 key is lost.
RootName(r)   == <<r[2], r[3][2], r[3][3], r[3][4], r[3][5]>>
SignRoot(r)   == <<"SIGED", RootName(r)>>
SignRootMl(r) == <<"SIGML", r>>
\* a different, equally shaped hash value (what an attacker can write instead)
AlterHash(h)  == <<"H", h[2], h[3] + 100000, h[4], h[5], h[6]>>

Seal(e0) == [version |-> e0.version, ts |-> e0.ts, type |-> e0.type, d |-> e0.d, prev |-> e0.prev,
             hash |-> H(e0), sig |-> Sign(H(e0))]

\* --------------------------------------------------------------- the writer
\* writer state w = [last |-> lastHash, buf |-> hashes of LOG entries since the last grounding]
W0 == [last |-> ZeroHash, buf |-> <<>>]

MkGenesis(ts)     == Seal([version |-> 3, ts |-> ts, type |-> "GENESIS", d |-> NoDetails, prev |-> GenesisPrev])
MkLog(w, ts, d)   == Seal([version |-> 3, ts |-> ts, type |-> "LOG", d |-> d, prev |-> w.last])
MkGrounding(w, ts) ==
  Seal([version |-> 3, ts |-> ts, type |-> "GROUNDING",
        d |-> [merkleRoot |-> Merkle(w.buf), sigEd25519 |-> SignRoot(Merkle(w.buf)),
               sigMlDsa87 |-> SignRootMl(Merkle(w.buf))],
        prev |-> w.last])

AfterGenesis(w, e)   == [last |-> e.hash, buf |-> w.buf]
AfterLog(w, e)       == [last |-> e.hash, buf |-> Append(w.buf, e.hash)]
AfterGrounding(w, e) == [last |-> e.hash, buf |-> <<>>]
\* audit.go log(): `if len(m.hashBuffer) >= GroundingBlockSize { m.emitGrounding() }`
GroundingDue(w)      == Len(w.buf) >= BlockSize

\* ------------------------------------------------------------ the validator
VInit == [prev |-> ZeroHash, buf |-> <<>>, idx |-> 0]

Bad(v, reason) == [ok |-> FALSE, reason |-> reason, v |-> v]
Good(v)        == [ok |-> TRUE, reason |-> "", v |-> v]

\* Validator.ValidateEntry; checkSig = verifiers were supplied (NewFileSink passes none)
ValidateEntry(v, e, checkSig) ==
  IF H(e) # e.hash THEN Bad(v, "hash")
  ELSE IF v.idx = 0 /\ e.type # "GENESIS" THEN Bad(v, "nogenesis")
  ELSE IF v.idx = 0 /\ e.prev # GenesisPrev THEN Bad(v, "genesisprev")
  ELSE IF v.idx > 0 /\ e.prev # v.prev THEN Bad(v, "chain")
  ELSE IF checkSig /\ ~VerifySig(e.hash, e.sig) THEN Bad(v, "sig")
  ELSE IF e.type = "LOG"
       THEN IF Len(v.buf) + 1 > BlockSize THEN Bad(v, "toomany")
            ELSE Good([prev |-> e.hash, buf |-> Append(v.buf, e.hash), idx |-> v.idx + 1])
  ELSE IF e.type = "GROUNDING"
       THEN IF Len(v.buf) # BlockSize THEN Bad(v, "interval")
            ELSE IF "merkleRoot" \notin DOMAIN e.d THEN Bad(v, "details")
            ELSE IF Merkle(v.buf) # e.d.merkleRoot THEN Bad(v, "merkle")
            ELSE IF checkSig /\ e.d.sigEd25519 # SignRoot(e.d.merkleRoot) THEN Bad(v, "rootsig")
            ELSE IF checkSig /\ e.d.sigMlDsa87 # SignRootMl(e.d.merkleRoot) THEN Bad(v, "rootsigml")
            ELSE Good([prev |-> e.hash, buf |-> <<>>, idx |-> v.idx + 1])
  ELSE Good([prev |-> e.hash, buf |-> v.buf, idx |-> v.idx + 1])

RECURSIVE ValidateFrom(_, _, _, _)
ValidateFrom(v, log, i, checkSig) ==
  IF i > Len(log) THEN [ok |-> TRUE, idx |-> -1, reason |-> "", v |-> v]
  ELSE LET r == ValidateEntry(v, log[i], checkSig) IN
       IF r.ok THEN ValidateFrom(r.v, log, i + 1, checkSig)
       ELSE [ok |-> FALSE, idx |-> i - 1, reason |-> r.reason, v |-> v]

\* tool.Verify: decode every entry, validate with both verifiers
Validate(log) == ValidateFrom(VInit, log, 1, TRUE)

\* sink.NewFileSink on an existing file: validate without verifiers, keep last hash + buffer
Recover(log) ==
  LET r == ValidateFrom(VInit, log, 1, FALSE) IN
  [ok |-> r.ok, w |-> IF log = <<>> THEN W0 ELSE [last |-> log[Len(log)].hash, buf |-> r.v.buf]]

\* ------------------------------------------------- the audited storage API
\* every method of storage.Storage except lifecycle.Manager (Start/Stop)
StorageMethods ==
  {"CreateBucket", "DeleteBucket", "ListBuckets", "HeadBucket",
   "GetBucketVersioningConfiguration", "PutBucketVersioningConfiguration",
   "GetBucketWebsiteConfiguration", "PutBucketWebsiteConfiguration", "DeleteBucketWebsiteConfiguration",
   "GetBucketCORSConfiguration", "PutBucketCORSConfiguration", "DeleteBucketCORSConfiguration",
   "GetBucketLifecycleConfiguration", "PutBucketLifecycleConfiguration", "DeleteBucketLifecycleConfiguration",
   "GetBucketNotificationConfiguration", "PutBucketNotificationConfiguration",
   "ListObjects", "ListObjectVersions", "HeadObject", "GetObject", "PutObject", "CopyObject",
   "AppendObject", "DeleteObject", "DeleteObjects", "TransitionObjectStorageClass",
   "CreateMultipartUpload", "UploadPart", "UploadPartCopy", "CompleteMultipartUpload",
   "AbortMultipartUpload", "ListMultipartUploads", "ListParts",
   "GetObjectTagging", "PutObjectTagging", "DeleteObjectTagging"}
LifecycleMethods == {"Start", "Stop"}

\* methods AuditLogMiddleware does not override (they fall through DelegatingStorage)
UnauditedMethods ==
  {"GetBucketNotificationConfiguration", "PutBucketNotificationConfiguration",
   "GetObjectTagging", "PutObjectTagging", "DeleteObjectTagging", "TransitionObjectStorageClass"}

Audited(m) == IF "D-C26-unaudited-ops" \in Deviations THEN m \notin UnauditedMethods ELSE TRUE

\* auditlog.Operation recorded for a method
OpOf(m) ==
  CASE m = "GetBucketVersioningConfiguration" -> "GetBucketVersioning"
    [] m = "PutBucketVersioningConfiguration" -> "PutBucketVersioning"
    [] m = "GetBucketWebsiteConfiguration" -> "GetBucketWebsite"
    [] m = "PutBucketWebsiteConfiguration" -> "PutBucketWebsite"
    [] m = "DeleteBucketWebsiteConfiguration" -> "DeleteBucketWebsite"
    [] m = "GetBucketCORSConfiguration" -> "GetBucketCORS"
    [] m = "PutBucketCORSConfiguration" -> "PutBucketCORS"
    [] m = "DeleteBucketCORSConfiguration" -> "DeleteBucketCORS"
    [] m = "GetBucketLifecycleConfiguration" -> "GetBucketLifecycle"
    [] m = "PutBucketLifecycleConfiguration" -> "PutBucketLifecycle"
    [] m = "DeleteBucketLifecycleConfiguration" -> "DeleteBucketLifecycle"
    [] m = "GetBucketNotificationConfiguration" -> "GetBucketNotification"   \* (no constant in the code yet)
    [] m = "PutBucketNotificationConfiguration" -> "PutBucketNotification"
    [] OTHER -> m

\* the LOG details the middleware records for call c in a phase.
\* c = [id, m, bucket, key, uploadId, partNumber, sourceBucket, sourceKey,
\*      credentialId, authType, traceId, clientIp, err, uid]   (err = "" : success)
ExpectedDetails(c, phase, dur) ==
  [operation |-> OpOf(c.m), phase |-> phase,
   bucket |-> c.bucket, key |-> c.key,
   uploadId |-> IF phase = "COMPLETE" /\ c.m = "CreateMultipartUpload" THEN c.uid ELSE c.uploadId,
   partNumber |-> c.partNumber, sourceBucket |-> c.sourceBucket, sourceKey |-> c.sourceKey,
   credentialId |-> c.credentialId,
   authType |-> IF c.authType = "" THEN "anonymous" ELSE c.authType,   \* no auth type in the context
   requestId |-> c.id, traceId |-> c.traceId, clientIp |-> c.clientIp,
   statusCode |-> IF phase = "START" THEN 0 ELSE IF c.err = "" THEN 200 ELSE 500,
   outcome |-> IF phase = "START" THEN "pending" ELSE IF c.err = "" THEN "success" ELSE "error",
   errorCode |-> "",
   error |-> IF phase = "START" THEN "" ELSE c.err,
   durationMs |-> dur]
=============================================================================
