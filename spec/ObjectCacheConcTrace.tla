------------------------- MODULE ObjectCacheConcTrace -------------------------
(* TV for the concurrent part of C20.  The trace is a history of invoke/return    *)
(* events of puts and gets on ONE key through the real middleware, in the order   *)
(* the harness's trace writer serialised them (an invoke is logged before the     *)
(* call starts, a return after it finished, so log order respects real time):     *)
(*   put.inv [v, size]           put.ret [v, err, etag]                           *)
(*   get.inv                     get.ret [err, etag, size, body, bodylen]         *)
(*   reset / end / infeasible    bracket one forced schedule or one stress run    *)
(* BodyMatchesSomeCommitted at the level of histories: every get that returns a   *)
(* body returns EXACTLY the body of a put that was invoked before the get         *)
(* returned and that did not fail, together with that put's ETag and size.  The   *)
(* ETag of a value is learned from the storage's own answer to its put; sizes are *)
(* the lengths of the bodies the harness generated.  No clocks are compared.      *)
(* A violation is printed with its signature: the returned head (ETag) belongs to *)
(* an EARLIER-invoked put than the body, or the body belongs to a put that failed *)
(* -> D-C20-put-fill-race; the head belongs to a LATER put than the body          *)
(* -> D-C20-fill-after-invalidate; anything else (unknown, partial or never       *)
(* written body) carries no tag and is a violation outright.                      *)
EXTENDS Integers, Sequences, FiniteSets, TLC, Json, IOUtils

Trace == ndJsonDeserialize(IOEnv.TRACE_FILE)

VARIABLES l,
          sched,     \* id of the current schedule / run
          invoked,   \* sequence of values whose put has been invoked (invocation order)
          size,      \* value -> body size
          etag,      \* value -> ETag returned by its successful put
          failed,    \* values whose put returned an error
          gots       \* set of [body, etag, size, bodylen, at] handed to clients

cvars == <<l, sched, invoked, size, etag, failed, gots>>

InvokedSet == {invoked[i] : i \in 1..Len(invoked)}
Ord(v) == CHOOSE i \in 1..Len(invoked) : invoked[i] = v
EtagOwner(e) == {v \in DOMAIN etag : etag[v] = e}

Say(what, tags, x) == PrintT(ToJson([l |-> l, sched |-> sched, what |-> what, tags |-> tags, detail |-> x]))

\* the value whose head (size, ETag) an answer carries: sizes are pairwise different and known from
\* put.inv on, ETags are known once the put has returned
SizeOwner(n) == {v \in DOMAIN size : size[v] = n}
HeadOf(g) == IF SizeOwner(g.size) # {} THEN CHOOSE v \in SizeOwner(g.size) : TRUE ELSE "?"
TagFor(h, b) == IF Ord(h) < Ord(b) THEN "D-C20-put-fill-race" ELSE "D-C20-fill-after-invalidate"

Init == l = 1 /\ sched = -1 /\ invoked = <<>> /\ size = <<>> /\ etag = <<>> /\ failed = {} /\ gots = {}

Reset == /\ Trace[l].ev = "reset"
         /\ sched' = Trace[l].sched /\ invoked' = <<>> /\ size' = <<>> /\ etag' = <<>> /\ failed' = {} /\ gots' = {}
         /\ l' = l + 1
Other == /\ Trace[l].ev \in {"end", "infeasible", "get.inv", "step"}
         /\ l' = l + 1 /\ UNCHANGED <<sched, invoked, size, etag, failed, gots>>

PutInv == LET e == Trace[l] IN
          /\ e.ev = "put.inv"
          /\ invoked' = Append(invoked, e.v)
          /\ size' = [v \in DOMAIN size \cup {e.v} |-> IF v = e.v THEN e.size ELSE size[v]]
          /\ l' = l + 1 /\ UNCHANGED <<sched, etag, failed, gots>>

PutRet == LET e == Trace[l]
              mine == {g \in gots : g.body = e.v} IN
          /\ e.ev = "put.ret"
          /\ IF e.err # ""
             THEN /\ failed' = failed \cup {e.v} /\ etag' = etag
                  /\ IF mine # {}     \* a get already returned the body of this put, which did not take effect
                     THEN Say("property", {"D-C20-put-fill-race"}, [kind |-> "body of a failed put was returned", v |-> e.v])
                     ELSE TRUE
             ELSE /\ failed' = failed
                  /\ etag' = [v \in DOMAIN etag \cup {e.v} |-> IF v = e.v THEN e.etag ELSE etag[v]]
                  /\ LET bad == {g \in mine : g.size = size[e.v] /\ g.etag # e.etag} IN   \* right size, other ETag
                     IF bad # {}
                     THEN Say("violation", {}, [kind |-> "a get returned this body and size under another etag",
                                                got |-> CHOOSE x \in bad : TRUE])
                     ELSE TRUE
          /\ l' = l + 1 /\ UNCHANGED <<sched, invoked, size, gots>>

GetRet == LET e == Trace[l]
              g == [body |-> e.body, etag |-> e.etag, size |-> e.size, bodylen |-> e.bodylen, at |-> l]
              h == HeadOf(g) IN
          /\ e.ev = "get.ret"
          /\ IF e.err # "" THEN gots' = gots
             ELSE /\ gots' = gots \cup {g}
                  /\ IF e.body \notin InvokedSet
                     THEN Say("violation", {}, [kind |-> "body is not the body of any put invoked so far", got |-> g])
                     ELSE IF e.bodylen # size[e.body]
                     THEN Say("violation", {}, [kind |-> "body length is not the length of that put's body", got |-> g])
                     ELSE IF h = "?"
                     THEN Say("violation", {}, [kind |-> "reported size is the size of no put invoked so far", got |-> g])
                     ELSE IF h # e.body            \* head of one value, body of another
                     THEN Say("property", {TagFor(h, e.body)}, [kind |-> "mixed", head_of |-> h, got |-> g])
                     ELSE IF e.body \in DOMAIN etag /\ e.etag # etag[e.body]
                     THEN Say("violation", {}, [kind |-> "right size, but not the etag its put returned", got |-> g])
                     ELSE IF e.body \in failed
                     THEN Say("property", {"D-C20-put-fill-race"}, [kind |-> "body of a failed put was returned", got |-> g])
                     ELSE TRUE
          /\ l' = l + 1 /\ UNCHANGED <<sched, invoked, size, etag, failed>>

Next == l <= Len(Trace) /\ (Reset \/ Other \/ PutInv \/ PutRet \/ GetRet)
=============================================================================
