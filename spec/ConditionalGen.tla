---------------------------- MODULE ConditionalGen ----------------------------
(* GEN for C24: TLC picks a routing configuration (AllConfigs of Conditional.tla)  *)
(* and a random walk of API calls weighted towards copies and multipart copies in  *)
(* all source/destination bucket combinations; printed as [config, calls].         *)
EXTENDS PithosGen, Conditional

CONSTANT CfgNames
VARIABLE gcfg

COpW == <<"CreateBucket", "DeleteBucket", "PutVersioning", "PutObject", "PutObject", "PutObject", "PutObject",
          "GetObject", "DeleteObject", "DeleteObject", "CopyObject", "CopyObject", "CopyObject", "CopyObject", "CopyObject",
          "AppendObject", "CreateUpload", "CreateUpload", "UploadPart", "UploadPart", "UploadPartCopy", "UploadPartCopy",
          "UploadPartCopy", "CompleteUpload", "CompleteUpload", "CompleteUpload", "AbortUpload", "PutTagging", "Transition">>
COpWSel == SelectSeq(COpW, LAMBDA o : o \in Ops)

\* Every program starts with both buckets, an object in b1 and a pending upload in b2, so that copies and
\* multipart copies between differently routed buckets are frequent and can succeed.
Prefix == << First, [op |-> "CreateBucket", b |-> "b2"],
             [op |-> "PutObject", b |-> "b1", k |-> "k1", blob |-> "c1", ctype |-> "t1", meta |-> "1", tags |-> "g1",
              class |-> "none", cond |-> "none", cksum |-> "none"],
             [op |-> "CreateUpload", b |-> "b2", k |-> "k2", ctype |-> "none", meta |-> "none", tags |-> "none",
              class |-> "none", cktype |-> "none"] >>
RECURSIVE ApplyAll(_, _)
ApplyAll(St, cs) == IF cs = <<>> THEN St ELSE ApplyAll(Apply(St, Head(cs)).s, Tail(cs))
CGenInit == /\ sits = <<>>
            /\ S = ApplyAll(InitState(Buckets, Keys, Deviations), Prefix)
            /\ res = NoRes /\ hist = Prefix
            /\ gcfg \in {c \in AllConfigs : c.name \in CfgNames}
\* copies mostly between DIFFERENT buckets (the destination of a CopyObject, the source of an UploadPartCopy is moved)
OtherB(b) == IF b = "b1" THEN "b2" ELSE "b1"
CrossFix(c, St) ==
  IF c.op = "CopyObject" /\ c.sb = c.b /\ R(1..3) # 1 THEN [c EXCEPT !.b = OtherB(c.sb)]
  ELSE IF c.op = "UploadPartCopy" /\ c.sb = c.b /\ R(1..3) # 1
       THEN [c EXCEPT !.sb = OtherB(c.b), !.sk = PK(St, OtherB(c.b))]
  ELSE c
\* every second copy carries copy-source conditions
SCW == <<"absent", "absent", "absent", "pass", "fail">>
WithSC(c) == IF IsCopy(c) /\ R(1..2) = 1
             THEN c @@ [sc |-> [im |-> RW(SCW), inm |-> RW(SCW), ums |-> RW(SCW), ms |-> RW(SCW)]] ELSE c
\* a generated step of the model of the MIDDLEWARE's intended behaviour (conditions included)
CGStep(c) == /\ S' = CApply(S, gcfg, c).s /\ res' = CApply(S, gcfg, c).r /\ hist' = Append(hist, c)
             /\ sits' = Append(sits, Sit(S, c, CApply(S, gcfg, c).r))
CGenNext == CGStep(WithSC(CrossFix(RandCall(RW(COpWSel), S), S))) /\ gcfg' = gcfg

\* ---------------------------------------------------------------- copy-source condition cover
\* ONE program that executes, after a fixed prefix (an object in each bucket, a pending upload in b2), every
\* situation  {CopyObject, UploadPartCopy} x {source in the other / the same bucket as the destination}
\*            x the condition combinations in which the S3 precedence rules matter:
\*              (if-match, if-unmodified-since) in {absent, pass, fail}^2, the other two absent,
\*              (if-none-match, if-modified-since) in {absent, pass, fail}^2, the other two absent,
\*              and all four present with each pass / fail pattern of the first pair against the second.
\* Under a configuration that routes b1 and b2 to different storages the first half are cross-storage copies.
\* A refused copy changes nothing and a successful one only rewrites the destination, so all situations fit in
\* one walk; the pipeline always executes it.
K3 == {"absent", "pass", "fail"}
SCCombos ==
  {[im |-> a, inm |-> "absent", ums |-> b, ms |-> "absent"] : a \in K3, b \in K3}
  \cup {[im |-> "absent", inm |-> a, ums |-> "absent", ms |-> b] : a \in K3, b \in K3}
  \cup {[im |-> a, inm |-> b, ums |-> c, ms |-> d] : a \in {"pass", "fail"}, b \in {"pass"}, c \in {"pass", "fail"}, d \in {"pass", "fail"}}
CoverPrefix ==
  << First, [op |-> "CreateBucket", b |-> "b2"],
     [op |-> "PutObject", b |-> "b1", k |-> "k1", blob |-> "c1", ctype |-> "t1", meta |-> "none", tags |-> "g1",
      class |-> "none", cond |-> "none", cksum |-> "none"],
     [op |-> "PutObject", b |-> "b2", k |-> "k1", blob |-> "c2", ctype |-> "t2", meta |-> "none", tags |-> "none",
      class |-> "none", cond |-> "none", cksum |-> "none"],
     [op |-> "CreateUpload", b |-> "b2", k |-> "k2", ctype |-> "none", meta |-> "none", tags |-> "none",
      class |-> "none", cktype |-> "none"] >>
CoverCopies(sb) ==
  LET q == SetToSeq(SCCombos) IN
  [i \in 1..Len(q) |-> [op |-> "CopyObject", sb |-> sb, sk |-> "k1", svid |-> -1, b |-> "b2", k |-> "k2", mdir |-> "COPY",
                        tdir |-> "COPY", ctype |-> "none", meta |-> "none", tags |-> "none", class |-> "none", sc |-> q[i]]]
  \o [i \in 1..Len(q) |-> [op |-> "UploadPartCopy", sb |-> sb, sk |-> "k1", svid |-> -1, b |-> "b2", k |-> "k2", u |-> 1,
                           n |-> 1, sc |-> q[i]]]
SCCoverProgram == CoverPrefix \o CoverCopies("b1") \o CoverCopies("b2")
SCCoverEmit == PrintT(ToJson([cover |-> SCCoverProgram, combos |-> Cardinality(SCCombos)]))

CEmit == IF Len(hist) = GenDepth THEN PrintT(ToJson([config |-> gcfg, calls |-> hist, sits |-> sits])) ELSE TRUE
=============================================================================
