---------------------------- MODULE ConditionalGen ----------------------------
(* GEN for C24: TLC picks a routing configuration (AllConfigs of Conditional.tla)  *)
(* and a random walk of API calls weighted towards copies and multipart copies in  *)
(* all source/destination bucket combinations; printed as [config, calls].         *)
EXTENDS PithosGen, Conditional

CONSTANT CfgNames
VARIABLE gcfg

COpW == <<"CreateBucket", "DeleteBucket", "PutVersioning", "PutObject", "PutObject", "PutObject", "PutObject",
          "GetObject", "DeleteObject", "DeleteObject", "CopyObject", "CopyObject", "CopyObject", "CopyObject", "CopyObject",
          "AppendObject", "CreateUpload", "CreateUpload", "UploadPart", "UploadPart", "UploadPartCopy", "UploadPartCopy",
          "UploadPartCopy", "CompleteUpload", "CompleteUpload", "CompleteUpload", "AbortUpload", "PutTagging", "Transition">>
COpWSel == SelectSeq(COpW, LAMBDA o : o \in Ops)

\* Every program starts with both buckets, an object in b1 and a pending upload in b2, so that copies and
\* multipart copies between differently routed buckets are frequent and can succeed.
Prefix == << First, [op |-> "CreateBucket", b |-> "b2"],
             [op |-> "PutObject", b |-> "b1", k |-> "k1", blob |-> "c1", ctype |-> "t1", meta |-> "1", tags |-> "g1",
              class |-> "none", cond |-> "none", cksum |-> "none"],
             [op |-> "CreateUpload", b |-> "b2", k |-> "k2", ctype |-> "none", meta |-> "none", tags |-> "none",
              class |-> "none", cktype |-> "none"] >>
RECURSIVE ApplyAll(_, _)
ApplyAll(St, cs) == IF cs = <<>> THEN St ELSE ApplyAll(Apply(St, Head(cs)).s, Tail(cs))
CGenInit == /\ sits = <<>>
            /\ S = ApplyAll(InitState(Buckets, Keys, Deviations), Prefix)
            /\ res = NoRes /\ hist = Prefix
            /\ gcfg \in {c \in AllConfigs : c.name \in CfgNames}
\* copies mostly between DIFFERENT buckets (the destination of a CopyObject, the source of an UploadPartCopy is moved)
OtherB(b) == IF b = "b1" THEN "b2" ELSE "b1"
CrossFix(c, St) ==
  IF c.op = "CopyObject" /\ c.sb = c.b /\ R(1..3) # 1 THEN [c EXCEPT !.b = OtherB(c.sb)]
  ELSE IF c.op = "UploadPartCopy" /\ c.sb = c.b /\ R(1..3) # 1
       THEN [c EXCEPT !.sb = OtherB(c.b), !.sk = PK(St, OtherB(c.b))]
  ELSE c
CGenNext == GStep(CrossFix(RandCall(RW(COpWSel), S), S)) /\ gcfg' = gcfg
CEmit == IF Len(hist) = GenDepth THEN PrintT(ToJson([config |-> gcfg, calls |-> hist, sits |-> sits])) ELSE TRUE
=============================================================================
