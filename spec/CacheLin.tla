------------------------------ MODULE CacheLin ------------------------------
(***************************************************************************)
(* C19 as a linearisable object - the reading of the property used where   *)
(* the schedule is NOT controlled (random concurrent stress).              *)
(*                                                                         *)
(* Generic cache (GenericCache.Set/Get/Remove): a LOSSY map.  Set(k,v)     *)
(* binds k to v, Remove(k) unbinds, Get(k) returns a miss (always allowed: *)
(* a cache may drop anything at any time) or exactly the value k is bound  *)
(* to - i.e. the complete argument of a Set call for that key, never a     *)
(* partial, mixed, foreign or superseded value.                            *)
(*                                                                         *)
(* Cache part store (PutPart/GetPart/DeletePart incl. their after-commit   *)
(* hooks): a register per part id: GetPart returns not-found iff the id is *)
(* absent and exactly the bytes stored under the id iff it is present.     *)
(*                                                                         *)
(* A value is a sequence of chunks [k, v, i] (key, value token, index);    *)
(* Whole(k, tok, n) is the complete value.  Deviations (open findings):    *)
(*  D-C19-partial-read       filesystem persistor: a hit may return any    *)
(*                           arrangement of chunks written for that key    *)
(*  D-C19-stale-after-delete a PutPart/GetPart call in flight across a     *)
(*                           DeletePart may leave the deleted bytes cached *)
(*  D-C19-inmem-map-race     data race / concurrent-map crash / corrupted  *)
(*                           map (foreign or empty value) inside the       *)
(*                           in-memory persistor (Store and Remove of an   *)
(*                           evicted key run outside GenericCache.mu)      *)
(*  D-C19-lfu-oversize-panic lfu pops its empty heap                       *)
(* Lin returns [ok, st (new state), used (deviation tags relied upon)].    *)
(***************************************************************************)
EXTENDS Integers, Sequences, FiniteSets, TLC

CONSTANTS Keys, Deviations

Dev(tag) == tag \in Deviations
None == [tok |-> "", n |-> 0]
Hole == [k |-> "0", v |-> "0", i |-> 0]
Whole(k, tok, n) == [i \in 1..n |-> [k |-> k, v |-> tok, i |-> i]]

\* abstract state; P0 = part ids stored initially (with P0n chunks each)
AInit(P0, P0n) ==
         [m |-> [k \in Keys |-> None],            \* generic cache: key -> bound value
          present |-> [k \in Keys |-> IF k \in P0 THEN [tok |-> "p", n |-> P0n] ELSE None],  \* part store: id -> stored value (None = absent)
          stale |-> [k \in Keys |-> None],        \* deviation: deleted bytes possibly left in the cache
          toks |-> [k \in Keys |-> {}]]           \* value tokens of Set calls invoked so far

\* what a reader of a file that is being truncated / rewritten in place can see: chunks written for that key by
\* calls invoked so far, zero-filled holes, and torn chunks (k = "?": checksum mismatch or short tail) - never an
\* intact chunk of another key
Fragments(A, k, chunks) ==
  \A i \in 1..Len(chunks) : chunks[i] = Hole \/ chunks[i].k = "?" \/ (chunks[i].k = k /\ chunks[i].v \in A.toks[k])

\* The in-memory persistor's Go map is written without synchronisation (D-C19-inmem-map-race).  Besides race
\* reports and runtime aborts, undetected concurrent writes corrupt the map: observed on the real code are a
\* Get(k1) that keeps returning the value stored under k2, and a hit with an empty value.  While that
\* deviation is open, a hit of the in-memory persistor that nothing else explains is attributed to it.
RacyMap(pers) == Dev("D-C19-inmem-map-race") /\ pers = "mem"

Reject(A) == [ok |-> FALSE, st |-> A, used |-> {}]
Accept(A, u) == [ok |-> TRUE, st |-> A, used |-> u]

\* op = [kind, k, v, n]; res = [st, chunks]; pers = persistor of the round;
\* others = TRUE iff another PutPart/GetPart call on op.k is in flight (only used by pdel)
Lin(A, pers, op, res, others) ==
  LET k == op.k IN
  CASE op.kind = "cset" ->
         IF res.st = "ok" THEN Accept([A EXCEPT !.m[k] = [tok |-> op.v, n |-> op.n]], {}) ELSE Reject(A)
    [] op.kind = "crem" ->
         IF res.st = "ok" THEN Accept([A EXCEPT !.m[k] = None], {}) ELSE Reject(A)
    [] op.kind = "cget" ->
         IF res.st = "miss" THEN Accept(A, {})
         ELSE IF res.st # "hit" THEN Reject(A)
         ELSE IF A.m[k] # None /\ res.chunks = Whole(k, A.m[k].tok, A.m[k].n) THEN Accept(A, {})
         ELSE IF Dev("D-C19-partial-read") /\ pers = "fs" /\ Fragments(A, k, res.chunks)
              THEN Accept(A, {"D-C19-partial-read"})
         ELSE IF RacyMap(pers) THEN Accept(A, {"D-C19-inmem-map-race"})
         ELSE Reject(A)
    [] op.kind = "pput" ->
         IF res.st = "ok" THEN Accept([A EXCEPT !.present[k] = [tok |-> op.v, n |-> op.n]], {}) ELSE Reject(A)
    [] op.kind = "pdel" ->
         IF res.st = "ok"
         THEN Accept([A EXCEPT !.present[k] = None,
                               !.stale[k] = IF Dev("D-C19-stale-after-delete") /\ others THEN [tok |-> op.v, n |-> op.n] ELSE None], {})
         ELSE Reject(A)
    [] op.kind = "pget" ->
         IF res.st = "notfound" THEN (IF A.present[k] = None THEN Accept(A, {}) ELSE Reject(A))
         ELSE IF res.st # "hit" THEN Reject(A)
         ELSE IF A.present[k] # None /\ res.chunks = Whole(k, A.present[k].tok, A.present[k].n) THEN Accept(A, {})
         ELSE IF A.present[k] = None /\ A.stale[k] # None /\ res.chunks = Whole(k, A.stale[k].tok, A.stale[k].n)
              THEN Accept(A, {"D-C19-stale-after-delete"})
         ELSE IF Dev("D-C19-partial-read") /\ pers = "fs" /\ Fragments(A, k, res.chunks)
                 /\ (A.present[k] # None \/ A.stale[k] # None)
              THEN Accept(A, {"D-C19-partial-read"} \cup (IF A.present[k] = None THEN {"D-C19-stale-after-delete"} ELSE {}))
         ELSE IF RacyMap(pers) THEN Accept(A, {"D-C19-inmem-map-race"})
         ELSE Reject(A)
    [] OTHER -> Reject(A)

\* a data-race report / runtime crash is never acceptable on the intended design
\* a, b = the two conflicting accesses: innermost pithos frame [pkg, fn], or pkg = "client" when the access is
\* made by the caller itself (reading the bytes handed out by Get: the value is published through the racy map)
RaceExplained(pers, a, b) ==
  LET Unsynced(x) == x.pkg = "cache/persistor/inmemory" /\ x.fn \in {"Store", "Remove"}   \* called outside mu
      Related(x) == x.pkg \in {"cache/persistor/inmemory", "client", "unknown"}   \* unknown = stack not restorable
  IN /\ Dev("D-C19-inmem-map-race") /\ pers = "mem"
     /\ (Unsynced(a) /\ Related(b)) \/ (Unsynced(b) /\ Related(a))
\* site = innermost pithos frame of the crashing goroutine, frames = all its pithos frames ("pkg.fn")
CrashExplained(pers, kind, site, frames) ==
  \/ /\ kind = "concurrent-map" /\ Dev("D-C19-inmem-map-race") /\ pers = "mem"
     /\ site.pkg = "cache/persistor/inmemory"
  \/ /\ kind = "panic" /\ Dev("D-C19-lfu-oversize-panic")
     /\ site.pkg = "cache/evictionpolicy/lfu"
     /\ \E i \in 1..Len(frames) : frames[i] = "cache/evictionpolicy/lfu.TrackSetAndReturnEvictedKeys"
=============================================================================
