--------------------------- MODULE ConditionalTrace ---------------------------
(* TV for C24.  The trace is recorded by harness/cmd/conditional: TLC-generated     *)
(* programs executed THROUGH the real conditional middleware over three real        *)
(* backing storages.  Every call line is validated like PithosTrace validates a     *)
(* storage, but with the model of the middleware (Conditional!CApply: routing and   *)
(* cross-storage copies) in place of Pithos!Apply; the combined state S shows, for  *)
(* bucket b, bucket b of Owner(b).  In addition, per call:                          *)
(*   OnlyOwnerTouched  (calls)  no backing storage outside Touch(cfg, call) was     *)
(*                              called while the middleware served the call         *)
(*   OnlyOwnerTouched  (state)  every backing storage, read directly, shows for the *)
(*                              buckets it owns exactly what the middleware shows   *)
(*                              and for all other buckets what it held before the   *)
(*                              program started                                     *)
(*   ListBucketsUnion           the middleware's bucket listing is the duplicate-   *)
(*                              free union of the buckets of all storages           *)
(*   CrossCopyEqualsSameCopy    is part of CApply: with no deviation enabled a      *)
(*                              cross-storage copy must leave exactly what          *)
(*                              Pithos!CopyObject leaves                            *)
EXTENDS PithosTrace, Conditional

CONSTANT Storages
VARIABLE cfg

NoCfg == [name |-> "none", route |-> [b1 |-> "", b2 |-> ""], def |-> "S0", pre |-> <<>>]
CfgOf(c) == [name |-> c.name, route |-> [b1 |-> c.route.b1, b2 |-> c.route.b2], def |-> c.def,
             pre |-> [i \in 1..Len(c.pre) |-> [s |-> c.pre[i].s, b |-> c.pre[i].b]]]

PreExists(s, b) == \E i \in 1..Len(cfg.pre) : cfg.pre[i].s = s /\ cfg.pre[i].b = b
PreSt(s) == [InitState(Buckets, Keys, {}) EXCEPT
               !.bver = [b \in Buckets |-> IF PreExists(s, b) THEN "Unset" ELSE "Absent"]]

CDiag(what, x) == PrintT(ToJson([l |-> l, prog |-> prog, what |-> what, detail |-> x]))

CTInit == TInit /\ cfg = NoCfg
CTReset == TReset /\ cfg' = NoCfg
CTConfig == /\ Trace[l].call.op = "Config"
            /\ cfg' = CfgOf(Trace[l].config) /\ l' = l + 1
            /\ UNCHANGED <<S, res, hist, etags, mtimes, prog, taken>>

CFirstMatch(e) ==
  IF \E i \in 1..Len(Cands) : StepMatches(e, CApply(With(Cands[i]), cfg, e.call))
  THEN CHOOSE i \in 1..Len(Cands) :
         /\ StepMatches(e, CApply(With(Cands[i]), cfg, e.call))
         /\ \A j \in 1..(i - 1) : ~StepMatches(e, CApply(With(Cands[j]), cfg, e.call))
  ELSE 0

\* the three C24 checks on the observations of one accepted step; St = model state after the step
Foreign(e) == {s \in Storages : s \notin Touch(cfg, e.call) /\ e.touched[s] # <<>>}
Expected(St, s, i) == IF Owner(cfg, BucketOrder[i]) = s THEN MBucket(St, BucketOrder[i])
                      ELSE MBucket(PreSt(s), BucketOrder[i])
Leaks(e, St) == {p \in Storages \X (1..Len(BucketOrder)) : LBucket(e.bviews[p[1]][p[2]]) # Expected(St, p[1], p[2])}
Listing(St, dev) ==
  LET E(s, b) == IF Owner(cfg, b) = s THEN St.bver[b] # "Absent" ELSE PreExists(s, b)
  IN CListBuckets(E, cfg, dev)

C24Checks(e, St) ==
  IF Foreign(e) # {}
  THEN CDiag("touched", [storages |-> Foreign(e), may |-> Touch(cfg, e.call), touched |-> e.touched]) /\ FALSE
  ELSE IF Leaks(e, St) # {}
  THEN LET p == CHOOSE x \in Leaks(e, St) : TRUE IN
       CDiag("isolation", [storage |-> p[1], bucket |-> BucketOrder[p[2]], owner |-> Owner(cfg, BucketOrder[p[2]]),
                           expected |-> Expected(St, p[1], p[2]), logged |-> LBucket(e.bviews[p[1]][p[2]])]) /\ FALSE
  ELSE IF e.lb = Listing(St, {}) THEN TRUE
  ELSE IF "D-C24-listbuckets-dup" \in Deviations /\ e.lb = Listing(St, {"D-C24-listbuckets-dup"})
  THEN PrintT(ToJson([l |-> l, prog |-> prog, what |-> "property", tags |-> {"D-C24-listbuckets-dup"},
                      detail |-> [config |-> cfg.name, listed |-> e.lb]]))
  ELSE CDiag("listbuckets", [logged |-> e.lb, union |-> Listing(St, {}), config |-> cfg]) /\ FALSE

CTCall ==
  LET e == Trace[l]
      m == CFirstMatch(e)
      D == IF m = 0 THEN Deviations ELSE Cands[m]
      a == CApply(With(D), cfg, e.call)
      tk == CTakenAt(With(D), cfg, e.call)
      E == etags \cup ETagPairs(a.s, e.views)
      M == mtimes \cup MTimePairs(a.s, e.views)
  IN
  /\ e.call.op \notin {"Reset", "Config"}
  /\ IF m = 0
     THEN Diag(l, IF ~ResAgrees(e.call, a.r, LRes(e)) THEN "result"
                  ELSE IF LViews(e.views) # MViews(a.s) THEN "views"
                  ELSE IF ~GetAgrees(e, a.s) THEN "get"
                  ELSE IF ~Functional(M) THEN "mtime" ELSE "etag", a, e) /\ FALSE
     ELSE IF ~FlagsOK(e.views) THEN Diag(l, "flags", a, e) /\ FALSE
     ELSE /\ (IF tk # {} THEN PrintT(ToJson([l |-> l, prog |-> prog, what |-> "deviation", tags |-> tk,
                                             cross |-> Cross(cfg, e.call)]))
              ELSE TRUE)
          /\ C24Checks(e, a.s)
  /\ S' = [a.s EXCEPT !.dev = Deviations] /\ res' = a.r /\ hist' = <<e.call>>
  /\ etags' = E /\ mtimes' = M
  /\ prog' = prog /\ taken' = taken \cup tk /\ l' = l + 1 /\ cfg' = cfg

CTNext == l <= Len(Trace) /\ (CTReset \/ CTConfig \/ CTCall)
=============================================================================
