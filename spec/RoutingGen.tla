----------------------------- MODULE RoutingGen -----------------------------
(* GEN: print request skeletons (with the body the routed handler needs and,   *)
(* as a hint for choosing authorizer programs, the operation the model routes  *)
(* to) and once the dimension sets the pipeline completes a case from.         *)
(* Spec prints every skeleton (thorough); SampleSpec prints a random subset    *)
(* stratified by (endpoint, routed operation), seeded by TLC's -seed (quick).  *)
EXTENDS Routing, Json, Randomization
CONSTANTS PerOp, DeadN
Dims == [dims |-> TRUE, buckets |-> Buckets, keys |-> Keys, pages |-> Pages,
         hookitems |-> [op \in HookOps |-> HookItems(op)], keysyms |-> KeySyms, ops |-> Ops,
         randomargs |-> {p.arg : p \in {q \in Programs : q.mode = "random"}}]
ASSUME PrintT(ToJson(Dims))
Hint(c) == IF Route(c) = "none" THEN "none" ELSE HandlerOp(Route(c), c)
Emit == PrintT(ToJson([ep |-> case.ep, method |-> case.method, shape |-> case.shape,
                       subs |-> case.subs, flags |-> case.flags, body |-> BodyFor(case),
                       hint |-> Hint(case)]))
\* strata = (endpoint, method, path shape); a stratum is live if some request of it
\* reaches a handler
StratumOf(ep, m, sh) ==
  IF ep = "api"
  THEN [ep : {ep}, method : {m}, shape : {sh}, subs : AtMost(SubRes, 2), flags : AtMost(Flags, 2)]
  ELSE [ep : {ep}, method : {m}, shape : {sh}, subs : AtMost(SubRes, 1), flags : SUBSET {"range", "versionId"}]
Strata == {<<"api", m, sh>> : m \in Methods, sh \in Shapes} \cup {<<"web", m, sh>> : m \in Methods, sh \in {"root", "object"}}
LiveStratum(t) == \E s \in AtMost(SubRes, 1) :
                     Route([ep |-> t[1], method |-> t[2], shape |-> t[3], subs |-> s, flags |-> {}]) # "none"
Pick(n, S) == RandomSubset(IF n < Cardinality(S) THEN n ELSE Cardinality(S), S)
\* number of different handlers a stratum reaches (estimated on <=1 sub-resource, <=1 flag)
NRoutes(t) == Cardinality({Route([ep |-> t[1], method |-> t[2], shape |-> t[3], subs |-> s, flags |-> f]) :
                             s \in AtMost(SubRes, 1), f \in AtMost(Flags, 1)})
\* UploadPart / UploadPartCopy take effect only with both uploadId and partNumber
Both == {c \in StratumOf("api", "PUT", "object") : c.subs = {"uploadId", "partNumber"}}
Sample == UNION {Pick(IF LiveStratum(t) THEN PerOp * NRoutes(t) ELSE DeadN, StratumOf(t[1], t[2], t[3])) : t \in Strata}
          \cup Pick(PerOp, Both)
SampleInit == case \in Sample
SampleSpec == SampleInit /\ [][Next]_case
=============================================================================
