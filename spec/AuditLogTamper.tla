--------------------------- MODULE AuditLogTamper ---------------------------
(***************************************************************************)
(* C27 - audit log tampering is always detected.                           *)
(*                                                                         *)
(* A valid log L is built with the writer operators of AuditLogCore        *)
(* (BlockSize = 3 in the configs: genesis, 3 LOG, GROUNDING, 3 LOG,        *)
(* GROUNDING, 2 LOG).  A tamper case names what an attacker without the    *)
(* signing keys does to the stored log:                                    *)
(*   field   change one recorded field of the entry at a position class    *)
(*           (mut: alter / clear / v1 / v4), or two neighbouring fields    *)
(*           (shift: move bytes across the field boundary, swap: exchange  *)
(*           the values); mode plain = leave hash and signature alone,     *)
(*           rehash = recompute Entry.Hash, rechain = recompute the hashes,*)
(*           prev links and Merkle roots of this and all later entries     *)
(*   struct  delete / duplicate / swap / insert / replace / splice / cut   *)
(*           whole entries (mode plain or rechain)                         *)
(*   bytes   flip a bit of the encoded entry; the harness reports which    *)
(*           decoded fields changed                                        *)
(*   forge   (conformance of the grounding checks, which keyless tampering *)
(*           never reaches) somebody holding signing keys re-signs the log *)
(*           after dropping a LOG entry / a grounding / the genesis, after *)
(*           planting a wrong Merkle root or a forged root signature; or   *)
(*           holds only the Ed25519 key and rewrites a field: the stale    *)
(*           ML-DSA root signature of the next grounding gives it away     *)
(* Apply(c) is the tampered log, Validate(Apply(c)) the verdict of the     *)
(* model of validation.go.  The property: every tampered log that is not a *)
(* prefix of L (suffix cut / no change) is rejected.                       *)
(* Also: the round-trip cases Decode(Encode(e)) = e of both serializers.   *)
(* The harness (harness/cmd/auditlog) maps position classes to indexes of  *)
(* a real log with block size 1000 and symbolic values to bytes.           *)
(***************************************************************************)
EXTENDS AuditLogCore

\* ------------------------------------------------------------ the valid log
Details(i) ==
  LET complete == (i % 2 = 1) IN
  [operation |-> "UploadPartCopy", phase |-> IF complete THEN "COMPLETE" ELSE "START",
   bucket |-> "b", key |-> "k", uploadId |-> "u", partNumber |-> 7,
   sourceBucket |-> "sb", sourceKey |-> "sk", credentialId |-> "AK", authType |-> "sigv4-header",
   requestId |-> "r", traceId |-> "t", clientIp |-> "ip",
   statusCode |-> IF complete THEN 500 ELSE 0, outcome |-> IF complete THEN "error" ELSE "pending",
   errorCode |-> "ec", error |-> "boom", durationMs |-> IF complete THEN 5 ELSE 0]

RECURSIVE Build(_, _, _, _)
Build(log, w, k, base) ==
  IF k = 0 THEN log
  ELSE LET e  == MkLog(w, base + Len(log), Details(Len(log)))
           w1 == AfterLog(w, e)
           l1 == Append(log, e)
       IN IF GroundingDue(w1)
          THEN LET g == MkGrounding(w1, base + Len(l1)) IN Build(Append(l1, g), AfterGrounding(w1, g), k - 1, base)
          ELSE Build(l1, w1, k - 1, base)

LogOf(base) == LET g == MkGenesis(base) IN Build(<<g>>, AfterGenesis(W0, g), 2 * BlockSize + 2, base)
\* (variables only so that TLC computes the two logs once: they never change)
VARIABLES L,         \* the log under attack      = LogOf(0)
          F          \* another valid log signed with the same keys = LogOf(1000)
N == 2 * BlockSize + 5

\* --------------------------------------------------------- position classes
PosClasses == {"genesis", "first", "mid", "lastbefore", "grounding", "after", "last"}
Idx(pos) == CASE pos = "genesis" -> 1 [] pos = "first" -> 2 [] pos = "mid" -> 3
              [] pos = "lastbefore" -> BlockSize + 1 [] pos = "grounding" -> BlockSize + 2
              [] pos = "after" -> BlockSize + 3 [] pos = "last" -> N
KindAt(pos) == IF pos = "genesis" THEN "GENESIS" ELSE IF pos = "grounding" THEN "GROUNDING" ELSE "LOG"
\* "the same place one block later" (or earlier when there is no later block)
Far(p, n) == IF p + BlockSize + 1 <= n THEN p + BlockSize + 1 ELSE p - (BlockSize + 1)

\* ------------------------------------------------------------ field tamper
IntegrityFields == {"previousHash", "hash", "signature"}
FieldsOfKind(k) == EnvelopeFields \cup (IF k = "LOG" THEN LogFields ELSE IF k = "GROUNDING" THEN GroundingFields ELSE {})

MutsOf(f) == IF f \in StringLogFields THEN {"alter", "clear"}
             ELSE IF f = "version" THEN {"alter", "v1", "v4"}
             ELSE {"alter"}
\* (rehash would overwrite a tampered hash, rechain recomputes prev links and Merkle roots)
ModesOf(f) == IF f \in IntegrityFields THEN {"plain"}
              ELSE IF f = "merkleRoot" THEN {"plain", "rehash"} ELSE {"plain", "rehash", "rechain"}

\* neighbouring string fields in the order CalculateHash serialises them, and look-alike pairs
ShiftPairs == {<<"operation", "phase">>, <<"bucket", "key">>, <<"key", "uploadId">>, <<"sourceBucket", "sourceKey">>,
               <<"credentialId", "authType">>, <<"authType", "requestId">>, <<"requestId", "traceId">>,
               <<"traceId", "clientIp">>, <<"outcome", "errorCode">>, <<"errorCode", "error">>}
SwapPairs  == {<<"bucket", "sourceBucket">>, <<"key", "sourceKey">>, <<"requestId", "traceId">>, <<"bucket", "key">>}

AlterValue(f, x) ==
  CASE f \in StringLogFields -> IF x = "~altered~" THEN "~altered2~" ELSE "~altered~"
    [] f \in IntLogFields -> x + 1
    [] f = "merkleRoot" -> <<"MR", x[2], AlterHash(x[3])>>
    [] f = "sigEd25519" -> <<"FORGED-SIGED", x[2]>>
    [] f = "sigMlDsa87" -> <<"FORGED-SIGML", x[2]>>

MutateField(e, f, mut) ==
  CASE f \in DOMAIN e.d -> [e EXCEPT !.d[f] = IF mut = "clear" THEN "" ELSE AlterValue(f, @)]
    [] f = "version" -> [e EXCEPT !.version = IF mut = "v1" THEN 1 ELSE IF mut = "v4" THEN 4 ELSE @ - 1]
    [] f = "timestamp" -> [e EXCEPT !.ts = @ + 1]
    [] f = "type" -> [e EXCEPT !.type = IF @ = "LOG" THEN "GROUNDING" ELSE "LOG"]
    [] f = "previousHash" -> [e EXCEPT !.prev = AlterHash(@)]
    [] f = "hash" -> [e EXCEPT !.hash = AlterHash(@)]
    [] f = "signature" -> [e EXCEPT !.sig = <<"FORGED-SIG", @[2]>>]
    [] OTHER -> e

MutatePair(e, f, g, mut) ==
  IF mut = "swap" THEN [e EXCEPT !.d[f] = e.d[g], !.d[g] = e.d[f]]
  ELSE [e EXCEPT !.d[f] = "~shiftA~", !.d[g] = "~shiftB~"]

RECURSIVE MutateAll(_, _)
MutateAll(e, fs) ==
  IF fs = {} THEN e
  ELSE LET f == CHOOSE x \in fs : TRUE IN MutateAll(MutateField(e, f, "alter"), fs \ {f})

Rehash(e) == [e EXCEPT !.hash = H(e)]

BufOf(log) == ValidateFrom(VInit, log, 1, FALSE).v.buf

\* what an attacker without keys can recompute: prev links, Merkle roots, hashes - not signatures
RECURSIVE RechainFrom(_, _, _, _, _)
RechainFrom(log, i, out, buf, relinkFirst) ==
  IF i > Len(log) THEN out
  ELSE LET e0 == log[i]
           e1 == IF out = <<>> \/ ~relinkFirst THEN e0 ELSE [e0 EXCEPT !.prev = out[Len(out)].hash]
           e2 == IF e1.type = "GROUNDING" /\ "merkleRoot" \in DOMAIN e1.d
                 THEN [e1 EXCEPT !.d.merkleRoot = Merkle(buf)] ELSE e1
           e3 == Rehash(e2)
       IN RechainFrom(log, i + 1, Append(out, e3),
                      IF e3.type = "LOG" THEN Append(buf, e3.hash) ELSE IF e3.type = "GROUNDING" THEN <<>> ELSE buf,
                      TRUE)
\* relinkFirst = FALSE keeps the (possibly tampered) prev of entry `from`
Rechain(log, from, relinkFirst) ==
  IF from > Len(log) THEN log
  ELSE RechainFrom(log, from, SubSeq(log, 1, from - 1), BufOf(SubSeq(log, 1, from - 1)), relinkFirst)

ReplaceAt(log, p, e) == [log EXCEPT ![p] = e]

ApplyField(c) ==
  LET p  == Idx(c.pos)
      e1 == IF c.field2 = "" THEN MutateField(L[p], c.field, c.mut) ELSE MutatePair(L[p], c.field, c.field2, c.mut)
  IN CASE c.mode = "plain"   -> ReplaceAt(L, p, e1)
       [] c.mode = "rehash"  -> ReplaceAt(L, p, Rehash(e1))
       [] c.mode = "rechain" -> Rechain(ReplaceAt(L, p, e1), p, FALSE)

\* ----------------------------------------------------------- struct tamper
StructKinds == {"delete", "duplicate", "swapadj", "swapfar", "insertcopy", "insertforeign",
                "replaceforeign", "spliceprefix", "deleteblock", "cut", "cutbefore"}

Swap(log, a, b) == [log EXCEPT ![a] = log[b], ![b] = log[a]]
InsertBefore(log, p, e) == SubSeq(log, 1, p - 1) \o <<e>> \o SubSeq(log, p, Len(log))

StructApplicable(kind, pos) ==
  LET p == Idx(pos) IN
  CASE kind = "spliceprefix" -> p < N
    [] kind = "deleteblock" -> p + BlockSize <= N
    [] kind = "cut" -> p < N
    [] OTHER -> TRUE

ApplyStruct0(kind, p) ==
  CASE kind = "delete" -> SubSeq(L, 1, p - 1) \o SubSeq(L, p + 1, N)
    [] kind = "duplicate" -> InsertBefore(L, p + 1, L[p])
    [] kind = "swapadj" -> IF p < N THEN Swap(L, p, p + 1) ELSE Swap(L, p - 1, p)
    [] kind = "swapfar" -> Swap(L, p, Far(p, N))
    [] kind = "insertcopy" -> InsertBefore(L, p, L[Far(p, N)])
    [] kind = "insertforeign" -> InsertBefore(L, p, F[p])
    [] kind = "replaceforeign" -> ReplaceAt(L, p, F[p])
    [] kind = "spliceprefix" -> SubSeq(F, 1, p) \o SubSeq(L, p + 1, N)
    [] kind = "deleteblock" -> SubSeq(L, 1, p - 1) \o SubSeq(L, p + BlockSize + 1, N)
    [] kind = "cut" -> SubSeq(L, 1, p)
    [] kind = "cutbefore" -> SubSeq(L, 1, p - 1)

\* first index whose entry (or prev link) the struct tamper disturbed: rechain starts there
ApplyStruct(c) ==
  LET p == Idx(c.pos)
      T == ApplyStruct0(c.kind, p)
  IN IF c.mode = "rechain" THEN Rechain(T, IF c.kind = "swapadj" /\ p = N THEN p - 1 ELSE p, TRUE) ELSE T

\* ------------------------------------------------------------ forged logs
\* what a holder of `keys` (subset of {"ed", "ml"}) can redo from entry `from` on: prev links, Merkle
\* roots (fixRoots) and the root signatures of the keys held, entry hashes, entry signatures ("ed")
RECURSIVE ResignFrom(_, _, _, _, _, _)
ResignFrom(log, i, out, buf, fixRoots, keys) ==
  IF i > Len(log) THEN out
  ELSE LET e0 == log[i]
           e1 == IF out = <<>> THEN e0 ELSE [e0 EXCEPT !.prev = out[Len(out)].hash]
           isG == e1.type = "GROUNDING" /\ "merkleRoot" \in DOMAIN e1.d
           root == IF fixRoots THEN Merkle(buf) ELSE e1.d.merkleRoot
           e2 == IF isG THEN [e1 EXCEPT !.d.merkleRoot = root,
                                        !.d.sigEd25519 = IF "ed" \in keys THEN SignRoot(root) ELSE @,
                                        !.d.sigMlDsa87 = IF "ml" \in keys THEN SignRootMl(root) ELSE @]
                 ELSE e1
           e3 == IF "ed" \in keys THEN [e2 EXCEPT !.hash = H(e2), !.sig = Sign(H(e2))] ELSE Rehash(e2)
       IN ResignFrom(log, i + 1, Append(out, e3),
                     IF e3.type = "LOG" THEN Append(buf, e3.hash) ELSE IF e3.type = "GROUNDING" THEN <<>> ELSE buf,
                     fixRoots, keys)
Resign(log, from, fixRoots, keys) ==
  IF from > Len(log) THEN log
  ELSE ResignFrom(log, from, SubSeq(log, 1, from - 1), BufOf(SubSeq(log, 1, from - 1)), fixRoots, keys)

BothKeys == {"ed", "ml"}
ForgeKinds == {"drop-log-resign", "drop-grounding-resign", "wrong-merkle-resign", "bad-rootsig-ed", "bad-rootsig-ml",
               "nogenesis-resign", "genesisprev-resign", "edkey-field"}
ForgePositions(what) ==
  CASE what = "drop-log-resign" -> {"first", "mid", "lastbefore"}
    [] what \in {"drop-grounding-resign", "wrong-merkle-resign", "bad-rootsig-ed", "bad-rootsig-ml"} -> {"grounding"}
    [] what \in {"nogenesis-resign", "genesisprev-resign"} -> {"genesis"}
    [] what = "edkey-field" -> {"first", "mid", "lastbefore", "after", "last"}

ApplyForge(c) ==
  LET p == Idx(c.pos) IN
  CASE c.field = "drop-log-resign" -> Resign(SubSeq(L, 1, p - 1) \o SubSeq(L, p + 1, N), p, TRUE, BothKeys)
    [] c.field = "drop-grounding-resign" -> Resign(SubSeq(L, 1, p - 1) \o SubSeq(L, p + 1, N), p, TRUE, BothKeys)
    [] c.field = "wrong-merkle-resign" -> Resign(ReplaceAt(L, p, MutateField(L[p], "merkleRoot", "alter")), p, FALSE, BothKeys)
    [] c.field = "bad-rootsig-ed" ->    \* everything re-signed properly except the Ed25519 signature over the root
         LET g0 == MutateField(L[p], "sigEd25519", "alter")
             g1 == [g0 EXCEPT !.hash = H(g0), !.sig = Sign(H(g0))]
         IN Resign(ReplaceAt(L, p, g1), p + 1, TRUE, BothKeys)
    [] c.field = "bad-rootsig-ml" -> Resign(ReplaceAt(L, p, MutateField(L[p], "sigMlDsa87", "alter")), p, TRUE, {"ed"})
    [] c.field = "nogenesis-resign" -> Resign(<<[L[2] EXCEPT !.prev = GenesisPrev]>> \o SubSeq(L, 3, N), 1, TRUE, BothKeys)
    [] c.field = "genesisprev-resign" -> Resign(ReplaceAt(L, 1, MutateField(L[1], "previousHash", "alter")), 1, TRUE, BothKeys)
    [] c.field = "edkey-field" -> Resign(ReplaceAt(L, p, MutateField(L[p], "key", "alter")), p, TRUE, {"ed"})

ForgeCases ==
  { [kind |-> "forge", pos |-> pos, field |-> what, field2 |-> "", mut |-> "", mode |-> "resign"] :
      what \in ForgeKinds, pos \in PosClasses }
ForgeCaseOK(c) == c.pos \in ForgePositions(c.field)

\* the grounding checks reject every forged log - except that the Ed25519 key alone suffices behind the last grounding
ForgeExpectedAccept(c) == c.field = "edkey-field" /\ \A i \in (Idx(c.pos) + 1)..N : L[i].type # "GROUNDING"

\* -------------------------------------------------------------- case space
NoCaseFields == [field |-> "", field2 |-> "", mut |-> "", mode |-> "plain"]

FieldCases ==
  { [kind |-> "field", pos |-> pos, field |-> f, field2 |-> "", mut |-> m, mode |-> md] :
      pos \in PosClasses, f \in EnvelopeFields \cup LogFields \cup GroundingFields,
      m \in {"alter", "clear", "v1", "v4"}, md \in {"plain", "rehash", "rechain"} }
FieldCaseOK(c) == c.field \in FieldsOfKind(KindAt(c.pos)) /\ c.mut \in MutsOf(c.field) /\ c.mode \in ModesOf(c.field)

PairCases ==
  { [kind |-> "field", pos |-> pos, field |-> pr[1], field2 |-> pr[2], mut |-> m, mode |-> md] :
      pos \in PosClasses, pr \in ShiftPairs \cup SwapPairs, m \in {"shift", "swap"}, md \in {"plain", "rehash", "rechain"} }
PairCaseOK(c) == KindAt(c.pos) = "LOG" /\ <<c.field, c.field2>> \in (IF c.mut = "shift" THEN ShiftPairs ELSE SwapPairs)

StructCases ==
  { [kind |-> k, pos |-> pos, field |-> "", field2 |-> "", mut |-> "", mode |-> md] :
      k \in StructKinds, pos \in PosClasses, md \in {"plain", "rechain"} }
StructCaseOK(c) == StructApplicable(c.kind, c.pos) /\ (c.mode = "rechain" => c.kind \notin {"cut", "cutbefore"})

TamperCases == {c \in FieldCases : FieldCaseOK(c)} \cup {c \in PairCases : PairCaseOK(c)}
               \cup {c \in StructCases : StructCaseOK(c)} \cup {c \in ForgeCases : ForgeCaseOK(c)}

Apply(c) == IF c.kind = "field" THEN ApplyField(c) ELSE IF c.kind = "forge" THEN ApplyForge(c) ELSE ApplyStruct(c)

\* ---------------------------------------------------------------- property
IsPrefixOfL(T) == Len(T) <= N /\ T = SubSeq(L, 1, Len(T))
\* C27: anything but cutting off a suffix (or changing nothing) makes verification fail
Detected(T) == IsPrefixOfL(T) \/ ~Validate(T).ok

\* which known deviation explains an undetected change of these fields
TagOf(fields) == IF fields # {} /\ fields \subseteq CopySourceFields THEN "D-C27-copy-source-unhashed" ELSE ""

\* --------------------------------------------------------------- round trip
StrClasses == {"empty", "ascii", "special", "long"}
IntClasses == {"zero", "pos", "neg", "max"}
TsClasses  == {"nanos", "second", "trail0", "preepoch"}
Serializers == {"bin", "json"}

ClassesOf(f) == IF f \in IntLogFields THEN IntClasses ELSE StrClasses
BaseClass(f) == IF f \in IntLogFields THEN "pos" ELSE "ascii"
EmptyClass(f) == IF f \in IntLogFields THEN "zero" ELSE "empty"

\* which detail fields a format version can carry at all
Carried(version) == IF version <= 1 THEN V1HashedFields ELSE IF version = 2 THEN LogFields \ CopySourceFields ELSE LogFields
\* v1 has no slot for these; its decoders fill them in from the error string
Derived(version, f) == version <= 1 /\ f \in {"authType", "outcome", "statusCode"}

RTVector(version, over) ==
  [f \in LogFields |-> IF Derived(version, f) THEN "derived"
                       ELSE IF f \notin Carried(version) THEN EmptyClass(f)
                       ELSE IF f \in DOMAIN over THEN over[f] ELSE BaseClass(f)]

RTLogVectors(version) ==
  {RTVector(version, NoDetails)}
  \cup {RTVector(version, [x \in {f} |-> c]) : f \in LogFields, c \in StrClasses \cup IntClasses}
  \cup {RTVector(version, [x \in {f, g} |-> IF x = f THEN cf ELSE cg]) :
          f \in LogFields, g \in LogFields, cf \in {"empty", "special", "zero", "neg"}, cg \in {"empty", "special", "zero", "neg"}}
  \cup {[f \in LogFields |-> IF Derived(version, f) THEN "derived" ELSE IF f \notin Carried(version) THEN EmptyClass(f)
                                                                    ELSE IF f \in IntLogFields THEN ci ELSE cs] :
          cs \in StrClasses, ci \in IntClasses}

RTVectorOK(version, vec) ==
  \A f \in LogFields : IF Derived(version, f) THEN vec[f] = "derived"
                       ELSE IF f \notin Carried(version) THEN vec[f] = EmptyClass(f)
                       ELSE vec[f] \in ClassesOf(f)

RTCaseOK(c) ==
  /\ c.ser \in Serializers /\ c.version \in {1, 2, 3} /\ c.ts \in TsClasses
  /\ c.type \in {"GENESIS", "LOG", "GROUNDING"}
  /\ IF c.type = "LOG" THEN RTVectorOK(c.version, c.d) ELSE c.d = NoDetails

RTCases ==
  UNION { { [kind |-> "rt", ser |-> s, version |-> v, type |-> "LOG", ts |-> ts, d |-> vec] :
              s \in Serializers, ts \in {"nanos"}, vec \in RTLogVectors(v) } : v \in {1, 2, 3} }
  \cup UNION { { [kind |-> "rt", ser |-> s, version |-> v, type |-> ty, ts |-> ts,
                    d |-> IF ty = "LOG" THEN RTVector(v, NoDetails) ELSE NoDetails] :
                      s \in Serializers, ty \in {"GENESIS", "LOG", "GROUNDING"}, ts \in TsClasses } : v \in {1, 2, 3} }

\* ------------------------------------------------------ exhaustive checking
VARIABLE case
Logs == L = LogOf(0) /\ F = LogOf(1000)
Init == Logs /\ case \in TamperCases
Next == UNCHANGED <<case, L, F>>
Spec == Init /\ [][Next]_<<case, L, F>>

\* design level: with every recorded field hashed, every (keyless) tamper case is detected;
\* forged logs are rejected by the grounding checks exactly as far as the design promises
TamperDetected == IF case.kind = "forge" THEN Validate(Apply(case)).ok = ForgeExpectedAccept(case)
                  ELSE Detected(Apply(case))
\* sanity of the case space: every case really changes the log (or is a pure suffix cut)
CaseChanges == Apply(case) # L
LogIsValid == Validate(L).ok /\ Validate(F).ok /\ N = Len(L) /\ \A pos \in PosClasses : L[Idx(pos)].type = KindAt(pos)
=============================================================================
