------------------------------ MODULE TxFsGen ------------------------------
(* GEN: TLC enumerates (BFS) or samples (-simulate) programs = up to MaxSetup   *)
(* set-up operations followed by the operation under test, and prints each with *)
(* the kind of its last operation.  The pipeline picks programs per kind; the   *)
(* symbolic calls, labels and predicted outcomes come from TxFsTrace!Detail.    *)
EXTENDS TxFs, Json
VARIABLE hist
GenInit == Init /\ hist = <<>>
GenNext == \E o \in Ops \cup MacroOps :
             /\ (hist = <<>> => o.k = "k1")      \* keys are symmetric
             /\ \/ ApiAtomic(o) /\ hist' = hist \o Expand(o)
                \/ o \in Ops /\ Begin(o) /\ hist' = Append(hist, o)
Emit == IF phase = "running"
        THEN PrintT(ToJson([prog |-> hist, kind |-> Kind(st.db, hist[Len(hist)]), n |-> Len(run.p)]))
        ELSE TRUE
=============================================================================
