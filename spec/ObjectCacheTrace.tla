--------------------------- MODULE ObjectCacheTrace ---------------------------
(* TV for C20 (sequential).  The trace is recorded by `objectcache seq`: programs  *)
(* executed THROUGH the real middleware.  Every line is validated by PithosTrace   *)
(* (the middleware must behave like a storage) and, in addition, the answers       *)
(* logged side by side in e.obs - per key four reads through the middleware (Head, *)
(* Get, Head, Get) and two from the inner storage (Head, Get) - must be EQUAL      *)
(* (Transparent).  A middleware answer that differs is explained only by a named   *)
(* deviation:                                                                      *)
(*   D-C20-cached-key-empty : it equals the inner answer except for an empty key   *)
(*   D-C20-transition-stale : the key has had a successful storage-class           *)
(*       transition since its cache entries were last invalidated (InvSet of       *)
(*       ObjectCache.tla) and the answer equals what the inner storage answered    *)
(*       before that transition                                                    *)
(* and a PutObject that ends in a panic only by D-C20-put-over-threshold-panic.    *)
EXTENDS PithosTrace, ObjectCache

CONSTANT MaxObjectSize       \* MaxObjectSizeBytes of the driven middleware

VARIABLES stale,   \* keys <<b,k>> whose cache entries may be stale (a modelled deviation left them so)
          snap     \* for those keys: the inner storage's answers [h, g] from before they went stale

otvars == <<tvars, stale, snap, hc, bc>>

ODiag(what, x) == PrintT(ToJson([l |-> l, prog |-> prog, what |-> what, detail |-> x]))

KeyDev == "D-C20-cached-key-empty" \in Deviations
\* middleware answer a against reference answer r
Same(a, r) == a = r
SameButKey(a, r) == KeyDev /\ a # r /\ a.key = "" /\ [a EXCEPT !.key = r.key] = r
Eq(a, r) == Same(a, r) \/ SameButKey(a, r)

PrevObs(p) ==
  IF l > 1 /\ Trace[l-1].call.op # "Reset"
  THEN LET os == Trace[l-1].obs
           i == CHOOSE j \in 1..Len(os) : os[j].b = p[1] /\ os[j].k = p[2]
       IN [has |-> TRUE, h |-> os[i].inner[1], g |-> os[i].inner[2]]
  ELSE [has |-> FALSE]

\* per key: which of the four middleware answers are fresh / stale-but-explained / unexplained
Ref(o, i) == IF i \in {1, 3} THEN o.inner[1] ELSE o.inner[2]
OldRef(sn, i) == IF i \in {1, 3} THEN sn.h ELSE sn.g

OChecks(e, D) ==
  LET inv == InvSet(e.call, e.res.err, D)
      devStep(p) == /\ e.call.op = "Transition" /\ e.res.err = "" /\ "D-C20-transition-stale" \in D
                    /\ p = <<e.call.b, e.call.k>>
      may(p) == (p \in stale /\ p \notin inv) \/ devStep(p)
      old(p) == IF p \in stale THEN snap[p] ELSE PrevObs(p)
      P(o) == <<o.b, o.k>>
      staleIdx(o) == {i \in 1..4 : ~Eq(o.mw[i], Ref(o, i))}
      explained(o) == \A i \in staleIdx(o) : may(P(o)) /\ old(P(o)).has /\ Eq(o.mw[i], OldRef(old(P(o)), i))
      badObs == {j \in 1..Len(e.obs) : ~explained(e.obs[j])}
      staleNow == {P(e.obs[j]) : j \in {x \in 1..Len(e.obs) : staleIdx(e.obs[x]) # {}}}
      keyHit(o) == \E i \in 1..4 :
                      \/ SameButKey(o.mw[i], Ref(o, i))
                      \/ (i \in staleIdx(o) /\ old(P(o)).has /\ SameButKey(o.mw[i], OldRef(old(P(o)), i)))
      keyHits == {j \in 1..Len(e.obs) : keyHit(e.obs[j])}
  IN
  /\ IF badObs # {}
     THEN LET j == CHOOSE x \in badObs : TRUE
              i == CHOOSE x \in staleIdx(e.obs[j]) : TRUE IN
          ODiag("transparent", [b |-> e.obs[j].b, k |-> e.obs[j].k, read |-> i, middleware |-> e.obs[j].mw[i],
                                inner |-> Ref(e.obs[j], i), may_be_stale |-> may(P(e.obs[j]))]) /\ FALSE
     ELSE /\ (IF staleNow # {}
              THEN PrintT(ToJson([l |-> l, prog |-> prog, what |-> "property", tags |-> {"D-C20-transition-stale"},
                                  detail |-> [keys |-> staleNow]]))
              ELSE TRUE)
          /\ (IF keyHits # {}
              THEN PrintT(ToJson([l |-> l, prog |-> prog, what |-> "property", tags |-> {"D-C20-cached-key-empty"},
                                  detail |-> [n |-> Cardinality(keyHits)]]))
              ELSE TRUE)
  /\ stale' = staleNow
  /\ snap' = [p \in KeysOf |-> IF p \in staleNow THEN old(p) ELSE [has |-> FALSE]]

OTInit == TInit /\ stale = {} /\ snap = [p \in KeysOf |-> [has |-> FALSE]]
          /\ hc = [p \in KeysOf |-> NoSnap] /\ bc = [p \in KeysOf |-> NoBody]

\* a PutObject that panicked inside the middleware: the driver logs it and ends the run
OPanic ==
  LET e == Trace[l] IN
  /\ IF /\ "D-C20-put-over-threshold-panic" \in Deviations /\ e.call.op = "PutObject"
        /\ BlobSize[e.call.blob] > MaxObjectSize
     THEN PrintT(ToJson([l |-> l, prog |-> prog, what |-> "property", tags |-> {"D-C20-put-over-threshold-panic"},
                         detail |-> [call |-> e.call, panic |-> e.panic]]))
     ELSE ODiag("panic", [call |-> e.call, panic |-> e.panic]) /\ FALSE
  /\ UNCHANGED <<S, res, hist, etags, mtimes, prog, taken, stale, snap, hc, bc>> /\ l' = l + 1

OTNext ==
  /\ l <= Len(Trace)
  /\ IF Trace[l].call.op # "Reset" /\ Trace[l].res.err = "PANIC" THEN OPanic
     ELSE /\ TNext
          /\ UNCHANGED <<hc, bc>>
          /\ IF Trace[l].call.op = "Reset"
             THEN stale' = {} /\ snap' = [p \in KeysOf |-> [has |-> FALSE]]
             ELSE OChecks(Trace[l], Deviations)
=============================================================================
