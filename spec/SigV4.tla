------------------------------- MODULE SigV4 -------------------------------
(***************************************************************************)
(* C28 / C29 - SigV4 authentication of pithos.                             *)
(*                                                                         *)
(* Models internal/http/server/authentication/signature.go:                *)
(*   parseSignatureParameters, checkAuthentication (its guard sequence),   *)
(*   generateCanonicalURI / generateCanonicalQueryString /                 *)
(*   collectSignedHeaders / generateCanonicalRequest, mustBeSignedHeader,  *)
(*   the signature comparison, and (coarsely) awsChunkReadCloser;          *)
(* and, as the environment, the AWS SDK for Go v2 SigV4 signer             *)
(*   (aws/signer/v4: httpSigner.Build, buildCanonicalHeaders) and the S3   *)
(*   client's request serialisation (path / query escaping).               *)
(*                                                                         *)
(* Strings are sequences of symbols.  A *shape* is a logical request that  *)
(* a client builds and signs; Wire(shape) is the request as it arrives at  *)
(* the server; Mutate(w, m) applies one post-signing mutation; Step(w) is  *)
(* the first guard of checkAuthentication that rejects (or "pass").  The   *)
(* signature is the symbolic value [secret, scope, ts, canon] - injective  *)
(* by construction.  harness/cmd/sigv4 concretises every symbol.           *)
(***************************************************************************)
EXTENDS Naturals, Sequences, FiniteSets, TLC

\* Deviation tags (what the code is known to do where it departs from the property):
\*   D-C29-inner-whitespace         collectSignedHeaders trims but does not collapse runs of spaces
\*   D-C29-query-sort-order         generateCanonicalQueryString sorts encoded, the Go SDK signer decoded strings
\*   D-C28-malformed-query-ignored  pairs url.ParseQuery cannot parse are left out of the canonical query
\*   D-C28-signature-param-ignored  every X-Amz-Signature parameter is left out, whatever the auth style / count
CONSTANT Deviations      \* set of deviation tags the code is known to have
CONSTANT Big             \* FALSE: quick case family, TRUE: thorough family
Dev(t) == t \in Deviations

\* ---------------------------------------------------------------- helpers
Min(S) == CHOOSE x \in S : \A y \in S : x <= y
MapSeq(F(_), s) == [i \in 1..Len(s) |-> F(s[i])]
RECURSIVE Flat(_)
Flat(ss) == IF ss = <<>> THEN <<>> ELSE Head(ss) \o Flat(Tail(ss))
RemoveAt(s, i) == SubSeq(s, 1, i-1) \o SubSeq(s, i+1, Len(s))
InsertAt(s, i, x) == SubSeq(s, 1, i-1) \o <<x>> \o SubSeq(s, i, Len(s))   \* x becomes s[i]
SeqsUpTo(S, n) == UNION {[1..k -> S] : k \in 0..n}
Range(s) == {s[i] : i \in DOMAIN s}
Lookup(f, x) == IF x \in DOMAIN f THEN f[x] ELSE x
\* TLC re-evaluates LET definitions and operator arguments at every use; binding through a
\* singleton set forces one evaluation
Let1(x, F(_)) == CHOOSE r \in {F(y) : y \in {x}} : TRUE

NumLexLess(s, t) ==            \* lexicographic order of sequences of naturals
  LET n == IF Len(s) < Len(t) THEN Len(s) ELSE Len(t)
      d == {i \in 1..n : s[i] # t[i]}
  IN IF d = {} THEN Len(s) < Len(t) ELSE s[Min(d)] < t[Min(d)]

\* ------------------------------------------------- query: alphabets, order
\* Decoded characters of query keys / values (harness: sp=' ' pct='%' amp='&'
\* star='*' plus='+' slash='/' eq='=' ea=U+00E9; the others are themselves).
\* "x-id" (the S3 client's operation marker) and the X-Amz-* presign
\* parameter names are whole names treated as one symbol.
Chars == {"sp", "pct", "amp", "star", "plus", "-", ".", "slash", "eq", "a", "b", "~", "ea"}

\* byte order of decoded strings: the SDK signer sorts with url.Values.Encode
\* and sort.Strings on *decoded* keys and values
DecRank == ("sp" :> 1) @@ ("pct" :> 2) @@ ("amp" :> 3) @@ ("star" :> 4) @@ ("plus" :> 5) @@ ("-" :> 6) @@
           ("." :> 7) @@ ("slash" :> 8) @@ ("eq" :> 9) @@ ("XAlg" :> 11) @@ ("XCred" :> 12) @@ ("XDate" :> 13) @@
           ("XExp" :> 14) @@ ("XSig" :> 15) @@ ("XSH" :> 16) @@ ("a" :> 20) @@ ("b" :> 21) @@ ("x-id" :> 22) @@
           ("~" :> 23) @@ ("ea" :> 24)
\* byte order of the URI-encoded strings (%20 %25 %26 %2A %2B %2F %3D %C3%A9 - . X.. a b x-id ~):
\* generateCanonicalQueryString sorts *encoded* keys and values
EncRank == ("sp" :> 1) @@ ("pct" :> 2) @@ ("amp" :> 3) @@ ("star" :> 4) @@ ("plus" :> 5) @@ ("slash" :> 6) @@
           ("eq" :> 7) @@ ("ea" :> 8) @@ ("-" :> 9) @@ ("." :> 10) @@ ("XAlg" :> 11) @@ ("XCred" :> 12) @@
           ("XDate" :> 13) @@ ("XExp" :> 14) @@ ("XSig" :> 15) @@ ("XSH" :> 16) @@ ("a" :> 20) @@ ("b" :> 21) @@
           ("x-id" :> 22) @@ ("~" :> 23)
RS(rank, s) == [i \in 1..Len(s) |-> IF s[i] \in DOMAIN rank THEN rank[s[i]] ELSE 0]
PairLess(rank, p, q) ==
  IF RS(rank, p.k) # RS(rank, q.k) THEN NumLexLess(RS(rank, p.k), RS(rank, q.k))
  ELSE NumLexLess(RS(rank, p.v), RS(rank, q.v))
RECURSIVE SortPairs(_, _)      \* insertion sort of a sequence of [k, v] records
SortPairs(rank, s) ==
  IF s = <<>> THEN <<>>
  ELSE Let1(SortPairs(rank, Tail(s)),
            LAMBDA rest : Let1(Cardinality({i \in DOMAIN rest : PairLess(rank, rest[i], Head(s))}),
                               LAMBDA k : SubSeq(rest, 1, k) \o <<Head(s)>> \o SubSeq(rest, k + 1, Len(rest))))

\* wire tokens of a query string and their decoding by url.ParseQuery
QDec == ("%20" :> "sp") @@ ("+" :> "sp") @@ ("%25" :> "pct") @@ ("%26" :> "amp") @@ ("%2A" :> "star") @@
        ("%2a" :> "star") @@ ("*" :> "star") @@ ("%2B" :> "plus") @@ ("%2b" :> "plus") @@ ("%2F" :> "slash") @@
        ("%2f" :> "slash") @@ ("/" :> "slash") @@ ("%3D" :> "eq") @@ ("%3d" :> "eq") @@ ("%C3%A9" :> "ea") @@
        ("%c3%a9" :> "ea") @@ ("%7E" :> "~") @@ ("%61" :> "a")
BadQTok == {"%zz", ";"}        \* invalid escape / semicolon: ParseQuery drops the whole pair
SdkQ == ("sp" :> "%20") @@ ("pct" :> "%25") @@ ("amp" :> "%26") @@ ("star" :> "%2A") @@ ("plus" :> "%2B") @@
        ("slash" :> "%2F") @@ ("eq" :> "%3D") @@ ("ea" :> "%C3%A9")
QD(t) == Lookup(QDec, t)
QE(c) == Lookup(SdkQ, c)
WellFormed(p) == (Range(p.k) \cup Range(p.v)) \cap BadQTok = {}
Blank(p) == p.k = <<>> /\ p.v = <<>> /\ ~p.eq            \* "&&": skipped by ParseQuery
DecPair(p) == [k |-> MapSeq(QD, p.k), v |-> MapSeq(QD, p.v)]
EncPair(p) == [k |-> MapSeq(QE, p.k), v |-> MapSeq(QE, p.v), eq |-> TRUE]

\* ------------------------------------------------------------------ path
KeyAtoms == {"a", "b", "sp", "plus", "pct", "~", "star", "eq", "amp", "ea", "slash", ".", "-", "hexup", "hexlo"}
\* how the S3 client serialises one character of an object key (httpbinding.EscapePath)
SdkP == ("sp" :> <<"%20">>) @@ ("plus" :> <<"%2B">>) @@ ("pct" :> <<"%25">>) @@ ("star" :> <<"%2A">>) @@
        ("eq" :> <<"%3D">>) @@ ("amp" :> <<"%26">>) @@ ("ea" :> <<"%C3%A9">>) @@ ("slash" :> <<"/">>) @@
        ("hexup" :> <<"%25", "2", "F">>) @@ ("hexlo" :> <<"%25", "2", "f">>)
SdkPTok(a) == IF a \in DOMAIN SdkP THEN SdkP[a] ELSE <<a>>
\* generateCanonicalURI on one wire token: %xx -> upper hex, unreserved kept, rest escaped
PCanon == ("%2b" :> "%2B") @@ ("+" :> "%2B") @@ ("%c3%a9" :> "%C3%A9") @@ ("*" :> "%2A") @@ ("=" :> "%3D") @@
          ("&" :> "%26") @@ ("%7e" :> "%7E") @@ ("%2f" :> "%2F")
PC(t) == Lookup(PCanon, t)
\* decoded meaning of a wire token (the property's "canonical path")
PDecT == ("%20" :> "sp") @@ ("%2B" :> "plus") @@ ("%2b" :> "plus") @@ ("+" :> "plus") @@ ("%25" :> "pct") @@
         ("%2A" :> "star") @@ ("*" :> "star") @@ ("%3D" :> "eq") @@ ("=" :> "eq") @@ ("%26" :> "amp") @@
         ("&" :> "amp") @@ ("%C3%A9" :> "ea") @@ ("%c3%a9" :> "ea") @@ ("%7E" :> "~") @@ ("%7e" :> "~") @@
         ("%2F" :> "eslash") @@ ("%2f" :> "eslash") @@ ("%61" :> "a")
PD(t) == Lookup(PDecT, t)

\* --------------------------------------------------------------- headers
\* A header value is a sequence of lines, each a sequence of tokens; <<>> = absent.
HOrder == <<"content-encoding", "content-md5", "content-type", "host", "x-amz-absent", "x-amz-content-sha256",
            "x-amz-date", "x-amz-extra", "x-amz-meta-m", "x-custom">>          \* byte order of the names
HN == Range(HOrder)
Sensitive == {"content-md5", "x-amz-absent", "x-amz-content-sha256", "x-amz-date", "x-amz-extra", "x-amz-meta-m"}
RECURSIVE TrimL(_)
TrimL(s) == IF s # <<>> /\ Head(s) = "sp" THEN TrimL(Tail(s)) ELSE s
RECURSIVE TrimR(_)
TrimR(s) == IF s # <<>> /\ s[Len(s)] = "sp" THEN TrimR(SubSeq(s, 1, Len(s) - 1)) ELSE s
Trim(s) == TrimR(TrimL(s))
RECURSIVE Collapse(_)
Collapse(s) == IF Len(s) < 2 THEN s
               ELSE IF s[1] = "sp" /\ s[2] = "sp" THEN Collapse(Tail(s)) ELSE <<s[1]>> \o Collapse(Tail(s))
RECURSIVE JoinLines(_)
JoinLines(ls) == IF Len(ls) = 0 THEN <<>> ELSE IF Len(ls) = 1 THEN ls[1]
                 ELSE ls[1] \o <<"comma">> \o JoinLines(Tail(ls))
Recv(lines) == MapSeq(Trim, lines)            \* net/http trims every field value in transit
TrimCollapse(l) == Trim(Collapse(l))
SdkHV(lines) == JoinLines(MapSeq(TrimCollapse, lines))          \* v4.buildCanonicalHeaders
ServerHV(lines) ==                                              \* collectSignedHeaders
  IF Dev("D-C29-inner-whitespace") THEN Trim(JoinLines(Recv(lines)))
  ELSE Trim(Collapse(JoinLines(Recv(lines))))

SpecialSha == {"UNSIGNED-PAYLOAD", "STREAMING-AWS4-HMAC-SHA256-PAYLOAD",
               "STREAMING-AWS4-HMAC-SHA256-PAYLOAD-TRAILER", "STREAMING-UNSIGNED-PAYLOAD-TRAILER"}
HashOf == ("" :> "sha:") @@ ("B0" :> "sha:B0") @@ ("B1" :> "sha:B1")
ShaOfMode == ("unsigned" :> "UNSIGNED-PAYLOAD") @@ ("stream_signed" :> "STREAMING-AWS4-HMAC-SHA256-PAYLOAD") @@
             ("stream_signed_trailer" :> "STREAMING-AWS4-HMAC-SHA256-PAYLOAD-TRAILER") @@
             ("stream_unsigned_trailer" :> "STREAMING-UNSIGNED-PAYLOAD-TRAILER")
Streaming(mode) == mode \in {"stream_signed", "stream_signed_trailer", "stream_unsigned_trailer"}

\* ------------------------------------------------------- configuration
ConfiguredKeys == {"AK1", "AK2"}          \* secret of key K is the symbol K
ExpiresOK(e) == e \in {"e900", "e901"}    \* e0, e700000, eabc fail parseSignatureParameters
InWindow(ts) == ts \in {"now", "alt", "past_in", "future_in"}      \* past_out / future_out are outside

\* ------------------------------------------------- shape -> wire request
Present(w, n) == w.hdr[n] # <<>>
One(t) == <<<<t>>>>
ShapeHdr(s) ==
  [n \in HN |->
     CASE n = "host" -> One("h0")
       [] n = "x-amz-date" -> IF s.auth = "header" THEN One(s.skew) ELSE <<>>
       [] n = "x-amz-content-sha256" ->
            IF s.auth = "presign" THEN <<>>
            ELSE IF s.payload = "signed" THEN One(HashOf[s.body]) ELSE One(ShaOfMode[s.payload])
       [] n = "x-amz-meta-m" -> s.meta
       [] n = "content-type" ->          \* the S3 client defaults PutObject to application/octet-stream
            IF s.ctype = <<>> /\ s.auth = "header" /\ s.method = "PUT" THEN One("octet") ELSE s.ctype
       [] n = "content-md5" -> IF s.md5 THEN One("m0") ELSE <<>>
       [] n = "content-encoding" -> IF Streaming(s.payload) THEN One("aws-chunked") ELSE <<>>
       [] OTHER -> <<>>]
XId == [k |-> <<"x-id">>, v |-> <<"op">>]
\* the signer rewrites URL.RawQuery with its own canonical (decoded-sorted, %20) form
WireQuery(s) == MapSeq(EncPair, SortPairs(DecRank, s.query \o <<XId>>))

W0(s) == Let1(ShapeHdr(s), LAMBDA h :
  [auth |-> s.auth, authPresent |-> TRUE, authForm |-> "ok", method |-> s.method,
   path |-> Flat(MapSeq(SdkPTok, s.key)), query |-> WireQuery(s), xsig |-> 0,
   hdr |-> h,
   signedList |-> {n \in HN : h[n] # <<>>},             \* the SDK signs every header it sees
   listStyle |-> "plain",
   cred |-> [key |-> s.signer, date |-> IF s.rogue = "date" THEN "other" ELSE "ofts", region |-> s.region,
             service |-> s.service, term |-> IF s.rogue = "term" THEN "other" ELSE "aws4_request"],
   ts |-> s.skew, expires |-> s.expires, body |-> s.body,
   stream |-> IF s.auth = "header" /\ Streaming(s.payload) THEN "ok" ELSE "none",
   sig |-> <<>>])

\* ------------------------------------------------------ canonical request
ListSeq(w) == SelectSeq(HOrder, LAMBDA n : n \in w.signedList)
AuthPairs(w) ==
  IF w.auth = "presign"
  THEN <<[k |-> <<"XAlg">>, v |-> <<"AWS4-HMAC-SHA256">>],
         [k |-> <<"XCred">>, v |-> <<w.cred.key, w.cred.date, w.cred.region, w.cred.service, w.cred.term>>],
         [k |-> <<"XDate">>, v |-> <<w.ts>>], [k |-> <<"XExp">>, v |-> <<w.expires>>],
         [k |-> <<"XSH">>, v |-> ListSeq(w)]>>
  ELSE <<>>
StrayXSig(w) == [i \in 1..w.xsig |-> [k |-> <<"XSig">>, v |-> <<"foo">>]]
UserPairs(w) == MapSeq(DecPair, SelectSeq(w.query, LAMBDA p : ~Blank(p)))
GoodUserPairs(w) == MapSeq(DecPair, SelectSeq(w.query, LAMBDA p : ~Blank(p) /\ WellFormed(p)))
HasMalformed(w) == \E i \in DOMAIN w.query : ~WellFormed(w.query[i])

PayloadLine(w) ==
  IF w.auth = "presign" THEN "UNSIGNED-PAYLOAD"
  ELSE LET d == IF Present(w, "x-amz-content-sha256") THEN w.hdr["x-amz-content-sha256"][1][1] ELSE ""
       IN IF d \in SpecialSha THEN d ELSE HashOf[w.body]      \* generateHashedPayload

\* what the SDK signer signs (httpSigner.Build) for the request it is given
SignerCanon(w) ==
  [method |-> w.method, path |-> w.path,                      \* DisableURIPathEscaping: EscapedPath as is
   query |-> SortPairs(DecRank, UserPairs(w) \o AuthPairs(w)),
   headers |-> MapSeq(LAMBDA n : [n |-> n, v |-> SdkHV(w.hdr[n])], ListSeq(w)),
   payload |-> PayloadLine(w)]

\* generateCanonicalRequest
ServerCanon(w) ==
  [method |-> w.method, path |-> MapSeq(PC, w.path),
   query |-> SortPairs(IF Dev("D-C29-query-sort-order") THEN EncRank ELSE DecRank,
                       (IF Dev("D-C28-malformed-query-ignored") THEN GoodUserPairs(w) ELSE UserPairs(w))
                       \o AuthPairs(w)
                       \o (IF Dev("D-C28-signature-param-ignored") THEN <<>> ELSE StrayXSig(w))),
   headers |-> MapSeq(LAMBDA n : [n |-> n, v |-> ServerHV(w.hdr[n])],
                      SelectSeq(HOrder, LAMBDA n : n = "host" \/ (Present(w, n) /\ n \in w.signedList))),
   payload |-> PayloadLine(w)]

SigOf(w, canon) == [secret |-> w.cred.key, tampered |-> "no", date |-> w.cred.date, region |-> w.cred.region,
                    service |-> w.cred.service, term |-> w.cred.term, ts |-> w.ts, canon |-> canon]
Wire(s) == Let1(W0(s), LAMBDA w : [w EXCEPT !.sig = SigOf(w, SignerCanon(w))])

\* ------------------------------------------- checkAuthentication (guards)
Step(w) ==
  IF ~w.authPresent THEN "anon"                                              \* isAnonymousRequest
  ELSE IF w.auth = "presign" /\ ~ExpiresOK(w.expires) THEN "parse"           \* parseSignatureParameters
  ELSE IF w.auth = "header" /\ w.authForm # "ok" THEN "parse"
  ELSE IF ~Dev("D-C28-malformed-query-ignored") /\ HasMalformed(w) THEN "parse"     \* design only
  ELSE IF ~Dev("D-C28-signature-param-ignored") /\ w.auth = "presign"
          /\ (w.xsig # 0 \/ w.sig.tampered = "dropped") THEN "parse"         \* design only: exactly one X-Amz-Signature
  ELSE IF w.cred.region # "cfg" THEN "scope"                                 \* parseCredentialScope
  ELSE IF w.cred.key \notin ConfiguredKeys THEN "key"
  ELSE IF w.cred.service # "s3" THEN "service"
  ELSE IF w.cred.term # "aws4_request" THEN "terminal"
  ELSE IF w.ts = "garbage" THEN "ts_parse"
  ELSE IF w.cred.date # "ofts" THEN "scope_date"
  ELSE IF ~InWindow(w.ts) THEN "window"
  ELSE IF "host" \notin w.signedList THEN "host_unsigned"
  ELSE IF \E n \in Sensitive : Present(w, n) /\ n \notin w.signedList THEN "sensitive_unsigned"   \* mustBeSignedHeader
  ELSE IF w.sig # SigOf(w, ServerCanon(w)) THEN "signature"                  \* verifier.verify
  ELSE IF w.stream \notin {"none", "ok"} THEN "bodyerr"                      \* awsChunkReadCloser while draining
  ELSE "pass"

Verdict(w) ==
  LET st == Step(w) IN
  [step |-> st,
   status |-> CASE st = "anon" -> "anon" [] st = "pass" -> "ok" [] st = "bodyerr" -> "bodyerr" [] OTHER -> "401",
   key |-> IF st \in {"pass", "bodyerr"} THEN w.cred.key ELSE "none"]

\* ------------------------------------------------------------- mutations
Mk(kind, i, j, p, t, n) == [kind |-> kind, i |-> i, j |-> j, p |-> p, t |-> t, n |-> n]
NoMut == Mk("none", 0, 0, 0, "", "")
AddedPair(t) ==
  CASE t = "normal" -> [k |-> <<"b">>, v |-> <<"a">>, eq |-> TRUE]
    [] t = "empty" -> [k |-> <<"b">>, v |-> <<>>, eq |-> TRUE]
    [] t = "malformed" -> [k |-> <<"b">>, v |-> <<"%zz">>, eq |-> TRUE]
    [] t = "semicolon" -> [k |-> <<"b", ";", "a">>, v |-> <<"a">>, eq |-> TRUE]
    [] t = "blank" -> [k |-> <<>>, v |-> <<>>, eq |-> FALSE]
SetSide(pr, j, s) == IF j = 1 THEN [pr EXCEPT !.k = s] ELSE [pr EXCEPT !.v = s]
Side(pr, j) == IF j = 1 THEN pr.k ELSE pr.v

Mutate(w, m) ==
  CASE m.kind = "none" -> w
    [] m.kind = "method" -> [w EXCEPT !.method = m.t]
    [] m.kind = "path_set" -> [w EXCEPT !.path[m.i] = m.t]
    [] m.kind = "path_del" -> [w EXCEPT !.path = RemoveAt(@, m.i)]
    [] m.kind = "path_ins" -> [w EXCEPT !.path = InsertAt(@, m.i, m.t)]
    [] m.kind = "q_tok" -> [w EXCEPT !.query[m.i] = SetSide(@, m.j, [Side(@, m.j) EXCEPT ![m.p] = m.t])]
    [] m.kind = "q_add" -> [w EXCEPT !.query = Append(@, AddedPair(m.t))]
    [] m.kind = "q_xsig" -> [w EXCEPT !.xsig = 1]
    [] m.kind = "q_drop" -> [w EXCEPT !.query = RemoveAt(@, m.i)]
    [] m.kind = "q_dup" -> [w EXCEPT !.query = Append(@, @[m.i])]
    [] m.kind = "q_swap" -> [w EXCEPT !.query = [@ EXCEPT ![m.i] = w.query[m.j], ![m.j] = w.query[m.i]]]
    [] m.kind = "q_noeq" -> [w EXCEPT !.query[m.i].eq = FALSE]
    [] m.kind = "h_tok" -> [w EXCEPT !.hdr[m.n][m.i][m.p] = m.t]
    [] m.kind = "h_ins" -> [w EXCEPT !.hdr[m.n][m.i] = InsertAt(@, m.p, m.t)]
    [] m.kind = "h_del" -> [w EXCEPT !.hdr[m.n][m.i] = RemoveAt(@, m.p)]
    [] m.kind = "h_drop" -> [w EXCEPT !.hdr[m.n] = <<>>]
    [] m.kind = "h_line" -> [w EXCEPT !.hdr[m.n] = Append(@, <<m.t>>)]
    [] m.kind = "h_add" -> [w EXCEPT !.hdr[m.n] = One("x")]
    [] m.kind = "h_add_listed" -> [w EXCEPT !.hdr[m.n] = One("x"), !.signedList = @ \cup {m.n}]
    [] m.kind = "host" -> [w EXCEPT !.hdr["host"] = One("h1")]
    [] m.kind = "sha" -> [w EXCEPT !.hdr["x-amz-content-sha256"] = One(m.t)]
    [] m.kind = "body" -> [w EXCEPT !.body = "B1"]
    [] m.kind = "cred" -> [w EXCEPT !.cred[m.n] = m.t]
    [] m.kind = "ts" -> [w EXCEPT !.ts = m.t,
                                  !.hdr["x-amz-date"] = IF w.auth = "header" THEN One(m.t) ELSE @]
    [] m.kind = "sig" -> [w EXCEPT !.sig.tampered = m.t]
    [] m.kind = "expires" -> [w EXCEPT !.expires = m.t]
    [] m.kind = "list_add" -> [w EXCEPT !.signedList = @ \cup {m.n}]
    [] m.kind = "list_del" -> [w EXCEPT !.signedList = @ \ {m.n}]
    [] m.kind = "list_style" -> [w EXCEPT !.listStyle = m.t]
    [] m.kind = "strip" -> [w EXCEPT !.authPresent = FALSE]
    [] m.kind = "authform" -> [w EXCEPT !.authForm = "nofield"]
    [] m.kind = "stream" -> [w EXCEPT !.stream = m.t]

\* ---------------------------------------------------- property (intended)
\* what the key's secret signed, in the property's terms (decoded, normalised)
QSem(w) == [pairs |-> SortPairs(DecRank, UserPairs(w)), xsig |-> w.xsig]
HSem(w, n) == SdkHV(Recv(w.hdr[n]))
UnsignedDeclared(w) == w.auth = "presign" \/ PayloadLine(w) \in {"UNSIGNED-PAYLOAD", "STREAMING-UNSIGNED-PAYLOAD-TRAILER"}
SemEq(w0, w) ==
  /\ w.method = w0.method
  /\ MapSeq(PD, w.path) = MapSeq(PD, w0.path)
  /\ QSem(w) = QSem(w0)
  /\ \A n \in Sensitive \cup w0.signedList : HSem(w, n) = HSem(w0, n)
  /\ UnsignedDeclared(w0) \/ (w.body = w0.body /\ w.stream \in {"none", "ok"})
  /\ w.cred = w0.cred /\ w.ts = w0.ts
  /\ w.auth = "presign" => w.expires = w0.expires /\ w.signedList = w0.signedList
  /\ w.sig.secret = w.cred.key
ScopeValid(w) ==
  /\ w.cred.key \in ConfiguredKeys /\ w.cred.region = "cfg" /\ w.cred.service = "s3"
  /\ w.cred.term = "aws4_request" /\ w.cred.date = "ofts" /\ InWindow(w.ts)
  /\ w.auth = "presign" => ExpiresOK(w.expires)

\* w0 = Wire(s), w = Mutate(w0, m), v = Verdict(w)
C28Holds(s, w0, w, v) == v.status = "ok" => v.key = s.signer /\ SemEq(w0, w) /\ ScopeValid(w)

Standard(s) == s.signer \in ConfiguredKeys /\ s.region = "cfg" /\ s.service = "s3" /\ s.skew = "now"
               /\ s.rogue = "none" /\ ExpiresOK(s.expires)
C29Holds(s, v) == Standard(s) => v.status = "ok" /\ v.key = s.signer       \* v = Verdict(Wire(s))
\* ------------------------------------------------ case families (shapes)
Base == [auth |-> "header", method |-> "GET", key |-> <<"a">>, query |-> <<>>, meta |-> <<>>, ctype |-> <<>>,
         md5 |-> FALSE, payload |-> "signed", body |-> "", skew |-> "now", expires |-> "e900", region |-> "cfg",
         service |-> "s3", signer |-> "AK1", rogue |-> "none"]
Flavour(a, me, pl, b) == [auth |-> a, method |-> me, payload |-> pl, body |-> b]
HGet == Flavour("header", "GET", "signed", "")
HPut == Flavour("header", "PUT", "signed", "B0")
PGet == Flavour("presign", "GET", "unsigned", "")
PPut == Flavour("presign", "PUT", "unsigned", "B0")
AllFlavours == {HGet, HPut, PGet, PPut, Flavour("header", "DELETE", "signed", ""),
                Flavour("header", "PUT", "unsigned", "B0"), Flavour("header", "PUT", "stream_signed", "B0"),
                Flavour("header", "PUT", "stream_signed_trailer", "B0"),
                Flavour("header", "PUT", "stream_unsigned_trailer", "B0")}
With(s, f) == [s EXCEPT !.auth = f.auth, !.method = f.method, !.payload = f.payload, !.body = f.body]

KeyAtomsSmall == {"a", "sp", "plus", "pct", "ea", "slash", ".", "hexlo"}
Keys == (IF Big THEN SeqsUpTo(KeyAtoms, 2) \cup SeqsUpTo(KeyAtomsSmall, 3)
         ELSE SeqsUpTo(KeyAtoms, 1) \cup SeqsUpTo(KeyAtomsSmall, 2)) \ {<<>>}
KeyShapes == {[With(Base, f) EXCEPT !.key = k] : f \in (IF Big THEN {HGet, PGet, HPut} ELSE {HGet, PGet}), k \in Keys}

Pair(k, v) == [k |-> k, v |-> v]
Strs1 == SeqsUpTo(Chars, 1)
Strs2 == SeqsUpTo(Chars, 2)
KeySet2 == {<<"a">>, <<"b">>, <<"a", "-">>, <<"a", "slash">>, <<"a", "b">>, <<"a", "ea">>, <<"~">>, <<"ea">>, <<"sp">>}
ValSet2 == {<<>>, <<"a">>, <<"-">>, <<"slash">>, <<"~">>, <<"ea">>, <<"sp">>, <<"plus">>}
Queries ==
  {<<Pair(<<"a">>, v)>> : v \in (IF Big THEN Strs2 ELSE Strs1)}
  \cup {<<Pair(k, <<"a">>)>> : k \in (IF Big THEN Strs2 ELSE Strs1) \ {<<>>}}
  \cup {<<Pair(k1, <<"a">>), Pair(k2, <<"a">>)>> : k1 \in KeySet2, k2 \in KeySet2}
  \cup {<<Pair(<<"a">>, v1), Pair(<<"a">>, v2)>> : v1 \in ValSet2, v2 \in ValSet2}
  \cup (IF Big THEN {<<Pair(<<"a">>, <<"a">>), Pair(k, v), Pair(<<"b">>, <<>>)>> : k \in KeySet2, v \in ValSet2} ELSE {})
QueryShapes == {[With(Base, f) EXCEPT !.query = q] : f \in {HGet, PGet}, q \in Queries}

MetaVals == {<<>>, <<<<>>>>, One("x"), <<<<"x", "sp", "y">>>>, <<<<"x", "sp", "sp", "y">>>>,
             <<<<"x", "sp", "sp", "sp", "y">>>>, <<<<"sp", "x", "sp">>>>, <<<<"x">>, <<"y">>>>, <<<<"x", "comma", "y">>>>,
             <<<<"sp", "x", "sp", "sp", "y", "sp">>, <<"y">>>>}
CtypeVals == {<<>>, One("x"), <<<<"x", "sp", "sp", "y">>>>}
HeaderShapes == {[With(Base, f) EXCEPT !.meta = mv, !.ctype = cv, !.md5 = d] :
                   f \in {HGet, HPut, PGet, PPut}, mv \in MetaVals, cv \in CtypeVals, d \in BOOLEAN}

PayloadShapes == {With(Base, f) : f \in AllFlavours}
                 \cup {[With(Base, f) EXCEPT !.key = <<"a", "sp", "plus", "star", "slash", "ea">>, !.query = <<Pair(<<"a">>, <<"sp">>)>>,
                                             !.meta = One("x")] : f \in AllFlavours}

Skews == {"now", "past_in", "past_out", "future_in", "future_out"}
ScopeDims(s) == Cardinality({d \in {"skew", "region", "service", "signer", "rogue", "expires"} : s[d] # Base[d]})
ScopeShapes ==
  {s \in {[With(Base, f) EXCEPT !.skew = sk, !.region = rg, !.service = sv, !.signer = sg, !.rogue = ro, !.expires = ex] :
            f \in {HGet, PGet}, sk \in Skews, rg \in {"cfg", "other"}, sv \in {"s3", "other"},
            sg \in {"AK1", "AK2", "AKX"}, ro \in {"none", "date", "term"}, ex \in {"e900", "e0", "e700000", "eabc"}} :
     /\ ScopeDims(s) <= (IF Big THEN 3 ELSE 2)
     /\ s.auth = "header" => s.expires = "e900"}

Shapes == KeyShapes \cup QueryShapes \cup HeaderShapes \cup PayloadShapes \cup ScopeShapes

\* ------------------------------------------------ mutation catalogue
PTokAll == {"a", "b", "%20", "+", "%2B", "%2b", "%25", "~", "%7E", "*", "%2A", "=", "%3D", "&", "%26", "%C3%A9",
            "%c3%a9", "/", "%2F", ".", "-", "%61", "2", "F", "f"}
QTokAll == {"a", "b", "-", ".", "~", "%7E", "%20", "+", "%25", "%26", "%2A", "%2a", "*", "%2B", "%2b", "%2F", "%2f",
            "/", "%3D", "%C3%A9", "%c3%a9", "%61", "%zz", ";"}
\* quick tier: a token is replaced by the tokens with the same meaning plus a few others
PAlt(t) == IF Big THEN PTokAll \ {t} ELSE ({u \in PTokAll : PD(u) = PD(t)} \cup {"b", "%20", "/", "%2F", "+"}) \ {t}
QAlt(t) == IF Big THEN QTokAll \ {t} ELSE ({u \in QTokAll : QD(u) = QD(t)} \cup {"b", "+", "%2B", "%zz", ";"}) \ {t}

PathMutsFor(w) ==
  UNION {{Mk("path_set", i, 0, 0, t, "") : t \in PAlt(w.path[i])} : i \in DOMAIN w.path}
  \cup {Mk("path_del", i, 0, 0, "", "") : i \in DOMAIN w.path}
  \cup {Mk("path_ins", i, 0, 0, t, "") : i \in 1..(Len(w.path) + 1), t \in (IF Big THEN PTokAll ELSE {"a", "/", ".", "%20"})}
QueryMutsFor(w) ==
  {m \in [kind : {"q_tok"}, i : DOMAIN w.query, j : 1..2, p : 1..2, t : QTokAll, n : {""}] :
        /\ w.query[m.i].k # <<"x-id">>
        /\ m.p \in DOMAIN Side(w.query[m.i], m.j)
        /\ m.t \in QAlt(Side(w.query[m.i], m.j)[m.p])}
  \cup {Mk("q_drop", i, 0, 0, "", "") : i \in DOMAIN w.query}
  \cup {Mk("q_dup", i, 0, 0, "", "") : i \in DOMAIN w.query}
  \cup {Mk("q_swap", x[1], x[2], 0, "", "") : x \in {y \in (DOMAIN w.query) \X (DOMAIN w.query) : y[1] < y[2]}}
  \cup {Mk("q_noeq", i, 0, 0, "", "") : i \in {ii \in DOMAIN w.query : w.query[ii].v = <<>>}}
HdrMutsFor(w, n) ==
  LET ls == w.hdr[n] IN
  IF ls = <<>> THEN {}
  ELSE {m \in [kind : {"h_tok"}, i : DOMAIN ls, j : {0}, p : 1..6, t : {"x", "y", "sp", "comma"}, n : {n}] :
              m.p \in DOMAIN ls[m.i] /\ ls[m.i][m.p] # m.t}
       \cup {m \in [kind : {"h_ins"}, i : DOMAIN ls, j : {0}, p : 1..7, t : {"sp", "y"}, n : {n}] : m.p <= Len(ls[m.i]) + 1}
       \cup {m \in [kind : {"h_del"}, i : DOMAIN ls, j : {0}, p : 1..6, t : {""}, n : {n}] : m.p \in DOMAIN ls[m.i]}
       \cup {Mk("h_drop", 0, 0, 0, "", n), Mk("h_line", 0, 0, 0, "y", n), Mk("list_del", 0, 0, 0, "", n)}
GenericMuts(s) ==
  {NoMut, Mk("method", 0, 0, 0, IF s.method = "GET" THEN "DELETE" ELSE "GET", ""), Mk("q_xsig", 0, 0, 0, "", ""),
   Mk("h_add", 0, 0, 0, "", "x-amz-extra"), Mk("h_add", 0, 0, 0, "", "x-custom"),
   Mk("h_add_listed", 0, 0, 0, "", "x-amz-extra"), Mk("host", 0, 0, 0, "", ""),
   Mk("cred", 0, 0, 0, "AK2", "key"), Mk("cred", 0, 0, 0, "AKX", "key"), Mk("cred", 0, 0, 0, "other", "date"),
   Mk("cred", 0, 0, 0, "other", "region"), Mk("cred", 0, 0, 0, "other", "service"), Mk("cred", 0, 0, 0, "other", "term"),
   Mk("ts", 0, 0, 0, "garbage", ""),
   Mk("sig", 0, 0, 0, "flip", ""), Mk("sig", 0, 0, 0, "prefix", ""), Mk("sig", 0, 0, 0, "upper", ""),
   Mk("sig", 0, 0, 0, "dropped", ""), Mk("list_add", 0, 0, 0, "", "x-amz-absent"), Mk("list_del", 0, 0, 0, "", "host"),
   Mk("strip", 0, 0, 0, "", "")}
  \cup {Mk("q_add", 0, 0, 0, t, "") : t \in {"normal", "empty", "malformed", "semicolon", "blank"}}
  \* replacing the timestamp by another one of the same day (harness: relative to the signing time)
  \cup (IF s.skew = "now" THEN {Mk("ts", 0, 0, 0, "alt", ""), Mk("ts", 0, 0, 0, "past_out", "")} ELSE {})
  \cup (IF s.md5 THEN {} ELSE {Mk("h_add", 0, 0, 0, "", "content-md5")})
  \cup (IF s.auth = "header"
        THEN {Mk("authform", 0, 0, 0, "", ""), Mk("list_del", 0, 0, 0, "", "x-amz-content-sha256"),
              Mk("list_del", 0, 0, 0, "", "x-amz-date"),
              Mk("sha", 0, 0, 0, "sha:B1", ""), Mk("sha", 0, 0, 0, "UNSIGNED-PAYLOAD", "")}
             \cup {Mk("list_style", 0, 0, 0, t, "") : t \in {"upper", "spaces", "empties"}}
        ELSE {Mk("expires", 0, 0, 0, "e901", ""), Mk("expires", 0, 0, 0, "e0", "")})
  \cup (IF s.body = "B0" /\ ~Streaming(s.payload) THEN {Mk("body", 0, 0, 0, "", "")} ELSE {})
  \cup (IF s.auth = "header" /\ Streaming(s.payload)
        THEN {Mk("stream", 0, 0, 0, "data", "")}
             \cup (IF s.payload # "stream_unsigned_trailer" THEN {Mk("stream", 0, 0, 0, "chunksig", "")} ELSE {})
             \cup (IF s.payload # "stream_signed" THEN {Mk("stream", 0, 0, 0, "trailer", "")} ELSE {})
        ELSE {})
Muts(s) == Let1(W0(s), LAMBDA w :
  GenericMuts(s) \cup PathMutsFor(w) \cup QueryMutsFor(w) \cup HdrMutsFor(w, "x-amz-meta-m") \cup HdrMutsFor(w, "content-type")
  \cup (IF s.md5 THEN {Mk("h_tok", 1, 0, 1, "m1", "content-md5"), Mk("h_drop", 0, 0, 0, "", "content-md5"),
                       Mk("list_del", 0, 0, 0, "", "content-md5")} ELSE {}))

\* ------------------------------------------------------ exhaustive checking
\* One behaviour = the client signs shape s (Init), then at most one mutation is
\* applied in flight (Mutation).  w0 / w / v are kept as state so that every
\* operator is evaluated once per case.
VARIABLES s, m, w0, w, v
vars == <<s, m, w0, w, v>>
Init == /\ s \in Shapes
        /\ m = NoMut
        /\ w0 = Wire(s)
        /\ w = w0
        /\ v = Verdict(w0)
Mutation == /\ m = NoMut
            /\ m' \in Muts(s) \ {NoMut}
            /\ w' = Mutate(w0, m')
            /\ v' = Verdict(w')
            /\ UNCHANGED <<s, w0>>
Next == Mutation
Spec == Init /\ [][Next]_vars

\* design level (Deviations = {}): no accepted request differs from what was
\* signed, and every standard client request is accepted
DesignC28 == C28Holds(s, w0, w, v)
DesignC29 == m = NoMut => C29Holds(s, v)
=============================================================================
