---------------------------- MODULE NotifyOutbox ----------------------------
(***************************************************************************)
(* C22 - event notifications are emitted exactly for committed mutations.  *)
(*                                                                         *)
(* Models internal/storage/notification:                                   *)
(*   storage.go   runWithNotifications  = one write transaction            *)
(*                  {inner object mutation; enqueueEvents: bucket          *)
(*                   notification configuration read (only if the mutation *)
(*                   produced events), buildEntriesForEvent (RuleMatches,  *)
(*                   EventBridge), one repository.Save per entry}; commit  *)
(*                dispatchAvailable/claimBatch/claim  -> Claim             *)
(*                dispatchEntry: publisher.Publish    -> Publish           *)
(*                  deleteClaimed | deadLetter | release(nextAttemptAt)    *)
(*                                                    -> Finish            *)
(*                DispatcherConfig.withDefaults       -> EffMaxB           *)
(*   events.go    RuleMatches, event names            -> RuleMatches, Ev   *)
(*   repository.go  ClaimFirst / DeleteByClaimOwner / ReleaseClaim /       *)
(*                DeadLetter statements (guards on claim_owner, lease,     *)
(*                next_attempt_at, dead_lettered_at)                       *)
(*   database/tx.go  Commit (pre-commit hooks, SQL commit) / Rollback      *)
(*                                                                         *)
(* Grain: one action per transaction stage / per dispatcher transaction /  *)
(* per tx-free publish.  SQLite has one writer: a dispatcher transaction   *)
(* (Claim, Finish) never runs while a mutation transaction is open; the    *)
(* tx-free Publish and worker crashes interleave freely.                   *)
(*                                                                         *)
(* Time is a logical clock in units; the harness uses 1 unit = 1 hour of   *)
(* an injected (Repository-decorator) clock.                               *)
(*                                                                         *)
(* Keys are sequences of symbols (a prefix/suffix code), filters likewise. *)
(* Event names are records [cat, sub]; "s3:<cat>:<sub>" or "s3:<cat>".     *)
(***************************************************************************)
EXTENDS Integers, Sequences, FiniteSets, TLC, SequencesExt, FiniteSetsExt

CONSTANT Deviations      \* set of deviation tags the code is known to have (none so far)
CONSTANT Workers         \* dispatcher instances sharing the outbox

VARIABLES cfg,      \* bucket + dispatcher configuration of the case (record, see CfgOK)
          entry,    \* id -> outbox entry ever committed (status pending | dead | deleted)
          tx,       \* the open mutation transaction or NoTx
          muts,     \* history of finished mutations: [m, fault, committed, ids]
          now,      \* logical clock
          script,   \* remaining scripted publisher outcomes (exhausted => "ok")
          fl,       \* worker -> entry in flight (claimed, not yet finished) or NoFl
          own,      \* worker -> its current claim-owner identity (changes on restart)
          nown,     \* next fresh owner identity
          crashes   \* number of disturbances so far (worker crashes, publishes outlasting the lease)

vars == <<cfg, entry, tx, muts, now, script, fl, own, nown, crashes>>

\* ------------------------------------------------------------------ events
Ev(cat, sub) == [cat |-> cat, sub |-> sub]
\* RuleMatches: exact name, or "<cat>:*" as a prefix "s3:<cat>:" of the event name
PatMatches(p, e) == p.cat = e.cat /\ (p.sub = e.sub \/ (p.sub = "*" /\ e.sub # ""))

Kinds == {"put", "copy", "complete", "delete", "ldelete", "deletes", "tagput", "tagdel",
          "transition", "transition0", "append"}
Faults == {"none", "inner", "config", "save1", "save2", "save3", "precommit", "commit"}
SaveFault(k) == CASE k = 1 -> "save1" [] k = 2 -> "save2" [] k = 3 -> "save3" [] OTHER -> "saveN"

\* a mutation call: kind, target key, second key (copy source / second key of
\* DeleteObjects), whether the harness prepared the object/upload it needs
Mut(kind, key, key2, exists) == [kind |-> kind, key |-> key, key2 |-> key2, exists |-> exists]

\* does the wrapped storage accept the mutation (natural failures: NoSuchKey, NoSuchUpload)
NeedsTarget == {"copy", "complete", "tagput", "tagdel", "transition", "transition0"}
InnerOk(m) == m.kind \in NeedsTarget => m.exists
\* AppendObject is not wrapped by the middleware (no event type exists for it): the call
\* goes straight to the wrapped storage, which runs it in a transaction of its own
Wrapped(m) == m.kind # "append"

DeleteEv(c)  == IF c.versioned THEN Ev("ObjectRemoved", "DeleteMarkerCreated") ELSE Ev("ObjectRemoved", "Delete")
LDeleteEv(c) == IF c.versioned THEN Ev("LifecycleExpiration", "DeleteMarkerCreated") ELSE Ev("LifecycleExpiration", "Delete")

\* events a committed mutation emits (storage.go, one per wrapped method)
EventsOf(c, m) ==
  LET one(e) == {[ev |-> e, key |-> m.key]} IN
  CASE m.kind = "put"        -> one(Ev("ObjectCreated", "Put"))
    [] m.kind = "copy"       -> one(Ev("ObjectCreated", "Copy"))
    [] m.kind = "complete"   -> one(Ev("ObjectCreated", "CompleteMultipartUpload"))
    [] m.kind = "delete"     -> one(DeleteEv(c))
    [] m.kind = "ldelete"    -> one(LDeleteEv(c))
    [] m.kind = "deletes"    -> {[ev |-> DeleteEv(c), key |-> m.key], [ev |-> DeleteEv(c), key |-> m.key2]}
    [] m.kind = "tagput"     -> one(Ev("ObjectTagging", "Put"))
    [] m.kind = "tagdel"     -> one(Ev("ObjectTagging", "Delete"))
    [] m.kind = "transition" -> one(Ev("LifecycleTransition", ""))
    [] OTHER                 -> {}       \* transition0 (no override), append: no event type exists

RuleMatches(r, x) ==
  /\ \E p \in r.events : PatMatches(p, x.ev)
  /\ IsPrefix(r.prefix, x.key)
  /\ IsSuffix(r.suffix, x.key)

\* what the property demands for a committed mutation: one entry per (event, matching
\* rule), plus one per event for the implicit EventBridge destination when enabled
ExpectedEntries(c, m) ==
  {[rule |-> q[1].id, ev |-> q[2].ev, key |-> q[2].key] : q \in {p \in c.rules \X EventsOf(c, m) : RuleMatches(p[1], p[2])}}
  \cup (IF c.eb THEN {[rule |-> "eb", ev |-> x.ev, key |-> x.key] : x \in EventsOf(c, m)} ELSE {})

\* does a committed mutation change what a reader of the key(s) sees
Visible(c, m) ==
  CASE m.kind \in {"delete", "ldelete", "deletes"} -> (c.versioned \/ m.exists)
    [] OTHER -> TRUE

\* closed form of the transaction: is it committed, was the fault point reached
TxResult(c, m, f) ==
  LET n == Cardinality(ExpectedEntries(c, m)) IN
  IF ~InnerOk(m) THEN [committed |-> FALSE, reached |-> FALSE]
  ELSE IF f = "inner" /\ Wrapped(m) THEN [committed |-> FALSE, reached |-> TRUE]
  ELSE IF f = "config" /\ EventsOf(c, m) # {} THEN [committed |-> FALSE, reached |-> TRUE]
  ELSE IF \E k \in 1..n : f = SaveFault(k) THEN [committed |-> FALSE, reached |-> TRUE]
  ELSE IF f \in {"commit", "precommit"} THEN [committed |-> FALSE, reached |-> TRUE]
  ELSE [committed |-> TRUE, reached |-> FALSE]

\* ----------------------------------------------------------- configuration
EffMaxB(c) == IF c.maxB < c.minB THEN c.minB ELSE c.maxB      \* withDefaults
Pow2(n) == IF n <= 0 THEN 1 ELSE IF n >= 20 THEN 1048576 ELSE 2 ^ n
\* nextAttemptAt: attempts already counts the failed attempt
Backoff(c, attempts) ==
  LET d == c.minB * Pow2(attempts - 1) IN IF d > EffMaxB(c) THEN EffMaxB(c) ELSE d

\* ------------------------------------------------------------------- state
NoTx == [stage |-> "none"]
NoFl == [id |-> 0, phase |-> "none", attempts |-> 0]

NewEntry(i, t, at) ==
  [mut |-> i, rule |-> t.rule, ev |-> t.ev, key |-> t.key, attempts |-> 0, nextAt |-> at,
   owner |-> 0, until |-> 0, status |-> "pending", delivered |-> 0, failed |-> 0,
   expired |-> 0, delay |-> -1, delayAt |-> 0]

InitWith(c, s) ==
  /\ cfg = c /\ script = s
  /\ entry = <<>> /\ tx = NoTx /\ muts = <<>> /\ now = 0
  /\ fl = [w \in Workers |-> NoFl]
  /\ own = [w \in Workers |-> w]          \* Workers \subseteq 1..n
  /\ nown = Max(Workers) + 1
  /\ crashes = 0

Ids == DOMAIN entry
Pending(id) == entry[id].status = "pending"
\* findFirstStmt / claimStmt guards
Claimable(id) ==
  /\ Pending(id)
  /\ entry[id].nextAt <= now
  /\ (entry[id].owner = 0 \/ entry[id].until <= now)
AnyClaimable == \E id \in Ids : Claimable(id)

\* ---------------------------------------------- the mutation transaction
Frame(vs) == UNCHANGED vs
DispVars == <<now, script, fl, own, nown, crashes>>

BeginTx(m, f) ==
  /\ tx.stage = "none"
  /\ tx' = [stage |-> "inner", m |-> m, fault |-> f, saved |-> <<>>,
            todo |-> SetToSeq(ExpectedEntries(cfg, m))]
  /\ UNCHANGED <<cfg, entry, muts>> /\ Frame(DispVars)

\* Rollback: nothing of the transaction survives
Abort ==
  /\ tx' = NoTx
  /\ muts' = Append(muts, [m |-> tx.m, fault |-> tx.fault, committed |-> FALSE, ids |-> {}])
  /\ UNCHANGED <<cfg, entry>> /\ Frame(DispVars)

Stay(t) == tx' = t /\ UNCHANGED <<cfg, entry, muts>> /\ Frame(DispVars)

TxInner ==
  /\ tx.stage = "inner"
  /\ IF ~InnerOk(tx.m) \/ (tx.fault = "inner" /\ Wrapped(tx.m)) THEN Abort
     ELSE Stay([tx EXCEPT !.stage = IF EventsOf(cfg, tx.m) = {} THEN "commit" ELSE "config"])

TxConfig ==
  /\ tx.stage = "config"
  /\ IF tx.fault = "config" THEN Abort
     ELSE Stay([tx EXCEPT !.stage = IF Len(tx.todo) = 0 THEN "commit" ELSE "save"])

\* the k-th repository.Save of the transaction; id = the entry's fresh identity
TxSave(id) ==
  /\ tx.stage = "save"
  /\ LET k == Len(tx.saved) + 1 IN
     IF tx.fault = SaveFault(k) THEN Abort
     ELSE /\ id \notin Ids /\ \A j \in 1..Len(tx.saved) : tx.saved[j].id # id
          /\ Stay([tx EXCEPT !.saved = Append(@, [id |-> id, t |-> tx.todo[k]]),
                             !.stage = IF k = Len(tx.todo) THEN "commit" ELSE "save"])

\* TxController.Commit: pre-commit hooks, SQL COMMIT; the entries become visible atomically
TxCommit ==
  /\ tx.stage = "commit"
  /\ IF tx.fault \in {"precommit", "commit"} THEN Abort
     ELSE LET i == Len(muts) + 1
              new == {tx.saved[j].id : j \in 1..Len(tx.saved)}
              rec(id) == (CHOOSE j \in 1..Len(tx.saved) : tx.saved[j].id = id) IN
          /\ entry' = [id \in Ids \cup new |->
                         IF id \in Ids THEN entry[id] ELSE NewEntry(i, tx.saved[rec(id)].t, now)]
          /\ muts' = Append(muts, [m |-> tx.m, fault |-> tx.fault, committed |-> TRUE, ids |-> new])
          /\ tx' = NoTx
          /\ UNCHANGED cfg /\ Frame(DispVars)

\* the whole transaction as one step (trace validation / generation).  new = the rows
\* the call left behind (id -> [rule, ev, key]): in generation the expected entries,
\* in trace validation the rows observed in the real table - EntryIffCommitted judges them
MutateAtomic(m, f, new) ==
  /\ tx.stage = "none"
  /\ DOMAIN new \cap Ids = {}
  /\ LET r == TxResult(cfg, m, f)
         i == Len(muts) + 1 IN
     /\ entry' = [id \in Ids \cup DOMAIN new |-> IF id \in Ids THEN entry[id] ELSE NewEntry(i, new[id], now)]
     /\ muts' = Append(muts, [m |-> m, fault |-> f, committed |-> r.committed, ids |-> DOMAIN new])
  /\ UNCHANGED <<cfg, tx>> /\ Frame(DispVars)

\* ------------------------------------------------------------ dispatcher
MutVars == <<cfg, tx, muts>>

\* claim(): one write transaction; attempts+1, lease until now+lease.  A claim of an
\* entry whose previous owner never finished (crash / slow worker) is a lease expiry.
Claim(w, id) ==
  /\ tx.stage = "none"
  /\ fl[w] = NoFl
  /\ id \in Ids /\ Claimable(id)
  /\ entry' = [entry EXCEPT ![id].attempts = @ + 1, ![id].owner = own[w], ![id].until = now + cfg.lease,
                            ![id].expired = @ + (IF entry[id].owner # 0 THEN 1 ELSE 0)]
  /\ fl' = [fl EXCEPT ![w] = [id |-> id, phase |-> "claimed", attempts |-> entry[id].attempts + 1]]
  /\ UNCHANGED <<now, script, own, nown, crashes>> /\ Frame(MutVars)

Outcome == IF script = <<>> THEN "ok" ELSE Head(script)

\* publisher.Publish (no transaction open); consumes one scripted outcome
Publish(w) ==
  /\ fl[w].phase = "claimed"
  /\ LET o == Outcome
         id == fl[w].id IN
     /\ entry' = [entry EXCEPT ![id].delivered = @ + (IF o \in {"ok", "crashD"} THEN 1 ELSE 0),
                               ![id].failed = @ + (IF o = "fail" THEN 1 ELSE 0)]
     /\ fl' = [fl EXCEPT ![w].phase = CASE o = "ok" -> "published" [] o = "fail" -> "failed" [] OTHER -> "crashing"]
  /\ script' = IF script = <<>> THEN script ELSE Tail(script)
  /\ UNCHANGED <<now, own, nown, crashes>> /\ Frame(MutVars)

\* the statements of deleteClaimed / release / deadLetter only touch the row while
\* claim_owner is still this worker's identity
Owns(w, id) == Pending(id) /\ entry[id].owner = own[w]

\* deleteClaimed after a successful publish
FinishDelete(w) ==
  /\ tx.stage = "none" /\ fl[w].phase = "published"
  /\ LET id == fl[w].id IN
     entry' = IF Owns(w, id) THEN [entry EXCEPT ![id].status = "deleted", ![id].owner = 0] ELSE entry
  /\ fl' = [fl EXCEPT ![w] = NoFl]
  /\ UNCHANGED <<now, script, own, nown, crashes>> /\ Frame(MutVars)

MustDeadLetter(w) == cfg.maxAttempts > 0 /\ fl[w].attempts >= cfg.maxAttempts

\* deadLetter after a failed publish that exhausted the attempts
FinishDeadLetter(w) ==
  /\ tx.stage = "none" /\ fl[w].phase = "failed" /\ MustDeadLetter(w)
  /\ LET id == fl[w].id IN
     entry' = IF Owns(w, id) THEN [entry EXCEPT ![id].status = "dead", ![id].owner = 0] ELSE entry
  /\ fl' = [fl EXCEPT ![w] = NoFl]
  /\ UNCHANGED <<now, script, own, nown, crashes>> /\ Frame(MutVars)

\* release after a failed publish: next attempt after delay d (= Backoff in the design;
\* the observed delay in trace validation)
FinishRelease(w, d) ==
  /\ tx.stage = "none" /\ fl[w].phase = "failed" /\ ~MustDeadLetter(w)
  /\ LET id == fl[w].id IN
     entry' = IF Owns(w, id)
              THEN [entry EXCEPT ![id].owner = 0, ![id].nextAt = now + d, ![id].delay = d,
                                 ![id].delayAt = fl[w].attempts]
              ELSE entry
  /\ fl' = [fl EXCEPT ![w] = NoFl]
  /\ UNCHANGED <<now, script, own, nown, crashes>> /\ Frame(MutVars)

\* the worker dies (or its publish panics) with an entry in flight: the claim stays
\* until the lease expires; the restarted worker has a new identity
Crash(w) ==
  /\ fl[w] # NoFl
  /\ fl' = [fl EXCEPT ![w] = NoFl]
  /\ own' = [own EXCEPT ![w] = nown] /\ nown' = nown + 1
  /\ crashes' = crashes + 1
  /\ UNCHANGED <<entry, now, script>> /\ Frame(MutVars)

\* environment (harness: UPDATE of the attempts column): a long outage - every idle
\* pending entry has meanwhile failed n delivery attempts.  Backoff is a function of
\* the attempt number, so this reaches attempt numbers no short program gets to.
Idle(id) == Pending(id) /\ entry[id].owner = 0
PresetAttempts(n) ==
  /\ tx.stage = "none" /\ \A w \in Workers : fl[w] = NoFl
  /\ n >= 0 /\ (cfg.maxAttempts = 0 \/ n < cfg.maxAttempts)
  /\ entry' = [id \in Ids |-> IF Idle(id) /\ entry[id].attempts < n
                              THEN [entry[id] EXCEPT !.attempts = n] ELSE entry[id]]
  /\ UNCHANGED <<now, script, fl, own, nown, crashes>> /\ Frame(MutVars)

\* time passes to the next instant at which something becomes claimable
TimePoints == {entry[id].nextAt : id \in {i \in Ids : Pending(i)}}
              \cup {entry[id].until : id \in {i \in Ids : Pending(i) /\ entry[i].owner # 0}}
Tick(t, cost) ==
  /\ t > now /\ now' = t /\ crashes' = crashes + cost
  /\ UNCHANGED <<entry, script, fl, own, nown>> /\ Frame(MutVars)
AdvanceTo(t) == Tick(t, 0)
NextTime == Min({t \in TimePoints : t > now})
InFlight == \E w \in Workers : fl[w] # NoFl
\* time passes while no publish is in flight ...
AdvanceQuiet == ~InFlight /\ (\E t \in TimePoints : t > now) /\ Tick(NextTime, 0)
\* ... or a publish outlasts its lease (a disturbance like a crash: the entry can be
\* taken over by another worker while the slow one still believes it owns it)
AdvanceSlow == InFlight /\ (\E t \in TimePoints : t > now) /\ Tick(NextTime, 1)

\* ------------------------------------------------- bounded model (TLC, MC)
CONSTANTS MCMaxAttempts,   \* set of MaxAttempts values explored
          MCEb,            \* EventBridge flag values explored (TRUE: every event also goes to the implicit destination)
          MaxMut,          \* number of mutations
          MCFaults,        \* fault placements explored
          ScriptAlphabet, MaxScript,   \* publisher scripts: sequences over the alphabet up to this length
          MaxCrash         \* disturbances: spontaneous worker crashes + publishes outlasting their lease

KImgJpg == <<"img/", "a", ".jpg">>
KDocTxt == <<"doc/", "a", ".txt">>
\* two rules: an event-type + prefix filter and an event-type + suffix filter; every
\* mutation of MCMuts matches at most one of them
MCRules == {[id |-> "r1", events |-> {Ev("ObjectCreated", "*")}, prefix |-> <<"img/">>, suffix |-> <<>>],
            [id |-> "r2", events |-> {Ev("ObjectRemoved", "Delete")}, prefix |-> <<>>, suffix |-> <<".txt">>]}
MCCfgs == {[rules |-> MCRules, eb |-> eb, versioned |-> FALSE, maxAttempts |-> a, minB |-> 1, maxB |-> 2, lease |-> 2] :
             a \in MCMaxAttempts, eb \in MCEb}
MCMuts == {Mut("put", KImgJpg, <<>>, TRUE),      \* matches r1
           Mut("put", KDocTxt, <<>>, TRUE),      \* matches nothing
           Mut("delete", KDocTxt, <<>>, TRUE),   \* matches r2
           Mut("tagput", KImgJpg, <<>>, FALSE)}  \* the wrapped storage refuses it
Scripts == UNION {[1..n -> ScriptAlphabet] : n \in 0..MaxScript}

FreshId == Max(Ids \cup {tx.saved[j].id : j \in 1..(IF tx.stage = "none" THEN 0 ELSE Len(tx.saved))} \cup {0}) + 1

Init == \E c \in MCCfgs, s \in Scripts : InitWith(c, s)

TxStep == TxInner \/ TxConfig \/ TxSave(FreshId) \/ TxCommit
DispStep(w) ==
  \/ \E id \in Ids : Claim(w, id)
  \/ Publish(w)
  \/ FinishDelete(w)
  \/ FinishDeadLetter(w)
  \/ FinishRelease(w, Backoff(cfg, fl[w].attempts))
  \/ ((crashes < MaxCrash \/ fl[w].phase = "crashing") /\ Crash(w))

Next ==
  \/ \E m \in MCMuts, f \in MCFaults : Len(muts) < MaxMut /\ BeginTx(m, f)
  \/ TxStep
  \/ \E w \in Workers : DispStep(w)
  \/ AdvanceQuiet
  \/ (crashes < MaxCrash /\ AdvanceSlow)

Fair ==
  /\ WF_vars(TxStep)
  /\ WF_vars(AdvanceQuiet)
  /\ \A w \in Workers :
       /\ WF_vars(\E id \in Ids : Claim(w, id))
       /\ WF_vars(Publish(w))
       /\ WF_vars(FinishDelete(w) \/ FinishDeadLetter(w) \/ FinishRelease(w, Backoff(cfg, fl[w].attempts)))

Spec == Init /\ [][Next]_vars /\ Fair

\* ---------------------------------------------------------------- properties
Committed == {i \in 1..Len(muts) : muts[i].committed}
Proj(id) == [mut |-> entry[id].mut, rule |-> entry[id].rule, ev |-> entry[id].ev, key |-> entry[id].key]

\* C22, first half: outbox entries exist exactly for (committed mutation, event,
\* matching rule); a rolled-back mutation (failed inner call, failed configuration
\* read, failed Save, failed commit) leaves none
EntryIffCommitted ==
  /\ {Proj(id) : id \in Ids} =
       UNION {{[mut |-> i, rule |-> t.rule, ev |-> t.ev, key |-> t.key] : t \in ExpectedEntries(cfg, muts[i].m)} : i \in Committed}
  /\ \A i \in 1..Len(muts) :
       /\ muts[i].committed = TxResult(cfg, muts[i].m, muts[i].fault).committed
       /\ Cardinality({id \in Ids : entry[id].mut = i}) =
            (IF muts[i].committed THEN Cardinality(ExpectedEntries(cfg, muts[i].m)) ELSE 0)
       /\ muts[i].ids = {id \in Ids : entry[id].mut = i}

\* an entry leaves the outbox only after a successful delivery or as a dead letter
DeletedOnlyAfterDelivery == \A id \in Ids : entry[id].status = "deleted" => entry[id].delivered >= 1
\* dead-lettered only after the configured number of attempts, none of which is known delivered-and-acknowledged
DeadLetterOnlyAfterMax ==
  \A id \in Ids : entry[id].status = "dead" => (cfg.maxAttempts > 0 /\ entry[id].attempts >= cfg.maxAttempts)
\* every lease expiry (crashed or overtaken worker) can cost at most one extra attempt
AttemptsNeverExceedMax ==
  \A id \in Ids : cfg.maxAttempts > 0 => entry[id].attempts <= cfg.maxAttempts + entry[id].expired
\* every retry delay lies within the configured limits and follows the exponential schedule
BackoffBounded ==
  \A id \in Ids : entry[id].delay # -1 =>
     /\ cfg.minB <= entry[id].delay /\ entry[id].delay <= EffMaxB(cfg)
     /\ entry[id].delay = Backoff(cfg, entry[id].delayAt)

Settled(id) == \/ entry[id].status = "dead"
               \/ (entry[id].status = "deleted" /\ entry[id].delivered >= 1)
AllSettled == tx.stage = "none" /\ \A id \in Ids : Settled(id)
\* C22, second half (liveness, fair dispatcher): every entry is eventually delivered
\* at least once or dead-lettered
AtLeastOnceOrDead == <>[]AllSettled

TypeOK ==
  /\ \A id \in Ids : /\ entry[id].status \in {"pending", "dead", "deleted"}
                     /\ entry[id].attempts >= entry[id].delivered + entry[id].failed
  /\ \A w \in Workers : fl[w] # NoFl => fl[w].id \in Ids
=============================================================================
