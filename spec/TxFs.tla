-------------------------------- MODULE TxFs --------------------------------
(***************************************************************************)
(* C10 - operations are all-or-nothing across process crashes.             *)
(*                                                                         *)
(* Models ONE mutating API operation of metadatapart exploded into the     *)
(* syscall-level steps of its write transaction, for the filesystem part   *)
(* store publishing files through the TxController hooks:                  *)
(*   internal/storage/database/tx.go           Commit: pre-commit hooks in *)
(*       registration order, SQL COMMIT, finalized, after-commit hooks     *)
(*   internal/storage/metadatapart/partstore/filesystem/filesystem.go      *)
(*       PutPart: CreateTemp ("create"), copy+Close ("write"); pre-commit  *)
(*       hook = rename(final->backup) if final exists ("putpre1"), then    *)
(*       rename(temp->final) ("putpre2"); after-commit hook = remove the   *)
(*       backup ("putafter").  DeletePart: pre-commit rename(final->backup)*)
(*       ("delpre"); after-commit remove(backup) ("delafter").             *)
(*       Start: ensureRootDir only.                                        *)
(*   internal/storage/metadatapart/{object_write,delete,copy,multipart}.go *)
(*       which PutPart / DeletePart calls an operation makes and in which  *)
(*       order (dedupeFreshPart, deleteUnreferencedParts), and             *)
(*   metadatastore/sql (removePartEntities / savePartRows): a part is      *)
(*       physically deleted in the transaction in which its last `parts`   *)
(*       row disappears; the dedup index maps (store, content) to one      *)
(*       shareable part id and loses the entry with the part.              *)
(* Every instruction of the exploded operation is preceded by a hook point *)
(* of /repo (Label): fs.put.tempcreated, fs.put.tempclosed, tx.precommit,  *)
(* fs.put.between, tx.sqlcommit, tx.committed, tx.aftercommit.  A crash    *)
(* (SIGKILL) can happen at every such boundary: volatile state (the hook   *)
(* closures, the open SQL transaction) is lost, files and the committed    *)
(* database stay.  SQLite makes the SQL COMMIT atomic.                     *)
(*                                                                         *)
(* A logical part store is a sequence of directories and a read quorum:    *)
(* plain filesystem store = 1 dir / need 1; erasure coding 2+1 = 3 shard   *)
(* dirs / need 2 (every shard store runs the same hook protocol for the    *)
(* same part id); SQL part store = 0 dirs / need 0 (part bytes live in the *)
(* SQL transaction).                                                       *)
(*                                                                         *)
(* Intended design vs code.  The rename-to-backup of a live part happens   *)
(* BEFORE the SQL commit.  The protocol is crash-safe only with a recovery *)
(* pass at Start that, per store directory, moves a *.txbackup.* file back  *)
(* when the part file itself is gone (either the transaction never         *)
(* committed and the metadata still references the part, or it committed   *)
(* and the restored file is an unreferenced part that garbage collection   *)
(* reclaims - no database access is needed to decide) and removes temp     *)
(* files.  That is the intended design (Deviations = {}).  The code had no *)
(* such pass (filesystemPartStore.Start only created the root directory):  *)
(* named deviation D-C10-delete-window, fixed in /repo by 1e43c2b          *)
(* (recoverInterruptedCommits); conformance now runs with Deviations = {}. *)
(*                                                                         *)
(* Part ids are fresh for every PutPart (partstore.NewRandomPartId at all  *)
(* call sites), so PutPart's rename(final->backup) never finds a file; the *)
(* step is still a crash point.  Buckets are unversioned; uploads keep     *)
(* pairwise distinct part contents (identical parts inside one transaction *)
(* take a registry corner that is irrelevant here).                        *)
(***************************************************************************)
EXTENDS Integers, Sequences, FiniteSets, TLC, SequencesExt

CONSTANTS Deviations,   \* enabled named deviations
          Stack,        \* "fs" | "classes" | "ec21" | "fs-notif"   (harness/stacks; "-notif": the notification
                        \* middleware in front, every mutation nested in its outer transaction)
          Keys,         \* set of key symbols
          Contents,     \* set of blob symbols
          MaxSetup      \* number of un-exploded set-up operations before the exploded one

WindowTag == "D-C10-delete-window"

\* evaluate x once and hand the value to F (TLC re-evaluates LET bodies at every use)
Bind(x, F(_)) == CHOOSE r \in {F(y) : y \in {x}} : TRUE

KeySet == Keys

\* ------------------------------------------------------------ configuration
StoreCfg ==
  CASE Stack \in {"fs", "fs-notif"} -> [main |-> [dirs |-> <<"parts">>, need |-> 1]]
    [] Stack = "classes" -> [main |-> [dirs |-> <<"parts">>, need |-> 1],
                             cold |-> [dirs |-> <<"cold">>, need |-> 1],
                             warm |-> [dirs |-> <<>>, need |-> 0]]
    [] Stack = "ec21"    -> [main |-> [dirs |-> <<"shard0", "shard1", "shard2">>, need |-> 2]]

Classes == IF Stack = "classes" THEN {"STANDARD", "GLACIER", "STANDARD_IA"} ELSE {"STANDARD", "GLACIER"}

StoreOf(class) ==
  IF Stack = "classes"
  THEN CASE class = "GLACIER" -> "cold" [] class = "STANDARD_IA" -> "warm" [] OTHER -> "main"
  ELSE "main"

DirsOf(st) == StoreCfg[st].dirs
Dirs == UNION {{DirsOf(st)[i] : i \in 1..Len(DirsOf(st))} : st \in DOMAIN StoreCfg}

\* ------------------------------------------------------------------ database
\* objs/ups: key -> [class, parts]; an absent object / upload is None.
\* part = [st (logical store), id, c (content)]; dedup: set of [st, c, id].
None == [class |-> "-", parts |-> <<>>]
EmptyDb == [objs |-> [k \in KeySet |-> None], ups |-> [k \in KeySet |-> None], dedup |-> {}, next |-> 1]

Holders(db) == {<<"o", k>> : k \in KeySet} \cup {<<"u", k>> : k \in KeySet}
PartsOf(db, h) == IF h[1] = "o" THEN db.objs[h[2]].parts ELSE db.ups[h[2]].parts
\* number of `parts` rows referencing id
Count(db, id) == Cardinality(UNION {{<<h, i>> : i \in {j \in 1..Len(PartsOf(db, h)) : PartsOf(db, h)[j].id = id}} :
                                     h \in Holders(db)})
Referenced(db, d, id) == \E h \in Holders(db) : \E i \in 1..Len(PartsOf(db, h)) :
                            /\ PartsOf(db, h)[i].id = id
                            /\ \E j \in 1..Len(DirsOf(PartsOf(db, h)[i].st)) : DirsOf(PartsOf(db, h)[i].st)[j] = d

\* ---------------------------------------------------------------- API level
\* An operation o = [op, k, sk, c, class, n].
Op(op, k, sk, c, class, n) == [op |-> op, k |-> k, sk |-> sk, c |-> c, class |-> class, n |-> n]
Ops ==
  {Op("Put", k, "-", c, cl, 0) : k \in KeySet, c \in Contents, cl \in Classes} \cup
  {Op("Delete", k, "-", "-", "-", 0) : k \in KeySet} \cup
  {Op("Copy", k, sk, "-", cl, 0) : k \in KeySet, sk \in KeySet, cl \in Classes} \cup
  {Op("CreateUpload", k, "-", "-", cl, 0) : k \in KeySet, cl \in Classes} \cup
  {Op("UploadPart", k, "-", c, "-", n) : k \in KeySet, c \in Contents, n \in 1..2} \cup
  {Op("Complete", k, "-", "-", "-", 0) : k \in KeySet} \cup
  {Op("Abort", k, "-", "-", "-", 0) : k \in KeySet} \cup
  {Op("Transition", k, "-", "-", cl, 0) : k \in KeySet, cl \in Classes} \cup
  {Op("DeleteAll", "-", "-", "-", "-", 0)}      \* bulk DeleteObjects naming every key, in BulkOrder
BulkOrder == SelectSeq(<<"k1", "k2", "k3">>, LAMBDA k : k \in KeySet)

Enabled(db, o) ==
  CASE o.op = "Put"          -> TRUE
    [] o.op = "Delete"       -> db.objs[o.k] # None
    [] o.op = "Copy"         -> db.objs[o.sk] # None /\ o.sk # o.k
    [] o.op = "CreateUpload" -> db.ups[o.k] = None
    [] o.op = "UploadPart"   -> /\ db.ups[o.k] # None
                                /\ o.n <= Len(db.ups[o.k].parts) + 1
                                /\ \A i \in 1..Len(db.ups[o.k].parts) : i # o.n => db.ups[o.k].parts[i].c # o.c
    [] o.op = "Complete"     -> db.ups[o.k] # None /\ Len(db.ups[o.k].parts) >= 1
    [] o.op = "Abort"        -> db.ups[o.k] # None
    [] o.op = "Transition"   -> db.objs[o.k] # None /\ db.objs[o.k].class # o.class
    [] o.op = "DeleteAll"    -> \E k \in KeySet : db.objs[k] # None

\* set-up macros (never exploded): a complete two-part multipart object, a pending upload with one part
MacroOps ==
  {Op("PutMP", k, "-", "-", cl, 0) : k \in KeySet, cl \in Classes} \cup
  {Op("MkUpload", k, "-", "-", cl, 0) : k \in KeySet, cl \in Classes}
Expand(o) ==
  CASE o.op = "PutMP" -> <<Op("CreateUpload", o.k, "-", "-", o.class, 0), Op("UploadPart", o.k, "-", "c2", "-", 1),
                           Op("UploadPart", o.k, "-", "c3", "-", 2), Op("Complete", o.k, "-", "-", "-", 0)>>
    [] o.op = "MkUpload" -> <<Op("CreateUpload", o.k, "-", "-", o.class, 0), Op("UploadPart", o.k, "-", "c2", "-", 1)>>
    [] OTHER -> <<o>>
ASSUME {"c2", "c3"} \subseteq Contents

Part(st, id, c) == [st |-> st, id |-> id, c |-> c]
Call(t, p) == [t |-> t, st |-> p.st, id |-> p.id, c |-> p.c]

DedupHit(db, st, c) == {e \in db.dedup : e.st = st /\ e.c = c}

\* dedupeFreshPart: the fresh part is written first; on an index hit it is
\* deleted again in the same transaction and the indexed part is shared.
\* Result: [db, part, calls]
FreshOrShared(db, st, c) ==
  LET f   == db.next
      hit == DedupHit(db, st, c)
  IN IF hit # {}
     THEN [db |-> [db EXCEPT !.next = f + 1],
           part |-> Part(st, (CHOOSE e \in hit : TRUE).id, c),
           calls |-> <<Call("put", Part(st, f, c)), Call("del", Part(st, f, c))>>]
     ELSE [db |-> [db EXCEPT !.next = f + 1, !.dedup = @ \cup {[st |-> st, c |-> c, id |-> f]}],
           part |-> Part(st, f, c),
           calls |-> <<Call("put", Part(st, f, c))>>]

\* the parts of `old` (rows already gone from db1) whose reference count dropped to zero:
\* removePartEntities returns them, deleteUnreferencedParts calls DeletePart for each,
\* the dedup index loses their entries.
Finish1(db1, old, calls, zero) ==
  LET \* one DeletePart per distinct id, in first-occurrence order
      idx  == SelectSeq([i \in 1..Len(zero) |-> i], LAMBDA i : \A j \in 1..(i - 1) : zero[j].id # zero[i].id)
      zids == {zero[i].id : i \in 1..Len(zero)}
  IN [post |-> [db1 EXCEPT !.dedup = {e \in @ : e.id \notin zids}],
      body |-> calls \o [n \in 1..Len(idx) |-> Call("del", zero[idx[n]])]]
Finish0(dbx, old, calls) ==
  Bind(dbx, LAMBDA db1 : Bind(SelectSeq(old, LAMBDA p : Count(db1, p.id) = 0),
                              LAMBDA zero : Finish1(db1, old, calls, zero)))

\* Copy / Transition walk the source manifest part by part.
\* acc = [db, parts, calls]
CopyStep(dst, withDedup, acc, p) ==
  IF p.st = dst
  THEN [acc EXCEPT !.parts = Append(@, p)]
  ELSE IF withDedup /\ DedupHit(acc.db, dst, p.c) # {}
  THEN [acc EXCEPT !.parts = Append(@, Part(dst, (CHOOSE e \in DedupHit(acc.db, dst, p.c) : TRUE).id, p.c))]
  ELSE LET f == acc.db.next
       IN [db |-> [acc.db EXCEPT !.next = f + 1,
                                 !.dedup = IF withDedup THEN @ \cup {[st |-> dst, c |-> p.c, id |-> f]} ELSE @],
           parts |-> Append(acc.parts, Part(dst, f, p.c)),
           calls |-> Append(acc.calls, Call("put", Part(dst, f, p.c)))]

\* Apply(db, o) = [post, body]: the database after the operation's transaction and
\* the PutPart / DeletePart calls it makes, in order.
Apply(db, o) ==
  CASE o.op = "Put" ->
         Bind(FreshOrShared(db, StoreOf(o.class), o.c), LAMBDA r :
           Finish0([r.db EXCEPT !.objs[o.k] = [class |-> o.class, parts |-> <<r.part>>]],
                   db.objs[o.k].parts, r.calls))
    [] o.op = "Delete" ->
         Finish0([db EXCEPT !.objs[o.k] = None], db.objs[o.k].parts, <<>>)
    [] o.op = "Copy" ->
         Bind(FoldLeft(LAMBDA acc, p : CopyStep(StoreOf(o.class), TRUE, acc, p),
                       [db |-> db, parts |-> <<>>, calls |-> <<>>], db.objs[o.sk].parts), LAMBDA acc :
           Finish0([acc.db EXCEPT !.objs[o.k] = [class |-> o.class, parts |-> acc.parts]],
                   db.objs[o.k].parts, acc.calls))
    [] o.op = "CreateUpload" ->
         [post |-> [db EXCEPT !.ups[o.k] = [class |-> o.class, parts |-> <<>>]], body |-> <<>>]
    [] o.op = "UploadPart" ->
         Bind(db.ups[o.k], LAMBDA up : Bind(FreshOrShared(db, StoreOf(up.class), o.c), LAMBDA r :
           Finish0([r.db EXCEPT !.ups[o.k].parts = IF o.n <= Len(up.parts) THEN [up.parts EXCEPT ![o.n] = r.part]
                                                   ELSE Append(up.parts, r.part)],
                   IF o.n <= Len(up.parts) THEN <<up.parts[o.n]>> ELSE <<>>, r.calls)))
    [] o.op = "Complete" ->
         Finish0([db EXCEPT !.objs[o.k] = db.ups[o.k], !.ups[o.k] = None], db.objs[o.k].parts, <<>>)
    [] o.op = "Abort" ->
         Finish0([db EXCEPT !.ups[o.k] = None], db.ups[o.k].parts, <<>>)
    [] o.op = "DeleteAll" ->
         \* DeleteObjects: one transaction, the entries one after the other (metadata delete +
         \* deleteUnreferencedParts per entry); a missing key is reported deleted and skipped
         Bind(FoldLeft(LAMBDA acc, k :
                         IF acc.post.objs[k] = None THEN acc
                         ELSE Bind(Finish0([acc.post EXCEPT !.objs[k] = None], acc.post.objs[k].parts, <<>>),
                                   LAMBDA f : [post |-> f.post, body |-> acc.body \o f.body]),
                       [post |-> db, body |-> <<>>], BulkOrder),
              LAMBDA r : r)
    [] o.op = "Transition" ->
         Bind(FoldLeft(LAMBDA acc, p : CopyStep(StoreOf(o.class), FALSE, acc, p),
                       [db |-> db, parts |-> <<>>, calls |-> <<>>], db.objs[o.k].parts), LAMBDA acc :
           Finish0([acc.db EXCEPT !.objs[o.k] = [class |-> o.class, parts |-> acc.parts]],
                   db.objs[o.k].parts, acc.calls))

\* ------------------------------------------------- exploded write transaction
\* instruction = [i, d (directory), id, c]
Ins(i, d, id, c) == [i |-> i, d |-> d, id |-> id, c |-> c]
PerDir(call, kinds) ==   \* for every directory of the call's store, the instructions `kinds` in order
  LET ds == DirsOf(call.st)
  IN FoldLeft(LAMBDA acc, j : acc \o [x \in 1..Len(kinds) |-> Ins(kinds[x], ds[j], call.id, call.c)],
              <<>>, [j \in 1..Len(ds) |-> j])
Concat(calls, F(_)) == FoldLeft(LAMBDA acc, cl : acc \o F(cl), <<>>, calls)

\* PutPart body: every shard's temp file is created before any is closed (erasure
\* coding streams into all shard stores at once); one directory: create, write.
BodyIns(cl)  == IF cl.t = "put" THEN PerDir(cl, <<"create">>) \o PerDir(cl, <<"write">>) ELSE <<>>
PreIns(cl)   == IF cl.t = "put" THEN PerDir(cl, <<"putpre1", "putpre2">>) ELSE PerDir(cl, <<"delpre">>)
AfterIns(cl) == IF cl.t = "put" THEN PerDir(cl, <<"putafter">>) ELSE PerDir(cl, <<"delafter">>)

\* "sql": the rest of the transaction body after the last part file was written (SQL
\* statements of the still uncommitted transaction) - no effect on files or committed data
Program(body) ==
  Concat(body, BodyIns) \o (IF Concat(body, BodyIns) # <<>> THEN <<Ins("sql", "-", 0, "-")>> ELSE <<>>)
    \o Concat(body, PreIns)
    \o <<Ins("commit", "-", 0, "-"), Ins("committed", "-", 0, "-")>> \o Concat(body, AfterIns)
\* With the notification middleware in front (bucket rule s3:ObjectRemoved:*) the operation runs
\* nested in the middleware's transaction: same hooks, same commit; a delete that removed something
\* enqueues outbox rows in that transaction and registers one more after-commit hook (wake the
\* dispatcher), which runs last.
Notifies(db, o) == /\ Stack = "fs-notif"
                   /\ \/ o.op = "Delete"
                      \/ o.op = "DeleteAll"
ProgramOf(db, o, body) == Program(body) \o (IF Notifies(db, o) THEN <<Ins("notify", "-", 0, "-")>> ELSE <<>>)

\* the hook point of /repo passed immediately before instruction j of p
Label(p, j) ==
  LET x == p[j].i
  IN CASE x \in {"putpre1", "delpre"}     -> "tx.precommit"
       [] x = "putpre2"                   -> "fs.put.between"
       [] x = "commit"                    -> "tx.sqlcommit"
       [] x = "committed"                 -> "tx.committed"
       [] x \in {"putafter", "delafter", "notify"}  -> "tx.aftercommit"
       [] OTHER -> IF j = 1 THEN "begin"
                   ELSE IF p[j - 1].i = "create" THEN "fs.put.tempcreated" ELSE "fs.put.tempclosed"
Labels(p) == [j \in 1..Len(p) |-> Label(p, j)]

\* files: dir -> set of [kind ("tmp" | "final" | "bak" (backup made by DeletePart) | "bakp" (by PutPart)), id, c]
File(kind, id, c) == [kind |-> kind, id |-> id, c |-> c]
EmptyDisk == [d \in Dirs |-> {}]
Has(disk, d, kind, id) == \E f \in disk[d] : f.kind = kind /\ f.id = id
Rename(fs, from, to, id) ==    \* rename within one directory; no-op (ENOENT) when absent
  IF \E f \in fs : f.kind = from /\ f.id = id
  THEN {f \in fs : ~(f.id = id /\ f.kind \in {from, to})} \cup
       {File(to, id, f.c) : f \in {g \in fs : g.kind = from /\ g.id = id}}
  ELSE fs

\* one instruction on st = [db, disk]; post = database the SQL COMMIT installs
Exec(st, ins, post) ==
  LET fs == IF ins.d \in Dirs THEN st.disk[ins.d] ELSE {}
      W(nfs) == [st EXCEPT !.disk[ins.d] = nfs]
  IN CASE ins.i = "create"    -> W(fs \cup {File("tmp", ins.id, "partial")})
       [] ins.i = "write"     -> W({f \in fs : ~(f.kind = "tmp" /\ f.id = ins.id)} \cup {File("tmp", ins.id, ins.c)})
       [] ins.i = "putpre1"   -> W(Rename(fs, "final", "bakp", ins.id))
       [] ins.i = "putpre2"   -> W(Rename(fs, "tmp", "final", ins.id))
       [] ins.i = "delpre"    -> W(Rename(fs, "final", "bak", ins.id))
       [] ins.i = "commit"    -> [st EXCEPT !.db = post]
       [] ins.i \in {"committed", "sql", "notify"} -> st
       \* each after-commit hook removes only the backup its own pre-commit hook created
       [] ins.i = "putafter"  -> W({f \in fs : ~(f.kind = "bakp" /\ f.id = ins.id)})
       [] ins.i = "delafter"  -> W({f \in fs : ~(f.kind = "bak" /\ f.id = ins.id)})

\* state after the first n instructions of p
After(st, p, post, n) == FoldLeft(LAMBDA s, ins : Exec(s, ins, post), st, SubSeq(p, 1, n))

\* --------------------------------------------------------- crash and restart
\* Intended design: recovery at Start.  The code: nothing (deviation).
RecoverDir(db, d, fs) ==
  {f \in fs : f.kind # "tmp" /\ ~(f.kind \in {"bak", "bakp"} /\ ~\E h \in fs : h.kind = "final" /\ h.id = f.id)} \cup
  {File("final", f.id, f.c) : f \in {g \in fs : /\ g.kind \in {"bak", "bakp"}
                                                /\ ~\E h \in fs : h.kind = "final" /\ h.id = g.id}}
RestartedD(st, devs) ==
  IF WindowTag \in devs THEN st
  ELSE [st EXCEPT !.disk = [d \in Dirs |-> RecoverDir(st.db, d, st.disk[d])]]
Restarted(st) == RestartedD(st, Deviations)

\* ------------------------------------------------------ what the API shows
ReadPart(disk, p) ==
  LET ds == DirsOf(p.st)
      present == {j \in 1..Len(ds) : File("final", p.id, p.c) \in disk[ds[j]]}
  IN IF Cardinality(present) >= StoreCfg[p.st].need THEN p.c ELSE "unreadable"
\* an object is read as a whole: one unreadable part makes the GET fail
ReadAll(disk, parts) ==
  IF \E i \in 1..Len(parts) : ReadPart(disk, parts[i]) = "unreadable" THEN <<"unreadable">>
  ELSE [i \in 1..Len(parts) |-> parts[i].c]
View(st) == [objs |-> [k \in KeySet |-> ReadAll(st.disk, st.db.objs[k].parts)],
             cls  |-> [k \in KeySet |-> st.db.objs[k].class],
             ups  |-> [k \in KeySet |-> IF st.db.ups[k] = None THEN <<"-">>
                                        ELSE <<"u">> \o [i \in 1..Len(st.db.ups[k].parts) |-> st.db.ups[k].parts[i].c]]]

Readable(v) == \A k \in KeySet : \A i \in 1..Len(v.objs[k]) : v.objs[k][i] # "unreadable"

\* per directory: what a raw listing shows, classified against the database
FileClasses(st) ==
  [d \in Dirs |->
    LET fs == st.disk[d]
        n(S) == Cardinality(S)
        refIds == {id \in 1..st.db.next : Referenced(st.db, d, id)}
    IN [tmp        |-> n({f \in fs : f.kind = "tmp"}),
        bakref     |-> n({f \in fs : f.kind \in {"bak", "bakp"} /\ f.id \in refIds}),
        bakunref   |-> n({f \in fs : f.kind \in {"bak", "bakp"} /\ f.id \notin refIds}),
        finalref   |-> n({f \in fs : f.kind = "final" /\ f.id \in refIds}),
        finalunref |-> n({f \in fs : f.kind = "final" /\ f.id \notin refIds}),
        missing    |-> n({id \in refIds : ~\E f \in fs : f.kind = "final" /\ f.id = id})]]

\* outcome of crashing at boundary j (before instruction j; j = Len(p)+1: after the last)
OutcomeD(st0, p, post, j, devs) ==
  LET v    == View(RestartedD(After(st0, p, post, j - 1), devs))
      pv   == View(st0)
      gv   == View(After(st0, p, post, Len(p)))
  IN IF ~Readable(v) THEN "UNREADABLE"
     ELSE IF v = pv /\ v = gv THEN "pre=post"
     ELSE IF v = pv THEN "pre"
     ELSE IF v = gv THEN "post"
     ELSE "NEITHER"

\* a whole set-up operation / a sequence of them
StepAtomic(s, o) == Bind(Apply(s.db, o), LAMBDA a : Bind(ProgramOf(s.db, o, a.body), LAMBDA p : After(s, p, a.post, Len(p))))
RunSeq(s, ops) == FoldLeft(LAMBDA x, o : StepAtomic(x, o), s, ops)
RECURSIVE SeqEnabled(_, _)
SeqEnabled(s, ops) ==
  IF ops = <<>> THEN TRUE
  ELSE /\ Head(ops) \in Ops
       /\ Enabled(s.db, Head(ops))
       /\ SeqEnabled(StepAtomic(s, Head(ops)), Tail(ops))

\* classification of the exploded operation (coverage of operation kinds); "-mp": it
\* writes or deletes at least two parts
KindBase(db, o, nput, ndel, dd) ==
  CASE o.op = "Put" /\ dd -> "put-dedup"
    [] o.op = "Put" /\ db.objs[o.k] = None -> "put-new"
    [] o.op = "Put" /\ ndel > 0 -> "overwrite"
    [] o.op = "Put" -> "overwrite-shared"
    [] o.op = "Delete" /\ ndel > 0 -> "delete"
    [] o.op = "Delete" -> "delete-shared"
    [] o.op = "Copy" /\ nput > 0 -> "copy-cross"
    [] o.op = "Copy" /\ ndel > 0 -> "copy-shared-overwrite"
    [] o.op = "Copy" -> "copy-shared"
    [] o.op = "Complete" /\ ndel > 0 -> "complete-overwrite"
    [] o.op = "Complete" -> "complete"
    [] o.op = "Abort" /\ ndel > 0 -> "abort"
    [] o.op = "Abort" -> "abort-nofiles"
    [] o.op = "Transition" /\ nput > 0 -> "transition-cross"
    [] o.op = "Transition" -> "transition-shared"
    [] o.op = "UploadPart" /\ dd -> "uploadpart-dedup"
    [] o.op = "UploadPart" /\ ndel > 0 -> "uploadpart-replace"
    [] o.op = "UploadPart" -> "uploadpart"
    [] o.op = "DeleteAll" /\ ndel > 0 -> "bulk-delete"
    [] o.op = "DeleteAll" -> "bulk-delete-shared"
    [] OTHER -> "createupload"
Kind(db, o) ==
  Bind(Apply(db, o).body, LAMBDA b :
    LET nput == Cardinality({i \in 1..Len(b) : b[i].t = "put"})
        ndel == Cardinality({i \in 1..Len(b) : b[i].t = "del"})
        dd   == \E i \in 1..Len(b) : \E j \in 1..Len(b) : b[i].t = "put" /\ b[j].t = "del" /\ b[i].id = b[j].id
    IN KindBase(db, o, nput, ndel, dd) \o (IF nput >= 2 \/ ndel >= 2 THEN "-mp" ELSE ""))

\* ------------------------------------------------------------ state machine
VARIABLES st,      \* [db, disk]: committed database and files
          phase,   \* "idle" | "running" | "done" | "crashed" | "up"
          run,     \* the exploded operation: [p (program), post]
          pc,      \* next instruction of run.p
          nops,    \* set-up operations executed
          pre,     \* View before the exploded operation
          goal     \* View after its crash-free execution
vars == <<st, phase, run, pc, nops, pre, goal>>

NoRun == [p |-> <<>>, post |-> EmptyDb]
NoView == View([db |-> EmptyDb, disk |-> EmptyDisk])

Init == /\ st = [db |-> EmptyDb, disk |-> EmptyDisk]
        /\ phase = "idle" /\ run = NoRun /\ pc = 0 /\ nops = 0
        /\ pre = NoView /\ goal = NoView

\* a set-up operation, executed without a crash
ApiAtomic(o) ==
  /\ phase = "idle" /\ nops < MaxSetup /\ SeqEnabled(st, Expand(o))
  /\ st' = RunSeq(st, Expand(o))
  /\ nops' = nops + 1
  /\ UNCHANGED <<phase, run, pc, pre, goal>>

\* the operation under test starts
Begin(o) ==
  /\ phase = "idle" /\ Enabled(st.db, o)
  /\ \E a \in {Apply(st.db, o)} : \E p \in {ProgramOf(st.db, o, a.body)} :
        /\ run' = [p |-> p, post |-> a.post]
        /\ goal' = View(After(st, p, a.post, Len(p)))
  /\ pre' = View(st)
  /\ phase' = "running" /\ pc' = 1
  /\ UNCHANGED <<st, nops>>

Step ==
  /\ phase = "running" /\ pc <= Len(run.p)
  /\ st' = Exec(st, run.p[pc], run.post)
  /\ pc' = pc + 1
  /\ UNCHANGED <<phase, run, nops, pre, goal>>

Return ==
  /\ phase = "running" /\ pc = Len(run.p) + 1
  /\ phase' = "done" /\ run' = NoRun
  /\ UNCHANGED <<st, pc, nops, pre, goal>>

\* SIGKILL at the boundary before instruction pc
Crash ==
  /\ phase = "running"
  /\ phase' = "crashed" /\ run' = NoRun
  /\ UNCHANGED <<st, pc, nops, pre, goal>>

Restart ==
  /\ phase = "crashed"
  /\ st' = Restarted(st)
  /\ phase' = "up"
  /\ UNCHANGED <<run, pc, nops, pre, goal>>

Next == \/ \E o \in Ops \cup MacroOps : ApiAtomic(o)
        \/ \E o \in Ops : Begin(o)
        \/ Step \/ Return \/ Crash \/ Restart
Spec == Init /\ [][Next]_vars

\* ----------------------------------------------------------------- property
\* C10: after restart every visible object is fully readable ...
VisibleReadable == phase = "up" => Readable(View(st))
\* ... and the interrupted operation is entirely applied or entirely absent
AllOrNothing == phase = "up" => View(st) \in {pre, goal}
\* sanity of the model itself
CleanRun == phase = "done" => /\ View(st) = goal /\ Readable(goal)
                              /\ \A d \in Dirs : \A f \in st.disk[d] : f.kind = "final"
TypeOK == phase \in {"idle", "running", "done", "crashed", "up"}
=============================================================================
