------------------------------ MODULE AeadGen ------------------------------
(* GEN for C16: TLC enumerates every (length class x tamper of the catalogue  *)
(* x read path) combination that is applicable, together with the step        *)
(* alphabet of seek/read scripts.  Lengths, tamper positions and seek targets  *)
(* are SYMBOLIC (relative to the segment layout); the harness concretises them *)
(* with the real constants (css = 131072, header 40, tag 16), the trace spec   *)
(* with the scaled ones.  For a few fixed probe scripts the combination also   *)
(* records which deviation branches the model of the code takes, so that the   *)
(* pipeline can make sure every open finding is re-confirmed by every run.     *)
EXTENDS Aead, Json

LenClasses == {[full |-> 0, extra |-> e] : e \in {0, 1}} \cup {[full |-> f, extra |-> e] : f \in 1..3, e \in {-1, 0, 1}}
LenOf(lc) == ClassLen(lc.full, lc.extra)

Catalogue(L) ==
  {NoTamper}
  \* ("jseg" = segment size + 1: the boundary shift accumulates over the segments, which the scaled constants
  \*  only mirror faithfully for parts of at most two segments; longer parts get the "segsize" tamper)
  \cup {T("flip", u, -1, -1, "first") : u \in ({HeaderUnits[i] : i \in 1..Len(HeaderUnits)} \ {"tsalt2", "tnp2"})
                                              \ (IF NumSeg(L) > 2 THEN {"jseg"} ELSE {})}
  \cup {T("flip", u, j, -1, wh) : u \in {"body", "tag"}, j \in 0..(NumSeg(L) - 1), wh \in {"first", "last"}}
  \cup {T("trunc", u, -1, -1, "-") : u \in {"zero", "len", "afterlen", "json", "afterhdr", "tinkhdr", "aftertink", "lasttag", "tagm1"}}
  \* every proper truncation is an error - also one that leaves exactly the stored size of a shorter valid part
  \* (header + tink header + one tag = the size of an empty part, + 1 byte, + a full first segment, ...)
  \cup {T("trunc", "aslen", lc.full, lc.extra, "-") : lc \in LenClasses}
  \cup {T("trunc", u, j, -1, "-") : u \in {"segstart", "segstart1", "segmid"}, j \in 0..(NumSeg(L) - 1)}
  \cup {T("extend", u, -1, -1, "-") : u \in {"one", "tag", "css"}}
  \cup {T("swap", "-", a, b, "-") : a, b \in 0..(NumSeg(L) - 1)}
  \cup {T(k, "-", a, -1, "-") : k \in {"drop", "dup"}, a \in 0..(NumSeg(L) - 1)}
  \cup {T("crossid", "-", -1, -1, "-"), T("segsize", "-", -1, -1, "grow")}

\* symbolic script steps
SStep(wh, tgt, cnt) == [wh |-> wh, tgt |-> tgt, cnt |-> cnt]
Concrete(ss, L) == [i \in 1..Len(ss) |-> Stp(ss[i].wh, IF ss[i].wh = "none" THEN 0 ELSE Target(ss[i].tgt, L), ss[i].cnt)]
StepsOk(ss, L) == \A i \in 1..Len(ss) : ss[i].wh = "none" \/ Target(ss[i].tgt, L) >= 0
Probes(p) ==
  IF p = "seq" THEN <<<<SStep("none", "-", "all")>>, <<SStep("none", "-", "one"), SStep("none", "-", "all")>>>>
  ELSE <<<<SStep("start", "0", "all")>>,
         <<SStep("start", "len-1", "one")>>,
         <<SStep("end", "len", "all")>>,
         <<SStep("start", "0", "one"), SStep("start", "pss0", "one"), SStep("start", "0", "one")>>,
         <<SStep("start", "pss0", "one"), SStep("start", "pss0+pss", "one"), SStep("start", "pss0", "all")>>>>
ProbeInfo(p, L, t) ==
  LET ps == Probes(p) IN
  [i \in 1..Len(ps) |->
     IF ~StepsOk(ps[i], L) THEN [script |-> ps[i], tags |-> {}, viol |-> FALSE]
     ELSE LET sc == Concrete(ps[i], L)
              e == Exec(p, L, t, sc) IN
          [script |-> ps[i], tags |-> e.tags, viol |-> ~PropC16(t, sc, e.rs)]]

Combos == UNION {{[kind |-> "combo", lc |-> lc, t |-> t, path |-> p, probes |-> ProbeInfo(p, LenOf(lc), t)] :
                    t \in {u \in Catalogue(LenOf(lc)) : Applicable(LenOf(lc), u)}, p \in {"seek", "seq"}} : lc \in LenClasses}
\* SeekEnd offsets are relative to the length the READER derives from the ciphertext size; only the offsets
\* 0, -1 and -len are scale-free classes
EndTargets == {"len", "len-1", "0"}
Alphabet == [kind |-> "alphabet", targets |-> Targets, endtargets |-> EndTargets, whences |-> {"start", "current", "end"},
             counts |-> Counts]

VARIABLE case
GInit == /\ case \in Combos \cup {Alphabet}
         /\ len = 0 /\ tam = Unset /\ path = "-"
GNext == UNCHANGED <<case, len, tam, path>>
Emit == PrintT(ToJson(case))
=============================================================================
