------------------------------ MODULE PithosMC ------------------------------
(* Transition system over Pithos.tla: every enabled API call is a step.      *)
(* Used for exhaustive model checking (design-level properties) and, with   *)
(* the history variable, for program generation (PithosGen).                *)
EXTENDS Pithos

CONSTANTS Deviations, Buckets, Keys, Blobs, CTypes, MetaSets, TagSets, Classes, Conds, CkSums,
          Ops, MaxClock, MaxParts

VARIABLES S, res, hist

vars == <<S, res, hist>>

MetaOf(m) == IF m = None THEN EmptyMeta
             ELSE [sys |-> "s" \o m, user |-> "u" \o m, redir |-> IF m = "1" THEN "r1" ELSE None]

Vids(St) == -1 .. St.nv          \* -1 = no version id; St.nv = an id never handed out
VidsX(St) == 0 .. St.nv
Uids(St) == 1 .. St.nu           \* St.nu = an upload id never handed out

\* The call alphabet in state St.
Calls(St) ==
  [op : {"CreateBucket"} \cap Ops, b : Buckets]
  \cup [op : {"DeleteBucket"} \cap Ops, b : Buckets]
  \cup [op : {"PutVersioning"} \cap Ops, b : Buckets, status : {"Enabled", "Suspended"}]
  \cup [op : {"PutObject"} \cap Ops, b : Buckets, k : Keys, blob : Blobs, ctype : CTypes, meta : MetaSets,
        tags : TagSets, class : Classes, cond : Conds, cksum : CkSums]
  \cup [op : {"GetObject"} \cap Ops, b : Buckets, k : Keys, vid : Vids(St)]
  \cup [op : {"DeleteObject"} \cap Ops, b : Buckets, k : Keys, vid : Vids(St), cond : Conds \ {"inm"}]
  \cup [op : {"CopyObject"} \cap Ops, sb : Buckets, sk : Keys, svid : Vids(St), b : Buckets, k : Keys,
        mdir : {"COPY", "REPLACE"}, tdir : {"COPY", "REPLACE"}, ctype : CTypes, meta : MetaSets,
        tags : TagSets, class : Classes]
  \cup [op : {"AppendObject"} \cap Ops, b : Buckets, k : Keys, blob : Blobs, off : {"none", "match", "mismatch"},
        cksum : CkSums]
  \cup [op : {"CreateUpload"} \cap Ops, b : Buckets, k : Keys, ctype : CTypes, meta : MetaSets, tags : TagSets,
        class : Classes, cktype : {"none", "FULL_OBJECT", "COMPOSITE"}]
  \cup [op : {"UploadPart"} \cap Ops, b : Buckets, k : Keys, u : Uids(St), n : 1..MaxParts, blob : Blobs, cksum : CkSums]
  \cup [op : {"UploadPartCopy"} \cap Ops, sb : Buckets, sk : Keys, svid : Vids(St), b : Buckets, k : Keys,
        u : Uids(St), n : 1..MaxParts]
  \cup [op : {"CompleteUpload"} \cap Ops, b : Buckets, k : Keys, u : Uids(St),
        manifest : {"none", "all", "missing", "reversed", "badetag", "extra"}, cond : Conds,
        cksum : CkSums \cap {"none", "md5bad"}]
  \cup [op : {"AbortUpload"} \cap Ops, b : Buckets, k : Keys, u : Uids(St)]
  \cup [op : {"PutTagging"} \cap Ops, b : Buckets, k : Keys, vid : Vids(St), tags : TagSets]
  \cup [op : {"Transition"} \cap Ops, b : Buckets, k : Keys, vid : Vids(St), class : Classes \ {None},
        cond : {"none", "ifm-cur", "ifm-stale"}]

Apply(St, c) ==
  CASE c.op = "CreateBucket"   -> CreateBucket(St, c.b)
    [] c.op = "DeleteBucket"   -> DeleteBucket(St, c.b)
    [] c.op = "PutVersioning"  -> PutVersioning(St, c.b, c.status)
    [] c.op = "PutObject"      -> PutObject(St, c.b, c.k, c.blob, c.ctype, MetaOf(c.meta), c.tags, c.class, c.cond, c.cksum)
    [] c.op = "GetObject"      -> GetObject(St, c.b, c.k, c.vid)
    [] c.op = "DeleteObject"   -> DeleteObject(St, c.b, c.k, c.vid, c.cond)
    [] c.op = "CopyObject"     -> CopyObject(St, c.sb, c.sk, c.svid, c.b, c.k, c.mdir, c.tdir, c.ctype,
                                             MetaOf(c.meta), c.tags, c.class)
    [] c.op = "AppendObject"   -> AppendObject(St, c.b, c.k, c.blob, c.off, c.cksum)
    [] c.op = "CreateUpload"   -> CreateUpload(St, c.b, c.k, c.ctype, MetaOf(c.meta), c.tags, c.class, c.cktype)
    [] c.op = "UploadPart"     -> UploadPart(St, c.b, c.k, c.u, c.n, c.blob, c.cksum)
    [] c.op = "UploadPartCopy" -> UploadPartCopy(St, c.sb, c.sk, c.svid, c.b, c.k, c.u, c.n)
    [] c.op = "CompleteUpload" -> CompleteUpload(St, c.b, c.k, c.u, c.manifest, c.cond, c.cksum)
    [] c.op = "AbortUpload"    -> AbortUpload(St, c.b, c.k, c.u)
    [] c.op = "PutTagging"     -> PutTagging(St, c.b, c.k, c.vid, c.tags)
    [] c.op = "Transition"     -> Transition(St, c.b, c.k, c.vid, c.class, c.cond)

\* A call TAKES deviation t in state St iff the model with only t enabled answers differently
\* from the intended model (dev = {}).  By construction of the deviations this is exactly a
\* step at which the code breaks the property the tag belongs to.
Strip(St) == [St EXCEPT !.dev = {}]
TakenAt(St, c) ==
  {t \in St.dev : LET i == Apply(Strip(St), c)
                      d == Apply([St EXCEPT !.dev = {t}], c)
                  IN d.r # i.r \/ Strip(d.s) # Strip(i.s)}

Init == S = InitState(Buckets, Keys, Deviations) /\ res = NoRes /\ hist = <<>>

Step(c) == /\ S' = Apply(S, c).s
           /\ res' = Apply(S, c).r
           /\ hist' = Append(hist, c)

Next == S.clock < MaxClock /\ \E c \in Calls(S) : Step(c)

Spec == Init /\ [][Next]_vars

\* ------------------------------------------------------------ properties
MCStoreOf(class) == CASE class = "GLACIER" -> "cold" [] class = "STANDARD_IA" -> "warm" [] OTHER -> "default"
Sane == StateOK(S) /\ PlacedByClass(S, MCStoreOf)

\* C03 (validation errors): a call that returns an error changes nothing.
FailedOpIsStutter == [][res'.err # "" => S' = S]_vars

\* C13: an existing version never changes, except the null version rewritten by
\* an unversioned/suspended write or append.  Tags and the class label are not part of the
\* immutable content (content, structure/ETag, write stamp).
Frozen(v) == [parts |-> v.parts, single |-> v.single, wseq |-> v.wseq, dm |-> v.dm]
VersionImmutable ==
  [][\A b \in Buckets : \A k \in Keys :
       \A i \in 1..Len(S.objs[b][k]) : \A j \in 1..Len(S'.objs[b][k]) :
          (S.objs[b][k][i].vid = S'.objs[b][k][j].vid /\ S.objs[b][k][i].vid # 0)
             => Frozen(S.objs[b][k][i]) = Frozen(S'.objs[b][k][j])]_vars

\* C02: suspended-state writes and key-only deletes replace only the null version:
\* every non-null version present before the call is still there, unchanged.
LastOp == hist'[Len(hist')]
KeyLevelWrite ==
  /\ hist' # hist
  /\ \/ LastOp.op \in {"PutObject", "AppendObject", "CopyObject", "CompleteUpload"}
     \/ (LastOp.op = "DeleteObject" /\ LastOp.vid = -1)
SuspendedTouchesOnlyNull ==
  [][\A b \in Buckets :
       (S.bver[b] = "Suspended" /\ KeyLevelWrite) =>
         \A k \in Keys : \A i \in 1..Len(S.objs[b][k]) :
            S.objs[b][k][i].vid # 0 =>
              \E j \in 1..Len(S'.objs[b][k]) :
                 /\ S'.objs[b][k][j].vid = S.objs[b][k][i].vid
                 /\ Frozen(S'.objs[b][k][j]) = Frozen(S.objs[b][k][i])]_vars

\* C01: bucket deletion succeeds only for empty buckets
DeleteOnlyEmpty ==
  [][(hist' # hist /\ LastOp.op = "DeleteBucket" /\ res'.err = "") => BucketEmpty(S, LastOp.b)]_vars

View == S
=============================================================================
