----------------------------- MODULE AuditLogGen -----------------------------
(* GEN: TLC prints every case as JSON; harness/cmd/auditlog executes them on the real code.
   Init (cfg AuditLog.GenTamper)  - the tamper cases of AuditLogTamper (C27)
   InitRT (cfg AuditLog.GenRT)    - the serializer round-trip cases (C27)
   InitCalls (cfg AuditLog.GenCalls) - every storage.Storage method x {succeeds, fails}: the call
                                    kinds the C26 workload cycles through *)
EXTENDS AuditLogTamper, Json
Emit == PrintT(ToJson(case))
InitRT == Logs /\ case \in {c \in RTCases : RTCaseOK(c)}
InitCalls == Logs /\ case \in [m : StorageMethods, fail : BOOLEAN]
=============================================================================
