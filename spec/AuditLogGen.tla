----------------------------- MODULE AuditLogGen -----------------------------
(* GEN: TLC prints every case as JSON; harness/cmd/auditlog executes them on the real code.
   Init   (cfg AuditLog.GenTamper) - the tamper cases of AuditLogTamper (C27); the same run
                                     model-checks the design (every case detected)
   InitRT (cfg AuditLog.GenRT)     - the serializer round-trip cases (C27) *)
EXTENDS AuditLogTamper, Json
Emit == PrintT(ToJson(case))
InitRT == Logs /\ case \in {c \in RTCases : RTCaseOK(c)}
=============================================================================
