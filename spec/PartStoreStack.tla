--------------------------- MODULE PartStoreStack ---------------------------
(***************************************************************************)
(* C15 - every part store returns exactly the bytes it was given.          *)
(*                                                                         *)
(* Models the partstore.PartStore contract (partstore/partstore.go) over   *)
(* every composition of part stores, one layer function per Go type:       *)
(*   fs      filesystem/filesystem.go   PutPart/GetPart/GetPartIds/Delete  *)
(*           (tx: temp file + pre-commit rename = staged until Commit;     *)
(*            nil tx: immediate; reads always see the published files)     *)
(*   sql     sql/sql.go                 rows in the caller's SQL tx        *)
(*           (read-your-writes inside the tx, no tx-free operation)        *)
(*   outbox  outbox/outbox.go           PutPart/DeletePart = entry in the  *)
(*           caller's tx; GetPart/GetPartIds = last entry wins, else the   *)
(*           inner store; maybeProcessOutboxEntries = Drain                *)
(*   cache   cache/cache.go             read-through cache, written by     *)
(*           after-commit hooks (tx) or immediately (nil tx), filled on a  *)
(*           miss                                                          *)
(*   ec      middlewares/erasurecoding  transparent (2+1 shards) except    *)
(*           for the named deviation below                                 *)
(*   gzip, zstd, tink                   byte codecs: transparent here, they*)
(*           only contribute size boundaries (their byte fidelity is what  *)
(*           the conformance run establishes per size/content class)       *)
(* Transactions follow database/tx.go: pre-commit hooks, SQL commit,       *)
(* after-commit hooks = CommitAll; Rollback = RollbackAll.                 *)
(*                                                                         *)
(* The PROPERTY is stated against an ideal store (ideal/istaged): tx-free  *)
(* writes take effect at once, transactional writes at Commit, never on    *)
(* Rollback; a read must return the ideal content (inside a transaction    *)
(* that wrote the id itself: the committed or the pending content).        *)
(***************************************************************************)
EXTENDS Integers, Sequences, FiniteSets, TLC

CONSTANTS Deviations,   \* open deviation tags = model of what the code is known to do; {} = intended design
          MaxLen,       \* number of operations per behaviour (MC bound / GEN program length)
          MCLayers      \* MC: semantic stacks of up to MCLayers layers (4 = all 32 of them)

None    == "none"
Empty   == "empty"      \* zero bytes delivered without error although no such part exists (EC deviation only)
PartIds == {"p", "q"}
Blobs   == {"b1", "b2"}

EcTag    == "D-C15-ec-missing-part-reads-empty"
CacheTag == "D-C15-cache-fill-uncommitted"
EcDev    == EcTag \in Deviations
CacheDev == CacheTag \in Deviations

--------------------------------------------------------------------------
\* composition grammar   Stack ::= Base | Mw(Stack)    (top layer first, base last)
Bases == {"fs", "sql"}
Mws   == {"gzip", "zstd", "tink", "ec", "cachemem", "cachefs", "outbox"}
Kind(l) == CASE l \in {"gzip", "zstd"} -> "compression"
             [] l \in {"cachemem", "cachefs"} -> "cache"
             [] OTHER -> l
SemKinds == {"cache", "outbox", "ec", "fs", "sql"}
IsStack(s) == /\ Len(s) >= 1
              /\ s[Len(s)] \in Bases
              /\ \A i \in 1..(Len(s) - 1) : s[i] \in Mws
              /\ \A i, j \in 1..Len(s) : i # j => Kind(s[i]) # Kind(s[j])   \* one middleware of each kind
Stacks(d) == UNION {{s \in [1..n -> Mws \cup Bases] : IsStack(s)} : n \in 1..d}
\* the layers that matter for visibility (codecs erased)
Sem(s) == LET t == SelectSeq(s, LAMBDA x : Kind(x) \in SemKinds) IN [i \in 1..Len(t) |-> Kind(t[i])]
SemStacks == {Sem(s) : s \in Stacks(MCLayers)}
Has(sm, k) == \E i \in 1..Len(sm) : sm[i] = k
Pos(sm, k) == CHOOSE i \in 1..Len(sm) : sm[i] = k

\* partstore.Capabilities: which operations may be called with a nil transaction
RECURSIVE Caps(_, _)
Caps(sm, i) == CASE sm[i] = "fs"     -> {"get", "put", "del"}
                 [] sm[i] = "sql"    -> {}
                 [] sm[i] = "outbox" -> Caps(sm, i + 1) \cap {"get"}
                 [] OTHER            -> Caps(sm, i + 1)

\* ---- size boundaries present in a stack (concrete configuration = Params)
CompSample  == 65536                 \* compression sampleSizeBytes (the default, set explicitly)
CompMin     == 1024                  \* compression minCompressSize
CompHdr     == 32                    \* compression headerSize
TinkCss     == 131072                \* tink.DefaultSegmentSize (ciphertext segment)
TinkSeg0    == TinkCss - 40 - 16     \* plaintext bytes in the first segment (tink header 40, tag 16)
TinkSeg     == TinkCss - 16
EcBlock     == 4096
EcStripe    == 2 * EcBlock           \* dataShards x streamBlockSize
CacheMax    == 100000                \* cache maxPartSizeBytes
HashBlock   == 262144
OutboxChunk == 8388608
Params == [compsample |-> CompSample, tinkcss |-> TinkCss, ecdata |-> 2, ecparity |-> 1, ecblock |-> EcBlock,
           cachemax |-> CacheMax, b2size |-> 5]
HasKind(s, k) == \E i \in 1..Len(s) : Kind(s[i]) = k
\* [n]ame, [v]alue and owning [l]ayer kind of every size boundary present in stack s
Boundaries(s, big) ==
  {[n |-> "hashblock", v |-> HashBlock, l |-> "any"]}
  \cup (IF HasKind(s, "compression") THEN {[n |-> "comphdr", v |-> CompHdr, l |-> "compression"],
                                           [n |-> "compmin", v |-> CompMin, l |-> "compression"],
                                           [n |-> "compsample", v |-> CompSample, l |-> "compression"]} ELSE {})
  \cup (IF HasKind(s, "tink") THEN {[n |-> "tinkseg1", v |-> TinkSeg0, l |-> "tink"],
                                    [n |-> "tinkseg2", v |-> TinkSeg0 + TinkSeg, l |-> "tink"]} ELSE {})
  \cup (IF HasKind(s, "ec") THEN {[n |-> "ecstripe1", v |-> EcStripe, l |-> "ec"], [n |-> "ecstripe2", v |-> 2 * EcStripe, l |-> "ec"]} ELSE {})
  \cup (IF HasKind(s, "cache") THEN {[n |-> "cachemax", v |-> CacheMax, l |-> "cache"]} ELSE {})
  \cup (IF HasKind(s, "outbox") /\ big THEN {[n |-> "outboxchunk", v |-> OutboxChunk, l |-> "outbox"]} ELSE {})
Tiny == {[b |-> "zero", d |-> 0, size |-> 0], [b |-> "one", d |-> 0, size |-> 1]}
SizeClassesOf(bs) == {[b |-> x.n, d |-> d, size |-> x.v + d] : x \in bs, d \in {-1, 0, 1}}
SizeClasses(s, big) == Tiny \cup SizeClassesOf(Boundaries(s, big))
\* content classes.  A part store returns exactly the bytes it was given WHATEVER THEY LOOK LIKE: besides
\* compressible / incompressible / repeating content, every layer that frames its stored data in-band (compression
\* header, encryption part header + tink header, erasure-coding shard + frame header) is given content that BEGINS
\* WITH a valid header of that very layer (the harness takes it from what the real layer writes), at the sizes
\* around that layer's own thresholds.  (cache, outbox, fs and sql have no in-band framing.)
Contents == {"zeros", "random", "repeat"}
LikeOf(l) == CASE l = "gzip" -> {[c |-> "like-comp-none", l |-> "compression"], [c |-> "like-comp-gzip", l |-> "compression"]}
               [] l = "zstd" -> {[c |-> "like-comp-none", l |-> "compression"], [c |-> "like-comp-zstd", l |-> "compression"]}
               [] l = "tink" -> {[c |-> "like-tink", l |-> "tink"]}
               [] l = "ec"   -> {[c |-> "like-ec", l |-> "ec"]}
               [] OTHER      -> {}
LikeContents(s) == UNION {LikeOf(s[i]) : i \in 1..Len(s)}
CaseRec(s, c, k) == [stack |-> s, sem |-> Sem(s), sc |-> c.b, d |-> c.d, size |-> c.size, content |-> k,
                     big |-> (c.size > CacheMax), params |-> Params]
StaticCases(depth, big) ==
  UNION {{CaseRec(s, c, k) : c \in SizeClasses(s, big), k \in Contents}
         \cup UNION {{CaseRec(s, c, lk.c) : c \in Tiny \cup SizeClassesOf({x \in Boundaries(s, big) : x.l = lk.l})} :
                      lk \in LikeContents(s)} :
         s \in Stacks(depth)}

--------------------------------------------------------------------------
\* model state (one record so that MC, GEN and TV share the transition function)
NoRes == [kind |-> "none", v |-> None, ids |-> {}]
AllNone == [i \in PartIds |-> None]
InitState(sm, big) ==
  [sem |-> sm, big |-> big,
   m |-> AllNone, staged |-> <<>>,          \* base store: published content, writes staged in the open tx
   cache |-> AllNone, cstaged |-> <<>>,     \* cache content, after-commit cache updates of the open tx
   ob |-> <<>>, pob |-> <<>>,               \* committed outbox entries, entries of the open tx
   tx |-> "none",                           \* "none" | "rw" | "ro"
   ideal |-> AllNone, istaged |-> <<>>,     \* the property's reference store
   zombie |-> {}, taint |-> {},             \* deviation bookkeeping
   res |-> NoRes, ok |-> TRUE, tags |-> {}]

RECURSIVE ApplyW(_, _)
ApplyW(ws, f) == IF ws = <<>> THEN f ELSE ApplyW(Tail(ws), [f EXCEPT ![Head(ws).id] = Head(ws).v])
RECURSIVE LastEntry(_, _)
LastEntry(es, id) == IF es = <<>> THEN "absent"
                     ELSE IF es[Len(es)].id = id THEN es[Len(es)].v
                     ELSE LastEntry(SubSeq(es, 1, Len(es) - 1), id)
IdsOf(ws) == {ws[k].id : k \in 1..Len(ws)}
Cacheable(s, v) == v # "b1" \/ ~s.big       \* b1 may exceed maxPartSizeBytes; b2 (5 bytes) and Empty never do

\* ---- PutPart (v = blob) / DeletePart (v = None) through layer i
RECURSIVE WriteL(_, _, _, _, _)
WriteL(s, i, mode, id, v) ==
  LET k == s.sem[i]
      w == [id |-> id, v |-> v] IN
  CASE k = "fs"     -> IF mode = "nil" THEN [s EXCEPT !.m[id] = v] ELSE [s EXCEPT !.staged = Append(@, w)]
    [] k = "sql"    -> [s EXCEPT !.staged = Append(@, w)]
    [] k = "outbox" -> [s EXCEPT !.pob = Append(@, w)]
    [] k = "ec"     -> WriteL(s, i + 1, mode, id, v)
    [] k = "cache"  -> LET s1 == WriteL(s, i + 1, mode, id, v)
                           cv == IF v # None /\ Cacheable(s, v) THEN v ELSE None IN
                       IF mode = "nil" THEN [s1 EXCEPT !.cache[id] = cv, !.taint = @ \ {id}]
                       ELSE [s1 EXCEPT !.cstaged = Append(@, [id |-> id, v |-> cv])]

\* ---- GetPart through layer i: [v, s, t] = content or None, new state (cache fill), deviation tags taken
RECURSIVE GetL(_, _, _, _)
GetL(s, i, mode, id) ==
  LET k == s.sem[i] IN
  \* (via = the branches taken, used by GEN to spread the generated programs over the branch structure)
  CASE k = "fs"     -> [v |-> s.m[id], s |-> s, t |-> {}, via |-> <<IF s.m[id] = None THEN "fs-miss" ELSE "fs-hit">>]
    [] k = "sql"    -> [v |-> ApplyW(s.staged, s.m)[id], s |-> s, t |-> {},
                        via |-> <<IF id \in IdsOf(s.staged) THEN "sql-pending"
                                  ELSE IF s.m[id] = None THEN "sql-miss" ELSE "sql-hit">>]
    [] k = "outbox" -> LET le == LastEntry(IF mode = "tx" THEN s.ob \o s.pob ELSE s.ob, id) IN
                       IF le = "absent"
                       THEN LET r == GetL(s, i + 1, mode, id) IN [r EXCEPT !.via = <<"ob-pass">> \o @]
                       ELSE [v |-> le, s |-> s, t |-> {},
                             via |-> <<IF le = None THEN "ob-del" ELSE IF LastEntry(s.ob, id) = le THEN "ob-put" ELSE "ob-put-pending",
                                       IF GetL(s, i + 1, mode, id).v = None THEN "inner-absent" ELSE "inner-present">>]
    [] k = "ec"     -> LET r == GetL(s, i + 1, mode, id) IN
                       \* openPartReaders treats "no shard has the part" as "all shards need healing":
                       \* the read delivers zero bytes and re-creates header-only shards
                       \* (healing calls PutPart with the reader's tx: with a nil tx and an outbox shard store
                       \*  below, that PutPart dereferences the nil tx and the process dies - "CRASH")
                       IF r.v = None /\ EcDev
                       THEN [v |-> Empty, s |-> [r.s EXCEPT !.zombie = @ \cup {id}], via |-> <<"ec-heal-missing">> \o r.via,
                             t |-> r.t \cup {EcTag} \cup (IF mode = "nil" /\ \E k2 \in (i + 1)..Len(s.sem) : s.sem[k2] = "outbox"
                                                         THEN {"CRASH"} ELSE {})]
                       ELSE r
    [] k = "cache"  -> IF s.cache[id] # None
                       THEN [v |-> s.cache[id], s |-> s, via |-> <<"cache-hit">>,
                             t |-> (IF id \in s.taint THEN {CacheTag} ELSE {}) \cup (IF s.cache[id] = Empty THEN {EcTag} ELSE {})]
                       ELSE LET r == GetL(s, i + 1, mode, id)
                                uncommitted == mode = "tx" /\ s.tx = "rw" IN
                            \* intended: a cache only ever holds committed content; the code fills on every miss
                            IF r.v # None /\ Cacheable(s, r.v) /\ (CacheDev \/ ~uncommitted)
                            THEN [v |-> r.v, t |-> r.t, via |-> <<"cache-fill">> \o r.via,
                                  s |-> [r.s EXCEPT !.cache[id] = r.v,
                                                    !.taint = IF uncommitted THEN @ \cup {id} ELSE @ \ {id}]]
                            ELSE [r EXCEPT !.via = <<"cache-miss">> \o @]

\* ---- GetPartIds through layer i
RECURSIVE IdsL(_, _, _)
IdsL(s, i, mode) ==
  LET k == s.sem[i] IN
  CASE k = "fs"     -> {id \in PartIds : s.m[id] # None}
    [] k = "sql"    -> {id \in PartIds : ApplyW(s.staged, s.m)[id] # None}
    [] k = "outbox" -> LET inner == IdsL(s, i + 1, mode)
                           es == IF mode = "tx" THEN s.ob \o s.pob ELSE s.ob IN
                       {id \in PartIds : LET le == LastEntry(es, id) IN IF le = "absent" THEN id \in inner ELSE le # None}
    [] OTHER        -> IdsL(s, i + 1, mode)

\* ---- database/tx.go Commit / Rollback of the open transaction (all layers)
CommitAll(s) ==
  [s EXCEPT !.m = ApplyW(s.staged, s.m), !.staged = <<>>,
            !.ob = s.ob \o s.pob, !.pob = <<>>,
            !.cache = ApplyW(s.cstaged, s.cache), !.cstaged = <<>>, !.taint = @ \ IdsOf(s.cstaged),
            !.ideal = ApplyW(s.istaged, s.ideal), !.istaged = <<>>,
            !.tx = "none"]
RollbackAll(s) == [s EXCEPT !.staged = <<>>, !.pob = <<>>, !.cstaged = <<>>, !.istaged = <<>>, !.tx = "none"]

\* ---- outbox worker: maybeProcessOutboxEntries replays every committed entry, oldest first
RECURSIVE Replay(_, _, _)
Replay(s, j, es) ==
  IF es = <<>> THEN s
  ELSE LET e == Head(es)
           need == IF e.v = None THEN "del" ELSE "put"
           s1 == IF need \in Caps(s.sem, j + 1)
                 THEN WriteL(s, j + 1, "nil", e.id, e.v)                                 \* replayed without a tx
                 ELSE CommitAll(WriteL([s EXCEPT !.tx = "rw"], j + 1, "tx", e.id, e.v))   \* own write tx
       IN Replay(s1, j, Tail(es))
DrainS(s) == [Replay(s, Pos(s.sem, "outbox"), s.ob) EXCEPT !.ob = <<>>]

--------------------------------------------------------------------------
\* operations of the PartStore API as issued by a caller
\* mode: "nil" = nil tx, "tx" = inside the caller's open transaction, "auto" = database.WithTx around the single call
Modes == {"nil", "tx", "auto"}
OpRec(op, mode, id, blob, ro) == [op |-> op, mode |-> mode, id |-> id, blob |-> blob, ro |-> ro]
AllOps ==
  {OpRec("begin", "-", "-", "-", ro) : ro \in BOOLEAN}
  \cup {OpRec(o, "-", "-", "-", FALSE) : o \in {"commit", "rollback", "drain"}}
  \cup {OpRec("put", md, id, b, FALSE) : md \in Modes, id \in PartIds, b \in Blobs}
  \cup {OpRec(o, md, id, "-", FALSE) : o \in {"del", "get"}, md \in Modes, id \in PartIds}
  \cup {OpRec("ids", md, "-", "-", FALSE) : md \in {"tx", "auto"}}

Enabled(s, o) ==
  CASE o.op = "begin"                  -> s.tx = "none"
    [] o.op \in {"commit", "rollback"} -> s.tx # "none"
    [] o.op = "drain"                  -> s.tx = "none" /\ Has(s.sem, "outbox")
    [] o.op \in {"put", "del"}         -> CASE o.mode = "nil"  -> o.op \in Caps(s.sem, 1)
                                            [] o.mode = "tx"   -> s.tx = "rw"
                                            [] o.mode = "auto" -> s.tx = "none"
                                            [] OTHER -> FALSE
    [] o.op = "get"                    -> CASE o.mode = "nil"  -> "get" \in Caps(s.sem, 1)
                                            [] o.mode = "tx"   -> s.tx # "none"
                                            [] o.mode = "auto" -> s.tx = "none"
                                            [] OTHER -> FALSE
    [] o.op = "ids"                    -> CASE o.mode = "tx"   -> s.tx # "none"
                                            [] o.mode = "auto" -> s.tx = "none"
                                            [] OTHER -> FALSE
    [] OTHER -> FALSE

\* ---- the property: what the ideal store allows a read to return
WrittenInTx(s, mode) == IF mode = "tx" THEN IdsOf(s.istaged) ELSE {}
AllowedGet(s, mode, id) ==
  IF id \in WrittenInTx(s, mode) THEN {s.ideal[id], ApplyW(s.istaged, s.ideal)[id]} ELSE {s.ideal[id]}
IdsOk(s, mode, L) ==
  \A id \in PartIds :
    LET a == s.ideal[id] # None
        b == ApplyW(s.istaged, s.ideal)[id] # None IN
    IF id \in WrittenInTx(s, mode) THEN (a = b) => ((id \in L) = a) ELSE (id \in L) = a

DoWrite(s, mode, id, v) ==
  LET s1 == WriteL(s, 1, mode, id, v) IN
  IF mode = "nil" THEN [s1 EXCEPT !.ideal[id] = v] ELSE [s1 EXCEPT !.istaged = Append(@, [id |-> id, v |-> v])]
DoGet(s, mode, id) ==
  LET r == GetL(s, 1, mode, id) IN
  [r.s EXCEPT !.res = [kind |-> "get", v |-> r.v, ids |-> {}], !.ok = r.v \in AllowedGet(s, mode, id), !.tags = r.t]
DoIds(s, mode) ==
  LET L == IdsL(s, 1, mode) IN
  [s EXCEPT !.res = [kind |-> "ids", v |-> None, ids |-> L], !.ok = IdsOk(s, mode, L)]

Step(s0, o) ==
  LET s == [s0 EXCEPT !.res = NoRes, !.ok = TRUE, !.tags = {}] IN
  CASE o.op = "begin"    -> [s EXCEPT !.tx = IF o.ro THEN "ro" ELSE "rw"]
    [] o.op = "commit"   -> CommitAll(s)
    [] o.op = "rollback" -> RollbackAll(s)
    [] o.op = "drain"    -> DrainS(s)
    [] o.op \in {"put", "del"} ->
         LET v == IF o.op = "put" THEN o.blob ELSE None IN
         IF o.mode = "auto" THEN CommitAll(DoWrite([s EXCEPT !.tx = "rw"], "tx", o.id, v))
         ELSE DoWrite(s, o.mode, o.id, v)
    [] o.op = "get" -> IF o.mode = "auto" THEN CommitAll(DoGet([s EXCEPT !.tx = "ro"], "tx", o.id))
                       ELSE DoGet(s, o.mode, o.id)
    [] o.op = "ids" -> IF o.mode = "auto" THEN CommitAll(DoIds([s EXCEPT !.tx = "ro"], "tx"))
                       ELSE DoIds(s, o.mode)

--------------------------------------------------------------------------
\* exhaustive model checking of the design (Deviations = {}): every read of every
\* behaviour of every composition returns what the ideal store allows
VARIABLES st, n
vars == <<st, n>>
Init == /\ \E sm \in SemStacks, big \in BOOLEAN : (big => Has(sm, "cache")) /\ st = InitState(sm, big)
        /\ n = 0
Next == /\ n < MaxLen
        /\ \E o \in AllOps : Enabled(st, o) /\ st' = Step(st, o)
        /\ n' = n + 1
Spec == Init /\ [][Next]_vars
PropC15 == st.ok
\* the abstract bookkeeping is consistent: nothing is staged outside a transaction
Sane == st.tx = "none" => (st.staged = <<>> /\ st.pob = <<>> /\ st.cstaged = <<>> /\ st.istaged = <<>>)
=============================================================================
