----------------------------- MODULE ListingGen -----------------------------
(* GEN: TLC decodes every code (a kind plus 64 naturals chosen by the seeded   *)
(* pipeline) into one Listing case and prints it as JSON; the harness executes *)
(* the cases on the real code.  The decoding is biased towards what C06 is     *)
(* about: most keys start with a variant of the requested prefix that SQL LIKE *)
(* would also accept ('%' / '_' instantiated, letter case flipped), followed   *)
(* by a tail over a three-symbol alphabet that contains the delimiter, so      *)
(* common prefixes with several members and keys around them are frequent.     *)
EXTENDS Listing, Json, IOUtils

Codes == ndJsonDeserialize(IOEnv.CODES_FILE)     \* lines {"kind": .., "x": [64 naturals]}

PickS(s, n) == s[(n % Len(s)) + 1]
SymOf(n) == (n % 6) + 1

GenPrefix(x) == LET pl == PickS(<<0, 0, 1, 1, 1, 2, 2, 2>>, x[1]) IN [i \in 1..pl |-> SymOf(x[1 + i])]
GenDelim(x)  == PickS(<< <<>>, <<SLASH>>, <<SLASH>>, <<LOA>> >>, x[4])
GenMax(x)    == PickS(<<1, 1, 2, 2, 3, 4, 7>>, x[5])
TailSyms(x, dl) == << IF Len(dl) > 0 THEN dl[1] ELSE SymOf(x[6]), SymOf(x[7]), SymOf(x[8]) >>

Variant(s, n) ==
  CASE s = PCT -> PickS(<< <<PCT>>, <<PCT>>, <<>>, <<SymOf(n \div 8)>>, <<SymOf(n \div 8), SymOf(n \div 64)>> >>, n)
    [] s = USC -> PickS(<< <<USC>>, <<USC>>, <<SymOf(n \div 8)>> >>, n)
    [] s = UPA -> PickS(<< <<UPA>>, <<UPA>>, <<LOA>> >>, n)
    [] s = LOA -> PickS(<< <<LOA>>, <<LOA>>, <<UPA>> >>, n)
    [] OTHER -> <<s>>
GenHead(p, n1, n2) == (IF Len(p) >= 1 THEN Variant(p[1], n1) ELSE <<>>)
                      \o (IF Len(p) >= 2 THEN Variant(p[2], n2) ELSE <<>>)
GenTail(ts, n) == LET tl == PickS(<<0, 1, 1, 2, 2, 2, 3, 3>>, n)
                  IN [i \in 1..tl |-> ts[((n \div (8 * 3 ^ (i - 1))) % 3) + 1]]
GenFree(n) == LET fl == PickS(<<1, 2, 2, 3>>, n) IN [i \in 1..fl |-> SymOf(n \div (4 * 6 ^ (i - 1)))]
GenKey(x, j, p, ts) ==
  LET b == 10 + 4 * (j - 1)
      k == IF x[b] % 8 = 0 THEN GenFree(x[b + 1]) ELSE GenHead(p, x[b + 1], x[b + 2]) \o GenTail(ts, x[b + 3])
  IN IF Len(k) = 0 THEN <<ts[1]>> ELSE k
GenKeys(x, nk, p, ts) == Dedup([j \in 1..nk |-> GenKey(x, j, p, ts)])

Decode(code, id) ==
  LET x == code.x
      p == GenPrefix(x)
      dl == GenDelim(x)
      ts == TailSyms(x, dl)
      base == [Blank EXCEPT !.kind = code.kind, !.prefix = p, !.delim = dl, !.max = GenMax(x)]
  IN [id |-> id] @@
     CASE code.kind = "objects" ->
            [base EXCEPT !.keys = GenKeys(x, PickS(<<0, 1, 2, 3, 4, 4, 5, 5, 6, 6>>, x[9]), p, ts)]
       [] code.kind = "versions" ->
            LET ks == GenKeys(x, 1 + (x[9] % 3), p, ts)
                n == x[40] % 9
            IN [base EXCEPT !.prog = [j \in 1..n |->
                  LET op == PickS(<<"put", "put", "put", "del", "del", "enable", "suspend">>, x[40 + 2 * j - 1])
                  IN [op |-> op, key |-> IF op \in {"put", "del"} THEN PickS(ks, x[40 + 2 * j]) ELSE <<>>]]]
       [] code.kind = "uploads" ->
            LET ks == GenKeys(x, 1 + (x[9] % 4), p, ts)
                n == x[40] % 7
            IN [base EXCEPT !.ups = [j \in 1..n |-> PickS(ks, x[40 + j])]]
       [] code.kind = "parts" ->
            LET n == x[40] % 8 IN
            [base EXCEPT !.parts = [j \in 1..n |-> (x[40 + j] % 9) + 1], !.prefix = <<>>, !.delim = <<>>]

GenCases == {Decode(Codes[i], i) : i \in 1..Len(Codes)}
GInit == case \in GenCases
Emit == PrintT(ToJson(case))
=============================================================================
