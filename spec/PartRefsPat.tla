----------------------------- MODULE PartRefsPat -----------------------------
(* Category patterns of the random walks of PartRefsGen (W writer, F fault,   *)
(* T tick, G collector step, R reader step).  modules/partrefs.py overwrites  *)
(* the scratch copy of this module with patterns drawn from VERIF_SEED.       *)
Patterns == { <<"W", "W", "F", "T", "G", "W", "G", "G", "W", "G", "G", "G", "W", "G", "G">>,
              <<"W", "W", "W", "R", "W", "R", "R", "W", "R", "R", "R", "W", "G", "G", "G">> }
=============================================================================
