------------------------------- MODULE Pithos -------------------------------
(***************************************************************************)
(* Sequential reference semantics of storage.Storage as implemented by     *)
(* metadatapart (internal/storage/metadatapart/*.go and                    *)
(* metadatastore/sql/*.go).  One operator per API operation; each returns  *)
(* [s |-> next state, r |-> result].  The state is ONE record so that the  *)
(* same operators serve exhaustive model checking (PithosMC), program      *)
(* generation (PithosGen) and trace validation (PithosTrace).              *)
(*                                                                         *)
(* Serves C01 C02 C03(validation errors) C04(structure) C11 C12(seq) C13   *)
(* C14(label) and, through refinement modules, C20 C23 C24 C37 C38.        *)
(*                                                                         *)
(* Abstractions: object bodies are sequences of PARTS, a part is a         *)
(* sequence of blob symbols ("c1",...; the harness owns blob -> bytes).    *)
(* Version ids are integers: 0 = the "null" version, n>0 = the n-th id     *)
(* handed out (the trace writer numbers real ULIDs in first-seen order).   *)
(* Upload ids likewise.  Metadata/tags/content types/classes are symbolic  *)
(* identifiers concretised by the harness.                                 *)
(***************************************************************************)
EXTENDS Naturals, Sequences, FiniteSets, TLC, SequencesExt, FiniteSetsExt


None == "none"
NoRes == [err |-> "", vid |-> -1, dm |-> FALSE, uid |-> -1]

\* ------------------------------------------------------------------ state
\* S.bver   : bucket -> "Absent" | "Unset" | "Enabled" | "Suspended"
\* S.objs   : bucket -> key -> Seq(version record), in row-creation order
\* S.ups    : uid -> upload record  (pending multipart uploads)
\* S.nv,S.nu: next version id / next upload id
\* S.clock  : logical write clock
\* version record:
\*   vid, dm, latest, parts (Seq(Seq(blob))), single (ETag rule: TRUE = MD5 of
\*   bytes, FALSE = MD5-of-part-MD5s "-N"), ctype, meta [sys,user,redir], tags,
\*   class, wseq (time of last write to this version), cseq (row creation time),
\*   mseq (time Last-Modified was last set), seq1 (part rows numbered from 1, as a
\*   completed multipart upload leaves them; everything else numbers from 0),
\*   pcls (per part: the storage class that routed the part's bytes to a part store),
\*   ck (which x-amz-checksum values the version carries: "full" = all five over the bytes,
\*   "fullcrc" = CRC32/CRC32C/CRC64NVME of the concatenated parts (FULL_OBJECT multipart),
\*   "composite" = checksum-of-part-checksums "-N" (COMPOSITE multipart), "none")

EmptyMeta == [sys |-> None, user |-> None, redir |-> None]

\* S.dev : set of deviation tags (known departures of the code from the intended
\*         behaviour) that are enabled; {} = the intended design.
InitState(Buckets, Keys, Dev) ==
  [dev   |-> Dev,
   bver  |-> [b \in Buckets |-> "Absent"],
   objs  |-> [b \in Buckets |-> [k \in Keys |-> <<>>]],
   ups   |-> <<>>,          \* sequence of upload records (uid field), creation order
   nv    |-> 1,
   nu    |-> 1,
   clock |-> 1]

\* ------------------------------------------------------------- helpers
Versions(S, b, k) == S.objs[b][k]
Idx(vs, vid) == IF \E i \in 1..Len(vs) : vs[i].vid = vid
                THEN CHOOSE i \in 1..Len(vs) : vs[i].vid = vid ELSE 0
LatestIdx(vs) == IF \E i \in 1..Len(vs) : vs[i].latest
                 THEN CHOOSE i \in 1..Len(vs) : vs[i].latest ELSE 0
HasCurrent(vs) == LatestIdx(vs) # 0 /\ ~vs[LatestIdx(vs)].dm
Current(vs) == vs[LatestIdx(vs)]
\* Clearing the latest flag rewrites the row (SaveObject), which bumps updated_at =
\* Last-Modified of a version that did not change ("D-C13-mtime-bump-on-latest-flip").
\* mseq = the logical time Last-Modified was last set.
ClearLatest(S, vs) ==
  [i \in 1..Len(vs) |->
     IF vs[i].latest
     THEN [vs[i] EXCEPT !.latest = FALSE,
                        !.mseq = IF "D-C13-mtime-bump-on-latest-flip" \in S.dev THEN S.clock ELSE @]
     ELSE vs[i]]

SetKey(S, b, k, vs) == [S EXCEPT !.objs[b][k] = vs]
Tick(S) == [S EXCEPT !.clock = @ + 1]
Flat(parts) == FlattenSeq(parts)
Exists(S, b) == S.bver[b] # "Absent"
Err(S, e) == [s |-> S, r |-> [NoRes EXCEPT !.err = e]]
Ok(S) == [s |-> S, r |-> NoRes]
OkV(S, v) == [s |-> S, r |-> [NoRes EXCEPT !.vid = v]]

UpIdx(S, u) == IF \E i \in 1..Len(S.ups) : S.ups[i].uid = u
               THEN CHOOSE i \in 1..Len(S.ups) : S.ups[i].uid = u ELSE 0

\* Promotion of the next-latest version after the latest was deleted by id.
\* The property (C02) requires the most recently WRITTEN remaining version.
\* The code orders by row creation time (created_at), which the null version
\* keeps when rewritten in place and a completed upload inherits from its
\* initiation ("D-C02-promote-created-at").
PromoteKey(S, v) == IF "D-C02-promote-created-at" \in S.dev THEN v.cseq ELSE v.wseq
Promote(S, vs) ==
  IF vs = <<>> THEN vs
  ELSE LET best == CHOOSE i \in 1..Len(vs) :
                     \A j \in 1..Len(vs) : PromoteKey(S, vs[j]) <= PromoteKey(S, vs[i])
       IN [i \in 1..Len(vs) |->
             IF i = best
             THEN [vs[i] EXCEPT !.latest = TRUE,
                                !.mseq = IF "D-C13-mtime-bump-on-latest-flip" \in S.dev THEN S.clock ELSE @]
             ELSE [vs[i] EXCEPT !.latest = FALSE]]

\* ---------------------------------------------------------- conditions
\* cond in {"none","inm","ifm-cur","ifm-stale","ifm-star"}; "ifm-cur" carries the
\* ETag the harness read from the current object just before the call.
CondFails(vs, cond) ==
  CASE cond = "none"      -> FALSE
    [] cond = "inm"       -> HasCurrent(vs)
    [] cond = "ifm-cur"   -> ~HasCurrent(vs)
    [] cond = "ifm-star"  -> ~HasCurrent(vs)
    [] cond = "ifm-stale" -> TRUE
    [] OTHER              -> FALSE

\* ------------------------------------------------------------- buckets
CreateBucket(S, b) ==
  IF Exists(S, b) THEN Err(S, "BucketAlreadyExists")
  ELSE Ok([S EXCEPT !.bver[b] = "Unset"])

BucketEmpty(S, b) ==
  /\ \A k \in DOMAIN S.objs[b] : S.objs[b][k] = <<>>
  /\ \A i \in 1..Len(S.ups) : S.ups[i].b # b

DeleteBucket(S, b) ==
  IF ~Exists(S, b) THEN Err(S, "NoSuchBucket")
  ELSE IF ~BucketEmpty(S, b) THEN Err(S, "BucketNotEmpty")
  ELSE Ok([S EXCEPT !.bver[b] = "Absent"])

PutVersioning(S, b, status) ==
  IF ~Exists(S, b) THEN Err(S, "NoSuchBucket")
  ELSE Ok([S EXCEPT !.bver[b] = status])

\* -------------------------------------------------------- write a version
\* Shared tail of PutObject / CopyObject / AppendObject(create, versioned) /
\* CompleteMultipartUpload: install record `nr` (fields parts, single, ctype,
\* meta, tags, class; cseqOverride = creation stamp of a reused row or 0).
NewRec(S, vid, nr, cseq) ==
  [vid |-> vid, dm |-> FALSE, latest |-> TRUE, parts |-> nr.parts, single |-> nr.single,
   ctype |-> nr.ctype, meta |-> nr.meta, tags |-> nr.tags, class |-> nr.class,
   wseq |-> S.clock, cseq |-> cseq, mseq |-> S.clock, seq1 |-> nr.seq1, pcls |-> nr.pcls, ck |-> nr.ck]

Install(S, b, k, nr, cond, rowCseq) ==
  LET vs == Versions(S, b, k)
      cs == IF rowCseq = 0 THEN S.clock ELSE rowCseq IN
  IF CondFails(vs, cond) THEN Err(S, "PreconditionFailed")
  ELSE IF S.bver[b] = "Enabled"
  THEN LET v == S.nv
           vs2 == Append(ClearLatest(S, vs), NewRec(S, v, nr, cs))
       IN OkV(Tick([SetKey(S, b, k, vs2) EXCEPT !.nv = @ + 1]), v)
  ELSE LET ni == Idx(vs, 0) IN
       IF cond = "inm" /\ ni # 0 THEN Err(S, "PreconditionFailed")
       ELSE IF ni # 0 /\ rowCseq = 0
       THEN \* null version overwritten in place: row (and its creation time) kept
            LET vs2 == [ClearLatest(S, vs) EXCEPT ![ni] = NewRec(S, 0, nr, vs[ni].cseq)]
            IN OkV(Tick(SetKey(S, b, k, vs2)), 0)
       ELSE IF ni # 0
       THEN \* completing an upload: old null row deleted, upload row becomes null version
            LET vs2 == Append(RemoveAt(ClearLatest(S, vs), ni), NewRec(S, 0, nr, cs))
            IN OkV(Tick(SetKey(S, b, k, vs2)), 0)
       ELSE LET vs2 == Append(ClearLatest(S, vs), NewRec(S, 0, nr, cs))
            IN OkV(Tick(SetKey(S, b, k, vs2)), 0)

ClassOf(c) == IF c = None THEN "STANDARD" ELSE c

\* cksum in {"none", "md5ok", "md5bad", "crc32ok", "crc32bad", "sha256ok", "sha256bad"}: a checksum or
\* Content-MD5 supplied with the request; one that disagrees with the body fails the write (C04).
\* The body is streamed and verified before the bucket is looked up.
BadSum(cksum) == cksum \in {"md5bad", "crc32bad", "sha256bad"}
PutObject(S, b, k, blob, ctype, meta, tags, class, cond, cksum) ==
  IF BadSum(cksum) THEN Err(S, "BadDigest")
  ELSE IF ~Exists(S, b) THEN Err(S, "NoSuchBucket")
  ELSE Install(S, b, k, [parts |-> << <<blob>> >>, single |-> TRUE, ctype |-> ctype,
                         meta |-> meta, tags |-> tags, class |-> ClassOf(class), seq1 |-> FALSE,
                         pcls |-> <<ClassOf(class)>>, ck |-> "full"], cond, 0)

\* ------------------------------------------------------------------ reads
\* view of one version as Head/Get report it
VView(v) == [vid |-> v.vid, content |-> Flat(v.parts), ctype |-> v.ctype, meta |-> v.meta,
             tags |-> v.tags, class |-> v.class]

GetObject(S, b, k, vid) ==
  IF ~Exists(S, b) THEN Err(S, "NoSuchBucket")
  ELSE LET vs == Versions(S, b, k) IN
    IF vid = -1
    THEN IF LatestIdx(vs) = 0 THEN Err(S, "NoSuchKey")
         ELSE IF Current(vs).dm THEN Err(S, "DeleteMarker")
         ELSE OkV(S, Current(vs).vid)
    ELSE IF Idx(vs, vid) = 0 THEN Err(S, "NoSuchKey")
         ELSE IF vs[Idx(vs, vid)].dm THEN Err(S, "MethodNotAllowed")
         ELSE OkV(S, vid)

\* ---------------------------------------------------------------- deletes
DeleteObject(S, b, k, vid, cond) ==
  IF ~Exists(S, b) THEN Err(S, "NoSuchBucket")
  ELSE LET vs == Versions(S, b, k) IN
  IF vid # -1
  THEN LET i == Idx(vs, vid) IN
       IF i = 0 THEN (IF cond # "none" THEN Err(S, "PreconditionFailed") ELSE Ok(S))   \* absent version: no change
       ELSE IF cond \in {"ifm-stale"} \/ (cond = "ifm-cur" /\ vs[i].dm)
            THEN Err(S, "PreconditionFailed")
       ELSE LET rest == RemoveAt(vs, i)
                vs2 == IF vs[i].latest THEN Promote(S, rest) ELSE rest
            IN [s |-> Tick(SetKey(S, b, k, vs2)),
                r |-> [NoRes EXCEPT !.vid = vid, !.dm = vs[i].dm]]
  ELSE IF cond # "none" /\ CondFails(vs, cond) THEN Err(S, "PreconditionFailed")
  ELSE IF S.bver[b] \in {"Enabled", "Suspended"}
  THEN LET ni == Idx(vs, 0)
           vs1 == IF S.bver[b] = "Suspended" /\ ni # 0 THEN RemoveAt(vs, ni) ELSE vs
           v == S.nv
           marker == [vid |-> v, dm |-> TRUE, latest |-> TRUE, parts |-> <<>>, single |-> TRUE,
                      ctype |-> None, meta |-> EmptyMeta, tags |-> None, class |-> "STANDARD",
                      wseq |-> S.clock, cseq |-> S.clock, mseq |-> S.clock, seq1 |-> FALSE, pcls |-> <<>>, ck |-> "none"]
           vs2 == Append(ClearLatest(S, vs1), marker)
       IN [s |-> Tick([SetKey(S, b, k, vs2) EXCEPT !.nv = @ + 1]),
           r |-> [NoRes EXCEPT !.vid = v, !.dm = TRUE]]
  ELSE \* never-versioned bucket: the current (only) row is removed
       LET i == LatestIdx(vs) IN
       IF i = 0 THEN Ok(S)
       ELSE Ok(Tick(SetKey(S, b, k, RemoveAt(vs, i))))

\* ------------------------------------------------------------------- copy
\* source resolution shared by CopyObject and UploadPartCopy
SrcLookup(S, sb, sk, svid) ==
  IF ~Exists(S, sb) THEN [err |-> "NoSuchBucket", i |-> 0]
  ELSE LET vs == Versions(S, sb, sk) IN
    IF svid = -1
    THEN IF LatestIdx(vs) = 0 THEN [err |-> "NoSuchKey", i |-> 0]
         ELSE IF Current(vs).dm THEN [err |-> "DeleteMarker", i |-> 0]
         ELSE [err |-> "", i |-> LatestIdx(vs)]
    ELSE IF Idx(vs, svid) = 0 THEN [err |-> "NoSuchKey", i |-> 0]
         ELSE IF vs[Idx(vs, svid)].dm THEN [err |-> "MethodNotAllowed", i |-> 0]
         ELSE [err |-> "", i |-> Idx(vs, svid)]

\* mdir/tdir in {"COPY","REPLACE"}; ctype/meta/tags/class are the request's values
CopyObject(S, sb, sk, svid, db, dk, mdir, tdir, ctype, meta, tags, class) ==
  LET src == SrcLookup(S, sb, sk, svid) IN
  IF src.err # "" THEN Err(S, src.err)
  ELSE IF ~Exists(S, db) THEN Err(S, "NoSuchBucket")
  ELSE LET sv == Versions(S, sb, sk)[src.i]
           nmeta == IF mdir = "REPLACE" THEN meta
                    ELSE [sys |-> sv.meta.sys, user |-> sv.meta.user, redir |-> meta.redir]
           nr == [parts |-> sv.parts, single |-> sv.single,
                  ctype |-> IF mdir = "REPLACE" THEN ctype ELSE sv.ctype,
                  meta |-> nmeta,
                  tags |-> IF tdir = "REPLACE" THEN tags ELSE sv.tags,
                  class |-> ClassOf(class), seq1 |-> FALSE,
                  pcls |-> [j \in 1..Len(sv.parts) |-> ClassOf(class)], ck |-> sv.ck]
       IN Install(S, db, dk, nr, "none", 0)

\* ----------------------------------------------------------------- append
\* off in {"none","match","mismatch"} (harness: match = current size or 0)
\* In a bucket that is not Enabled the code (sqlMetadataStore.AppendObject) rewrites
\* whatever row is current in place - also a non-null version or a delete marker left
\* over from an Enabled phase ("D-C13-append-suspended-in-place").  The property (C02,
\* C13) allows in-place extension of the null version only; otherwise the append must
\* produce the null version.
AppendObject(S, b, k, blob, off, cksum) ==
  IF ~Exists(S, b) THEN Err(S, "NoSuchBucket")
  ELSE LET vs == Versions(S, b, k)
           inPlace == "D-C13-append-suspended-in-place" \in S.dev
           fresh == [parts |-> << <<blob>> >>, single |-> FALSE, ctype |-> None,
                     meta |-> EmptyMeta, tags |-> None, class |-> "STANDARD", seq1 |-> FALSE,
                     pcls |-> <<"STANDARD">>, ck |-> "none"] IN
  IF off = "mismatch" THEN Err(S, "InvalidWriteOffset")
  ELSE IF BadSum(cksum) THEN Err(S, "BadDigest")
  ELSE IF ~HasCurrent(vs)
  THEN IF LatestIdx(vs) # 0 /\ S.bver[b] # "Enabled" /\ inPlace
       THEN \* current is a delete marker: its row is rewritten into an object version
            LET i == LatestIdx(vs)
                vs2 == [vs EXCEPT ![i] = NewRec(S, vs[i].vid, fresh, vs[i].cseq)]
            IN Ok(Tick(SetKey(S, b, k, vs2)))
       ELSE Install(S, b, k, fresh, "none", 0)
  ELSE LET cur == Current(vs)
           nparts == Append(cur.parts, <<blob>>) IN
       IF S.bver[b] = "Enabled"
       THEN \* new version sharing the prefix; C11: metadata, tags and class are preserved
            LET keep == "D-C11-append-versioned-drops-meta" \notin S.dev
                nr == [parts |-> nparts, single |-> FALSE, ctype |-> cur.ctype,
                       meta |-> IF keep THEN cur.meta ELSE EmptyMeta,
                       tags |-> IF keep THEN cur.tags ELSE None,
                       class |-> IF keep THEN cur.class ELSE "STANDARD", seq1 |-> FALSE,
                       pcls |-> Append(cur.pcls, cur.class), ck |-> "none"]
            IN Install(S, b, k, nr, "none", 0)
       ELSE IF (cur.vid = 0 \/ inPlace) /\ cur.seq1
       THEN \* Quirk (not covered by a listed property): the appended part row is numbered
            \* Len(parts), which collides with the 1-based rows of a completed multipart
            \* upload; the append fails with an internal error and is rolled back.
            Err(S, "PartSequenceConflict")
       ELSE IF cur.vid = 0 \/ inPlace
       THEN \* in-place extension of the current row
            LET i == LatestIdx(vs)
                vs2 == [vs EXCEPT ![i] = [cur EXCEPT !.parts = nparts, !.single = FALSE,
                                                     !.wseq = S.clock, !.mseq = S.clock,
                                                     !.pcls = Append(cur.pcls, cur.class), !.ck = "none"]]
            IN Ok(Tick(SetKey(S, b, k, vs2)))
       ELSE Install(S, b, k, [parts |-> nparts, single |-> FALSE, ctype |-> cur.ctype, meta |-> cur.meta,
                              tags |-> cur.tags, class |-> cur.class, seq1 |-> FALSE,
                              pcls |-> Append(cur.pcls, cur.class), ck |-> "none"], "none", 0)

\* -------------------------------------------------------------- multipart
CreateUpload(S, b, k, ctype, meta, tags, class, cktype) ==
  IF ~Exists(S, b) THEN Err(S, "NoSuchBucket")
  ELSE LET u == S.nu
           up == [uid |-> u, b |-> b, k |-> k, ctype |-> ctype, meta |-> meta, tags |-> tags,
                  class |-> ClassOf(class), cseq |-> S.clock, parts |-> <<>>,
                  ck |-> IF cktype = "COMPOSITE" THEN "composite" ELSE "fullcrc"]
                  \* parts: sequence of [n |-> part number, c |-> Seq(blob)] sorted by n
       IN [s |-> Tick([S EXCEPT !.ups = Append(@, up), !.nu = @ + 1]),
           r |-> [NoRes EXCEPT !.uid = u]]

UpMatches(S, u, b, k) == UpIdx(S, u) # 0 /\ S.ups[UpIdx(S, u)].b = b /\ S.ups[UpIdx(S, u)].k = k

SetPart(ps, n, c) ==
  LET others == SelectSeq(ps, LAMBDA p : p.n # n)
      lower == SelectSeq(others, LAMBDA p : p.n < n)
      upper == SelectSeq(others, LAMBDA p : p.n > n)
  IN lower \o << [n |-> n, c |-> c] >> \o upper

UploadPart(S, b, k, u, n, blob, cksum) ==
  IF ~Exists(S, b) THEN Err(S, "NoSuchBucket")
  ELSE IF ~UpMatches(S, u, b, k) THEN Err(S, "NoSuchKey")
  ELSE IF BadSum(cksum) THEN Err(S, "BadDigest")
  ELSE LET i == UpIdx(S, u) IN
       Ok(Tick([S EXCEPT !.ups[i].parts = SetPart(@, n, <<blob>>)]))

UploadPartCopy(S, sb, sk, svid, b, k, u, n) ==
  LET src == SrcLookup(S, sb, sk, svid) IN
  IF src.err # "" THEN Err(S, src.err)
  ELSE IF ~Exists(S, b) THEN Err(S, "NoSuchBucket")
  ELSE IF ~UpMatches(S, u, b, k) THEN Err(S, "NoSuchKey")
  ELSE LET i == UpIdx(S, u)
           sv == Versions(S, sb, sk)[src.i] IN
       Ok(Tick([S EXCEPT !.ups[i].parts = SetPart(@, n, Flat(sv.parts))]))

AbortUpload(S, b, k, u) ==
  IF ~Exists(S, b) THEN Err(S, "NoSuchBucket")
  ELSE IF ~UpMatches(S, u, b, k) THEN Err(S, "NoSuchKey")
  ELSE Ok(Tick([S EXCEPT !.ups = RemoveAt(@, UpIdx(S, u))]))

\* manifest in {"none","all","missing","reversed","badetag","extra"}
ManifestErr(ps, manifest) ==
  CASE manifest \in {"none", "all"} -> ""
    [] manifest = "missing"  -> IF Len(ps) >= 2 THEN "InvalidPart" ELSE ""   \* lists all but the last part
    [] manifest = "reversed" -> IF Len(ps) >= 2 THEN "InvalidPartOrder" ELSE ""
    [] manifest = "badetag"  -> IF Len(ps) >= 1 THEN "InvalidPart" ELSE ""
    [] manifest = "extra"    -> "InvalidPart"                              \* names a part never uploaded
    [] OTHER -> ""

CompleteUpload(S, b, k, u, manifest, cond, cksum) ==
  IF ~Exists(S, b) THEN Err(S, "NoSuchBucket")
  ELSE IF ~UpMatches(S, u, b, k) THEN Err(S, "NoSuchKey")
  ELSE LET i == UpIdx(S, u)
           up == S.ups[i]
           ps == up.parts IN
       IF \E j \in 1..Len(ps) : ps[j].n # j THEN Err(S, "InvalidUploadSequence")
       ELSE IF ManifestErr(ps, manifest) # "" THEN Err(S, ManifestErr(ps, manifest))
       ELSE IF cksum = "md5bad" THEN Err(S, "BadDigest")      \* declared whole-object digest disagrees
       ELSE LET nr == [parts |-> [j \in 1..Len(ps) |-> ps[j].c], single |-> FALSE, ctype |-> up.ctype,
                       meta |-> up.meta, tags |-> up.tags, class |-> up.class, seq1 |-> Len(ps) >= 1,
                       pcls |-> [j \in 1..Len(ps) |-> up.class], ck |-> up.ck]
                res == Install(S, b, k, nr, cond, up.cseq) IN
            IF res.r.err # "" THEN res
            ELSE [s |-> [res.s EXCEPT !.ups = RemoveAt(@, i)], r |-> res.r]

\* ----------------------------------------------------------------- tagging
TargetIdx(vs, vid) == IF vid = -1 THEN LatestIdx(vs) ELSE Idx(vs, vid)

PutTagging(S, b, k, vid, tags) ==
  IF ~Exists(S, b) THEN Err(S, "NoSuchBucket")
  ELSE LET vs == Versions(S, b, k)
           i == TargetIdx(vs, vid) IN
    IF i = 0 THEN Err(S, "NoSuchKey")
    ELSE IF vs[i].dm THEN Err(S, IF vid = -1 THEN "DeleteMarker" ELSE "MethodNotAllowed")
    ELSE Ok(Tick(SetKey(S, b, k, [vs EXCEPT ![i].tags = tags,
                                              ![i].mseq = IF "D-C13-mtime-bump-on-tagging" \in S.dev
                                                          THEN S.clock ELSE @])))

\* ------------------------------------------------------------- transition
Transition(S, b, k, vid, class, cond) ==
  IF ~Exists(S, b) THEN Err(S, "NoSuchBucket")
  ELSE LET vs == Versions(S, b, k)
           i == TargetIdx(vs, vid) IN
    IF i = 0 THEN Err(S, "NoSuchKey")
    ELSE IF vs[i].dm THEN Err(S, "NoSuchKey")
    ELSE IF cond = "ifm-stale" THEN Err(S, "PreconditionFailed")
    ELSE Ok(Tick(SetKey(S, b, k, [vs EXCEPT ![i].class = class, ![i].seq1 = FALSE,
                                              ![i].pcls = [j \in 1..Len(vs[i].parts) |-> class],
                                              ![i].mseq = IF "D-C13-mtime-bump-on-transition" \in S.dev
                                                          THEN S.clock ELSE @])))

\* ------------------------------------------------------------ projections
\* What ListObjectVersions + Head/Get by id show for one key, sorted by vid.
VersionView(v) == [vid |-> v.vid, dm |-> v.dm, latest |-> v.latest,
                   content |-> IF v.dm THEN <<>> ELSE Flat(v.parts),
                   ctype |-> v.ctype, meta |-> v.meta, tags |-> v.tags, class |-> v.class]
KeyView(S, b, k) ==
  IF ~Exists(S, b) THEN <<>>
  ELSE LET vs == Versions(S, b, k) IN
       SetToSortSeq({VersionView(vs[i]) : i \in 1..Len(vs)}, LAMBDA x, y : x.vid < y.vid)

\* the key's answer to Head/Get without a version id
CurView(S, b, k) ==
  IF ~Exists(S, b) THEN "NoSuchBucket"
  ELSE LET vs == Versions(S, b, k) IN
       IF LatestIdx(vs) = 0 THEN "NoSuchKey"
       ELSE IF Current(vs).dm THEN "DeleteMarker" ELSE "Object"

UploadView(S, b) ==
  LET mine == SelectSeq(S.ups, LAMBDA u : u.b = b) IN
  [i \in 1..Len(mine) |-> [uid |-> mine[i].uid, k |-> mine[i].k,
                           parts |-> [j \in 1..Len(mine[i].parts) |->
                                        [n |-> mine[i].parts[j].n, content |-> mine[i].parts[j].c]]]]

\* ETag structure of a version: rule + part structure (an uninterpreted term
\* that the harness concretises with MD5 over the blob bytes).
ETagTerm(v) == [single |-> v.single, parts |-> v.parts, ck |-> v.ck]

\* -------------------------------------------------------------- invariants
\* structural sanity + C02 on the design (Deviations = {})
KeyOK(S, b, k) ==
  LET vs == Versions(S, b, k) IN
  /\ \A i, j \in 1..Len(vs) : vs[i].vid = vs[j].vid => i = j          \* version ids unique
  /\ vs # <<>> => Cardinality({i \in 1..Len(vs) : vs[i].latest}) = 1   \* exactly one latest
  /\ \A i \in 1..Len(vs) : vs[i].latest =>                            \* C02: latest is newest written
        \A j \in 1..Len(vs) : vs[j].wseq <= vs[i].wseq
  /\ S.bver[b] = "Unset" => Len(vs) <= 1 /\ \A i \in 1..Len(vs) : vs[i].vid = 0
  /\ S.bver[b] = "Absent" => vs = <<>>
\* C14 (design): every part of a version lives in the store its class maps to
PlacedByClass(S, StoreOf(_)) ==
  \A b \in DOMAIN S.bver : \A k \in DOMAIN S.objs[b] : \A i \in 1..Len(S.objs[b][k]) :
     \A j \in 1..Len(S.objs[b][k][i].pcls) : StoreOf(S.objs[b][k][i].pcls[j]) = StoreOf(S.objs[b][k][i].class)
StateOK(S) == \A b \in DOMAIN S.bver : \A k \in DOMAIN S.objs[b] : KeyOK(S, b, k)
=============================================================================
