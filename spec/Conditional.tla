----------------------------- MODULE Conditional -----------------------------
(***************************************************************************)
(* C24 - bucket-routed storages are isolated.                              *)
(*                                                                         *)
(* Models internal/storage/middlewares/conditional/conditional.go:         *)
(*   lookupStorage(bucket)   = bucketToStorageMap[bucket] or the default   *)
(*   every per-bucket call   -> lookupStorage(bucket).<same call>          *)
(*   ListBuckets             -> for every MAP ENTRY storage.ListBuckets,   *)
(*                              then the default's, appended and sorted    *)
(*   CopyObject / UploadPartCopy                                           *)
(*      same storage (src = dst)  -> the storage's own server-side copy    *)
(*      different storages        -> HeadObject+GetObject on the source    *)
(*                                   storage, PutObject / UploadPart on    *)
(*                                   the destination storage               *)
(*                                                                         *)
(* This module holds the operators only (no variables); ConditionalMC.tla  *)
(* is the per-storage transition system that TLC model-checks against the  *)
(* single-storage reference model, ConditionalTrace.tla validates traces   *)
(* of the real middleware.                                                 *)
(*                                                                         *)
(* A configuration is a record                                             *)
(*   [name, route : bucket -> storage name or "" (unmapped), def : storage,*)
(*    pre : sequence of [s, b] = buckets that already exist in a backing   *)
(*    storage before the middleware is put in front of it]                 *)
(*                                                                         *)
(* Named deviations (known departures of the code from the property):      *)
(*   D-C24-listbuckets-dup       ListBuckets appends the listings of all   *)
(*        map entries and the default without removing duplicates          *)
(*   D-C24-crosscopy-drops-meta  the cross-storage CopyObject re-puts the  *)
(*        bytes with nil options: metadata, redirect, tags and storage     *)
(*        class of a same-storage copy are lost                            *)
(*   D-C24-crosscopy-single-etag the bytes are re-put as one part: a       *)
(*        multipart/appended source yields a single-part ETag (and full    *)
(*        checksums) where a same-storage copy keeps the part structure    *)
(***************************************************************************)
EXTENDS PithosMC

BSeq == <<"b1", "b2">>      \* fixed bucket order (TLC cannot compare strings)

Owner(cf, b) == IF cf.route[b] = "" THEN cf.def ELSE cf.route[b]
\* the storages of the map entries, one per mapped bucket (a storage mapped twice appears twice)
Entries(cf) == LET mapped == SelectSeq(BSeq, LAMBDA b : b \in DOMAIN cf.route /\ cf.route[b] # "")
               IN [i \in 1..Len(mapped) |-> cf.route[mapped[i]]]

\* the configurations explored (storages S0 = default, S1, S2)
AllConfigs ==
  { [name |-> "split",    route |-> [b1 |-> "S1", b2 |-> "S2"], def |-> "S0", pre |-> <<>>],
    [name |-> "same",     route |-> [b1 |-> "S1", b2 |-> "S1"], def |-> "S0", pre |-> <<>>],   \* one instance mapped twice
    [name |-> "unmapped", route |-> [b1 |-> "S1", b2 |-> ""],   def |-> "S0", pre |-> <<>>],   \* b2 falls to the default
    [name |-> "stale",    route |-> [b1 |-> "S1", b2 |-> "S2"], def |-> "S0",                  \* b1 already exists in the
                          pre |-> << [s |-> "S0", b |-> "b1"] >>] }                             \* default storage

IsCopy(c) == c.op \in {"CopyObject", "UploadPartCopy"}
\* the storages a call may touch
Touch(cf, c) == IF IsCopy(c) THEN {Owner(cf, c.sb), Owner(cf, c.b)} ELSE {Owner(cf, c.b)}
Cross(cf, c) == IsCopy(c) /\ Owner(cf, c.sb) # Owner(cf, c.b)

\* ------------------------------------------------ cross-storage copies
\* Src / Dst: Pithos states of the source and the destination storage (in trace validation
\* both are the combined state, whose bucket b shows Owner(b)'s bucket b).
CrossCopyObject(Src, Dst, c, dev) ==
  LET src == SrcLookup(Src, c.sb, c.sk, c.svid) IN
  IF src.err # "" THEN Err(Dst, src.err)
  ELSE IF ~Exists(Dst, c.b) THEN Err(Dst, "NoSuchBucket")
  ELSE LET sv == Versions(Src, c.sb, c.sk)[src.i]
           rmeta == MetaOf(c.meta)
           drops == "D-C24-crosscopy-drops-meta" \in dev        \* PutObject(dst, contentType, body, nil, nil)
           reput == "D-C24-crosscopy-single-etag" \in dev       \* the bytes are re-put as ONE part
           parts == IF reput THEN << Flat(sv.parts) >> ELSE sv.parts
           class == IF drops THEN "STANDARD" ELSE ClassOf(c.class)
           \* with no deviation this is exactly what a same-storage copy produces (Pithos!CopyObject)
           nr == [parts |-> parts, single |-> IF reput THEN TRUE ELSE sv.single,
                  ctype |-> IF c.mdir = "REPLACE" THEN c.ctype ELSE sv.ctype,
                  meta |-> IF drops THEN EmptyMeta
                           ELSE IF c.mdir = "REPLACE" THEN rmeta
                           ELSE [sys |-> sv.meta.sys, user |-> sv.meta.user, redir |-> rmeta.redir],
                  tags |-> IF drops THEN None ELSE IF c.tdir = "REPLACE" THEN c.tags ELSE sv.tags,
                  class |-> class, seq1 |-> FALSE,
                  pcls |-> [j \in 1..Len(parts) |-> class], ck |-> IF reput THEN "full" ELSE sv.ck]
       IN Install(Dst, c.b, c.k, nr, "none", 0)

CrossUploadPartCopy(Src, Dst, c) ==
  LET src == SrcLookup(Src, c.sb, c.sk, c.svid) IN
  IF src.err # "" THEN Err(Dst, src.err)
  ELSE IF ~Exists(Dst, c.b) THEN Err(Dst, "NoSuchBucket")
  ELSE IF ~UpMatches(Dst, c.u, c.b, c.k) THEN Err(Dst, "NoSuchKey")
  ELSE LET i == UpIdx(Dst, c.u)
           sv == Versions(Src, c.sb, c.sk)[src.i] IN
       Ok(Tick([Dst EXCEPT !.ups[i].parts = SetPart(@, c.n, Flat(sv.parts))]))

\* ------------------------------------------------ copy-source conditions
\* A CopyObject / UploadPartCopy may carry x-amz-copy-source-if-* conditions: call field
\*   sc = [im, inm, ums, ms], each "absent" | "pass" | "fail"
\* (if-match, if-none-match, if-unmodified-since, if-modified-since; pass / fail = what the condition alone
\* evaluates to against the source version; the harness concretises them from the source's ETag and
\* Last-Modified).  The reference is the storage's own evaluation (metadatapart/object_read.go:
\* evaluateCopySourceConditions), which follows S3: a failing if-match or if-none-match refuses the copy; a
\* PASSING if-match makes if-unmodified-since irrelevant; otherwise a failing date condition refuses it.  They
\* are evaluated after the source has been found and before anything else.  The middleware's cross-storage
\* path re-implements the evaluation (conditional.go:copySourceConditionsSatisfied) - the property demands that
\* it answers exactly like the same-storage copy, so the model has ONE rule for both paths.
HasSC(c) == "sc" \in DOMAIN c
SCFails(sc) == \/ sc.im = "fail" \/ sc.inm = "fail"
               \/ (sc.ums = "fail" /\ sc.im # "pass")
               \/ sc.ms = "fail"
SCRefuses(Src, c) == IsCopy(c) /\ HasSC(c) /\ SrcLookup(Src, c.sb, c.sk, c.svid).err = "" /\ SCFails(c.sc)

\* One call through the middleware on the COMBINED state St (bucket b of St = bucket b of Owner(b)).
CApply(St, cf, c) ==
  IF SCRefuses(St, c) THEN Err(St, "PreconditionFailed")
  ELSE IF Cross(cf, c)
  THEN IF c.op = "CopyObject" THEN CrossCopyObject(St, St, c, St.dev) ELSE CrossUploadPartCopy(St, St, c)
  ELSE Apply(St, c)

C24Tags == {"D-C24-listbuckets-dup", "D-C24-crosscopy-drops-meta", "D-C24-crosscopy-single-etag"}
CTakenAt(St, cf, c) ==
  {t \in St.dev : LET i == CApply(Strip(St), cf, c)
                      d == CApply([St EXCEPT !.dev = {t}], cf, c)
                  IN d.r # i.r \/ Strip(d.s) # Strip(i.s)}

\* ------------------------------------------------ ListBuckets
\* E(s, b): bucket b exists in backing storage s
Count(E(_, _), cf, b) ==
  Cardinality({i \in 1..Len(Entries(cf)) : E(Entries(cf)[i], b)}) + (IF E(cf.def, b) THEN 1 ELSE 0)
\* the listing as a sequence in bucket order; the property demands the union (each bucket once)
CListBuckets(E(_, _), cf, dev) ==
  FlattenSeq([i \in 1..Len(BSeq) |->
     LET n == Count(E, cf, BSeq[i])
         m == IF "D-C24-listbuckets-dup" \in dev THEN n ELSE (IF n > 0 THEN 1 ELSE 0)
     IN [j \in 1..m |-> BSeq[i]]])
NoDup(q) == \A i, j \in 1..Len(q) : q[i] = q[j] => i = j
=============================================================================
