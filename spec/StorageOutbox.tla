---------------------------- MODULE StorageOutbox ----------------------------
(***************************************************************************)
(* C21 (and the outbox instance of C07) - the storage outbox               *)
(* (internal/storage/outbox/outbox.go, queue table through                 *)
(* internal/storage/database/sqlite/repository/storageoutboxentry/         *)
(* sqlite.go).                                                             *)
(*                                                                         *)
(* One action per critical section of the code:                            *)
(*   Invoke      a client enters an outboxStorage method                   *)
(*   Route       PutObject / DeleteObject read the INNER storage's         *)
(*               versioning configuration (tx-free) to decide between the  *)
(*               queued and the write-through path                         *)
(*               (PutObject: outbox.go "putMustBeSynchronous",             *)
(*               DeleteObject: bucketHasVersioningStatus)                  *)
(*   Enqueue     the write transaction that stores the entry               *)
(*               (storeStorageOutboxEntry; ULID id = acceptance order)     *)
(*   DrainStart  waitUntilOutboxEntriesDrained: findLast snapshot          *)
(*   DrainPoll   waitUntilOutboxEntriesDrained: one findFirst poll         *)
(*   Inner       the call into the inner storage after the drain           *)
(*   Claim / Replay / Finalize / Release   maybeProcessOutboxEntries:      *)
(*               ClaimFirstStorageOutboxEntry, the tx-free inner call,     *)
(*               DeleteStorageOutboxEntryByClaimOwner, Release...Claim     *)
(*   WorkerRestart / LeaseExpire  the worker process dies between claim    *)
(*               and finalize; the claim lease runs out                    *)
(* The inner storage is the sequential reference model Pithos.tla.         *)
(*                                                                         *)
(* Wait scopes (the four waitFor... helpers):                              *)
(*   "key"     bucket = b and (key = k or key = '')   Get/Head/sync Put/   *)
(*             sync Delete/Append                                          *)
(*   "bucket"  bucket = b                              ListObjects,         *)
(*             PutBucketVersioningConfiguration                            *)
(*   "gbucket" bucket = b and key = ''                 HeadBucket           *)
(*   "global"  key = ''                                ListBuckets          *)
(*                                                                         *)
(* INTENDED design (Deviations = {}): a synchronous WRITE may call the     *)
(* inner storage only while NO entry of its scope is queued, and no entry  *)
(* of its scope is accepted between that check and the inner call.  The    *)
(* code (a) ends the wait as soon as the oldest matching entry is newer    *)
(* than the snapshot and (b) does not hold anything between the wait and   *)
(* the inner call; both are the named deviations                           *)
(*   D-C21-sync-write-overtakes-queued  (key-scoped synchronous writes)    *)
(*   D-C21-versioning-race              (PutBucketVersioningConfiguration) *)
(*                                                                         *)
(* History variables: accepted (every acknowledged write in acceptance     *)
(* order: commit of the enqueue transaction / of the write-through call),  *)
(* virt (= the fold of accepted, kept incrementally).  A replay that fails *)
(* (an accepted entry the inner storage rejects) releases the claim and is *)
(* retried for ever, as in the code: such a queue never drains.            *)
(***************************************************************************)
EXTENDS Pithos, Integers

CONSTANTS Deviations,   \* deviation tags of the outbox that are enabled
          PDev,         \* deviation tags of the inner storage model (Pithos.tla)
          Clients, Buckets, Keys, Blobs, OptSets,
          CallOps,      \* operation names clients may invoke
          MaxOps,       \* total number of client calls
          MaxQueue,     \* bound on queued entries
          MaxRestarts,  \* bound on worker restarts (0 = the worker never dies)
          Workers,      \* claim owners: worker loops of processes sharing the database and the outbox id
          PreState,     \* "empty" | "bucket" | "object" | "upload": what exists before the first call
          MaxUploads    \* multipart uploads a call may name (the u-th upload created)

VARIABLES inner,     \* Pithos state of the inner storage
          queue,     \* Seq of entries [seq, op, b, k, blob, opt, owner], ascending seq (owner = claim owner or "")
          nseq,      \* next acceptance sequence number of a queue entry
          accepted,  \* Seq of [call, seq] : every accepted write in acceptance order (seq = 0: synchronous)
          virt,      \* = Fold(accepted): the accepted writes applied in acceptance order (derived, kept for speed)
          cl,        \* client -> [pc, call, last, must, base, res, ryw, condok]
          wk,        \* worker -> [pc, seq]
          cnt,       \* [ops, restarts]
          taken      \* deviation tags whose branch was taken so far

vars == <<inner, queue, nseq, accepted, virt, cl, wk, cnt, taken>>

TagSync == "D-C21-sync-write-overtakes-queued"
TagVer  == "D-C21-versioning-race"

\* ------------------------------------------------------------------ calls
\* Every call record has the same fields; unused ones are "" / "none".
\*   cond in {"none","inm","ifm"}; exp = blob whose (single-part) ETag an If-Match names
\*   u = number of the multipart upload the call names (the u-th upload created; 0 = unused)
NoCall == [op |-> "", b |-> "", k |-> "", blob |-> "", opt |-> "none", cond |-> "none", exp |-> "", status |-> "", u |-> 0]
MkCall(op, b, k, blob, opt, cond, exp, status) ==
  [op |-> op, b |-> b, k |-> k, blob |-> blob, opt |-> opt, cond |-> cond, exp |-> exp, status |-> status, u |-> 0]
MkCallU(op, b, k, blob, cond, exp, u) == [MkCall(op, b, k, blob, "none", cond, exp, "") EXCEPT !.u = u]

\* every read of the storage.Storage interface that outboxStorage wraps, by the wait helper it uses:
\*   waitForAllOutboxEntriesOfBucketAndKeyIncludingGlobal ("key")
KeyReads == {"GetObject", "HeadObject", "GetObjectTagging", "ListParts"}
\*   waitForAllOutboxEntriesOfBucket ("bucket")
WholeBucketReads == {"ListObjects", "ListObjectVersions"}
\*   waitForGlobalOutboxEntriesOfBucket ("gbucket")
\*   (the sub-resource deletions wait like the getters and touch nothing this model describes, so they
\*   are treated like reads with an opaque answer)
GlobalBucketReads == {"HeadBucket", "GetVersioning", "ListMultipartUploads", "GetWebsite", "GetCORS", "GetLifecycle", "GetNotification",
                      "DeleteWebsite", "DeleteCORS", "DeleteLifecycle"}
BucketReads == WholeBucketReads \cup GlobalBucketReads
\* reads whose answer this model does not describe (only their wait and their inner call are bound)
OpaqueReads == {"ListParts", "ListMultipartUploads", "GetWebsite", "GetCORS", "GetLifecycle", "GetNotification",
                "DeleteWebsite", "DeleteCORS", "DeleteLifecycle"}
\* the multipart calls and the other write-through calls on one key: all wait with scope "key"
Uploads == 1..MaxUploads

Calls ==
  {MkCall(op, b, "", "", "none", "none", "", "") : op \in {"CreateBucket", "DeleteBucket"} \cap CallOps, b \in Buckets}
  \cup {MkCall("ListBuckets", "", "", "", "none", "none", "", "") : op \in {"ListBuckets"} \cap CallOps}
  \cup {MkCall("PutVersioning", b, "", "", "none", "none", "", st) : op \in {"PutVersioning"} \cap CallOps, b \in Buckets, st \in {"Enabled", "Suspended"}}
  \cup {MkCall("PutObject", b, k, bl, o, "none", "", "") : op \in {"PutObject"} \cap CallOps, b \in Buckets, k \in Keys, bl \in Blobs, o \in OptSets}
  \cup {MkCall("PutObject", b, k, bl, "none", "inm", "", "") : op \in {"PutObjectCond"} \cap CallOps, b \in Buckets, k \in Keys, bl \in Blobs}
  \cup {MkCall("PutObject", b, k, bl, "none", "ifm", e, "") : op \in {"PutObjectCond"} \cap CallOps, b \in Buckets, k \in Keys, bl \in Blobs, e \in Blobs}
  \cup {MkCall("DeleteObject", b, k, "", "none", "none", "", "") : op \in {"DeleteObject"} \cap CallOps, b \in Buckets, k \in Keys}
  \cup {MkCall("DeleteObject", b, k, "", "none", "ifm", e, "") : op \in {"DeleteObjectCond"} \cap CallOps, b \in Buckets, k \in Keys, e \in Blobs}
  \cup {MkCall("AppendObject", b, k, bl, "none", "none", "", "") : op \in {"AppendObject"} \cap CallOps, b \in Buckets, k \in Keys, bl \in Blobs}
  \cup {MkCall(op, b, k, "", "none", "none", "", "") : op \in KeyReads \cap CallOps, b \in Buckets, k \in Keys}
  \cup {MkCall("CreateUpload", b, k, "", "none", "none", "", "") : op \in {"CreateUpload"} \cap CallOps, b \in Buckets, k \in Keys}
  \cup {MkCallU("UploadPart", b, k, bl, "none", "", u) : op \in {"UploadPart"} \cap CallOps, b \in Buckets, k \in Keys, bl \in Blobs, u \in Uploads}
  \cup {MkCallU("CompleteUpload", b, k, "", "none", "", u) : op \in {"CompleteUpload"} \cap CallOps, b \in Buckets, k \in Keys, u \in Uploads}
  \cup {MkCallU("CompleteUpload", b, k, "", "inm", "", u) : op \in {"CompleteUploadCond"} \cap CallOps, b \in Buckets, k \in Keys, u \in Uploads}
  \cup {MkCallU("CompleteUpload", b, k, "", "ifm", e, u) : op \in {"CompleteUploadCond"} \cap CallOps, b \in Buckets, k \in Keys, e \in Blobs, u \in Uploads}
  \cup {MkCallU("AbortUpload", b, k, "", "none", "", u) : op \in {"AbortUpload"} \cap CallOps, b \in Buckets, k \in Keys, u \in Uploads}
  \cup {MkCall("PutTagging", b, k, "", o, "none", "", "") : op \in {"PutTagging"} \cap CallOps, b \in Buckets, k \in Keys, o \in {"none", "o1"}}
  \cup {MkCall("Transition", b, k, "", "none", "none", "", "") : op \in {"Transition"} \cap CallOps, b \in Buckets, k \in Keys}
  \cup {MkCall(op, b, "", "", "none", "none", "", "") : op \in BucketReads \cap CallOps, b \in Buckets}

IsRead(c)  == c.op \in KeyReads \cup BucketReads \cup {"ListBuckets"}
IsWrite(c) == ~IsRead(c)
\* always queued / routed by the inner versioning status / always synchronous
AlwaysQueued(c) == c.op \in {"CreateBucket", "DeleteBucket"}
Routed(c)       == c.op \in {"PutObject", "DeleteObject"} /\ c.cond = "none"

\* option sets ("puts with options": persisted with the entry, applied on replay)
MetaOfSym(m) == IF m = None THEN EmptyMeta
                ELSE [sys |-> "s" \o m, user |-> "u" \o m, redir |-> IF m = "1" THEN "r1" ELSE None]
OptRec(o) == CASE o = "o1" -> [ctype |-> "t1", meta |-> "1", tags |-> "g1", class |-> None]
               [] o = "o2" -> [ctype |-> "t2", meta |-> "2", tags |-> "g2", class |-> "GLACIER"]
               [] OTHER    -> [ctype |-> None, meta |-> None, tags |-> None, class |-> None]

\* If-Match on the ETag of a single-part object with content <<exp>>
IfmHolds(St, c) ==
  /\ Exists(St, c.b)
  /\ LET vs == Versions(St, c.b, c.k) IN
     HasCurrent(vs) /\ Current(vs).single /\ Flat(Current(vs).parts) = <<c.exp>>
PCond(St, c) == CASE c.cond = "inm" -> "inm"
                  [] c.cond = "ifm" -> IF IfmHolds(St, c) THEN "ifm-cur" ELSE "ifm-stale"
                  [] OTHER -> "none"

\* a write call applied to a Pithos state with Pithos condition pc
ApplyW(St, c, pc) ==
  CASE c.op = "CreateBucket"  -> CreateBucket(St, c.b)
    [] c.op = "DeleteBucket"  -> DeleteBucket(St, c.b)
    [] c.op = "PutVersioning" -> PutVersioning(St, c.b, c.status)
    [] c.op = "PutObject"     -> LET o == OptRec(c.opt) IN
                                 PutObject(St, c.b, c.k, c.blob, o.ctype, MetaOfSym(o.meta), o.tags, o.class, pc, "none")
    [] c.op = "DeleteObject"  -> DeleteObject(St, c.b, c.k, -1, pc)
    [] c.op = "AppendObject"  -> AppendObject(St, c.b, c.k, c.blob, "none", "none")
    [] c.op = "CreateUpload"  -> CreateUpload(St, c.b, c.k, None, EmptyMeta, None, None, "none")
    [] c.op = "UploadPart"    -> UploadPart(St, c.b, c.k, c.u, 1, c.blob, "none")
    [] c.op = "CompleteUpload" -> CompleteUpload(St, c.b, c.k, c.u, "none", pc, "none")
    [] c.op = "AbortUpload"   -> AbortUpload(St, c.b, c.k, c.u)
    \* opt "o1" -> PutObjectTagging(g1), opt "none" -> DeleteObjectTagging
    [] c.op = "PutTagging"    -> PutTagging(St, c.b, c.k, -1, OptRec(c.opt).tags)
    [] c.op = "Transition"    -> Transition(St, c.b, c.k, -1, "GLACIER", "none")

\* what a read answers in state St
ReadOn(St, c) ==
  CASE c.op = "GetObject" ->
         LET g == GetObject(St, c.b, c.k, -1) IN
         IF g.r.err # "" THEN [err |-> g.r.err, v |-> <<>>]
         ELSE [err |-> "", v |-> <<VView(Current(Versions(St, c.b, c.k)))>>]
    [] c.op = "ListObjects" ->
         IF ~Exists(St, c.b) THEN [err |-> "NoSuchBucket", v |-> <<>>]
         ELSE [err |-> "", v |-> <<{k \in Keys : HasCurrent(Versions(St, c.b, k))}>>]
    [] c.op = "HeadBucket" ->
         [err |-> IF Exists(St, c.b) THEN "" ELSE "NoSuchBucket", v |-> <<>>]
    [] c.op = "ListBuckets" -> [err |-> "", v |-> <<{b \in Buckets : Exists(St, b)}>>]
    [] c.op = "HeadObject" ->
         LET g == GetObject(St, c.b, c.k, -1) IN
         IF g.r.err # "" THEN [err |-> g.r.err, v |-> <<>>]
         ELSE LET cur == Current(Versions(St, c.b, c.k)) IN
              [err |-> "", v |-> <<[vid |-> cur.vid,
                                    blob |-> IF cur.single /\ Len(Flat(cur.parts)) = 1 THEN Flat(cur.parts)[1] ELSE "other"]>>]
    [] c.op = "GetObjectTagging" ->
         LET g == GetObject(St, c.b, c.k, -1) IN
         IF g.r.err # "" THEN [err |-> g.r.err, v |-> <<>>]
         ELSE [err |-> "", v |-> <<Current(Versions(St, c.b, c.k)).tags>>]
    [] c.op = "ListObjectVersions" ->
         IF ~Exists(St, c.b) THEN [err |-> "NoSuchBucket", v |-> <<>>]
         ELSE [err |-> "", v |-> <<UNION {{[k |-> k, vid |-> Versions(St, c.b, k)[i].vid, dm |-> Versions(St, c.b, k)[i].dm,
                                            latest |-> Versions(St, c.b, k)[i].latest] : i \in 1..Len(Versions(St, c.b, k))} : k \in Keys}>>]
    [] c.op = "GetVersioning" ->
         IF ~Exists(St, c.b) THEN [err |-> "NoSuchBucket", v |-> <<>>] ELSE [err |-> "", v |-> <<St.bver[c.b]>>]
    [] c.op \in OpaqueReads -> [err |-> "", v |-> <<>>]

\* ----------------------------------------------------------------- queue
EntryOf(c, s) == [seq |-> s, op |-> c.op, b |-> c.b, k |-> IF AlwaysQueued(c) THEN "" ELSE c.k,
                  blob |-> c.blob, opt |-> c.opt, owner |-> ""]
CallOfEntry(e) == MkCall(e.op, e.b, e.k, e.blob, e.opt, "none", "", "")
ApplyEntry(St, e) == ApplyW(St, CallOfEntry(e), "none")

ScopeOf(c) == CASE c.op \in WholeBucketReads \cup {"PutVersioning"} -> [kind |-> "bucket", b |-> c.b, k |-> ""]
                [] c.op \in GlobalBucketReads -> [kind |-> "gbucket", b |-> c.b, k |-> ""]
                [] c.op = "ListBuckets" -> [kind |-> "global", b |-> "", k |-> ""]
                [] OTHER -> [kind |-> "key", b |-> c.b, k |-> c.k]
Matches(e, sc) == CASE sc.kind = "key"     -> e.b = sc.b /\ (e.k = "" \/ e.k = sc.k)
                    [] sc.kind = "bucket"  -> e.b = sc.b
                    [] sc.kind = "gbucket" -> e.b = sc.b /\ e.k = ""
                    [] sc.kind = "global"  -> e.k = ""
MatchSeqs(sc) == {queue[i].seq : i \in {j \in 1..Len(queue) : Matches(queue[j], sc)}}
QIdx(s) == CHOOSE i \in 1..Len(queue) : queue[i].seq = s
InQueue(s) == \E i \in 1..Len(queue) : queue[i].seq = s

\* ------------------------------------------------------- acceptance history
\* The state obtained by applying the accepted writes in acceptance order.  An accepted write is
\* one the outbox acknowledged as successful; it is applied unconditionally.
B1 == CHOOSE b \in Buckets : \A x \in Buckets : b = "b1" \/ x # "b1"
K1 == CHOOSE k \in Keys : \A x \in Keys : k = "k1" \/ x # "k1"
Bl1 == CHOOSE x \in Blobs : \A y \in Blobs : x = "c1" \/ y # "c1"
Fresh0 == InitState(Buckets, Keys, PDev)
Fresh1 == CreateBucket(Fresh0, B1).s
Fresh2 == PutObject(Fresh1, B1, K1, Bl1, None, EmptyMeta, None, None, "none", "none").s
Bl2 == CHOOSE x \in Blobs : \A y \in Blobs : x = "c2" \/ y # "c2"
Fresh == CASE PreState = "bucket" -> Fresh1
           [] PreState = "object" -> Fresh2
           \* bucket, object and a pending multipart upload of the same key with its part 1 uploaded
           [] PreState = "upload" -> UploadPart(CreateUpload(Fresh2, B1, K1, None, EmptyMeta, None, None, "none").s, B1, K1, 1, 1, Bl2, "none").s
           [] OTHER -> Fresh0
RECURSIVE FoldN(_, _)
FoldN(acc, n) == IF n = 0 THEN Fresh ELSE ApplyW(FoldN(acc, n - 1), acc[n].call, "none").s
Fold(acc) == FoldN(acc, Len(acc))

\* clock-free projection of a Pithos state
Proj(St) == [bver |-> St.bver, keys |-> [b \in Buckets |-> [k \in Keys |-> KeyView(St, b, k)]],
             ups |-> [b \in Buckets |-> IF Exists(St, b) THEN UploadView(St, b) ELSE <<>>]]

\* ------------------------------------------------------------------- init
WIdle == [pc |-> "idle", seq |-> 0]
IdleRec == [pc |-> "idle", call |-> NoCall, last |-> 0, must |-> 0, base |-> <<>>, res |-> [err |-> "", v |-> <<>>], ryw |-> TRUE, condok |-> TRUE]
Init == /\ inner = Fresh
        /\ queue = <<>> /\ nseq = 1 /\ accepted = <<>> /\ virt = Fresh
        /\ cl = [c \in Clients |-> IdleRec]
        /\ wk = [w \in Workers |-> WIdle]
        /\ cnt = [ops |-> 0, restarts |-> 0]
        /\ taken = {}

\* ---------------------------------------------------------------- clients
FirstPc(call) == IF AlwaysQueued(call) THEN "enq" ELSE IF Routed(call) THEN "route" ELSE "drain"

\* A call names its multipart upload by the id it was given: the number u stands for the u-th upload
\* created IF that upload has been created when the call starts, and for an id no upload ever has otherwise.
NeverU == 99
BindUpload(St, call) == IF call.u > 0 /\ call.u >= St.nu THEN [call EXCEPT !.u = NeverU] ELSE call
Invoke(c, rawcall) ==
  LET call == BindUpload(inner, rawcall) IN
  /\ cl[c].pc = "idle" /\ cnt.ops < MaxOps
  /\ cl' = [cl EXCEPT ![c] = [IdleRec EXCEPT !.pc = FirstPc(call), !.call = call, !.must = Len(accepted),
                                             !.base = IF IsRead(call) THEN virt ELSE <<>>,
                                             !.ryw = cl[c].ryw, !.condok = cl[c].condok]]
  /\ cnt' = [cnt EXCEPT !.ops = @ + 1]
  /\ UNCHANGED <<inner, queue, nseq, accepted, virt, wk, taken>>

\* PutObject: write through iff the inner bucket is versioning-Enabled;
\* DeleteObject: write through iff the inner bucket has any versioning status.
RouteSync(call) ==
  LET ver == inner.bver[call.b] IN
  IF call.op = "PutObject" THEN ver = "Enabled" ELSE ver \in {"Enabled", "Suspended"}
Route(c) ==
  /\ cl[c].pc = "route"
  /\ cl' = [cl EXCEPT ![c].pc = IF RouteSync(cl[c].call) THEN "drain" ELSE "enq"]
  /\ UNCHANGED <<inner, queue, nseq, accepted, virt, wk, cnt, taken>>

\* which deviation covers synchronous writer d
DevFor(d) == IF cl[d].call.op = "PutVersioning" THEN TagVer ELSE TagSync
\* synchronous writers that have finished their drain wait and not yet called the inner storage,
\* and whose scope the new entry e falls into
Overtaken(c, e) == {d \in Clients \ {c} : cl[d].pc = "inner" /\ IsWrite(cl[d].call) /\ Matches(e, ScopeOf(cl[d].call))}

Enqueue(c) ==
  LET e == EntryOf(cl[c].call, nseq)
      ov == Overtaken(c, e) IN
  /\ cl[c].pc = "enq" /\ Len(queue) < MaxQueue
  /\ \A d \in ov : DevFor(d) \in Deviations
  /\ queue' = Append(queue, e)
  /\ nseq' = nseq + 1
  /\ accepted' = Append(accepted, [call |-> cl[c].call, seq |-> nseq])
  /\ virt' = ApplyW(virt, cl[c].call, "none").s
  /\ cl' = [cl EXCEPT ![c].pc = "idle"]
  /\ taken' = taken \cup {DevFor(d) : d \in ov}
  /\ UNCHANGED <<inner, wk, cnt>>

DrainStart(c) ==
  LET m == MatchSeqs(ScopeOf(cl[c].call)) IN
  /\ cl[c].pc = "drain"
  /\ cl' = [cl EXCEPT ![c].pc = IF m = {} THEN "inner" ELSE "poll",
                      ![c].last = IF m = {} THEN 0 ELSE Max(m)]
  /\ UNCHANGED <<inner, queue, nseq, accepted, virt, wk, cnt, taken>>

\* the code's exit condition of the wait loop / the one a synchronous write needs
CodeDone(c)   == \A s \in MatchSeqs(ScopeOf(cl[c].call)) : s > cl[c].last
StrongDone(c) == MatchSeqs(ScopeOf(cl[c].call)) = {}
PollDone(c) == IF IsRead(cl[c].call) \/ DevFor(c) \in Deviations THEN CodeDone(c) ELSE StrongDone(c)
DrainPoll(c) ==
  /\ cl[c].pc = "poll"
  /\ PollDone(c)
  /\ cl' = [cl EXCEPT ![c].pc = "inner"]
  /\ taken' = IF IsWrite(cl[c].call) /\ ~StrongDone(c) THEN taken \cup {DevFor(c)} ELSE taken
  /\ UNCHANGED <<inner, queue, nseq, accepted, virt, wk, cnt>>

\* read-your-writes: the answer reflects every write accepted before the read started - it is the
\* answer in the state obtained from those writes plus SOME of the writes accepted since (in
\* acceptance order; a write accepted while the read is in flight may or may not be reflected,
\* independently of the others: write-through calls on other keys legitimately pass queued entries)
RECURSIVE FoldSel(_, _, _, _)
FoldSel(St, acc, i, sel) ==
  IF i > Len(acc) THEN St
  ELSE FoldSel(IF i \in sel THEN ApplyW(St, acc[i].call, "none").s ELSE St, acc, i + 1, sel)
RYWHolds(c, r) == \E sel \in SUBSET ((cl[c].must + 1) .. Len(accepted)) :
                     r = ReadOn(FoldSel(cl[c].base, accepted, cl[c].must + 1, sel), cl[c].call)

InnerRead(c, r) ==
  /\ cl' = [cl EXCEPT ![c].pc = "idle", ![c].res = r, ![c].base = <<>>, ![c].ryw = cl[c].ryw /\ RYWHolds(c, r)]
  /\ UNCHANGED <<inner, accepted, virt>>
\* a = the call applied to the inner storage, af = the call applied to the accepted history
InnerWrite(c, a, af) ==
  LET call == cl[c].call IN
  /\ inner' = a.s
  /\ accepted' = IF a.r.err = "" THEN Append(accepted, [call |-> call, seq |-> 0]) ELSE accepted
  /\ virt' = IF a.r.err = "" THEN ApplyW(virt, call, "none").s ELSE virt
  \* C07: the precondition is decided as it would be on the accepted history
  /\ cl' = [cl EXCEPT ![c].pc = "idle", ![c].res = [err |-> a.r.err, v |-> <<[vid |-> a.r.vid, dm |-> a.r.dm, uid |-> a.r.uid]>>],
                      ![c].condok = cl[c].condok /\ (call.cond = "none" \/ (a.r.err = "") = (af.r.err = ""))]
Inner(c) ==
  /\ cl[c].pc = "inner"
  /\ IF IsRead(cl[c].call)
     THEN \E r \in {ReadOn(inner, cl[c].call)} : InnerRead(c, r)
     ELSE \E a \in {ApplyW(inner, cl[c].call, PCond(inner, cl[c].call))} :
          \E af \in {IF cl[c].call.cond = "none" THEN a ELSE ApplyW(virt, cl[c].call, PCond(virt, cl[c].call))} :
             InnerWrite(c, a, af)
  /\ UNCHANGED <<queue, nseq, wk, cnt, taken>>

\* ----------------------------------------------------------------- worker
\* ClaimFirstStorageOutboxEntry looks at the OLDEST entry only: held by another owner => no claim
\* (head-of-line blocking is what keeps the replay FIFO with several claim owners)
Claim(w) ==
  /\ wk[w].pc = "idle" /\ queue # <<>> /\ queue[1].owner = ""
  /\ queue' = [queue EXCEPT ![1].owner = w]
  /\ wk' = [wk EXCEPT ![w] = [pc |-> "claimed", seq |-> queue[1].seq]]
  /\ UNCHANGED <<inner, nseq, accepted, virt, cl, cnt, taken>>

Replay(w) ==
  /\ wk[w].pc = "claimed"
  /\ \E a \in {ApplyEntry(inner, queue[QIdx(wk[w].seq)])} :
     /\ inner' = a.s
     /\ wk' = [wk EXCEPT ![w].pc = IF a.r.err = "" THEN "replayed" ELSE "failed"]
  /\ UNCHANGED <<queue, nseq, accepted, virt, cl, cnt, taken>>

Finalize(w) ==
  /\ wk[w].pc = "replayed"
  /\ queue' = SelectSeq(queue, LAMBDA e : e.seq # wk[w].seq)
  /\ wk' = [wk EXCEPT ![w] = WIdle]
  /\ UNCHANGED <<inner, nseq, accepted, virt, cl, cnt, taken>>

Release(w) ==
  /\ wk[w].pc = "failed"
  /\ queue' = [queue EXCEPT ![QIdx(wk[w].seq)].owner = ""]
  /\ wk' = [wk EXCEPT ![w] = WIdle]
  /\ UNCHANGED <<inner, nseq, accepted, virt, cl, cnt, taken>>

\* the process running worker w dies and is restarted (new claim owner id): its claim stays until
\* the lease runs out
WorkerRestart(w) ==
  /\ wk[w].pc \in {"claimed", "replayed", "failed"} /\ cnt.restarts < MaxRestarts
  /\ wk' = [wk EXCEPT ![w] = WIdle]
  /\ cnt' = [cnt EXCEPT !.restarts = @ + 1]
  /\ UNCHANGED <<inner, queue, nseq, accepted, virt, cl, taken>>
\* only the lease of a dead owner runs out (a live one keeps it alive with its heartbeat)
LeaseExpire ==
  /\ queue # <<>> /\ queue[1].owner # "" /\ wk[queue[1].owner].pc = "idle"
  /\ queue' = [queue EXCEPT ![1].owner = ""]
  /\ UNCHANGED <<inner, nseq, accepted, virt, cl, wk, cnt, taken>>

Next == \/ \E c \in Clients : \/ \E call \in Calls : Invoke(c, call)
                              \/ Route(c) \/ Enqueue(c) \/ DrainStart(c) \/ DrainPoll(c) \/ Inner(c)
        \/ \E w \in Workers : Claim(w) \/ Replay(w) \/ Finalize(w) \/ Release(w) \/ WorkerRestart(w)
        \/ LeaseExpire

Spec == Init /\ [][Next]_vars

\* ------------------------------------------------------------- properties
Drained == queue = <<>> /\ \A w \in Workers : wk[w].pc = "idle"
\* C21a: every read reflected every write accepted before it started
ReadYourWrites == \A c \in Clients : cl[c].ryw
\* C21b: once drained, the inner storage is the fold of the accepted writes in acceptance order
Converges == Drained => Proj(inner) = Proj(virt)
VirtIsFold == virt = Fold(accepted)
\* C07 (outbox): a synchronous conditional write is decided on a state that includes every
\* previously accepted write (so it cannot succeed on an older ETag), and - Converges - no older
\* queued write is replayed over it
CondSound == \A c \in Clients : cl[c].condok
\* a synchronous write reaches the inner storage only when nothing of its scope is queued
SyncWriteSeesAll ==
  \A c \in Clients : (cl[c].pc = "inner" /\ IsWrite(cl[c].call)) => MatchSeqs(ScopeOf(cl[c].call)) = {}
\* FIFO: queue entries are in acceptance order and the worker holds the oldest one
QueueOrdered == /\ \A i, j \in 1..Len(queue) : i < j => queue[i].seq < queue[j].seq
                /\ \A w \in Workers : wk[w].pc # "idle" => (InQueue(wk[w].seq) /\ queue[1].seq = wk[w].seq /\ queue[1].owner = w)
                /\ \A i \in 2..Len(queue) : queue[i].owner = ""
ClientSym == Permutations(Clients)    \* MC configs declare Clients as model values
TypeOK == /\ \A w \in Workers : wk[w].pc \in {"idle", "claimed", "replayed", "failed"}
          /\ \A c \in Clients : cl[c].pc \in {"idle", "route", "enq", "drain", "poll", "inner"}
          /\ StateOK(inner)
=============================================================================
