---------------------------- MODULE PithosTrace ----------------------------
(* TV: validates an ndjson trace recorded by harness/pdrv (real storage) against    *)
(* Pithos.tla.  One line = one API call with its symbolic arguments, its result,    *)
(* and the projection ("views") of every model bucket afterwards.  The step is      *)
(* accepted iff the model's result and projection equal the logged ones; the        *)
(* property invariants are evaluated in every state of the accepted behaviour.      *)
(* ETags and Last-Modified values are uninterpreted: the spec collects, per ETag    *)
(* structure term, the raw value (must be functional AND injective) and, per        *)
(* version identity, the first Last-Modified seen (C13: must never change).         *)
EXTENDS PithosMC, Json, IOUtils

Trace == ndJsonDeserialize(IOEnv.TRACE_FILE)

VARIABLES l,        \* next trace line
          etags,    \* set of <<term, raw>> pairs seen
          mtimes,   \* function: version identity <<b,k,vid,mseq>> -> raw Last-Modified
          prog,     \* current program id
          taken     \* deviation tags whose branch was taken so far in this program

tvars == <<S, res, hist, l, etags, mtimes, prog, taken>>

BlobSize == [c0 |-> 0, c1 |-> 1, c2 |-> 3, c3 |-> 1000, c4 |-> 70000, c5 |-> 300001]
RECURSIVE SizeOf(_)
SizeOf(content) == IF content = <<>> THEN 0 ELSE BlobSize[Head(content)] + SizeOf(Tail(content))

NonEmpty(content) == SelectSeq(content, LAMBDA c : BlobSize[c] > 0)

\* ---- model side of the projection, in the shape the driver logs
MVersion(v) == [vid |-> v.vid, dm |-> v.dm, latest |-> v.latest,
                content |-> IF v.dm THEN <<>> ELSE NonEmpty(Flat(v.parts)),
                ctype |-> IF v.dm THEN None ELSE v.ctype,
                meta |-> IF v.dm THEN EmptyMeta ELSE v.meta,
                tags |-> IF v.dm THEN None ELSE v.tags,
                class |-> IF v.dm THEN "STANDARD" ELSE v.class]
MKey(St, b, k) ==
  LET vs == St.objs[b][k] IN
  [k |-> k,
   cur |-> CurView(St, b, k),
   curvid |-> IF HasCurrent(vs) THEN Current(vs).vid ELSE -1,
   versions |-> SetToSortSeq({MVersion(vs[i]) : i \in 1..Len(vs)}, LAMBDA x, y : x.vid < y.vid)]
MUploads(St, b) ==
  LET mine == SelectSeq(St.ups, LAMBDA u : u.b = b) IN
  [i \in 1..Len(mine) |-> [uid |-> mine[i].uid, k |-> mine[i].k,
                           parts |-> [j \in 1..Len(mine[i].parts) |->
                                        [n |-> mine[i].parts[j].n, size |-> SizeOf(mine[i].parts[j].c)]]]]
\* fixed orders (TLC cannot compare strings): the driver logs buckets/keys in this order
BucketOrder == <<"b1", "b2">>
KeySeq == <<"k1", "k2">>
MListed(St, b) == SelectSeq(KeySeq, LAMBDA k : HasCurrent(St.objs[b][k]))
KeyOrder(b) == KeySeq
MBucket(St, b) ==
  IF St.bver[b] = "Absent" THEN [b |-> b, ver |-> "Absent", keys |-> <<>>, ups |-> <<>>, listed |-> <<>>]
  ELSE [b |-> b, ver |-> St.bver[b],
        keys |-> [i \in 1..Len(KeyOrder(b)) |-> MKey(St, b, KeyOrder(b)[i])],
        ups |-> MUploads(St, b),
        listed |-> MListed(St, b)]

\* ---- logged side, stripped of the uninterpreted fields
LVersion(v) == [vid |-> v.vid, dm |-> v.dm, latest |-> v.latest, content |-> v.content, ctype |-> v.ctype,
                meta |-> [sys |-> v.meta.sys, user |-> v.meta.user, redir |-> v.meta.redir],
                tags |-> v.tags, class |-> v.class]
LKey(kv) == [k |-> kv.k, cur |-> kv.cur, curvid |-> kv.curvid,
             versions |-> [i \in 1..Len(kv.versions) |-> LVersion(kv.versions[i])]]
LUploads(us) == [i \in 1..Len(us) |-> [uid |-> us[i].uid, k |-> us[i].k,
                   parts |-> [j \in 1..Len(us[i].parts) |-> [n |-> us[i].parts[j].n, size |-> us[i].parts[j].size]]]]
LBucket(bv) == [b |-> bv.b, ver |-> bv.ver,
                keys |-> [i \in 1..Len(bv.keys) |-> LKey(bv.keys[i])],
                ups |-> LUploads(bv.ups), listed |-> bv.listed]

MViews(St) == [i \in 1..Len(BucketOrder) |-> MBucket(St, BucketOrder[i])]
LViews(vs) == [i \in 1..Len(vs) |-> LBucket(vs[i])]

\* internal consistency flags computed by the driver from its own reads (size = bytes
\* read; listing agrees with read-by-id; Head agrees with Get)
FlagsOK(vs) ==
  \A i \in 1..Len(vs) : \A j \in 1..Len(vs[i].keys) :
     /\ \A n \in 1..Len(vs[i].keys[j].versions) :
          vs[i].keys[j].versions[n].size_ok /\ vs[i].keys[j].versions[n].consistent
     /\ vs[i].keys[j].cur = "Object" => vs[i].keys[j].head_agrees

\* ---- uninterpreted ETag / Last-Modified bookkeeping
VerIds(St) == {<<b, k, i>> : b \in Buckets, k \in Keys, i \in 1..8}
LoggedVersion(vs, b, k, vid) ==
  LET bi == CHOOSE i \in 1..Len(vs) : vs[i].b = b
      ki == CHOOSE j \in 1..Len(vs[bi].keys) : vs[bi].keys[j].k = k
      ni == CHOOSE n \in 1..Len(vs[bi].keys[ki].versions) : vs[bi].keys[ki].versions[n].vid = vid
  IN vs[bi].keys[ki].versions[ni]
\* the raw ETag and x-amz-checksum values the storage reported for a version
RawDigests(v) == [etag |-> v.etag, crc32 |-> v.cks.crc32, crc32c |-> v.cks.crc32c, crc64 |-> v.cks.crc64,
                  sha1 |-> v.cks.sha1, sha256 |-> v.cks.sha256, type |-> v.cks.type]
\* pairs <<digest structure term, raw digests>> of all live object versions
\* The harness concretises blob symbol c0 as the EMPTY byte string (pdrv symbol table): inside the
\* content of ONE part it contributes nothing, so <<c0, c2>> and <<c2>> are the same bytes and must
\* be the same term (an empty PART still counts: it contributes MD5("") to a multipart ETag).
EmptyBlob == "c0"
NormTerm(t) == [t EXCEPT !.parts = [j \in DOMAIN t.parts |->
                                     IF \A x \in 1..Len(t.parts[j]) : t.parts[j][x] = EmptyBlob THEN <<EmptyBlob>>
                                     ELSE SelectSeq(t.parts[j], LAMBDA x : x # EmptyBlob)]]
ETagPairs(St, vs) ==
  UNION {UNION {{<<NormTerm(ETagTerm(St.objs[b][k][i])), RawDigests(LoggedVersion(vs, b, k, St.objs[b][k][i].vid))>> :
                   i \in {n \in 1..Len(St.objs[b][k]) : ~St.objs[b][k][n].dm}} : k \in Keys} :
            b \in {x \in Buckets : St.bver[x] # "Absent"}}
\* functional and injective: same structure <=> same raw ETag
ETagsConsistent(E) == \A p, q \in E : ((p[1] = q[1]) <=> (p[2] = q[2]))
\* incremental form: E is consistent already (it only ever grows through accepted steps), so only
\* the pairs N observed in this step have to be compared - linear instead of quadratic in |E|
ETagsStillConsistent(E, N) == \A p \in N : \A q \in E \cup N : ((p[1] = q[1]) <=> (p[2] = q[2]))
MTimePairs(St, vs) ==
  UNION {UNION {{<< <<b, k, St.objs[b][k][i].vid, St.objs[b][k][i].mseq>>,
                    LoggedVersion(vs, b, k, St.objs[b][k][i].vid).mtime >> :
                   i \in 1..Len(St.objs[b][k])} : k \in Keys} :
            b \in {x \in Buckets : St.bver[x] # "Absent"}}

\* C14: where the part data lives.  The driver reads, for every completed object row, the part
\* store recorded on each of its part rows and checks that the bytes are physically there.
\* Every version's parts must live in the store its storage class maps to (stack "classes":
\* GLACIER -> cold, STANDARD_IA -> warm, everything else -> default).
StoreFor(class) == CASE class = "GLACIER" -> "cold" [] class = "STANDARD_IA" -> "warm" [] OTHER -> "default"
PlacementOK(e, St) ==
  e.placed =>
    /\ \A i \in 1..Len(e.placement) :
         LET p == e.placement[i]
             vs == St.objs[p.b][p.k] IN
         /\ Idx(vs, p.vid) # 0
         /\ ~vs[Idx(vs, p.vid)].dm
         /\ p.class = vs[Idx(vs, p.vid)].class
         /\ p.present
         /\ Len(p.stores) = Len(vs[Idx(vs, p.vid)].parts)
         /\ \A j \in 1..Len(p.stores) : p.stores[j] = StoreFor(vs[Idx(vs, p.vid)].pcls[j])
    /\ \A b \in Buckets : \A k \in Keys : \A n \in 1..Len(St.objs[b][k]) :
         (~St.objs[b][k][n].dm /\ St.objs[b][k][n].parts # <<>>) =>
            \E i \in 1..Len(e.placement) :
               e.placement[i].b = b /\ e.placement[i].k = k /\ e.placement[i].vid = St.objs[b][k][n].vid

\* ---- the result record as logged
LRes(e) == [err |-> e.res.err, vid |-> e.res.vid, dm |-> e.res.dm, uid |-> e.res.uid]
\* result fields that the operation defines (others are ignored)
ResAgrees(c, m, g) ==
  /\ m.err = g.err
  /\ (m.err = "" /\ c.op \in {"PutObject", "CopyObject", "CompleteUpload", "GetObject"}) => m.vid = g.vid
  /\ (m.err = "" /\ c.op = "DeleteObject") => (m.vid = g.vid /\ m.dm = g.dm)
  /\ (m.err = "" /\ c.op = "CreateUpload") => m.uid = g.uid

GetAgrees(e, St) ==
  (e.call.op = "GetObject" /\ e.res.err = "") =>
     LET v == St.objs[e.call.b][e.call.k][Idx(St.objs[e.call.b][e.call.k], e.res.vid)] IN
     /\ e.obj.content = NonEmpty(Flat(v.parts))
     /\ e.obj.ctype = v.ctype
     /\ [sys |-> e.obj.meta.sys, user |-> e.obj.meta.user, redir |-> e.obj.meta.redir] = v.meta
     /\ e.obj.class = v.class
     /\ e.obj.size_ok

\* for an "etag" mismatch the conflicting <<term, raw digests>> pairs are printed too
Conflicts(E) == {pq \in E \X E : (pq[1][1] = pq[2][1]) # (pq[1][2] = pq[2][2])}
Diag(i, what, a, e) ==
  PrintT(ToJson([l |-> i, prog |-> prog, what |-> what, model_res |-> a.r, model_views |-> MViews(a.s),
                 conflict |-> IF what = "etag"
                              THEN SetToSeq({[t1 |-> pq[1][1], r1 |-> pq[1][2], t2 |-> pq[2][1], r2 |-> pq[2][2]] :
                                               pq \in Conflicts(etags \cup ETagPairs(a.s, e.views))})
                              ELSE <<>>]))

TInit == /\ S = InitState(Buckets, Keys, Deviations) /\ res = NoRes /\ hist = <<>>
         /\ l = 1 /\ etags = {} /\ mtimes = {} /\ prog = 0 /\ taken = {}

TReset == /\ Trace[l].call.op = "Reset"
          /\ S' = InitState(Buckets, Keys, Deviations) /\ res' = NoRes /\ hist' = <<>>
          /\ etags' = etags      \* ETag terms are global: same structure => same ETag across programs
          /\ mtimes' = {} /\ prog' = Trace[l].prog /\ taken' = {} /\ l' = l + 1

\* The code is explained step by step by the model with SOME set D of the known deviations
\* enabled.  Candidates are tried in this order: none (the intended design), all, each single
\* tag, all but one - so the validation keeps accepting the code after any one of the known
\* findings gets repaired, and reports only the deviations a step really needs.
DevSeq == SetToSeq(Deviations)
Cands == <<{}, Deviations>> \o [i \in 1..Len(DevSeq) |-> {DevSeq[i]}]
                           \o [i \in 1..Len(DevSeq) |-> Deviations \ {DevSeq[i]}]
With(D) == [S EXCEPT !.dev = D]
Functional(P) == \A p, q \in P : p[1] = q[1] => p[2] = q[2]
StepMatches(e, a) ==
  /\ ResAgrees(e.call, a.r, LRes(e))
  /\ LViews(e.views) = MViews(a.s)
  /\ GetAgrees(e, a.s)
  /\ Functional(mtimes \cup MTimePairs(a.s, e.views))          \* C13: Last-Modified per version identity
  /\ ETagsStillConsistent(etags, ETagPairs(a.s, e.views))       \* C04: ETag is a function of the structure
  /\ PlacementOK(e, a.s)                                        \* C14: part data placement
FirstMatch(e) ==
  IF \E i \in 1..Len(Cands) : StepMatches(e, Apply(With(Cands[i]), e.call))
  THEN CHOOSE i \in 1..Len(Cands) :
         /\ StepMatches(e, Apply(With(Cands[i]), e.call))
         /\ \A j \in 1..(i - 1) : ~StepMatches(e, Apply(With(Cands[j]), e.call))
  ELSE 0

TCall ==
  LET e == Trace[l]
      m == FirstMatch(e)
      D == IF m = 0 THEN Deviations ELSE Cands[m]
      a == Apply(With(D), e.call)
      tk == TakenAt(With(D), e.call)
      E == etags \cup ETagPairs(a.s, e.views)
      M == mtimes \cup MTimePairs(a.s, e.views)
  IN
  /\ e.call.op # "Reset"
  /\ IF m = 0
     THEN Diag(l, IF ~ResAgrees(e.call, a.r, LRes(e)) THEN "result"
                  ELSE IF LViews(e.views) # MViews(a.s) THEN "views"
                  ELSE IF ~GetAgrees(e, a.s) THEN "get"
                  ELSE IF ~Functional(M) THEN "mtime"
                  ELSE IF ~PlacementOK(e, a.s) THEN "placement" ELSE "etag", a, e) /\ FALSE
     ELSE IF ~FlagsOK(e.views) THEN Diag(l, "flags", a, e) /\ FALSE
     ELSE IF ~e.refs_ok THEN Diag(l, "part-reference-count", a, e) /\ FALSE
     ELSE IF tk # {} THEN PrintT(ToJson([l |-> l, prog |-> prog, what |-> "deviation", tags |-> tk]))
     ELSE TRUE
  /\ S' = [a.s EXCEPT !.dev = Deviations] /\ res' = a.r /\ hist' = <<e.call>>
  /\ etags' = E /\ mtimes' = M
  /\ prog' = prog /\ taken' = taken \cup tk /\ l' = l + 1

\* C03 (fault_sequences): an attempt of the call into which the harness injected a fault (broken
\* request body; error at the k-th pre-commit hook / at the SQL COMMIT).  It must return an
\* error and leave every bucket, version, tag, upload and listing exactly as before.
TFault ==
  LET e == Trace[l] IN
  /\ e.call.op # "Reset" /\ e.fault # "none"
  /\ IF e.res.err = "" THEN Diag(l, "fault-succeeded", [r |-> NoRes, s |-> S], e) /\ FALSE
     ELSE IF LViews(e.views) # MViews(S) THEN Diag(l, "fault-left-trace", [r |-> NoRes, s |-> S], e) /\ FALSE
     ELSE IF ~FlagsOK(e.views) THEN Diag(l, "flags", [r |-> NoRes, s |-> S], e) /\ FALSE
     ELSE IF ~e.refs_ok THEN Diag(l, "part-reference-count", [r |-> NoRes, s |-> S], e) /\ FALSE
     ELSE TRUE
  /\ UNCHANGED <<S, res, hist, etags, mtimes, prog, taken>> /\ l' = l + 1

TNext == l <= Len(Trace) /\ (TReset \/ (Trace[l].call.op # "Reset" /\ Trace[l].fault = "none" /\ TCall) \/ TFault)

\* ------------------------------------------------ invariants on the observed behaviour
\* evaluated on behaviours in which the code has followed the intended design so far
TSane == taken = {} => StateOK(S)
\* C04 (structure): the raw ETag is a function of the ETag structure term, and injective.  Every
\* accepted step has checked its own pairs against the table (StepMatches), so the table is
\* consistent by construction; the full quadratic check runs once, on the final state.
TETags == l = Len(Trace) + 1 => ETagsConsistent(etags)
\* C13: Last-Modified of a version identity never changes
TMTimes == \A p, q \in mtimes : p[1] = q[1] => p[2] = q[2]

\* at the end: print the ETag table so the harness can recompute the digests (C04)
TDone == IF l = Len(Trace) + 1
         THEN PrintT(ToJson([etags |-> SetToSeq({[single |-> p[1].single, parts |-> p[1].parts, ck |-> p[1].ck, raw |-> p[2]] : p \in etags})]))
         ELSE TRUE
=============================================================================
