------------------------- MODULE NotifyOutboxTrace -------------------------
(* TV: the ndjson trace recorded by harness/cmd/notify from the real         *)
(* notification.StorageMiddleware (real SQLRepository on sqlite, scripted    *)
(* publisher, injected faults) is replayed against NotifyOutbox.tla.  Every  *)
(* line is one step of the model: Reset (new case), PutConfig, Mutate (the   *)
(* whole mutation transaction with the outbox table it left behind), and the *)
(* dispatcher's own steps Claim / ClaimNone / Publish / Delete / Release /   *)
(* DeadLetter / Crash as logged by the Repository and Publisher doubles,     *)
(* OutboxRows (table after a dispatcher pass), Advance (injected clock),     *)
(* Preset (attempts column raised by the harness: long outage),              *)
(* Final (after the drain rounds).  The outbox rows a mutation leaves behind *)
(* are taken from the real table; the property invariants of NotifyOutbox    *)
(* (EntryIffCommitted, BackoffBounded, AttemptsNeverExceedMax, ...) judge    *)
(* them in every state.  A line that no action explains stops the replay:    *)
(* acceptance = all lines consumed.                                           *)
EXTENDS NotifyOutbox, Json, IOUtils

Trace == ndJsonDeserialize(IOEnv.TRACE_FILE)

VARIABLE l
tvars == <<cfg, entry, tx, muts, now, script, fl, own, nown, crashes, l>>

U     == 3600     \* seconds of the injected clock per logical time unit
Slack == 450      \* real time a case may take (the driver aborts a case that takes longer)
W     == 1        \* the single dispatcher instance of the harness

Rng(q) == {q[i] : i \in 1..Len(q)}
PatOf(p) == Ev(p.cat, p.sub)
RuleOf(r) == [id |-> r.id, events |-> {PatOf(p) : p \in Rng(r.events)}, prefix |-> r.prefix, suffix |-> r.suffix]
CfgOf(c) == [rules |-> {RuleOf(r) : r \in Rng(c.rules)}, eb |-> c.eb, versioned |-> c.versioned,
             maxAttempts |-> c.maxAttempts, minB |-> c.minB, maxB |-> c.maxB, lease |-> c.lease]

\* observed seconds against a logical distance: the injected clock runs ahead of the
\* logical one by the real time the case has taken so far
\* (instants more than FarPast units ago are only checked to be that far in the past:
\* keeps the arithmetic inside TLC's 32-bit integers; the driver saturates likewise)
FarPast == 10000
DueOk(obs, units) == IF units < -FarPast THEN obs <= -FarPast * U
                     ELSE units * U - Slack <= obs /\ obs <= units * U

\* the real outbox table equals the projection of the model's live entries
RowsMatchIn(E, t, rows) ==
  LET live == {id \in DOMAIN E : E[id].status # "deleted"} IN
  /\ Len(rows) = Cardinality(live)
  /\ {rows[j].id : j \in 1..Len(rows)} = live
  /\ \A j \in 1..Len(rows) :
       LET r == rows[j]
           e == E[r.id] IN
       /\ r.rule = e.rule /\ PatOf(r.ev) = e.ev /\ PatOf(r.pev) = e.ev /\ r.key = e.key
       /\ r.attempts = e.attempts
       /\ r.dead = (e.status = "dead")
       /\ r.claimed = (e.owner # 0)
       /\ (e.status = "pending" => DueOk(r.due, e.nextAt - t))
       /\ (e.owner # 0 => DueOk(r.until, e.until - t))

Is(name) == l <= Len(Trace) /\ Trace[l].t = name
Step == l' = l + 1

TInit == /\ l = 1
         /\ InitWith([rules |-> {}, eb |-> FALSE, versioned |-> FALSE, maxAttempts |-> 0, minB |-> 1, maxB |-> 1, lease |-> 1], <<>>)

TReset ==
  /\ Is("Reset")
  /\ cfg' = CfgOf(Trace[l].cfg) /\ script' = Trace[l].script
  /\ entry' = <<>> /\ tx' = NoTx /\ muts' = <<>> /\ now' = 0
  /\ fl' = [w \in Workers |-> NoFl] /\ own' = [w \in Workers |-> w] /\ nown' = Max(Workers) + 1 /\ crashes' = 0
  /\ Step

\* PutBucketNotificationConfiguration: one synchronous test event per distinct
\* destination, never through the outbox
TPutConfig ==
  /\ Is("PutConfig")
  /\ Trace[l].result = "ok"
  /\ Rng(Trace[l].tests) = {r.id : r \in cfg.rules} \cup (IF cfg.eb THEN {"eb"} ELSE {})
  /\ Len(Trace[l].tests) = Cardinality(Rng(Trace[l].tests))
  /\ RowsMatchIn(entry, now, Trace[l].rows)
  /\ UNCHANGED vars /\ Step

TMutate ==
  /\ Is("Mutate")
  /\ LET r == Trace[l]
         m == Mut(r.kind, r.key, r.key2, r.exists)
         \* a transaction without pre-commit hooks never reaches that fault point
         f == IF r.fault = "precommit" /\ ~r.fired THEN "none" ELSE r.fault
         res == TxResult(cfg, m, f)
         rowOf(id) == r.rows[CHOOSE j \in 1..Len(r.rows) : r.rows[j].id = id]
         newIds == {r.rows[j].id : j \in 1..Len(r.rows)} \ Ids
         new == [id \in newIds |-> [rule |-> rowOf(id).rule, ev |-> PatOf(rowOf(id).ev), key |-> rowOf(id).key]] IN
     /\ r.kind \in Kinds /\ r.fault \in Faults
     /\ MutateAtomic(m, f, new)
     /\ r.fired = res.reached
     /\ (r.result = "ok") = res.committed
     /\ r.applied = (res.committed /\ Visible(cfg, m))
     /\ RowsMatchIn(entry', now, r.rows)
  /\ Step

TDispatchStart ==
  /\ Is("DispatchStart") /\ fl[W] = NoFl /\ Trace[l].w = own[W]
  /\ UNCHANGED vars /\ Step

TClaim ==
  /\ Is("Claim")
  /\ Claim(W, Trace[l].id)
  /\ fl'[W].attempts = Trace[l].attempts
  /\ Trace[l].w = own[W]
  /\ Trace[l].lease = cfg.lease * U
  /\ Step

\* the dispatcher gives up a pass only when nothing is claimable (fair dispatcher)
TClaimNone ==
  /\ Is("ClaimNone") /\ fl[W] = NoFl /\ ~AnyClaimable
  /\ UNCHANGED vars /\ Step

TPublish ==
  /\ Is("Publish")
  /\ LET r == Trace[l] IN
     /\ fl[W].id = r.id /\ fl[W].attempts = r.attempt
     /\ r.outcome = Outcome
     /\ r.rule = entry[r.id].rule /\ PatOf(r.ev) = entry[r.id].ev /\ PatOf(r.pev) = entry[r.id].ev /\ r.key = entry[r.id].key
  /\ Publish(W)
  /\ Step

TDelete ==
  /\ Is("Delete") /\ fl[W].id = Trace[l].id
  /\ Trace[l].ok = Owns(W, Trace[l].id)
  /\ FinishDelete(W)
  /\ Step

\* observed backoff in units; an inconsistent observation becomes 0 and is
\* caught by BackoffBounded
DelayOf(delta) == LET d == (delta + Slack) \div U IN IF d * U >= delta THEN d ELSE 0
TRelease ==
  /\ Is("Release") /\ fl[W].id = Trace[l].id
  /\ Trace[l].ok = Owns(W, Trace[l].id)
  /\ Trace[l].haserr
  /\ FinishRelease(W, DelayOf(Trace[l].delta))
  /\ Step

TDeadLetter ==
  /\ Is("DeadLetter") /\ fl[W].id = Trace[l].id
  /\ Trace[l].ok = Owns(W, Trace[l].id)
  /\ Trace[l].haserr
  /\ FinishDeadLetter(W)
  /\ Step

TCrash ==
  /\ Is("Crash") /\ fl[W].phase = "crashing"
  /\ Crash(W)
  /\ Step

TDispatchEnd ==
  /\ Is("DispatchEnd") /\ fl[W] = NoFl /\ ~AnyClaimable
  /\ UNCHANGED vars /\ Step

TOutboxRows ==
  /\ Is("OutboxRows")
  /\ RowsMatchIn(entry, now, Trace[l].rows)
  /\ UNCHANGED vars /\ Step

TAdvance ==
  /\ Is("Advance") /\ Trace[l].d >= 1
  /\ AdvanceTo(now + Trace[l].d)
  /\ Step

\* the harness raised the attempts column of every idle pending row (long outage)
TPreset ==
  /\ Is("Preset")
  /\ Rng(Trace[l].ids) = {id \in Ids : Idle(id)}
  /\ PresetAttempts(Trace[l].n)
  /\ Step

\* after the drain rounds (clock advanced past every backoff and lease before each
\* dispatcher pass) every entry has been delivered at least once or dead-lettered
TFinal ==
  /\ Is("Final") /\ AllSettled
  /\ UNCHANGED vars /\ Step

TNext == \/ TReset \/ TPutConfig \/ TMutate \/ TDispatchStart \/ TClaim \/ TClaimNone \/ TPublish
         \/ TDelete \/ TRelease \/ TDeadLetter \/ TCrash \/ TDispatchEnd \/ TOutboxRows \/ TAdvance \/ TPreset \/ TFinal
=============================================================================
