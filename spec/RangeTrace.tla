----------------------------- MODULE RangeTrace -----------------------------
(* TV: one executed case per ndjson line (harness/cmd/rangeread).           *)
(* Every line carries the symbolic case, the concretisation the driver used *)
(* (real part sizes, q), and what the real code answered.  Verdict:         *)
(*   malformed  the line is not a case of Range.tla (harness/pipeline bug)  *)
(*   mismatch   the model of the code (with the listed Deviations) does not *)
(*              explain the answer, or the answer is internally wrong       *)
(*              (body bytes differ from the claimed slice, Content-Length   *)
(*              differs from the body, wrong number of parts opened)        *)
(*   finding    explained by the model of the code but contradicting        *)
(*              Resolve on a syntactically valid header; tag = deviation    *)
(*   ok                                                                     *)
EXTENDS Range, Json, IOUtils

Trace == ndJsonDeserialize(IOEnv.TRACE_FILE)
VARIABLE l

PosOf(p)  == [b |-> p.b, o |-> p.o]
SpecOf(s) == [f |-> PosOf(s.f), l |-> PosOf(s.l)]
CaseOf(r) == [obj |-> r.obj, form |-> r.form, style |-> r.style,
              specs |-> [i \in 1..Len(r.specs) |-> SpecOf(r.specs[i])]]
ObjOf(r)  == [parts |-> r.parts, q |-> r.q]

ToSet(s) == {s[i] : i \in 1..Len(s)}

\* ---- HTTP ----------------------------------------------------------------
HttpObserved(r) ==
  [status |-> r.status, slices |-> [i \in 1..Len(r.out) |-> [lo |-> r.out[i].lo, hi |-> r.out[i].hi]]]

\* the answer is self-consistent and consistent with the uploaded bytes
HttpSound(r, obj) ==
  LET n == Size(obj) IN
  CASE r.status = 206 ->
         /\ Len(r.out) >= 1
         /\ \A i \in 1..Len(r.out) :
              /\ r.out[i].match
              /\ r.out[i].n = r.out[i].hi - r.out[i].lo + 1
              /\ r.out[i].total = n
         /\ r.cl = r.blen
         /\ r.mp_ok
         /\ r.shape = (IF Len(r.out) > 1 THEN "multipart" ELSE "plain")
         /\ (Len(r.out) = 1 => r.has_cr /\ r.blen = r.out[1].n)
         /\ r.opened = PlanLen(obj, HttpObserved(r).slices)
    [] r.status = 200 ->
         /\ r.full_match /\ r.cl = n /\ r.blen = n /\ ~r.has_cr /\ r.out = <<>>
         /\ r.opened = Len(obj.parts)
    [] r.status = 416 -> r.out = <<>> /\ r.opened = 0
    [] OTHER -> FALSE

\* ---- storage API ---------------------------------------------------------
StorageSound(r, obj, model) ==
  /\ r.err = model.err
  /\ Len(r.out) = Len(model.slices)
  /\ \A i \in 1..Len(r.out) :
       /\ r.out[i].n = model.slices[i].hi - model.slices[i].lo + 1
       /\ model.slices[i].lo \in ToSet(r.out[i].at)
  /\ r.opened = PlanLen(obj, model.slices)

Verdict(r) ==
  LET c   == CaseOf(r)
      obj == ObjOf(r) IN
  IF ~WellFormedCase(c, obj) \/ r.api \notin {"http", "storage"} THEN [v |-> "malformed", tag |-> ""]
  ELSE LET h == HeaderOf(c, obj) IN
  IF r.api = "http" THEN
       IF HttpObserved(r) # CodeHTTP(h, obj, Deviations) \/ ~HttpSound(r, obj) THEN [v |-> "mismatch", tag |-> ""]
       ELSE IF Judged(h) /\ HttpObserved(r) # IntendedHTTP(h, obj)
            THEN [v |-> "finding", tag |-> BlameHTTP(h, obj, Deviations)]
       ELSE [v |-> "ok", tag |-> ""]
  ELSE
       IF ~StorageRepresentable(h) \/ c.style # "plain" THEN [v |-> "malformed", tag |-> ""]
       ELSE IF ~StorageSound(r, obj, CodeStorage(h, obj, Deviations)) THEN [v |-> "mismatch", tag |-> ""]
       ELSE IF Judged(h) /\ CodeStorage(h, obj, Deviations) # IntendedStorage(h, obj)
            THEN [v |-> "finding", tag |-> BlameStorage(h, obj, Deviations)]
       ELSE [v |-> "ok", tag |-> ""]

Expected(r) ==
  LET obj == ObjOf(r)
      h   == HeaderOf(CaseOf(r), obj) IN
  IF r.api = "http" THEN [code |-> CodeHTTP(h, obj, Deviations), intended |-> IntendedHTTP(h, obj)]
  ELSE [code |-> CodeStorage(h, obj, Deviations), intended |-> IntendedStorage(h, obj)]

Report(i) ==
  LET r == Trace[i]
      v == Verdict(r) IN
  IF v.v = "ok" THEN TRUE
  ELSE IF v.v = "malformed" THEN PrintT(ToJson([l |-> i, verdict |-> v.v, tag |-> ""]))
  ELSE PrintT(ToJson([l |-> i, verdict |-> v.v, tag |-> v.tag, expected |-> Expected(r)]))

TInit == /\ l = 1
         /\ mobj = [parts |-> <<>>, q |-> 0]
         /\ mhdr = [form |-> "none", specs |-> <<>>]
TNext == l <= Len(Trace) /\ Report(l) /\ l' = l + 1 /\ UNCHANGED <<mobj, mhdr>>
=============================================================================
