---------------------------- MODULE SigV4Trace ----------------------------
(* TV: one executed case per ndjson line: the case (s, m), what the server received      *)
(* (tokenised) and what it answered (status, authenticated key, rejecting guard).        *)
EXTENDS SigV4, Json, IOUtils
Trace == ndJsonDeserialize(IOEnv.TRACE_FILE)
VARIABLE l

QP(p) == [k |-> p.k, v |-> p.v]
ShapeOf(r) == [auth |-> r.s.auth, method |-> r.s.method, key |-> r.s.key, query |-> MapSeq(QP, r.s.query),
               meta |-> r.s.meta, ctype |-> r.s.ctype, md5 |-> r.s.md5, payload |-> r.s.payload, body |-> r.s.body,
               skew |-> r.s.skew, expires |-> r.s.expires, region |-> r.s.region, service |-> r.s.service,
               signer |-> r.s.signer, rogue |-> r.s.rogue]
MutOf(r) == Mk(r.m.kind, r.m.i, r.m.j, r.m.p, r.m.t, r.m.n)
WP(p) == [k |-> p.k, v |-> p.v, eq |-> p.eq]
Observed(r) == [step |-> r.step, status |-> r.status, key |-> r.key]

\* which deviation explains a property violation
WsTaken(x) == \E n \in x.signedList :
                 Trim(JoinLines(Recv(x.hdr[n]))) # Trim(Collapse(JoinLines(Recv(x.hdr[n]))))
SortTaken(x) == SortPairs(EncRank, UserPairs(x) \o AuthPairs(x)) # SortPairs(DecRank, UserPairs(x) \o AuthPairs(x))
C28Tag(x) == IF HasMalformed(x) THEN "D-C28-malformed-query-ignored"
             ELSE IF x.xsig # 0 THEN "D-C28-signature-param-ignored" ELSE "D-C28-unexplained"
C29Tag(x) == IF WsTaken(x) THEN "D-C29-inner-whitespace"
             ELSE IF SortTaken(x) THEN "D-C29-query-sort-order" ELSE "D-C29-unexplained"

\* the request the server received is the request the model talks about
WireOK(r, x) ==
  /\ r.recv_method = x.method
  /\ r.recv_path = x.path
  /\ MapSeq(WP, r.recv_query) = x.query
  /\ r.recv_xsig = x.xsig
  /\ r.recv_meta = Recv(x.hdr["x-amz-meta-m"])
  /\ r.recv_ctype = Recv(x.hdr["content-type"])

Judge(r, ss, mm, x0, x, vv) ==
  IF ~WireOK(r, x) THEN [verdict |-> "wire", prop |-> "", tag |-> ""]
  ELSE IF Observed(r) # vv THEN [verdict |-> "mismatch", prop |-> "", tag |-> ""]
  ELSE IF ~C28Holds(ss, x0, x, vv) THEN [verdict |-> "finding", prop |-> "C28", tag |-> C28Tag(x)]
  ELSE IF mm = NoMut /\ ~C29Holds(ss, vv) THEN [verdict |-> "finding", prop |-> "C29", tag |-> C29Tag(x)]
  ELSE [verdict |-> "ok", prop |-> "", tag |-> ""]
Report(i, r, ss, mm, x0, x, vv) ==
  LET j == Judge(r, ss, mm, x0, x, vv) IN
  IF j.verdict = "ok" THEN TRUE
  ELSE PrintT(ToJson([l |-> i, verdict |-> j.verdict, prop |-> j.prop, tag |-> j.tag, expected |-> vv,
                      got |-> Observed(r),
                      model_wire |-> [method |-> x.method, path |-> x.path, query |-> x.query, xsig |-> x.xsig,
                                      meta |-> Recv(x.hdr["x-amz-meta-m"]), ctype |-> Recv(x.hdr["content-type"])]]))

TInit == l = 1 /\ s = Base /\ m = NoMut /\ w0 = <<>> /\ w = <<>> /\ v = <<>>
TNext == /\ l <= Len(Trace)
         /\ l' = l + 1
         /\ s' = ShapeOf(Trace[l])
         /\ m' = MutOf(Trace[l])
         /\ w0' = Wire(s')
         /\ w' = Mutate(w0', m')
         /\ v' = Verdict(w')
         /\ Report(l, Trace[l], s', m', w0', w', v')
=============================================================================
