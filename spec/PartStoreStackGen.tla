------------------------- MODULE PartStoreStackGen -------------------------
(* GEN for C15.                                                              *)
(*  (1) SInit/SNext: TLC enumerates every static case (stack of the grammar, *)
(*      size class relative to the boundaries of that stack, content class). *)
(*  (2) PInit/PNext (-simulate): random walks of the PartStoreStack          *)
(*      transition system; the history of CALLS (no expected results) is     *)
(*      printed when it has MaxLen operations.  The pipeline pairs static    *)
(*      cases with programs of the same semantic stack; the Go driver        *)
(*      executes them on the real part stores.                               *)
EXTENDS PartStoreStack, Json

CONSTANTS Depth,      \* maximal number of layers of a stack (base included)
          BigSizes    \* TRUE: include the 8 MiB outbox chunk boundary

CONSTANTS WL1, WL2, WL3, WTag, WOpNames, WModes, WIds, WBlobs   \* witness search (3), see below ("-" = no layer)

VARIABLES hist, reads, case

NoCase == [stack |-> <<"fs">>]

\* ---- (1) static cases
AllCases == StaticCases(Depth, BigSizes)      \* constant-level, evaluated once
SInit == /\ st = InitState(<<"fs">>, FALSE) /\ n = 0 /\ hist = <<>> /\ reads = 0
         /\ case \in AllCases
SNext == UNCHANGED <<st, n, hist, reads, case>>
EmitCase == PrintT(ToJson(case))

\* ---- (2) programs
GenSems == {Sem(s) : s \in Stacks(Depth)}
PInit == /\ \E sm \in GenSems : st = InitState(sm, FALSE)
         /\ n = 0 /\ hist = <<>> /\ reads = 0 /\ case = NoCase
\* a program starts by writing something (or opening a transaction); after MaxLen calls one
\* deterministic "end" step follows, so that exactly the walk the simulator chose is printed
FirstOk(o) == hist # <<>> \/ o.op \in {"put", "begin"}
PNext == \/ /\ Len(hist) < MaxLen
            /\ \E o \in AllOps :
                 /\ Enabled(st, o) /\ FirstOk(o)
                 /\ "CRASH" \notin Step(st, o).tags      \* known to kill the process (see EcTag): not generated
                 /\ st' = Step(st, o)
                 /\ hist' = Append(hist, o)
                 /\ reads' = reads + (IF st'.res.kind = "get" /\ st'.res.v \in Blobs THEN 1 ELSE 0)
                                   + (IF st'.res.kind = "ids" /\ st'.res.ids # {} THEN 1 ELSE 0)
            /\ n' = n + 1 /\ UNCHANGED case
         \/ /\ Len(hist) = MaxLen /\ n = MaxLen
            /\ n' = n + 1 /\ UNCHANGED <<st, hist, reads, case>>
\* number of reads in a program that return blob b1 (the blob that carries the size class): by replay
RECURSIVE ReadsB1(_, _)
ReadsB1(s, ops) == IF ops = <<>> THEN 0
                   ELSE LET s2 == Step(s, Head(ops)) IN
                        (IF s2.res.kind = "get" /\ s2.res.v = "b1" THEN 1 ELSE 0) + ReadsB1(s2, Tail(ops))
EmitProg == IF n = MaxLen + 1
            THEN PrintT(ToJson([sem |-> st.sem, prog |-> hist, reads |-> reads, reads1 |-> ReadsB1(InitState(st.sem, FALSE), hist)]))
            ELSE TRUE

\* ---- (3) witness programs: breadth-first search (restricted alphabet) for the shortest program on
\* which the model of the code (Deviations = open tags) violates the property through deviation WTag.
\* The pipeline executes it on the real stack, so that every listed finding is re-confirmed by every run.
WSem == SelectSeq(<<WL1, WL2, WL3>>, LAMBDA x : x # "-")
WOps == {o \in AllOps : /\ o.op \in WOpNames /\ o.mode \in WModes \cup {"-"}
                        /\ o.id \in WIds \cup {"-"} /\ o.blob \in WBlobs \cup {"-"}}
WInit == /\ st = InitState(WSem, FALSE) /\ n = 0 /\ hist = <<>> /\ reads = 0 /\ case = NoCase
WNext == /\ n < MaxLen /\ st.ok
         /\ \E o \in WOps : Enabled(st, o) /\ st' = Step(st, o) /\ hist' = Append(hist, o)
         /\ n' = n + 1 /\ UNCHANGED <<reads, case>>
EmitWitness == IF ~st.ok /\ WTag \in st.tags
               THEN PrintT(ToJson([sem |-> st.sem, prog |-> hist, tag |-> WTag]))
               ELSE TRUE
=============================================================================
