------------------------- MODULE PartStoreStackGen -------------------------
(* GEN for C15.                                                              *)
(*  (1) SInit/SNext: TLC enumerates every static case (stack of the grammar, *)
(*      size class relative to the boundaries of that stack, content class). *)
(*  (2) PInit/PNext (-simulate): random walks of the PartStoreStack          *)
(*      transition system; the history of CALLS (no expected results) is     *)
(*      printed when it has MaxLen operations.  The pipeline pairs static    *)
(*      cases with programs of the same semantic stack; the Go driver        *)
(*      executes them on the real part stores.                               *)
EXTENDS PartStoreStack, Json

CONSTANTS Depth,      \* maximal number of layers of a stack (base included)
          BigSizes    \* TRUE: include the 8 MiB outbox chunk boundary

CONSTANTS WL1, WL2, WL3, WTag, WOpNames, WModes, WIds, WBlobs   \* witness search (3), see below ("-" = no layer)

VARIABLES hist, reads, case, feat

NoCase == [stack |-> <<"fs">>]

\* ---- (1) static cases
AllCases == StaticCases(Depth, BigSizes)      \* constant-level, evaluated once
SInit == /\ st = InitState(<<"fs">>, FALSE) /\ n = 0 /\ hist = <<>> /\ reads = 0 /\ feat = <<>>
         /\ case \in AllCases
SNext == UNCHANGED <<st, n, hist, reads, case, feat>>
EmitCase == PrintT(ToJson(case))

\* ---- (2) programs
GenSems == {Sem(s) : s \in Stacks(Depth)}
PInit == /\ \E sm \in GenSems : st = InitState(sm, FALSE)
         /\ n = 0 /\ hist = <<>> /\ reads = 0 /\ case = NoCase /\ feat = <<>>
\* a program starts by writing something (or opening a transaction); after MaxLen calls one
\* deterministic "end" step follows, so that exactly the walk the simulator chose is printed
FirstOk(o) == hist # <<>> \/ o.op \in {"put", "begin"}
\* weighted choice (TLC's RandomElement, seeded by -seed): op kinds by weight, mostly part id "p", so that a
\* program of a handful of calls tells a story about one part; exactly one successor per step
RW(q) == q[RandomElement(1..Len(q))]
KindW == <<"put", "put", "put", "get", "get", "get", "get", "del", "del", "ids", "begin", "commit", "commit", "rollback", "drain", "drain">>
\* CRASH: a call known to kill the process (see EcTag) is not generated
Usable(o) == Enabled(st, o) /\ FirstOk(o) /\ (EcDev /\ o.op = "get" => "CRASH" \notin Step(st, o).tags)
PNext == \/ /\ Len(hist) < MaxLen
            \* (bounded quantifiers over singleton sets bind each random draw exactly once)
            /\ \E kind \in {RW(KindW)}, pid \in {RW(<<"p", "p", "p", "p", "q">>)}, c3 \in {{o \in AllOps : Usable(o)}} :
                 LET c2 == {o \in c3 : o.id \in {pid, "-"}}
                     c1 == {o \in c2 : o.op = kind} IN
                 \E o \in {RandomElement(IF c1 # {} THEN c1 ELSE IF c2 # {} THEN c2 ELSE c3)} :
                 /\ st' = Step(st, o)
                 /\ hist' = Append(hist, o)
                 /\ reads' = reads + (IF st'.res.kind = "get" /\ st'.res.v \in Blobs THEN 1 ELSE 0)
                                   + (IF st'.res.kind = "ids" /\ st'.res.ids # {} THEN 1 ELSE 0)
            /\ n' = n + 1 /\ UNCHANGED <<case, feat>>
         \/ /\ Len(hist) = MaxLen /\ n = MaxLen
            /\ n' = n + 1 /\ UNCHANGED <<st, hist, reads, case, feat>>
\* number of reads in a program that return blob b1 (the blob that carries the size class): by replay
\* the branches of the model that a program exercises: <<call, mode, branch...>> per call
FeatOf(s, o) ==
  CASE o.op = "get" -> LET r == GetL(IF o.mode = "auto" THEN [s EXCEPT !.tx = "ro"] ELSE s, 1,
                                      IF o.mode = "auto" THEN "tx" ELSE o.mode, o.id) IN
                       <<"get", o.mode>> \o r.via \o <<r.v>>          \* ... and which blob the branch delivers
    [] o.op = "drain" -> <<"drain", IF s.ob = <<>> THEN "nothing" ELSE "entries">>
    [] o.op \in {"commit", "rollback"} -> <<o.op, IF s.istaged = <<>> THEN "nowrites" ELSE "writes">>
    [] o.op \in {"put", "del"} -> <<o.op, o.mode, IF s.ideal[o.id] = None THEN "absent" ELSE "present">>
    [] OTHER -> <<o.op, o.mode>>
RECURSIVE Feats(_, _)
Feats(s, ops) == IF ops = <<>> THEN {} ELSE {FeatOf(s, Head(ops))} \cup Feats(Step(s, Head(ops)), Tail(ops))
RECURSIVE ReadsB1(_, _)
ReadsB1(s, ops) == IF ops = <<>> THEN 0
                   ELSE LET s2 == Step(s, Head(ops)) IN
                        (IF s2.res.kind = "get" /\ s2.res.v = "b1" THEN 1 ELSE 0) + ReadsB1(s2, Tail(ops))
EmitProg == IF n = MaxLen + 1
            THEN PrintT(ToJson([sem |-> st.sem, prog |-> hist, reads |-> reads, reads1 |-> ReadsB1(InitState(st.sem, FALSE), hist),
                                feats |-> Feats(InitState(st.sem, FALSE), hist)]))
            ELSE TRUE

\* ---- (3) witness programs: breadth-first search (restricted alphabet) for the shortest program on
\* which the model of the code (Deviations = open tags) violates the property through deviation WTag.
\* The pipeline executes it on the real stack, so that every listed finding is re-confirmed by every run.
WSem == SelectSeq(<<WL1, WL2, WL3>>, LAMBDA x : x # "-")
WOps == {o \in AllOps : /\ o.op \in WOpNames /\ o.mode \in WModes \cup {"-"}
                        /\ o.id \in WIds \cup {"-"} /\ o.blob \in WBlobs \cup {"-"}}
WInit == /\ st = InitState(WSem, FALSE) /\ n = 0 /\ hist = <<>> /\ reads = 0 /\ case = NoCase /\ feat = <<>>
WNext == /\ n < MaxLen /\ st.ok
         /\ \E o \in WOps : Enabled(st, o) /\ st' = Step(st, o) /\ hist' = Append(hist, o)
         /\ n' = n + 1 /\ UNCHANGED <<reads, case, feat>>
EmitWitness == IF ~st.ok /\ WTag \in st.tags
               THEN PrintT(ToJson([sem |-> st.sem, prog |-> hist, tag |-> WTag]))
               ELSE TRUE

\* ---- (4) branch witnesses: breadth-first search over the MODEL STATES (one part id; VIEW without the history,
\* so every distinct (state, branch just taken) is visited once, by a shortest program): the first program
\* printed for a (semantic stack, branch) pair is a shortest program that exercises that branch of the model.
\* The random programs of (2) rarely reach the deeper ones (e.g. a pending delete entry over drained content).
FOps == {o \in AllOps : o.id \in {"p", "-"}}
\* In this search `reads` remembers how part p last changed in the ideal store: <<content before the change, how>>
\* (how = "nil" | "auto" | "tx": tx-free call, single-call transaction, Commit of the caller's transaction), so that
\* reading a part back after it was OVERWRITTEN (larger by smaller, smaller by larger, with and without a
\* transaction) is a branch of its own: <<"get", mode, layers..., blob, "overwrote", previous blob, how>>.
NoChange == <<None, "-">>
HowOf(o) == IF o.op = "commit" THEN "tx" ELSE o.mode
Overwrote(o, v) == IF o.op = "get" /\ v \in Blobs /\ reads[1] \in Blobs /\ reads[1] # v
                   THEN <<"overwrote", reads[1], reads[2]>> ELSE <<>>
FInit == /\ \E sm \in GenSems : st = InitState(sm, FALSE)
         /\ n = 0 /\ hist = <<>> /\ reads = NoChange /\ case = NoCase /\ feat = <<>>
FNext == /\ n < MaxLen
         /\ \E o \in FOps : /\ Enabled(st, o) /\ (EcDev /\ o.op = "get" => "CRASH" \notin Step(st, o).tags)
                             /\ st' = Step(st, o) /\ hist' = Append(hist, o)
                             /\ feat' = FeatOf(st, o) \o Overwrote(o, st'.res.v)
                             /\ reads' = IF st'.ideal["p"] # st.ideal["p"] THEN <<st.ideal["p"], HowOf(o)>> ELSE reads
         /\ n' = n + 1 /\ UNCHANGED case
FView == <<[st EXCEPT !.res = NoRes, !.ok = TRUE, !.tags = {}], feat, reads>>
EmitFeat == IF feat # <<>> /\ feat[1] \in {"get", "ids", "drain", "commit", "rollback"}
            THEN PrintT(ToJson([sem |-> st.sem, prog |-> hist, feat |-> feat, reads |-> 0,
                                reads1 |-> ReadsB1(InitState(st.sem, FALSE), hist), feats |-> Feats(InitState(st.sem, FALSE), hist)]))
            ELSE TRUE
=============================================================================
