---------------------------- MODULE CondWriteGen ----------------------------
(* GEN: random walks of CondWrite; the linearisation history of a finished   *)
(* walk (calls only; results are dropped by the pipeline) is one round of   *)
(* concurrent client scripts for the harness.                               *)
EXTENDS CondWrite, Json
Emit == IF nops = MaxOps /\ \A c \in Clients : pc[c] = "idle"
        THEN PrintT(ToJson([ops |-> [i \in 1..Len(hist) |-> [c |-> hist[i].c, op |-> hist[i].op]]]))
        ELSE TRUE
=============================================================================
