-------------------------------- MODULE Aead --------------------------------
(***************************************************************************)
(* C16 - encrypted parts are tamper-evident and seekable.                  *)
(*                                                                         *)
(* Byte(cell)-level model, with scaled-down constants (segment 14, tink     *)
(* header 5, tag 2: the order relations between header, tag and segment     *)
(* sizes that the arithmetic depends on are those of the real constants), of *)
(*   tink.go      PutPart (layout of the stored object), readPartHeaderAndDEK, *)
(*                GetPart (seekable vs sequential path)                    *)
(*   seekable.go  newSeekableDecryptingReader, segmentForPlaintextOffset,  *)
(*                plaintextStartOfSegment, loadSegment, Read, Seek         *)
(*   tink-go v1.7 streamingaead/subtle NewDecryptingReader and             *)
(*                noncebased.Reader.Read (the sequential path)             *)
(* A stored object is a sequence of CELLS written by the writer:           *)
(*   len len | jsyn jver jkt jseg jdek | thl salt salt np np | seg_0 | ... *)
(*   (length prefix, header JSON, tink header, segments = body cells + tag)*)
(* Symbolic AEAD: Open(slice, index, last) succeeds iff the slice is       *)
(* exactly the complete, unmodified ciphertext of the writer's segment     *)
(* with that index and that last-flag, written for the DEK that the header *)
(* yields for the part id (associated data) under which it is read.        *)
(* Tampering = any function on the cell sequence (flip, truncate, extend,  *)
(* swap, drop, duplicate, other part's bytes, segment-size field).         *)
(***************************************************************************)
EXTENDS Integers, Sequences, FiniteSets, TLC

CONSTANTS Deviations,   \* open deviation tags (model of the code); {} = intended design
          MaxFull       \* MC: plaintext lengths 0 .. MaxFull*Pss+2

Css  == 14              \* ciphertext segment size      (real: 131072)
Hdr  == 5               \* tink header cells            (real: 40 bytes; same ratio to the tag as in reality)
Tag  == 2               \* tag cells per segment        (real: 16 bytes)
Pss  == Css - Tag       \* plaintext per full segment
Pss0 == Pss - Hdr       \* plaintext of the first segment
LenCells  == 2          \* length prefix                (real: 4 bytes)
JsonCells == 5          \* header JSON: syntax, version, keyType, segmentSize, encryptedDEK
Base == LenCells + JsonCells
CssGrown == 2 * Css     \* a different, still legal segment size written into the header (real: 2*css)
All == 1000             \* "read until EOF"

EofTag   == "D-C16-eof-without-authentication"
TruncTag == "D-C16-truncated-header-reads-empty"
StaleTag == "D-C16-stale-buffer-after-failed-segment"
SeqTag   == "D-C16-sequential-truncation-undetected"
Dev(t) == t \in Deviations

Min(a, b) == IF a < b THEN a ELSE b
Max(a, b) == IF a > b THEN a ELSE b

--------------------------------------------------------------------------
\* the WRITER's layout (tink.go PutPart + tink-go NewEncryptingWriter)
C(c, w, j, k, n, last, p, v) == [c |-> c, w |-> w, j |-> j, k |-> k, n |-> n, last |-> last, p |-> p, v |-> v, x |-> FALSE]
H(c, w, k, v) == C(c, w, -1, k, 0, FALSE, -1, v)
NumSeg(L)  == IF L <= Pss0 THEN 1 ELSE 1 + (L - Pss0 + Pss - 1) \div Pss
WStart(j)  == IF j = 0 THEN 0 ELSE Pss0 + (j - 1) * Pss
WLen(L, j) == IF j < NumSeg(L) - 1 THEN (IF j = 0 THEN Pss0 ELSE Pss) ELSE L - WStart(j)
HeaderCells(w) == <<H("len", w, 0, 0), H("len", w, 1, 0), H("jsyn", w, 0, 0), H("jver", w, 0, 0), H("jkt", w, 0, 0),
                    H("jseg", w, 0, Css), H("jdek", w, 0, 0)>>
TinkCells(w) == <<H("thl", w, 0, 0), H("tsalt", w, 0, 0), H("tsalt", w, 1, 0), H("tnp", w, 0, 0), H("tnp", w, 1, 0)>>   \* Hdr cells
SegCells(w, L, j) ==
  LET pt == WLen(L, j)
      last == j = NumSeg(L) - 1 IN
  [i \in 1..(pt + Tag) |-> IF i <= pt THEN C("body", w, j, i - 1, pt + Tag, last, WStart(j) + i - 1, 0)
                           ELSE C("tag", w, j, i - 1, pt + Tag, last, -1, 0)]
RECURSIVE Segs(_, _, _)
Segs(w, L, j) == IF j = NumSeg(L) THEN <<>> ELSE SegCells(w, L, j) \o Segs(w, L, j + 1)
Stored(w, L) == HeaderCells(w) \o TinkCells(w) \o Segs(w, L, 0)
StoredLen(L) == Base + Hdr + L + Tag * NumSeg(L)
\* symbolic plaintext lengths: [full, extra] = "full" complete segments plus/minus extra bytes
ClassLen(full, extra) == IF full = 0 THEN extra ELSE Pss0 + (full - 1) * Pss + extra
\* 0-based offset of segment j inside the stored object
RECURSIVE WSegOff(_, _)
WSegOff(L, j) == IF j = 0 THEN Base + Hdr ELSE WSegOff(L, j - 1) + WLen(L, j - 1) + Tag

--------------------------------------------------------------------------
\* tampering.  Descriptors are symbolic: the harness concretises the same descriptor on the real bytes.
Junk == [c |-> "junk", w |-> "-", j |-> -1, k |-> -1, n |-> 0, last |-> FALSE, p |-> -1, v |-> 0, x |-> FALSE]
T(kind, unit, j, j2, where) == [kind |-> kind, unit |-> unit, j |-> j, j2 |-> j2, where |-> where]
NoTamper == T("none", "-", -1, -1, "-")
HeaderUnits == <<"len0", "len1", "jsyn", "jver", "jkt", "jseg", "jdek", "thl", "tsalt", "tsalt2", "tnp", "tnp2">>
UnitPos(u) == CHOOSE i \in 1..Len(HeaderUnits) : HeaderUnits[i] = u
CellPos(L, t) ==       \* 1-based position of the cell a "flip" descriptor designates
  IF t.unit \in {"body", "tag"}
  THEN LET o == WSegOff(L, t.j)
           pt == WLen(L, t.j) IN
       CASE t.unit = "body" /\ t.where = "first" -> o + 1
         [] t.unit = "body" /\ t.where = "last"  -> o + pt
         [] t.unit = "tag"  /\ t.where = "first" -> o + pt + 1
         [] t.unit = "tag"  /\ t.where = "last"  -> o + pt + Tag
  ELSE UnitPos(t.unit)
TruncLen(L, t) ==      \* number of cells kept by a "trunc" descriptor
  CASE t.unit = "zero"      -> 0
    [] t.unit = "len"       -> 1
    [] t.unit = "afterlen"  -> LenCells
    [] t.unit = "json"      -> LenCells + 2
    [] t.unit = "afterhdr"  -> Base
    [] t.unit = "tinkhdr"   -> Base + 1
    [] t.unit = "aftertink" -> Base + Hdr
    [] t.unit = "segstart"  -> WSegOff(L, t.j)                       \* exact segment boundary (before segment j)
    [] t.unit = "segstart1" -> WSegOff(L, t.j) + 1                   \* one byte of segment j survives
    [] t.unit = "segmid"    -> WSegOff(L, t.j) + Tag + 1                 \* mid-segment: tag+1 bytes of segment j survive
    [] t.unit = "lasttag"   -> Len(Stored("A", L)) - 1
    \* cut to exactly the stored size of a SHORTER valid part: of plaintext length ClassLen(j, j2), or one byte less
    \* than the smallest valid object (tink header + tag - 1)
    [] t.unit = "aslen"     -> StoredLen(ClassLen(t.j, t.j2))
    [] t.unit = "tagm1"     -> Base + Hdr + Tag - 1
ExtendBy(t) == CASE t.unit = "one" -> 1 [] t.unit = "tag" -> Tag [] t.unit = "css" -> Css
SegOf(S, L, j) == SubSeq(S, WSegOff(L, j) + 1, WSegOff(L, j) + WLen(L, j) + Tag)
Before(S, L, j) == SubSeq(S, 1, WSegOff(L, j))
After(S, L, j) == SubSeq(S, WSegOff(L, j) + WLen(L, j) + Tag + 1, Len(S))
Applicable(L, t) ==
  CASE t.kind = "none" -> TRUE
    [] t.kind = "flip" -> IF t.unit \in {"body", "tag"}
                          THEN t.j \in 0..(NumSeg(L) - 1) /\ (t.unit = "body" => WLen(L, t.j) > 0)
                          ELSE TRUE
    [] t.kind = "flipat"  -> t.j \in 1..Len(Stored("A", L))
    [] t.kind = "truncat" -> t.j \in 0..(Len(Stored("A", L)) - 1)
    [] t.kind = "trunc" -> IF t.unit = "aslen" THEN t.j \in 0..3 /\ t.j2 \in {-1, 0, 1} /\ ClassLen(t.j, t.j2) >= 0 /\ ClassLen(t.j, t.j2) < L
                           ELSE IF t.unit \in {"segstart", "segstart1"} THEN t.j \in 1..(NumSeg(L) - 1)
                           ELSE IF t.unit = "segmid" THEN t.j \in 0..(NumSeg(L) - 1) /\ WLen(L, t.j) >= 2
                           ELSE TRUE
    [] t.kind = "extend" -> TRUE
    [] t.kind = "swap" -> t.j \in 0..(NumSeg(L) - 1) /\ t.j2 \in 0..(NumSeg(L) - 1) /\ t.j < t.j2
    [] t.kind \in {"drop", "dup"} -> t.j \in 0..(NumSeg(L) - 1) /\ (t.kind = "drop" => NumSeg(L) >= 2)
    [] t.kind \in {"crossid", "segsize"} -> TRUE
    [] OTHER -> FALSE
\* S = what part "A" of length L stored; result = what is presented to the reader of part A
\* ("crossid": A's bytes are presented to the reader of part "B")
Apply(S, L, t) ==
  CASE t.kind = "none" -> S
    [] t.kind = "flip"    -> [S EXCEPT ![CellPos(L, t)].x = TRUE]
    [] t.kind = "flipat"  -> [S EXCEPT ![t.j].x = TRUE]
    [] t.kind = "trunc"   -> SubSeq(S, 1, TruncLen(L, t))
    [] t.kind = "truncat" -> SubSeq(S, 1, t.j)
    [] t.kind = "extend"  -> S \o [i \in 1..ExtendBy(t) |-> Junk]
    [] t.kind = "swap"    -> Before(S, L, t.j) \o SegOf(S, L, t.j2)
                             \o SubSeq(S, WSegOff(L, t.j) + WLen(L, t.j) + Tag + 1, WSegOff(L, t.j2))
                             \o SegOf(S, L, t.j) \o After(S, L, t.j2)
    [] t.kind = "drop"    -> Before(S, L, t.j) \o After(S, L, t.j)
    [] t.kind = "dup"     -> Before(S, L, t.j) \o SegOf(S, L, t.j) \o SegOf(S, L, t.j) \o After(S, L, t.j)
    [] t.kind = "crossid" -> S
    [] t.kind = "segsize" -> [S EXCEPT ![UnitPos("jseg")].v = CssGrown]   \* header re-encoded consistently
ReaderId(t) == IF t.kind = "crossid" THEN "B" ELSE "A"
Tampered(t) == t.kind # "none"
\* "Any modification of the stored CIPHERTEXT makes the read fail": the plaintext metadata fields of the header
\* JSON (version, keyType, segmentSize) are not ciphertext; for them only "exact plaintext or failure" is demanded.
SoftUnits == {"jver", "jkt", "jseg"}
Covered(t) == /\ t.kind \notin {"none", "segsize"}
              /\ t.kind = "flip" => t.unit \notin SoftUnits
              /\ t.kind = "flipat" => t.j \notin {UnitPos(u) : u \in SoftUnits}

--------------------------------------------------------------------------
\* tink.go readPartHeaderAndDEK
Err == [st |-> "err", tags |-> {}]
EofOrErr(tag) == IF Dev(tag) THEN [st |-> "eof", tags |-> {tag}] ELSE Err
ReadHeader(S, id) ==
  IF Len(S) = 0 THEN EofOrErr(TruncTag)                   \* io.ReadFull(4 bytes) -> io.EOF, passed on as a clean EOF
  ELSE IF Len(S) < LenCells THEN Err                      \* io.ErrUnexpectedEOF
  ELSE IF \E i \in 1..LenCells : S[i].c # "len" \/ S[i].x THEN Err   \* wrong length: JSON garbage or short read
  ELSE IF Len(S) = LenCells THEN EofOrErr(TruncTag)       \* io.ReadFull(header) reads 0 bytes -> io.EOF
  ELSE IF Len(S) < Base THEN Err
  ELSE LET jsyn == S[LenCells + 1]
           jver == S[LenCells + 2]
           jkt  == S[LenCells + 3]
           jseg == S[LenCells + 4]
           jdek == S[LenCells + 5]
       IN \* version (1..3), keyType and segmentSize are plaintext metadata that nothing authenticates: a modified
          \* version/keyType is ignored, a modified segmentSize is used (see Covered below)
          IF jsyn.x THEN Err                                       \* json.Unmarshal fails
          ELSE IF jdek.x \/ jdek.w # id THEN Err                   \* masterAEAD.Decrypt(encDEK, aad = part id) fails
          ELSE [st |-> "ok", css |-> jseg.v + (IF jseg.x THEN 1 ELSE 0), owner |-> jdek.w, tags |-> {}]

\* symbolic AEAD (AES-GCM with nonce = prefix || index || last, key = HKDF(DEK, salt, aad))
Open(sl, j, last, owner, keyok) ==
  /\ keyok /\ Len(sl) >= Tag
  /\ \A i \in 1..Len(sl) : /\ sl[i].c \in {"body", "tag"} /\ ~sl[i].x /\ sl[i].w = owner
                           /\ sl[i].j = j /\ sl[i].k = i - 1 /\ sl[i].last = last
  /\ sl[1].n = Len(sl)
Plain(sl) == [i \in 1..(Len(sl) - Tag) |-> [w |-> sl[i].w, p |-> sl[i].p]]
Zero == [w |-> "Z", p |-> -1]
KeyOk(ct, owner) == /\ \A i \in 2..3 : ct[i].c = "tsalt" /\ ~ct[i].x /\ ct[i].w = owner     \* derived key
                    /\ \A i \in 4..5 : ct[i].c = "tnp" /\ ~ct[i].x /\ ct[i].w = owner       \* nonce prefix

--------------------------------------------------------------------------
\* seekable.go
RSegFor(css, off) == LET pss == css - Tag        \* segmentForPlaintextOffset
                         f == pss - Hdr IN
                     IF off < f THEN 0 ELSE 1 + (off - f) \div pss
RStart(css, j) == IF j = 0 THEN 0 ELSE (css - Tag - Hdr) + (j - 1) * (css - Tag)   \* plaintextStartOfSegment
RCtOff(css, j) == IF j = 0 THEN Hdr ELSE j * css
RCtLen(css, ctLen, j) == IF j = 0 THEN Min(css - Hdr, ctLen - RCtOff(css, j)) ELSE Min(css, ctLen - RCtOff(css, j))

Sticky(st, tags) == [st |-> st, tags |-> tags, pos |-> 0, ptLen |-> 0, seg |-> -1, buf |-> <<>>, cap |-> 0, segStart |-> 0,
                     lastok |-> FALSE, ct |-> <<>>, css |-> Css, owner |-> "-", keyok |-> FALSE, ctLen |-> 0, nseg |-> 0,
                     la |-> <<>>]
InitSeek(S, id) ==      \* newSeekableDecryptingReader, run lazily by the first Read or Seek
  LET h == ReadHeader(S, id) IN
  IF h.st # "ok" THEN Sticky(h.st, h.tags)
  ELSE LET ct == SubSeq(S, Base + 1, Len(S))
           ctLen == Len(ct)
           nseg == (ctLen + h.css - 1) \div h.css
           ptLen == ctLen - Hdr - Tag * nseg IN
       IF ctLen < Hdr + Tag THEN Sticky("err", h.tags)
       ELSE IF ct[1].c # "thl" \/ ct[1].x THEN Sticky("err", h.tags)
       ELSE IF h.css <= Hdr + Tag \/ ptLen < 0 THEN Sticky("err", h.tags)
       ELSE [st |-> "ok", tags |-> h.tags, pos |-> 0, ptLen |-> ptLen, seg |-> -1, buf |-> <<>>, cap |-> 0, segStart |-> 0,
             lastok |-> FALSE, ct |-> ct, css |-> h.css, owner |-> h.owner, keyok |-> KeyOk(ct, h.owner),
             ctLen |-> ctLen, nseg |-> nseg, la |-> <<>>]

LoadSegment(R, j) ==    \* [ok, R]
  LET off == RCtOff(R.css, j)
      n == RCtLen(R.css, R.ctLen, j) IN
  IF n < Tag THEN [ok |-> FALSE, R |-> R]
  ELSE LET sl == SubSeq(R.ct, off + 1, off + n) IN
       IF Open(sl, j, j = R.nseg - 1, R.owner, R.keyok)
       THEN [ok |-> TRUE, R |-> [R EXCEPT !.buf = Plain(sl), !.seg = j, !.segStart = RStart(R.css, j),
                                          !.cap = Max(@, n - Tag),       \* Open appends to s.plaintext[:0]: reuse or reallocate
                                          !.lastok = @ \/ (j = R.nseg - 1)]]
       ELSE \* cipher.Open(s.plaintext[:0], ...) clears its destination on failure; when the capacity suffices the
            \* destination IS the buffer that still holds the previous segment, and segIndex keeps saying that
            \* this segment is loaded
            IF Dev(StaleTag)
            THEN IF R.cap >= n - Tag
                 THEN [ok |-> FALSE, R |-> [R EXCEPT !.buf = [i \in 1..Len(R.buf) |-> IF i <= n - Tag THEN Zero ELSE R.buf[i]]]]
                 ELSE [ok |-> FALSE, R |-> R]
            ELSE [ok |-> FALSE, R |-> [R EXCEPT !.buf = <<>>, !.seg = -1]]

\* one Read call asking for cnt bytes: [st, out, R]
SeekRead1(R, cnt) ==
  IF R.pos >= R.ptLen
  THEN \* the code returns io.EOF without having authenticated the final segment (which carries the length)
       IF R.lastok THEN [st |-> "eof", out |-> <<>>, R |-> R]
       ELSE LET l == LoadSegment(R, R.nseg - 1) IN
            IF l.ok THEN [st |-> "eof", out |-> <<>>, R |-> IF Dev(EofTag) THEN R ELSE l.R]
            ELSE IF Dev(EofTag) THEN [st |-> "eof", out |-> <<>>, R |-> [R EXCEPT !.tags = @ \cup {EofTag}]]
            ELSE [st |-> "err", out |-> <<>>, R |-> l.R]
  ELSE LET j == RSegFor(R.css, R.pos)
           l == IF j = R.seg THEN [ok |-> TRUE, R |-> R] ELSE LoadSegment(R, j) IN
       IF ~l.ok THEN [st |-> "err", out |-> <<>>, R |-> l.R]
       ELSE LET idx == l.R.pos - l.R.segStart
                n == Min(cnt, Len(l.R.buf) - idx) IN
            IF n <= 0 THEN [st |-> "panic", out |-> <<>>, R |-> l.R]
            ELSE LET out == SubSeq(l.R.buf, idx + 1, idx + n) IN
                 [st |-> "ok", out |-> out,
                  R |-> [l.R EXCEPT !.pos = @ + n,
                                    !.tags = @ \cup (IF \E i \in 1..n : out[i] = Zero THEN {StaleTag} ELSE {})]]

--------------------------------------------------------------------------
\* sequential path: tink-go NewDecryptingReader + noncebased.Reader (one byte of look-ahead decides "last segment")
InitSeq(S, id) ==
  LET h == ReadHeader(S, id) IN
  IF h.st # "ok" THEN Sticky(h.st, h.tags)
  ELSE LET ct == SubSeq(S, Base + 1, Len(S)) IN
       IF Len(ct) = 0 THEN LET e == EofOrErr(SeqTag) IN Sticky(e.st, h.tags \cup e.tags)   \* ReadFull(hlen) -> io.EOF
       ELSE IF ct[1].c # "thl" \/ ct[1].x THEN Sticky("err", h.tags)
       ELSE IF Len(ct) < Hdr THEN Sticky("err", h.tags)
       ELSE [st |-> "ok", tags |-> h.tags, pos |-> 0, ptLen |-> 0, seg |-> 0 (* decryptedSegmentCnt *), buf |-> <<>>, cap |-> 0,
             segStart |-> 0 (* plaintextPos *), lastok |-> FALSE (* a last segment was decrypted *),
             ct |-> SubSeq(ct, Hdr + 1, Len(ct)) (* unread stream *), css |-> h.css, owner |-> h.owner,
             keyok |-> KeyOk(ct, h.owner), ctLen |-> 0, nseg |-> 0,
             la |-> <<>>]
SeqRead1(Q, cnt) ==
  IF Q.segStart < Len(Q.buf)
  THEN LET n == Min(cnt, Len(Q.buf) - Q.segStart) IN
       [st |-> "ok", out |-> SubSeq(Q.buf, Q.segStart + 1, Q.segStart + n), R |-> [Q EXCEPT !.segStart = @ + n, !.pos = @ + n]]
  ELSE LET want == (Q.css + 1) - (IF Q.seg = 0 THEN Hdr ELSE 0) - Len(Q.la)
           n == Min(want, Len(Q.ct)) IN
       IF n = 0
       THEN \* io.ReadFull read nothing: io.EOF is returned as is - also when a look-ahead byte is pending or
            \* when no segment at all has been seen, i.e. when the stream was cut
            IF Q.la = <<>> /\ Q.lastok THEN [st |-> "eof", out |-> <<>>, R |-> Q]
            ELSE LET e == EofOrErr(SeqTag) IN [st |-> e.st, out |-> <<>>, R |-> [Q EXCEPT !.tags = @ \cup e.tags]]
       ELSE LET last == n < want
                got == Q.la \o SubSeq(Q.ct, 1, n)
                sg == IF last THEN got ELSE SubSeq(got, 1, Len(got) - 1) IN
            IF ~Open(sg, Q.seg, last, Q.owner, Q.keyok) THEN [st |-> "err", out |-> <<>>, R |-> Q]
            ELSE LET pt == Plain(sg)
                     m == Min(cnt, Len(pt)) IN
                 \* an empty final segment yields (0, nil); the caller's next Read then sees EOF
                 [st |-> "ok", out |-> SubSeq(pt, 1, m),
                  R |-> [Q EXCEPT !.buf = pt, !.segStart = m, !.pos = @ + m, !.seg = @ + 1,
                                  !.ct = SubSeq(@, n + 1, Len(@)), !.lastok = last,
                                  !.la = IF last THEN <<>> ELSE <<got[Len(got)]>>]]

--------------------------------------------------------------------------
\* a script step: optional Seek, then "read cnt bytes" = Read calls until cnt bytes, EOF or an error
\* path "seek": GetPart returned an io.ReadSeeker (filesystem store); path "seq": it did not (sql store)
Read1(path, R, cnt) == IF path = "seek" THEN SeekRead1(R, cnt) ELSE SeqRead1(R, cnt)
RECURSIVE ReadLoop(_, _, _, _, _)
ReadLoop(path, R, cnt, acc, fuel) ==
  IF cnt = 0 \/ fuel = 0 THEN [st |-> IF fuel = 0 THEN "panic" ELSE "ok", out |-> acc, R |-> R]
  ELSE IF R.st = "err" THEN [st |-> "err", out |-> acc, R |-> R]
  ELSE IF R.st = "eof" THEN [st |-> "eof", out |-> acc, R |-> R]
  ELSE LET r == Read1(path, R, cnt) IN
       IF r.st = "ok" THEN ReadLoop(path, r.R, cnt - Len(r.out), acc \o r.out, IF r.out = <<>> THEN fuel - 1 ELSE fuel)
       ELSE [st |-> r.st, out |-> acc, R |-> r.R]

\* absolute position a step's seek aims at; L = true plaintext length (the caller knows it from metadata)
Target(tgt, L) ==
  CASE tgt = "0" -> 0 [] tgt = "1" -> 1
    [] tgt = "pss0-1" -> Pss0 - 1 [] tgt = "pss0" -> Pss0 [] tgt = "pss0+1" -> Pss0 + 1
    [] tgt = "pss0+pss" -> Pss0 + Pss
    [] tgt = "len-1" -> L - 1 [] tgt = "len" -> L
Targets == {"0", "1", "pss0-1", "pss0", "pss0+1", "pss0+pss", "len-1", "len"}
Counts == {"one", "all"}
CountOf(c) == IF c = "one" THEN 1 ELSE All

\* result of one step: res in {"err", "exact", "short", "panic"}; wrong = bytes that are not the original plaintext
StepRes(st, out, id, pos0, cnt, L) ==
  [res |-> IF st \in {"err", "panic"} THEN st
           ELSE IF Len(out) = Min(cnt, Max(0, L - pos0)) THEN "exact" ELSE "short",
   wrong |-> \E i \in 1..Len(out) : out[i] # [w |-> id, p |-> pos0 + i - 1] \/ pos0 + i - 1 >= L]

\* [R, r]: the step is [wh, abs, cnt]; wh = "none" (no seek) | "start" | "current" | "end"; abs = absolute target
DoStep(path, R, s, id, L) ==
  LET cnt == CountOf(s.cnt) IN
  IF s.wh = "none"
  THEN LET r == ReadLoop(path, R, cnt, <<>>, 3) IN
       [R |-> r.R, r |-> StepRes(r.st, r.out, id, R.pos, cnt, L), stop |-> r.st # "ok"]
  ELSE \* the caller computes the offset for the whence from the position it tracks and from the length it knows;
       \* SeekEnd is relative to the length the READER derived from the ciphertext size
       LET abs == IF s.wh = "end" THEN R.ptLen + (s.abs - L) ELSE s.abs IN
       IF R.st # "ok" \/ abs < 0 THEN [R |-> R, r |-> [res |-> "err", wrong |-> FALSE], stop |-> FALSE]
       ELSE LET R1 == [R EXCEPT !.pos = abs]
                r == ReadLoop(path, R1, cnt, <<>>, 3) IN
            [R |-> r.R, r |-> StepRes(r.st, r.out, id, abs, cnt, L), stop |-> FALSE]
RECURSIVE ExecFrom(_, _, _, _, _)
ExecFrom(path, R, script, id, L) ==        \* [rs |-> step results, tags |-> deviation branches taken]
  IF script = <<>> THEN [rs |-> <<>>, tags |-> R.tags]
  ELSE LET d == DoStep(path, R, Head(script), id, L) IN
       \* the sequential reader is abandoned after its first error or EOF
       IF path = "seq" /\ d.stop
       THEN [rs |-> <<d.r>> \o [i \in 1..(Len(script) - 1) |-> [res |-> "skipped", wrong |-> FALSE]], tags |-> d.R.tags]
       ELSE LET e == ExecFrom(path, d.R, Tail(script), id, L) IN [rs |-> <<d.r>> \o e.rs, tags |-> e.tags]
RunFrom(path, R, script, id, L) == ExecFrom(path, R, script, id, L).rs
Reader(path, S, id) == IF path = "seek" THEN InitSeek(S, id) ELSE InitSeq(S, id)
Exec(path, L, t, script) == ExecFrom(path, Reader(path, Apply(Stored("A", L), L, t), ReaderId(t)), script, ReaderId(t), L)
Run(path, L, t, script)  == Exec(path, L, t, script).rs
TagsOf(path, L, t, script) == Exec(path, L, t, script).tags
ScriptOk(path, script) == \A i \in 1..Len(script) : (path = "seq") = (script[i].wh = "none")

--------------------------------------------------------------------------
\* the property, on a sequence of step results
ReadAll(s) == s.cnt = "all" /\ (s.wh = "none" \/ (s.wh = "start" /\ s.abs = 0))
PropC16(t, script, rs) ==
  /\ \A i \in 1..Len(rs) : ~rs[i].wrong /\ rs[i].res \notin {"short", "panic"}      \* exactly the plaintext, or failure
  /\ ~Tampered(t) => \A i \in 1..Len(rs) : rs[i].res \in {"exact", "skipped"}        \* seekable: the exact suffix/slice
  /\ (Covered(t) /\ script # <<>> /\ ReadAll(script[1])) => rs[1].res = "err"       \* reading to the end fails

--------------------------------------------------------------------------
\* (a) the reader's segment arithmetic agrees with the writer's layout, for every length and offset
ArithOK(L) ==
  LET ctLen == Len(Stored("A", L)) - Base
      nseg == (ctLen + Css - 1) \div Css IN
  /\ nseg = NumSeg(L)
  /\ ctLen - Hdr - Tag * nseg = L
  /\ \A j \in 0..(nseg - 1) : /\ RStart(Css, j) = WStart(j)
                              /\ Base + RCtOff(Css, j) = WSegOff(L, j)
                              /\ RCtLen(Css, ctLen, j) = WLen(L, j) + Tag
  /\ \A off \in 0..(L - 1) : LET j == RSegFor(Css, off) IN
        /\ j \in 0..(nseg - 1) /\ WStart(j) <= off /\ off < WStart(j) + WLen(L, j)

\* (b) exhaustive: every length, every single-cell flip, every truncation point, every structural tamper,
\* both paths, every one- and two-step script over all offsets
MCTampers(L) ==
  {NoTamper}
  \cup {T("flipat", "-", i, -1, "-") : i \in 1..Len(Stored("A", L))}
  \cup {T("truncat", "-", i, -1, "-") : i \in 0..(Len(Stored("A", L)) - 1)}
  \cup {T("extend", u, -1, -1, "-") : u \in {"one", "tag", "css"}}
  \cup {T("swap", "-", a, b, "-") : a, b \in 0..(NumSeg(L) - 1)}
  \cup {T(k, "-", a, -1, "-") : k \in {"drop", "dup"}, a \in 0..(NumSeg(L) - 1)}
  \cup {T("crossid", "-", -1, -1, "-"), T("segsize", "-", -1, -1, "grow")}
Stp(wh, abs, cnt) == [wh |-> wh, abs |-> abs, cnt |-> cnt]
Interesting(L) == {0, 1, Pss0 - 1, Pss0, Pss0 + 1, Pss0 + Pss, L - 1, L} \cap (0..(L + 1))
MCScripts(path, L) ==
  IF path = "seq"
  THEN {<<Stp("none", 0, "all")>>, <<Stp("none", 0, "one"), Stp("none", 0, "all")>>,
        <<Stp("none", 0, "one"), Stp("none", 0, "one"), Stp("none", 0, "all")>>}
  ELSE {<<Stp("start", 0, "all")>>}
       \cup {<<Stp(wh, a, c)>> : wh \in {"start", "end"}, a \in 0..(L + 1), c \in Counts}
       \cup {<<Stp("start", a, "one"), Stp(wh, b, c)>> : a \in Interesting(L), wh \in {"current", "end"}, b \in Interesting(L), c \in Counts}
       \cup {<<Stp("start", a, "one"), Stp("start", b, "one"), Stp("current", a, "all")>> : a, b \in Interesting(L)}

VARIABLES len, tam, path
vars == <<len, tam, path>>
Unset == T("unset", "-", -1, -1, "-")
Init == len \in 0..(MaxFull * Pss + 2) /\ tam = Unset /\ path = "-"
Next == /\ tam = Unset
        /\ \E t \in MCTampers(len) : Applicable(len, t) /\ tam' = t
        /\ path' \in {"seek", "seq"} /\ UNCHANGED len
Spec == Init /\ [][Next]_vars
ArithInv == tam = Unset => ArithOK(len)
DesignHolds ==
  tam # Unset =>
    LET id == ReaderId(tam)
        R0 == Reader(path, Apply(Stored("A", len), len, tam), id) IN
    \A sc \in MCScripts(path, len) : PropC16(tam, sc, RunFrom(path, R0, sc, id, len))
=============================================================================
