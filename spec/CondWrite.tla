----------------------------- MODULE CondWrite -----------------------------
(***************************************************************************)
(* C07 / C12 - conditional writes and appends on ONE key under             *)
(* concurrency.  Each client call is Invoke -> Lin -> Return; Lin is the   *)
(* commit of the call's write transaction (metadatastore/sql/              *)
(* object_write.go PutObject / AppendObject, delete.go DeleteObject,       *)
(* multipart.go CompleteMultipartUpload).  SQLite admits one write         *)
(* transaction at a time (MaxOpenConns(1), _txlock=immediate), so Lin is   *)
(* atomic; the optimistic-lock CAS and the unique index are what keep it   *)
(* atomic on finer-grained databases.                                      *)
(*                                                                         *)
(* The register holds the key's current object in an unversioned bucket:   *)
(* content (sequence of blob symbols), size and an ETag TOKEN.  ETag       *)
(* tokens are uninterpreted: in the model a fresh token is minted per      *)
(* write; in trace validation the token is the raw ETag the real call      *)
(* returned.                                                               *)
(***************************************************************************)
EXTENDS Integers, Sequences, FiniteSets, TLC

CONSTANTS Clients, Blobs, MaxOps

Absent == [exists |-> FALSE, content |-> <<>>, etag |-> "", size |-> 0]

BlobSize(b) == 3          \* every model blob is 3 bytes (the harness uses 3-byte tokens)

\* op record: [kind, blob, cond, seen, off]
\*   kind in {"Put","Delete","Append","Get"}
\*   cond in {"none","inm","ifm"}; seen = ETag token the client expects (ifm)
\*   off  = -1 (no offset) or the expected size
CondHolds(reg, op) ==
  CASE op.cond = "none" -> TRUE
    [] op.cond = "inm"  -> ~reg.exists
    [] op.cond = "ifm"  -> reg.exists /\ reg.etag = op.seen
    [] OTHER -> TRUE

\* Effect of a call at its linearisation point: [reg |-> new register, res |-> result]
\* tok = ETag token of the written object (fresh in the model, logged in traces)
Effect(reg, op, tok) ==
  CASE op.kind = "Put" ->
         IF CondHolds(reg, op)
         THEN [reg |-> [exists |-> TRUE, content |-> <<op.blob>>, etag |-> tok, size |-> BlobSize(op.blob)],
               res |-> [err |-> "", etag |-> tok, size |-> BlobSize(op.blob), content |-> <<>>]]
         ELSE [reg |-> reg, res |-> [err |-> "PreconditionFailed", etag |-> "", size |-> 0, content |-> <<>>]]
    [] op.kind = "Delete" ->
         IF op.cond = "none" \/ CondHolds(reg, op)
         THEN [reg |-> Absent, res |-> [err |-> "", etag |-> "", size |-> 0, content |-> <<>>]]
         ELSE [reg |-> reg, res |-> [err |-> "PreconditionFailed", etag |-> "", size |-> 0, content |-> <<>>]]
    [] op.kind = "Append" ->
         IF op.off # -1 /\ op.off # reg.size
         THEN [reg |-> reg, res |-> [err |-> "InvalidWriteOffset", etag |-> "", size |-> 0, content |-> <<>>]]
         ELSE [reg |-> [exists |-> TRUE, content |-> Append(reg.content, op.blob), etag |-> tok,
                        size |-> reg.size + BlobSize(op.blob)],
               res |-> [err |-> "", etag |-> tok, size |-> reg.size + BlobSize(op.blob), content |-> <<>>]]
    [] op.kind = "Get" ->
         IF reg.exists
         THEN [reg |-> reg, res |-> [err |-> "", etag |-> reg.etag, size |-> reg.size, content |-> reg.content]]
         ELSE [reg |-> reg, res |-> [err |-> "NoSuchKey", etag |-> "", size |-> 0, content |-> <<>>]]

\* Calls that protect their write with a compare-and-swap on the object row: conditional puts and
\* deletes, and appends to an existing object.  When a competing writer that does not change the
\* content (PutObjectTagging bumps the row's lock version) commits between the call's read and its
\* CAS, the call fails safe: no effect, PreconditionFailed (InvalidWriteOffset for an append).
\* SQLite's single writer never produces this; finer-grained databases do.
CanLoseCAS(reg, op) == reg.exists /\ (op.kind = "Append" \/ (op.kind \in {"Put", "Delete"} /\ op.cond # "none"))
LostCASError(op) == IF op.kind = "Append" THEN "InvalidWriteOffset" ELSE "PreconditionFailed"

\* ------------------------------------------------------------ model checking
VARIABLES reg,      \* the register
          pc,       \* client -> "idle" | "invoked" | "done"
          cur,      \* client -> op record of the call in flight
          out,      \* client -> result of the linearised call
          known,    \* client -> ETag token last learnt by this client ("" = none)
          hist,     \* linearisation history: sequence of [c, op, res]
          ntok,     \* token counter
          nops      \* calls started so far

vars == <<reg, pc, cur, out, known, hist, ntok, nops>>

NoOp == [kind |-> "Get", blob |-> "", cond |-> "none", seen |-> "", off |-> -1]
NoRes == [err |-> "", etag |-> "", size |-> 0, content |-> <<>>]

Init == /\ reg = Absent
        /\ pc = [c \in Clients |-> "idle"]
        /\ cur = [c \in Clients |-> NoOp]
        /\ out = [c \in Clients |-> NoRes]
        /\ known = [c \in Clients |-> ""]
        /\ hist = <<>> /\ ntok = 1 /\ nops = 0

Ops(c) ==
  [kind : {"Put"}, blob : Blobs, cond : {"none", "inm"}, seen : {""}, off : {-1}]
  \cup [kind : {"Put"}, blob : Blobs, cond : {"ifm"}, seen : {known[c]}, off : {-1}]
  \cup [kind : {"Delete"}, blob : {""}, cond : {"none"}, seen : {""}, off : {-1}]
  \cup [kind : {"Delete"}, blob : {""}, cond : {"ifm"}, seen : {known[c]}, off : {-1}]
  \cup [kind : {"Append"}, blob : Blobs, cond : {"none"}, seen : {""}, off : {-1, 0, 3}]
  \cup [kind : {"Get"}, blob : {""}, cond : {"none"}, seen : {""}, off : {-1}]

Invoke(c) == /\ pc[c] = "idle" /\ nops < MaxOps
             /\ \E op \in Ops(c) : cur' = [cur EXCEPT ![c] = op]
             /\ pc' = [pc EXCEPT ![c] = "invoked"]
             /\ nops' = nops + 1
             /\ UNCHANGED <<reg, out, known, hist, ntok>>

Lin(c) == /\ pc[c] = "invoked"
          /\ LET e == Effect(reg, cur[c], ToString(ntok)) IN
             /\ reg' = e.reg
             /\ out' = [out EXCEPT ![c] = e.res]
             /\ hist' = Append(hist, [c |-> c, op |-> cur[c], res |-> e.res])
          /\ ntok' = ntok + 1
          /\ pc' = [pc EXCEPT ![c] = "done"]
          /\ UNCHANGED <<cur, known, nops>>

LinLostCAS(c) == /\ pc[c] = "invoked" /\ CanLoseCAS(reg, cur[c])
                 /\ LET res == [NoRes EXCEPT !.err = LostCASError(cur[c])] IN
                    /\ out' = [out EXCEPT ![c] = res]
                    /\ hist' = Append(hist, [c |-> c, op |-> cur[c], res |-> res])
                 /\ pc' = [pc EXCEPT ![c] = "done"]
                 /\ UNCHANGED <<reg, cur, known, nops, ntok>>

Return(c) == /\ pc[c] = "done"
             /\ known' = [known EXCEPT ![c] = IF out[c].err = "" /\ cur[c].kind # "Delete" THEN out[c].etag ELSE @]
             /\ pc' = [pc EXCEPT ![c] = "idle"]
             /\ UNCHANGED <<reg, cur, out, hist, ntok, nops>>

Next == \E c \in Clients : Invoke(c) \/ Lin(c) \/ LinLostCAS(c) \/ Return(c)
Spec == Init /\ [][Next]_vars

\* ------------------------------------------------------------- properties
Succ(i) == hist[i].res.err = ""
IsWrite(i) == hist[i].op.kind \in {"Put", "Append"}

\* C07: between two successful If-None-Match writes there is a successful delete
INMExclusive ==
  \A i, j \in 1..Len(hist) :
     (i < j /\ Succ(i) /\ Succ(j) /\ hist[i].op.kind = "Put" /\ hist[i].op.cond = "inm"
            /\ hist[j].op.kind = "Put" /\ hist[j].op.cond = "inm")
     => \E d \in (i + 1)..(j - 1) : Succ(d) /\ hist[d].op.kind = "Delete"

\* the ETag token carried by the register just before history position i
EtagBefore(i) ==
  LET ws == {j \in 1..(i - 1) : Succ(j) /\ hist[j].op.kind \in {"Put", "Append", "Delete"}} IN
  IF ws = {} THEN "" ELSE LET m == CHOOSE j \in ws : \A k \in ws : k <= j IN
                          IF hist[m].op.kind = "Delete" THEN "" ELSE hist[m].res.etag

\* C07: a successful If-Match write/delete replaced exactly the object whose ETag it named
IfMatchSound ==
  \A i \in 1..Len(hist) :
     (Succ(i) /\ hist[i].op.cond = "ifm") => (hist[i].op.seen # "" /\ EtagBefore(i) = hist[i].op.seen)

\* C12: the content is exactly the acknowledged appends/puts since the last put/delete, in order,
\* and an append with an offset was accepted only at that offset
ContentFrom(i) ==  \* content after history prefix 1..i
  LET RECURSIVE F(_)
      F(n) == IF n = 0 THEN <<>>
              ELSE IF ~Succ(n) THEN F(n - 1)
              ELSE CASE hist[n].op.kind = "Put" -> <<hist[n].op.blob>>
                     [] hist[n].op.kind = "Delete" -> <<>>
                     [] hist[n].op.kind = "Append" -> Append(F(n - 1), hist[n].op.blob)
                     [] OTHER -> F(n - 1)
  IN F(i)
AppendExact ==
  /\ reg.content = ContentFrom(Len(hist))
  /\ \A i \in 1..Len(hist) :
       (Succ(i) /\ hist[i].op.kind = "Append" /\ hist[i].op.off # -1)
          => hist[i].op.off = 3 * Len(ContentFrom(i - 1))
=============================================================================
