------------------------------ MODULE VHostGen ------------------------------
(***************************************************************************)
(* The case sets of VHost.tla.  Used twice:                                *)
(*   MC  (VHost.MC.cfg)  : the intended routing satisfies C33 on every case*)
(*   GEN (VHost.Gen.cfg) : print every case as JSON; harness/cmd/vhost     *)
(*                         sends each to the real server                   *)
(***************************************************************************)
EXTENDS VHost, Json

CONSTANT Tier           \* "quick" | "thorough"

\* quick uses the six basic tokens; thorough adds the lower-case escape "%2f" and "+"
Syms     == IF Tier = "quick" THEN {"c", "sl", "e2f", "e25", "sp", "u"} ELSE KeySyms
BaseSyms == {"c", "sl", "e2f", "e25", "sp", "u"}
KeysUpTo(n) == UNION {[1..k -> Syms] : k \in 0..n}
KeysOfLen(n) == [1..n -> BaseSyms]
Case(kd, b, k, m, h) == [kind |-> kd, bucket |-> b, key |-> k, method |-> m, hostform |-> h]

\* api: every key of length <= 2 (thorough: <= 3) x bucket class x method x host form; longer
\* keys (where "//" inside, leading and trailing "/" combine) on one bucket / host form
CasesApi ==
  {Case("api", b, k, m, h) : b \in Buckets, k \in KeysUpTo(IF Tier = "quick" THEN 2 ELSE 3), m \in Methods, h \in HostForms}
  \cup (IF Tier = "quick"
        THEN {Case("api", "plain", k, m, "bare") : k \in KeysOfLen(3), m \in {"GET", "PUT", "DELETE"}}
        ELSE {Case("api", "plain", k, m, "bare") : k \in KeysOfLen(4), m \in Methods})

\* website endpoint and custom domain: every method on keys of length <= 2 (quick: <= 1 and some)
CasesWeb ==
  {Case(kd, b, k, m, h) : kd \in {"website", "custom"}, b \in Buckets,
                          k \in IF Tier = "quick" THEN KeysUpTo(1) \cup {<<"c", "sl">>, <<"c", "c">>} ELSE KeysUpTo(2),
                          m \in Methods, h \in HostForms}

Cases == CasesApi \cup CasesWeb

VARIABLE case
Init == case \in Cases
Next == UNCHANGED case
Spec == Init /\ [][Next]_case

\* design-level: with the intended rewrite both styles reach the same storage call,
\* and whatever the website mux is allowed to do is read-only
DesignHolds ==
  /\ IsCase(case)
  /\ case.kind = "api" => C33Holds(case, PathStyle(case), VHostIntended(case))
  /\ case.kind # "api" => WebsiteOps \subseteq ReadOnlyOps
\* path style reaches the storage with exactly the key that was sent, whenever it reaches it
PathStyleFaithful ==
  case.kind = "api" /\ PathStyle(case) # <<>> =>
    /\ Len(PathStyle(case)) = 1
    /\ PathStyle(case)[1].bucket = case.bucket
    /\ PathStyle(case)[1].key = Decode(case.key)

Emit == PrintT(ToJson(case))
=============================================================================
