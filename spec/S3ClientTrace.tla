---------------------------- MODULE S3ClientTrace ----------------------------
(* TV for C38.  Each trace line (harness/cmd/s3client) holds, for one call of a      *)
(* TLC-generated program executed in lockstep on two identical fresh stacks:         *)
(*   top level   the DIRECT run: call, result, views  - validated by PithosTrace     *)
(*   e.cl        the CLIENT run (S3ClientStorage -> HTTP -> pithos server -> endpoint *)
(*               storage): res (error code as reported + whether it is a storage.Err* *)
(*               value, ids), obj (GetObject), views (read THROUGH the client),       *)
(*               eviews (the endpoint storage read directly), panics                  *)
(* Checks per call:                                                                   *)
(*  (1) write path  the endpoint's views equal the model endpoint Sc' = SCApply(Sc)   *)
(*      and the client's result equals the model's; every C38 deviation whose branch  *)
(*      the call takes is a finding (the direct run and the client run now differ)    *)
(*  (2) read path   the views read through the client equal the endpoint's own views, *)
(*      modulo what a named read-path deviation distorts                              *)
(* Fields that cannot survive the S3 protocol and are therefore not compared between  *)
(* client and endpoint: Last-Modified below one second (mtime_s is compared), the     *)
(* values of version / upload ids (numbered in first-seen order), and an absent       *)
(* content type, which travels as application/octet-stream.                           *)
EXTENDS PithosTrace, S3Client

VARIABLES Sc,      \* model of the endpoint storage behind the client
          ctk      \* C38 deviations taken so far in this program

stvars == <<tvars, Sc, ctk>>

SDiag(what, x) == PrintT(ToJson([l |-> l, prog |-> prog, what |-> what, detail |-> x]))

Octet == "other:application/octet-stream"
NormCtype(t) == IF t = Octet THEN None ELSE t
\* logged views with the protocol-inherent normalisations
NVersion(v) == [LVersion(v) EXCEPT !.ctype = NormCtype(@)]
NKey(kv) == [k |-> kv.k, cur |-> kv.cur, curvid |-> kv.curvid,
             versions |-> [i \in 1..Len(kv.versions) |-> NVersion(kv.versions[i])]]
NBucket(bv) == [b |-> bv.b, ver |-> bv.ver, keys |-> [i \in 1..Len(bv.keys) |-> NKey(bv.keys[i])],
                ups |-> LUploads(bv.ups), listed |-> bv.listed]
NViews(vs) == [i \in 1..Len(vs) |-> NBucket(vs[i])]

\* ---- read path: projection of a views value as far as the client can be expected to agree
RCur(cur, dev) == IF "D-C38-notfound-as-nosuchbucket" \in dev /\ cur \in {"NoSuchKey", "DeleteMarker", "NoSuchBucket"}
                  THEN "absent" ELSE cur
RVersion(v, isCur, hasCur, dev) ==
  LET blank == "D-C38-get-heads-current" \in dev /\ ~isCur /\ ~v.dm IN
  [vid |-> v.vid, dm |-> v.dm, latest |-> v.latest, class |-> v.class, etag |-> v.etag, mtime |-> v.mtime_s, tags |-> v.tags,
   content |-> IF blank /\ ~hasCur THEN <<>> ELSE v.content,
   ctype |-> IF blank THEN "-" ELSE NormCtype(v.ctype),
   meta |-> IF blank THEN "-" ELSE [sys |-> v.meta.sys, user |-> v.meta.user, redir |-> v.meta.redir],
   cks |-> IF blank THEN "-" ELSE v.cks,
   flags |-> IF blank THEN "-" ELSE [size_ok |-> v.size_ok, consistent |-> v.consistent]]
RKey(kv, dev) ==
  LET has == kv.cur = "Object" IN
  [k |-> kv.k, cur |-> RCur(kv.cur, dev), curvid |-> IF has THEN kv.curvid ELSE -1,
   head |-> IF has THEN kv.head_agrees ELSE TRUE,
   versions |-> [i \in 1..Len(kv.versions) |-> RVersion(kv.versions[i], has /\ kv.versions[i].vid = kv.curvid, has, dev)]]
RBucket(bv, panics, dev) ==
  [b |-> bv.b, ver |-> bv.ver, listed |-> bv.listed, keys |-> [i \in 1..Len(bv.keys) |-> RKey(bv.keys[i], dev)],
   ups |-> IF "D-C38-listuploads-nil-deref" \in dev /\ \E i \in 1..Len(panics) : panics[i] = "ListMultipartUploads"
           THEN <<>> ELSE LUploads(bv.ups)]
RViews(vs, panics, dev) == [i \in 1..Len(vs) |-> RBucket(vs[i], panics, dev)]
ReadTags == {"D-C38-notfound-as-nosuchbucket", "D-C38-get-heads-current", "D-C38-listuploads-nil-deref"}

\* ---- client result as logged
ClRes(e) == [err |-> e.cl.res.code, tr |-> e.cl.res.translated, vid |-> e.cl.res.vid, dm |-> e.cl.res.dm, uid |-> e.cl.res.uid]
CResAgrees(c, m, g) ==
  /\ m.err = g.err /\ m.tr = g.tr
  /\ (m.err = "" /\ c.op \in {"PutObject", "CopyObject", "CompleteUpload", "GetObject"}) => m.vid = g.vid
  /\ (m.err = "" /\ c.op = "DeleteObject") => (m.vid = g.vid /\ m.dm = g.dm)
  /\ (m.err = "" /\ c.op = "CreateUpload") => m.uid = g.uid
\* GetObject through the client: the body is the requested version's
CGetAgrees(e, St) ==
  (e.call.op = "GetObject" /\ e.cl.res.code = "") =>
     LET vs == St.objs[e.call.b][e.call.k]
         want == IF e.call.vid = -1 THEN Current(vs) ELSE vs[Idx(vs, e.call.vid)] IN
     e.cl.has_obj /\ e.cl.obj.content = NonEmpty(Flat(want.parts))

STInit == TInit /\ Sc = InitState(Buckets, Keys, Deviations) /\ ctk = {}

\* The endpoint and the client's result are explained with the open C38 deviations enabled - or, so that a
\* repaired finding does not alarm, with the fewest of the deviations RELEVANT to this call switched off.
SMatch(e, cdev) ==
  LET ca == SCApply([Sc EXCEPT !.dev = cdev], e.call) IN
  /\ CResAgrees(e.call, ca.r, ClRes(e)) /\ CGetAgrees(e, Sc) /\ NViews(e.cl.eviews) = MViews(ca.s)

SCall(e) ==
  LET m == FirstMatch(e)
      D == (IF m = 0 THEN Deviations ELSE Cands[m]) \ CTags
      full == Deviations \cap CTags
      rel == CRelevant([Sc EXCEPT !.dev = D \cup full], e.call)
      oks == {R \in SUBSET rel : SMatch(e, D \cup (full \ R))}
      off == IF oks = {} THEN {} ELSE CHOOSE R \in oks : \A Q \in oks : Cardinality(R) <= Cardinality(Q)
      cdev == D \cup (full \ off)
      ca == SCApply([Sc EXCEPT !.dev = cdev], e.call)
      tk == CTakenAt([Sc EXCEPT !.dev = cdev], e.call)
      rd == cdev \cap ReadTags
      readOK(dv) == RViews(e.cl.views, e.cl.panics, dv) = RViews(e.cl.eviews, e.cl.panics, dv)
      needed == {t \in rd : ~readOK(rd \ {t})}
  IN
  /\ Sc' = [ca.s EXCEPT !.dev = Deviations]
  /\ ctk' = ctk \cup tk \cup (IF IllegalSelfCopy(e.call) THEN {"protocol: self copy is illegal in S3"} ELSE {})
  /\ IF ~CResAgrees(e.call, ca.r, ClRes(e))
     THEN SDiag("client-result", [model |-> ca.r, logged |-> ClRes(e), raw |-> e.cl.res.err]) /\ FALSE
     ELSE IF ~CGetAgrees(e, Sc)
     THEN SDiag("client-get", [obj |-> e.cl.obj]) /\ FALSE
     ELSE IF NViews(e.cl.eviews) # MViews(ca.s)
     THEN SDiag("endpoint", [model_views |-> MViews(ca.s), forwarded |-> FwdC(e.call, cdev)]) /\ FALSE
     ELSE IF ~FlagsOK(e.cl.eviews) THEN SDiag("endpoint-flags", <<>>) /\ FALSE
     ELSE IF ~readOK(rd)
     THEN SDiag("client-read", [client |-> RViews(e.cl.views, e.cl.panics, rd), endpoint |-> RViews(e.cl.eviews, e.cl.panics, rd)]) /\ FALSE
     ELSE /\ (IF tk # {} THEN PrintT(ToJson([l |-> l, prog |-> prog, what |-> "property", tags |-> tk])) ELSE TRUE)
          /\ (IF needed # {} THEN PrintT(ToJson([l |-> l, prog |-> prog, what |-> "property", tags |-> needed])) ELSE TRUE)
          \* nothing but the taken deviations may separate the two runs
          /\ (IF ctk \cup tk = {} /\ ~IllegalSelfCopy(e.call) /\ NViews(e.cl.eviews) # LViews(e.views)
              THEN SDiag("diverged", <<>>) /\ FALSE ELSE TRUE)

STNext ==
  /\ TNext
  /\ LET e == Trace[l] IN
     IF e.call.op = "Reset" THEN Sc' = InitState(Buckets, Keys, Deviations) /\ ctk' = {}
     ELSE IF e.fault # "none" THEN UNCHANGED <<Sc, ctk>>
     ELSE SCall(e)
=============================================================================
