----------------------------- MODULE Replication -----------------------------
(***************************************************************************)
(* C23 - replicas converge to the primary.                                 *)
(*                                                                         *)
(* Models internal/storage/replication/replication.go (replicationStorage):*)
(* every mutating call is first executed on the primary; when - and only   *)
(* when - the primary succeeded, it is forwarded to every secondary, with  *)
(* the request translated the way the Go code does it:                     *)
(*   PutObject              conditional-write preconditions dropped        *)
(*                          (secondaryOpts = tags, metadata, class only)   *)
(*   AppendObject           write offset dropped (opts = nil)              *)
(*   CompleteMultipartUpload  parts manifest only (no preconditions),      *)
(*                          upload id mapped                               *)
(*   UploadPart / UploadPartCopy / AbortMultipartUpload  upload id mapped  *)
(*                          through primaryUploadIdToSecondaryUploadIds    *)
(*   everything else        forwarded unchanged (DeleteObject keeps its    *)
(*                          If-Match, Transition its If-Match)             *)
(* Reads are served by the primary (delegator).  A secondary error after   *)
(* primary success is returned to the caller.                              *)
(*                                                                         *)
(* Primary = S (the PithosMC state), secondaries = Sec[1..NSec], each a    *)
(* Pithos.tla state.  Property: Converged - after every successful call    *)
(* that names no explicit version id every secondary exposes the same      *)
(* buckets, keys, current contents, content types, metadata and tags (and  *)
(* pending uploads modulo upload ids) as the primary.                      *)
(***************************************************************************)
EXTENDS PithosMC

CONSTANT NSec          \* number of secondaries

VARIABLES Sec,         \* sequence of Pithos states, one per secondary
          umap,        \* primary upload id -> sequence of secondary upload ids
          serr         \* per secondary: error of the forwarded call of the last step ("" = ok / not forwarded)

rvars == <<S, res, hist, Sec, umap, serr>>

HasField(c, f) == f \in DOMAIN c
\* calls naming an explicit version id are outside the property
NoVid(c) == /\ (HasField(c, "vid") => c.vid = -1)
            /\ (HasField(c, "svid") => c.svid = -1)

ReadOnly(c) == c.op = "GetObject"

USec(um, u, i) == IF u \in DOMAIN um THEN um[u][i] ELSE 0     \* 0 = an id no secondary ever handed out

\* the call replicationStorage sends to secondary i for the client call c
Fwd(c, um, i) ==
  CASE c.op = "PutObject"      -> [c EXCEPT !.cond = "none"]
    [] c.op = "AppendObject"   -> [c EXCEPT !.off = "none"]
    [] c.op = "CompleteUpload" -> [c EXCEPT !.cond = "none", !.u = USec(um, c.u, i)]
    [] c.op \in {"UploadPart", "UploadPartCopy", "AbortUpload"} -> [c EXCEPT !.u = USec(um, c.u, i)]
    [] OTHER -> c

\* ------------------------------------------------ bulk delete (storage.Storage.DeleteObjects)
\* Not part of the PithosMC call alphabet; modelled here from metadatapart/delete.go:DeleteObjects: one
\* transaction, the entries one after the other.  Per entry (no version id):
\*   1. the entry's TARGET is looked up: the current version - but in a versioning-SUSPENDED bucket the "null"
\*      version (HeadObjectVersion(.., "null")), whether or not it is current;
\*   2. an If-Match condition is pre-checked against that target: no target, a delete-marker target or another
\*      ETag => PER-ENTRY result (Deleted = false, PreconditionFailed), nothing changes, the remaining entries
\*      are still processed, the call as a whole succeeds;
\*   3. otherwise the key-level delete of Pithos!DeleteObject takes place (the metadata store evaluates the
\*      condition once more, against the CURRENT version, whose ETag the condition carries).
\* In a never-versioned or versioning-enabled bucket target = current, and an entry behaves exactly like
\* DeleteObject(key, If-Match).  In a SUSPENDED bucket it does not: DeleteObject evaluates If-Match against the
\* current version, DeleteObjects refuses an entry carrying the current ETag when the key has no null version (or
\* a null version with another ETag).  This is what metadatapart does today; it does not affect C23 (primary and
\* secondaries refuse alike) and is modelled as the storage's behaviour.
\* call: [op |-> "DeleteObjects", b, entries : Seq([k, cond])], cond in {"none", "ifm-cur", "ifm-stale"};
\* "ifm-cur" carries the ETag HeadObject reports for the key at call time (a stale one if there is no object).
SameETag(v, w) == v.single = w.single /\ v.parts = w.parts
BulkRefused(St, b, e) ==
  LET vs == St.objs[b][e.k]
      ti == IF St.bver[b] = "Suspended" THEN Idx(vs, 0) ELSE LatestIdx(vs) IN
  /\ e.cond # "none"
  /\ \/ ti = 0 \/ e.cond = "ifm-stale"
     \/ vs[ti].dm \/ ~HasCurrent(vs) \/ ~SameETag(vs[ti], Current(vs))
RECURSIVE BulkFold(_, _, _, _)
BulkFold(St, b, es, acc) ==
  IF es = <<>> THEN [s |-> St, ents |-> acc]
  ELSE LET e == Head(es) IN
       IF BulkRefused(St, b, e)
       THEN BulkFold(St, b, Tail(es), Append(acc, [k |-> e.k, deleted |-> FALSE, code |-> "PreconditionFailed"]))
       ELSE BulkFold(DeleteObject(St, b, e.k, -1, "none").s, b, Tail(es), Append(acc, [k |-> e.k, deleted |-> TRUE, code |-> ""]))
BulkDelete(St, c) ==
  IF ~Exists(St, c.b) THEN [s |-> St, r |-> [NoRes EXCEPT !.err = "NoSuchBucket"], ents |-> <<>>]
  ELSE LET f == BulkFold(St, c.b, c.entries, <<>>) IN [s |-> f.s, r |-> NoRes, ents |-> f.ents]
\* Apply extended by the bulk delete: [s, r, ents]
XApply(St, c) ==
  IF c.op = "DeleteObjects" THEN BulkDelete(St, c)
  ELSE [s |-> Apply(St, c).s, r |-> Apply(St, c).r, ents |-> <<>>]
\* the bulk calls over the model's keys: every non-empty sequence of distinct keys, each with a condition
BConds == {"none", "ifm-cur", "ifm-stale"}
BulkEntries ==
  LET n == Cardinality(Keys)
      raw == UNION {[1..m -> [k : Keys, cond : BConds]] : m \in 1..n}
  IN {q \in raw : \A i, j \in 1..Len(q) : q[i].k = q[j].k => i = j}
BulkCalls == [op : {"DeleteObjects"} \cap Ops, b : Buckets, entries : BulkEntries]

\* One client call through the replication storage (DeleteObjects is forwarded with its entries unchanged).
\*   P, Secs : states before; result: states after, new upload-id map, client result
RepApply(P, Secs, um, c) ==
  LET a == XApply(P, c) IN
  IF a.r.err # "" \/ ReadOnly(c)
  THEN [p |-> a.s, secs |-> Secs, um |-> um, r |-> a.r, ents |-> a.ents, serr |-> [i \in 1..Len(Secs) |-> ""]]
  ELSE LET sa == [i \in 1..Len(Secs) |-> XApply(Secs[i], Fwd(c, um, i))]
           um2 == IF c.op = "CreateUpload"
                  THEN [u \in DOMAIN um \cup {a.r.uid} |->
                          IF u = a.r.uid THEN [i \in 1..Len(Secs) |-> sa[i].r.uid] ELSE um[u]]
                  ELSE IF c.op \in {"CompleteUpload", "AbortUpload"}
                  THEN [u \in DOMAIN um \ {c.u} |-> um[u]]
                  ELSE um
           firstErr == IF \E i \in 1..Len(Secs) : sa[i].r.err # ""
                       THEN sa[CHOOSE i \in 1..Len(Secs) : sa[i].r.err # "" /\ \A j \in 1..(i-1) : sa[j].r.err = ""].r.err
                       ELSE ""
       IN [p |-> a.s, secs |-> [i \in 1..Len(Secs) |-> sa[i].s], um |-> um2, ents |-> a.ents,
           r |-> IF firstErr = "" THEN a.r ELSE [NoRes EXCEPT !.err = firstErr],
           serr |-> [i \in 1..Len(Secs) |-> sa[i].r.err]]

\* ------------------------------------------------ projection modulo ids
CKey(St, b, k) ==
  LET vs == St.objs[b][k] IN
  IF HasCurrent(vs)
  THEN [k |-> k, has |-> TRUE, content |-> Flat(Current(vs).parts), ctype |-> Current(vs).ctype,
        meta |-> Current(vs).meta, tags |-> Current(vs).tags]
  ELSE [k |-> k, has |-> FALSE, content |-> <<>>, ctype |-> None, meta |-> EmptyMeta, tags |-> None]
CUps(St, b) ==
  LET mine == SelectSeq(St.ups, LAMBDA u : u.b = b) IN
  [i \in 1..Len(mine) |-> [k |-> mine[i].k,
                           parts |-> [j \in 1..Len(mine[i].parts) |-> [n |-> mine[i].parts[j].n, c |-> mine[i].parts[j].c]]]]
CProj(St) ==
  [b \in Buckets |->
     IF St.bver[b] = "Absent" THEN [exists |-> FALSE]
     ELSE [exists |-> TRUE, keys |-> [k \in Keys |-> CKey(St, b, k)], ups |-> CUps(St, b)]]

ConvergedStates(P, Q) == CProj(P) = CProj(Q)

\* ------------------------------------------------ transition system (MC)
RInit == /\ S = InitState(Buckets, Keys, Deviations) /\ res = NoRes /\ hist = <<>>
         /\ Sec = [i \in 1..NSec |-> InitState(Buckets, Keys, Deviations)]
         /\ umap = <<>> /\ serr = [i \in 1..NSec |-> ""]

RStep(c) == LET r == RepApply(S, Sec, umap, c) IN
            /\ S' = r.p /\ Sec' = r.secs /\ umap' = r.um /\ res' = r.r /\ serr' = r.serr
            /\ hist' = <<c>>

RNextMC == S.clock < MaxClock /\ \E c \in {x \in Calls(S) : NoVid(x)} \cup BulkCalls : RStep(c)

RSpec == RInit /\ [][RNextMC]_rvars

\* C23
Converged == \A i \in 1..NSec : ConvergedStates(S, Sec[i])
\* the primary's success is never turned into an error by a secondary
SecondariesFollow == \A i \in 1..NSec : serr[i] = ""
\* the map names exactly the pending uploads, and maps them to uploads of the same key
MapOK == /\ DOMAIN umap = {S.ups[j].uid : j \in 1..Len(S.ups)}
         /\ \A u \in DOMAIN umap : \A i \in 1..NSec :
              /\ UpIdx(Sec[i], umap[u][i]) # 0
              /\ Sec[i].ups[UpIdx(Sec[i], umap[u][i])].k = S.ups[UpIdx(S, u)].k
              /\ Sec[i].ups[UpIdx(Sec[i], umap[u][i])].b = S.ups[UpIdx(S, u)].b

RView == <<S, Sec, umap, serr>>
=============================================================================
