------------------------------ MODULE S3ClientMC ------------------------------
(* MC for C38: the direct storage (S) and the endpoint behind the client (Sc) execute *)
(* the same calls in lockstep.  With Deviations = {} TLC proves that the model of the *)
(* client is transparent (Same: equal states, equal results); with one deviation      *)
(* enabled the same run is a breadth-first search for the SHORTEST program that makes *)
(* the deviation observable (Witness prints it and stops) - these programs are        *)
(* replayed on the real client so that every open finding is exercised.               *)
EXTENDS S3Client, Json, TLCExt

VARIABLES Sc, cres

mvars == <<S, res, hist, Sc, cres>>

MInit == /\ S = InitState(Buckets, Keys, Deviations \ CTags) /\ res = NoRes /\ hist = <<>>
         /\ Sc = InitState(Buckets, Keys, Deviations) /\ cres = CErr("")
MStep(c) == /\ S' = Apply(S, c).s /\ res' = Apply(S, c).r /\ hist' = Append(hist, c)
            /\ Sc' = SCApply(Sc, c).s /\ cres' = SCApply(Sc, c).r
MNext == S.clock < MaxClock /\ \E c \in {x \in Calls(S) : ~IllegalSelfCopy(x)} : MStep(c)
MSpec == MInit /\ [][MNext]_mvars

Same == /\ Strip(Sc) = Strip(S)
        /\ cres = [CErrOf("-", res.err, {}) EXCEPT !.vid = res.vid, !.dm = res.dm, !.uid = res.uid]
Witness == IF Same THEN TRUE ELSE PrintT(ToJson(hist)) /\ TLCSet("exit", TRUE)
MView == <<S, Sc, res, cres>>
=============================================================================
