--------------------------- MODULE CondWriteRace ---------------------------
(* GEN of FORCED schedules for CondWrite.tla.  Every behaviour of the form   *)
(*                                                                           *)
(*   <setup, sequential>  Invoke(H)  Invoke(R1) [Invoke(R2)]                 *)
(*                        Lin(H)  Lin(R1) [Lin(R2)]  Return...               *)
(*                                                                           *)
(* is enumerated (one TLC initial state per round): H is a write that is     *)
(* invoked first and holds the database writer up to its commit while the    *)
(* racers are invoked; the racers therefore run everything they do before    *)
(* their own write transaction against the state BEFORE Lin(H) and then      *)
(* queue for the writer.  A call whose condition (If-Match, If-None-Match,   *)
(* write offset) were evaluated outside the transaction that applies it -    *)
(* check-then-act - decides on the stale state in exactly these schedules.   *)
(* The harness (cmd/condwrite, gate at the tx.sqlcommit hook point) forces   *)
(* the schedule; the recorded Invoke/Return history is validated by the      *)
(* linearisation search of CondWriteTrace.tla like any other round.          *)
EXTENDS CondWrite, Json

CONSTANTS TwoRacers, BumpMode

Mk(k, b, c, o) == [kind |-> k, blob |-> b, cond |-> c, seen |-> "", off |-> o]
\* the holder writes blob x, racers write y / z (the harness makes every write distinguishable anyway)
HolderOps == {Mk("Put", "x", c, -1) : c \in {"none", "inm", "ifm"}}
        \cup {Mk("Delete", "", c, -1) : c \in {"none", "ifm"}}
        \cup {Mk("Append", "x", "none", o) : o \in {-1, 0, 3}}
RacerOps(b) == {Mk("Put", b, c, -1) : c \in {"none", "inm", "ifm"}}
          \cup {Mk("Delete", "", c, -1) : c \in {"none", "ifm"}}
          \cup {Mk("Append", b, "none", o) : o \in {-1, 0, 3, 6}}
          \cup {Mk("Get", "", "none", -1)}
\* sequential prefix: nothing, one put (size 3), put + append (size 6)
Setups == {<<>>, <<Mk("Put", "x", "none", -1)>>, <<Mk("Put", "x", "none", -1), Mk("Append", "y", "none", -1)>>}
None == Mk("None", "", "none", -1)

VARIABLE rd
\* BumpMode: no holder; ONE call runs with the competing metadata-only writer armed (CondWrite!LinLostCAS)
RInit == Init /\ rd \in [setup : Setups, hold : IF BumpMode THEN {None} ELSE HolderOps, r1 : RacerOps("y"),
                 r2 : IF TwoRacers /\ ~BumpMode THEN RacerOps("y") ELSE {None}]
RNext == UNCHANGED <<vars, rd>>
Step(c, o) == [c |-> c, op |-> o]
\* phase 1: g1 runs the setup; phase 2: every client reads (learns the ETag it may condition on);
\* phase 3 (hold): g2 = H first, then the racers g1 (, g3)
Round == [phases |-> <<
   [hold |-> FALSE, bump |-> FALSE, ops |-> [i \in 1..Len(rd.setup) |-> Step("g1", rd.setup[i])]],
   [hold |-> FALSE, bump |-> FALSE, ops |-> <<Step("g1", Mk("Get", "", "none", -1)), Step("g2", Mk("Get", "", "none", -1)),
                              Step("g3", Mk("Get", "", "none", -1))>>],
   IF BumpMode THEN [hold |-> FALSE, bump |-> TRUE, ops |-> <<Step("g1", rd.r1)>>]
   ELSE [hold |-> TRUE, bump |-> FALSE, ops |-> <<Step("g2", rd.hold), Step("g1", rd.r1)>>
                            \o (IF rd.r2 = None THEN <<>> ELSE <<Step("g3", rd.r2)>>)]>>]
Emit == PrintT(ToJson(Round))
=============================================================================
