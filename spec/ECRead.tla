------------------------------- MODULE ECRead -------------------------------
(***************************************************************************)
(* C17 - erasure coding tolerates parity-many shard faults and never lies. *)
(*                                                                         *)
(* Model of the READER of the erasure-coding part store                    *)
(*   internal/storage/metadatapart/partstore/middlewares/erasurecoding/    *)
(*   erasurecoding.go : GetPart, getPartWithHealing, openPartReaders,      *)
(*   newPartReader (stripe loop, healing writers), healScanOnce,           *)
(*   parseShardHeader, parseFrameHeader                                    *)
(* over SYMBOLIC shard files.  A shard file is                             *)
(*   [present, hdr, ver, frames, tail]                                     *)
(*   frames : Seq([idx, db, plen, size, hashOk, cut, dbAuth, pay])         *)
(* idx/db/plen are the three frame-header fields (stripe index, dataBytes, *)
(* payload length), size the payload bytes really following, pay the       *)
(* identity of the payload (which write, which stripe; <<"pad",n>> for a   *)
(* data shard that is pure zero padding), cut whether the file ends inside *)
(* the frame, dbAuth whether db is the value the writer put there.         *)
(*                                                                         *)
(* OpenOk        = openPartReaders (one decision per shard)                *)
(* Outcome       = the per-shard body of the stripe loop of newPartReader  *)
(* Loop          = one iteration of the stripe loop (end-of-data decision,  *)
(*                 ReconstructData, healing frames, output)                 *)
(* Read          = GetPart + io.ReadAll : result AND shard files afterwards *)
(*                                                                         *)
(* The module contains the INTENDED reader (Deviations = {}), on which TLC *)
(* proves the three property invariants, and as named deviations what the  *)
(* code really does (confirmed on the real code by harness/cmd/ecread):    *)
(*  D-C17-databytes-unauthenticated  dataBytes is not covered by the hash  *)
(*  D-C17-stale-mix      a valid shard of a previous write is accepted     *)
(*  D-C17-foreign-shard  a valid shard of another part is accepted         *)
(*  D-C17-uniform-truncation  "no shard delivered a frame header" is taken *)
(*                       as end of data even if no shard ends properly     *)
(*  D-C17-trailing-data  bytes after the last frame of ONE shard make the  *)
(*                       read fail although all others end properly        *)
(*  D-C17-heal-parity-empty  healing writes parity shards with empty       *)
(*                       payloads (ReconstructData restores data only)     *)
(***************************************************************************)
EXTENDS Integers, Sequences, FiniteSets, TLC

CONSTANT Deviations

Dev(t) == t \in Deviations

S == 1024                                  \* stripeShardSz (smallest allowed)
Configs == {<<2, 1>>, <<2, 2>>, <<3, 2>>}  \* <<dataShards, parityShards>>
Cap(D) == D * S
NumStripes(D, L) == (L + Cap(D) - 1) \div Cap(D)
StripeLen(D, L, k) == IF (k + 1) * Cap(D) <= L THEN Cap(D) ELSE L - k * Cap(D)
PLen(D, n) == (n + D - 1) \div D

\* part lengths explored: 0 bytes, one short stripe, full stripe, 2 and 3 stripes
\* with a short last stripe (with and without padding) and with a full one
Lens(D) == {0, 1, Cap(D) - 1, Cap(D), Cap(D) + 1, Cap(D) + 500 * D, 2 * Cap(D) + 7, 3 * Cap(D)}
\* lengths of the previous write / of the other part, relative to the part
AltLens(D, L) == {x \in {L, L - 1, L + 1, L - Cap(D), L + Cap(D)} : x >= 0}

VerSeq == <<"cur", "old", "frn">>
LenOf(c, v) == CASE v = "cur" -> c.L [] v = "old" -> c.LO [] v = "frn" -> c.LF
K(c, v) == NumStripes(c.D, LenOf(c, v))
SLen(c, v, k) == StripeLen(c.D, LenOf(c, v), k)
N(c) == c.D + c.P

\* identity of the payload of shard i (1-based; data shards are 1..D) in stripe k
\* (0-based) of write v
Ident(c, v, i, k) ==
  LET n == SLen(c, v, k)
      pl == PLen(c.D, n) IN
  IF i <= c.D /\ (i - 1) * pl >= n THEN <<"pad", pl>> ELSE <<v, k>>

\* which write a payload identity of slot i / stripe k belongs to (first match)
RECURSIVE FirstVer(_, _, _, _, _)
FirstVer(c, pay, i, k, j) ==
  IF j > Len(VerSeq) THEN "x"
  ELSE IF k < K(c, VerSeq[j]) /\ pay = Ident(c, VerSeq[j], i, k) THEN VerSeq[j]
  ELSE FirstVer(c, pay, i, k, j + 1)
VerOfPay(c, pay, i, k) == IF pay[1] \in {"x", "empty"} THEN "x" ELSE FirstVer(c, pay, i, k, 1)

\* ------------------------------------------------------------ shard files
FreshFrame(c, v, i, k) ==
  LET n == SLen(c, v, k) IN
  [idx |-> k, db |-> n, plen |-> PLen(c.D, n), size |-> PLen(c.D, n), hashOk |-> TRUE,
   cut |-> "none", dbAuth |-> TRUE, pay |-> Ident(c, v, i, k)]

\* what PutPart of write v leaves in shard store i
FreshShard(c, v, i) ==
  [present |-> TRUE, hdr |-> "ok", ver |-> v,
   frames |-> [j \in 1..K(c, v) |-> FreshFrame(c, v, i, j - 1)], tail |-> "none"]

\* ------------------------------------------------------------ fault kinds
FrameKinds == {"truncb", "trunch", "truncp", "payflip", "hashflip", "idxflip", "plenflip"}
ShardKinds == {"none", "missing", "hdrbad", "hdrshort", "appendlong", "appendshort", "stale", "foreign"}
DbVars == {"m1", "p1", "zero"}
NoFault == [kind |-> "none", f |-> 0, var |-> ""]

FaultOpts(D, L) ==
  LET Kc == NumStripes(D, L) IN
  {[kind |-> kd, f |-> 0, var |-> ""] : kd \in ShardKinds}
  \cup {[kind |-> kd, f |-> f, var |-> ""] : kd \in FrameKinds, f \in 0..(Kc - 1)}
  \cup {[kind |-> "dbflip", f |-> f, var |-> v] : f \in 0..(Kc - 1), v \in DbVars}

\* faults that make a shard end early without leaving a recognisably bad frame
TruncKinds == {"none", "missing", "hdrbad", "hdrshort", "truncb", "trunch", "truncp", "payflip"}

ApplyFault(c, i, ft) ==
  LET sh == FreshShard(c, "cur", i)
      fr == sh.frames
      j == ft.f + 1
      With(g) == [sh EXCEPT !.frames = [fr EXCEPT ![j] = g]]
      CutAt(how) == [sh EXCEPT !.frames = SubSeq(fr, 1, j - 1) \o <<[fr[j] EXCEPT !.cut = how]>>] IN
  CASE ft.kind = "none" -> sh
    [] ft.kind = "missing" -> [sh EXCEPT !.present = FALSE]
    [] ft.kind = "hdrbad" -> [sh EXCEPT !.hdr = "bad"]
    [] ft.kind = "hdrshort" -> [sh EXCEPT !.hdr = "short", !.frames = <<>>]
    [] ft.kind = "truncb" -> [sh EXCEPT !.frames = SubSeq(fr, 1, j - 1)]
    [] ft.kind = "trunch" -> CutAt("hdr")
    [] ft.kind = "truncp" -> CutAt("pay")
    [] ft.kind = "payflip" -> With([fr[j] EXCEPT !.hashOk = FALSE])
    [] ft.kind = "hashflip" -> With([fr[j] EXCEPT !.hashOk = FALSE])
    [] ft.kind = "idxflip" -> With([fr[j] EXCEPT !.idx = -1])            \* any value but j-1
    [] ft.kind = "plenflip" -> With([fr[j] EXCEPT !.plen = fr[j].size + 1])  \* any value but size
    [] ft.kind = "dbflip" ->
         With([fr[j] EXCEPT !.dbAuth = FALSE,
                            !.db = CASE ft.var = "m1" -> fr[j].db - 1
                                     [] ft.var = "p1" -> fr[j].db + 1
                                     [] OTHER -> 0])
    [] ft.kind = "appendlong" -> [sh EXCEPT !.tail = "long"]     \* >= one frame header of trailing bytes
    [] ft.kind = "appendshort" -> [sh EXCEPT !.tail = "short"]   \* fewer
    [] ft.kind = "stale" -> FreshShard(c, "old", i)
    [] ft.kind = "foreign" -> FreshShard(c, "frn", i)

Shards(c) == [i \in 1..N(c) |-> ApplyFault(c, i, c.faults[i])]
NFaulty(c) == Cardinality({i \in 1..N(c) : c.faults[i].kind # "none"})

ValidCase(c) ==
  /\ <<c.D, c.P>> \in Configs
  /\ c.L \in Lens(c.D)
  /\ c.LO \in AltLens(c.D, c.L) /\ c.LF \in AltLens(c.D, c.L)
  /\ c.mode \in {"read", "scan"}
  /\ Len(c.faults) = N(c)
  /\ \A i \in 1..N(c) : c.faults[i] \in FaultOpts(c.D, c.L)

\* ------------------------------------------------------------ the reader
\* openPartReaders: is shard sh opened (TRUE) or flagged for healing (FALSE)
OpenOk(sh) ==
  /\ sh.present /\ sh.hdr = "ok"
  /\ \/ sh.ver = "cur"
     \/ sh.ver = "old" /\ Dev("D-C17-stale-mix")
     \/ sh.ver = "frn" /\ Dev("D-C17-foreign-shard")

\* the stripe loop body for one open shard at stripe k:
\*   "eof"    no complete frame header could be read (shard closed, seenAny untouched)
\*   "reject" a frame header was read (seenAny) but the frame is not usable
\*   "accept" frame verified
Outcome(sh, k) ==
  IF k + 1 > Len(sh.frames)
  THEN (IF sh.tail = "long" THEN "reject" ELSE "eof")
  ELSE LET f == sh.frames[k + 1] IN
       IF f.cut = "hdr" THEN "eof"
       ELSE IF f.idx # k \/ f.db < 1 \/ f.plen < 1 \/ f.plen # f.size \/ f.cut = "pay" \/ ~f.hashOk
       THEN "reject"
       ELSE IF ~f.dbAuth /\ ~Dev("D-C17-databytes-unauthenticated") THEN "reject"
       ELSE "accept"

\* the shard ends here exactly as its writer ended it
ProperEnd(c, sh, k) == k = Len(sh.frames) /\ sh.tail = "none" /\ Len(sh.frames) = K(c, sh.ver)

SetMin(X) == CHOOSE x \in X : \A y \in X : x <= y
FirstN(X, n) == {x \in X : Cardinality({y \in X : y < x}) < n}

Healed(frames) == [present |-> TRUE, hdr |-> "ok", ver |-> "cur", frames |-> frames, tail |-> "none"]

Finish(c, st, ok, err, stripe) ==
  [ok |-> ok, len |-> st.len, err |-> err, stripe |-> stripe, via |-> st.via,
   cls |-> IF ~ok THEN ""
           ELSE IF st.m["cur"] /\ st.k = K(c, "cur") THEN "cur"
           ELSE IF st.m["old"] /\ st.k = K(c, "old") THEN "old"
           ELSE IF st.m["frn"] /\ st.k = K(c, "frn") THEN "frn"
           ELSE "x",
   post |-> [i \in 1..N(c) |-> IF i \in st.H THEN Healed(st.heal[i]) ELSE st.sh[i]]]

RECURSIVE Loop(_, _)
Loop(c, st) ==
  LET k == st.k
      D == c.D
      out == [i \in st.open |-> Outcome(st.sh[i], k)]
      A == {i \in st.open : out[i] = "accept"}
      seen == \E i \in st.open : out[i] # "eof"
      E == {i \in st.open : out[i] = "eof" /\ ProperEnd(c, st.sh[i], k)}
      fr(i) == st.sh[i].frames[k + 1] IN
  IF Cardinality(A) < D
  THEN \* end of data or failure
       LET authentic == A = {} /\ E # {}
           endOk == \/ authentic /\ (~seen \/ ~Dev("D-C17-trailing-data"))
                    \/ Dev("D-C17-uniform-truncation") /\ ~seen IN
       IF endOk
       THEN Finish(c, [st EXCEPT !.via = @ \cup (IF authentic THEN {} ELSE {"D-C17-uniform-truncation"})],
                   TRUE, "", -1)
       ELSE Finish(c, [st EXCEPT !.via = @ \cup (IF authentic THEN {"D-C17-trailing-data"} ELSE {})],
                   FALSE, "insufficient", k)
  ELSE IF Cardinality({fr(i).plen : i \in A}) > 1
  THEN Finish(c, st, FALSE, "size", -1)                  \* ReconstructData: ErrShardSize
  ELSE
    LET pl == fr(SetMin(A)).plen
        db == fr(SetMin(A)).db                           \* dataBytes of the first accepted frame
        used == FirstN(A, D)                             \* rows ReconstructData decodes from
        recVers == {v \in {"cur", "old", "frn"} :
                      k < K(c, v) /\ \A u \in used : fr(u).pay = Ident(c, v, u, k)}
        recVer == IF "cur" \in recVers THEN "cur" ELSE IF "old" \in recVers THEN "old"
                  ELSE IF "frn" \in recVers THEN "frn" ELSE "x"
        dataPay(j) == IF j \in A THEN fr(j).pay
                      ELSE IF recVer = "x" THEN <<"x", 0>> ELSE Ident(c, recVer, j, k)
        \* a (re-)encoded parity shard: determined by the D data payloads
        parVers == {v \in {"cur", "old", "frn"} :
                      k < K(c, v) /\ \A j \in 1..D : dataPay(j) = Ident(c, v, j, k)}
        parPay(i) == IF "cur" \in parVers THEN Ident(c, "cur", i, k)
                     ELSE IF "old" \in parVers THEN Ident(c, "old", i, k)
                     ELSE IF "frn" \in parVers THEN Ident(c, "frn", i, k) ELSE <<"x", 0>>
        outLen == IF db < D * pl THEN db ELSE D * pl
        matches(v) == /\ k < K(c, v) /\ outLen = SLen(c, v, k)
                      /\ \A j \in 1..D : (j - 1) * pl < outLen => dataPay(j) = Ident(c, v, j, k)
        healFrame(i) ==
          IF i <= D
          THEN [idx |-> k, db |-> db, plen |-> pl, size |-> pl, hashOk |-> TRUE, cut |-> "none",
                dbAuth |-> TRUE, pay |-> dataPay(i)]
          ELSE IF Dev("D-C17-heal-parity-empty")
          THEN [idx |-> k, db |-> db, plen |-> 0, size |-> 0, hashOk |-> TRUE, cut |-> "none",
                dbAuth |-> TRUE, pay |-> <<"empty", 0>>]
          ELSE [idx |-> k, db |-> db, plen |-> pl, size |-> pl, hashOk |-> TRUE, cut |-> "none",
                dbAuth |-> TRUE, pay |-> parPay(i)]
        via2 == st.via
                \cup (IF \E i \in A : ~fr(i).dbAuth THEN {"D-C17-databytes-unauthenticated"} ELSE {})
                \cup (IF Dev("D-C17-heal-parity-empty") /\ \E i \in st.H : i > D
                      THEN {"D-C17-heal-parity-empty"} ELSE {}) IN
    Loop(c, [st EXCEPT !.open = A, !.k = k + 1, !.len = @ + outLen,
                       !.m = [v \in {"cur", "old", "frn"} |-> st.m[v] /\ matches(v)],
                       !.heal = [i \in st.H |-> Append(st.heal[i], healFrame(i))],
                       !.via = via2])

\* GetPart + read to the end on shard files sh: result and shard files afterwards
Read(c, sh) ==
  LET opened == {i \in 1..N(c) : OpenOk(sh[i])}
      H == (1..N(c)) \ opened                 \* healShards after openPartReaders = healing writers
      via0 == (IF \E i \in opened : sh[i].ver = "old" THEN {"D-C17-stale-mix"} ELSE {})
              \cup (IF \E i \in opened : sh[i].ver = "frn" THEN {"D-C17-foreign-shard"} ELSE {}) IN
  IF \A i \in 1..N(c) : ~sh[i].present
  THEN \* openPartReaders: every shard store answers ErrPartNotFound => the part does not
       \* exist: ErrPartNotFound, nothing is healed (no header-only shard files)
       [ok |-> FALSE, len |-> 0, err |-> "notfound", stripe |-> -1, via |-> {}, cls |-> "", post |-> sh]
  ELSE
  Loop(c, [sh |-> sh, open |-> opened, H |-> H, heal |-> [i \in H |-> <<>>], k |-> 0, len |-> 0,
           m |-> [v \in {"cur", "old", "frn"} |-> TRUE], via |-> via0])

\* healScanOnce reads every part id that at least one shard store lists
ScanRead(c, sh) ==
  IF \E i \in 1..N(c) : sh[i].present THEN Read(c, sh)
  ELSE [ok |-> FALSE, len |-> 0, err |-> "notlisted", stripe |-> -1, via |-> {}, cls |-> "", post |-> sh]

\* first access of a case (direct read or heal scan) and the direct read after it
R1(c) == IF c.mode = "scan" THEN ScanRead(c, Shards(c)) ELSE Read(c, Shards(c))
R2(c) == Read(c, R1(c).post)

\* same bytes on disk (the write a shard came from is not visible in equal bytes)
SameBytes(a, b) == [a EXCEPT !.ver = "cur"] = [b EXCEPT !.ver = "cur"]
IsFresh(c, sh, i) == SameBytes(sh, FreshShard(c, "cur", i))

\* ---------------------------------------------------------------- property
Good(c, r) == r.ok /\ r.cls = "cur" /\ r.len = c.L
\* with at most P faulty shards every read returns exactly the original bytes
Tolerates(c, r1, r2) == NFaulty(c) <= c.P => (c.mode = "scan" \/ Good(c, r1)) /\ Good(c, r2)
\* a read that succeeds returns the original bytes, whatever the faults
NeverLies(c, r1, r2) == (r1.ok => Good(c, r1)) /\ (r2.ok => Good(c, r2))
\* ... and healing restores the missing shards
Heals(c, r1) == NFaulty(c) <= c.P =>
                  \A i \in 1..N(c) : c.faults[i].kind = "missing" => IsFresh(c, r1.post[i], i)
C17Holds(c, r1, r2) == Tolerates(c, r1, r2) /\ NeverLies(c, r1, r2) /\ Heals(c, r1)

\* lemma used by the heal-scan binding: once read, further reads change nothing
\* and return the same
Idempotent(c, r1, r2) == /\ r2.post = r1.post
                         /\ LET r3 == Read(c, r2.post) IN
                            [r3 EXCEPT !.via = {}] = [r2 EXCEPT !.via = {}]

\* ------------------------------------------------------ exhaustive checking
\* The case space is a tree: shard after shard gets one fault option (or none).
\* MCConfigs: set of <<D, P, max faulty shards, t, lens>>; if t then additionally
\* every combination of early-end faults (TruncKinds) on ALL shards is explored;
\* lens = "all" (Lens(D)) or "few" (one length per stripe count 0..3).
\* Only one representative per behaviour class of fault kinds is enumerated
\* (RepKinds); ClassLemma shows that the other kinds give shard files the reader
\* cannot tell from their representative's.
CONSTANT MCConfigs
VARIABLES case, pos, lim
vars == <<case, pos, lim>>

RepKinds == {"none", "missing", "hdrbad", "truncb", "payflip", "dbflip", "appendlong", "appendshort",
             "stale", "foreign"}
RepOf(kd) == CASE kd = "hdrshort" -> "hdrbad"
               [] kd = "trunch" -> "truncb"
               [] kd \in {"truncp", "hashflip", "idxflip", "plenflip"} -> "payflip"
               [] OTHER -> kd
\* everything Read looks at in a shard file: the shard is consulted stripe after
\* stripe until its first frame that is not accepted
RECURSIVE SigFrom(_, _, _)
SigFrom(c, sh, k) ==
  LET o == Outcome(sh, k) IN
  IF o = "accept" THEN <<sh.frames[k + 1]>> \o SigFrom(c, sh, k + 1)
  ELSE << <<o, ProperEnd(c, sh, k)>> >>
Signature(c, sh) == [open |-> sh.present /\ sh.hdr = "ok", present |-> sh.present, ver |-> sh.ver,
                     at |-> IF sh.present /\ sh.hdr = "ok" THEN SigFrom(c, sh, 0) ELSE <<>>]
ClassLemma(c) ==
  \A i \in 1..N(c) : \A ft \in {x \in FaultOpts(c.D, c.L) : x.kind \notin RepKinds} :
    Signature(c, ApplyFault(c, i, ft)) = Signature(c, ApplyFault(c, i, [ft EXCEPT !.kind = RepOf(ft.kind)]))

MaxFaults(c) == CHOOSE m \in 0..10 : \E cf \in MCConfigs : cf[1] = c.D /\ cf[2] = c.P /\ cf[3] = m
FewLens(D) == {0, 1, Cap(D) + 1, 2 * Cap(D) + 7}

Init ==
  /\ \E cf \in MCConfigs : \E L \in (IF cf[5] = "all" THEN Lens(cf[1]) ELSE FewLens(cf[1])) :
       case = [D |-> cf[1], P |-> cf[2], L |-> L, LO |-> L, LF |-> L, mode |-> "read",
               faults |-> [i \in 1..(cf[1] + cf[2]) |-> NoFault]]
       /\ lim \in {"any"} \cup (IF cf[4] THEN {"trunc"} ELSE {})
  /\ pos = 1

Next ==
  /\ pos <= N(case)
  /\ \E ft \in FaultOpts(case.D, case.L) :
       /\ ft.kind \in RepKinds
       /\ lim = "any" => (ft.kind = "none" \/ NFaulty(case) < MaxFaults(case))
       /\ lim = "trunc" => ft.kind \in TruncKinds
       /\ \E lo \in (IF ft.kind = "stale" /\ \A i \in 1..N(case) : case.faults[i].kind # "stale"
                     THEN AltLens(case.D, case.L) ELSE {case.LO}) :
          \E lf \in (IF ft.kind = "foreign" /\ \A i \in 1..N(case) : case.faults[i].kind # "foreign"
                     THEN AltLens(case.D, case.L) ELSE {case.LF}) :
            case' = [case EXCEPT !.faults[pos] = ft, !.LO = lo, !.LF = lf]
  /\ pos' = pos + 1
  /\ UNCHANGED lim

Spec == Init /\ [][Next]_vars

\* bounds used by the configs (cfg files cannot write tuples)
MCNone == {}
MCQuick == {<<2, 1, 2, TRUE, "few">>, <<2, 2, 1, FALSE, "all">>, <<3, 2, 1, FALSE, "all">>}
MCQuickCode == {<<2, 1, 1, TRUE, "all">>, <<2, 2, 1, FALSE, "few">>, <<3, 2, 1, FALSE, "few">>}
MCThorough == {<<2, 1, 3, TRUE, "all">>, <<2, 2, 3, TRUE, "all">>, <<3, 2, 3, TRUE, "few">>}
MCThoroughCode == {<<2, 1, 3, TRUE, "all">>, <<2, 2, 2, TRUE, "all">>, <<3, 2, 2, FALSE, "all">>}
AllDeviations == {"D-C17-databytes-unauthenticated", "D-C17-stale-mix", "D-C17-foreign-shard",
                  "D-C17-uniform-truncation", "D-C17-trailing-data", "D-C17-heal-parity-empty"}

AsScan(c) == [c EXCEPT !.mode = "scan"]
AllMissing(c) == \A i \in 1..N(c) : c.faults[i].kind = "missing"
\* a node of the tree whose case was not already checked at its parent
NewCase == pos = 1 \/ case.faults[pos - 1].kind # "none"

CheckOn(c, prop, idem) ==
  LET r1 == Read(c, Shards(c))
      r2 == Read(c, r1.post) IN
  /\ prop => C17Holds(c, r1, r2)
  /\ idem => Idempotent(c, r1, r2)
  /\ (prop /\ AllMissing(c)) =>                        \* the only case the heal scan does not read
        LET s1 == R1(AsScan(c)) IN C17Holds(AsScan(c), s1, Read(c, s1.post))

\* design level (Deviations = {}): the intended reader satisfies the property on
\* every case, read directly or by the heal scan
DesignHolds == NewCase => ValidCase(case) /\ CheckOn(case, TRUE, FALSE)
\* code level (all deviations): the idempotence lemma
CodeIdempotent == NewCase => CheckOn(case, FALSE, TRUE)
ClassLemmaHolds == pos = 1 => ClassLemma(case)
=============================================================================
