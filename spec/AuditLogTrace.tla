---------------------------- MODULE AuditLogTrace ----------------------------
(***************************************************************************)
(* TV for C26: the ndjson trace of harness/cmd/auditlog (mode c26) is a    *)
(* behaviour of AuditLog.tla.  Events, in the order of sequence numbers    *)
(* taken under one mutex while the step was in progress:                   *)
(*   reset   a new run (new log file)                                      *)
(*   open    NewFileSink + InitialState: what was recovered                *)
(*   write   the sink wrote an entry (inside the middleware's critical     *)
(*           section); the fields are those of the entry decoded from the  *)
(*           log FILE by the repo's decoder, plus the verdicts on it:      *)
(*           v = Validator (both verifiers) error class or "", sig_ok /    *)
(*           merkle_ok / rootsig_ok = recomputed with the std library,     *)
(*           file_eq = decoded entry equals the entry handed to the sink   *)
(*   invoke / inner / return   a client call entering the middleware, the  *)
(*           wrapped storage executing it, the call returning              *)
(*   close   Stop()                                                        *)
(*   open_failed  NewFileSink refused the existing file (never a step of   *)
(*           the model: the written log always verifies)                   *)
(*   verify  tool.Verify on the final file                                 *)
(* A line the model cannot take is reported as "mismatch"; a returned call *)
(* that the model explains only through D-C26-unaudited-ops is a finding.  *)
(***************************************************************************)
EXTENDS AuditLog, Json, IOUtils

Trace == ndJsonDeserialize(IOEnv.TRACE_FILE)
TThreads == 0..63

VARIABLES l,      \* next trace line
          nw,     \* entries written in this run
          ng,     \* groundings written in this run
          stop    \* a mismatch was reported

tvars == <<l, nw, ng, stop>>
Ev == Trace[l]

\* real hashes are logged as hex prefixes; wrapped so that they compare (unequal) with the symbolic constants
Hx(s) == <<"hex", s>>

EntryOf(r) ==
  [type |-> r.type, version |-> r.version,
   prev |-> IF r.type = "GENESIS" /\ r.genesis_prev_ok THEN GenesisPrev ELSE Hx(r.prev),   \* = sha512("pithos")
   hash |-> Hx(r.hash),
   d |-> IF r.type = "LOG"
         THEN [operation |-> r.operation, phase |-> r.phase, bucket |-> r.bucket, key |-> r.key,
               uploadId |-> r.uploadId, partNumber |-> r.partNumber, sourceBucket |-> r.sourceBucket,
               sourceKey |-> r.sourceKey, credentialId |-> r.credentialId, authType |-> r.authType,
               requestId |-> r.requestId, traceId |-> r.traceId, clientIp |-> r.clientIp,
               statusCode |-> r.statusCode, outcome |-> r.outcome, errorCode |-> r.errorCode,
               error |-> r.error, durationMs |-> r.durationMs]
         ELSE NoDetails]

CallOf(r) ==
  [id |-> r.id, m |-> r.method, bucket |-> r.bucket, key |-> r.key, uploadId |-> r.uploadId,
   partNumber |-> r.partNumber, sourceBucket |-> r.sourceBucket, sourceKey |-> r.sourceKey,
   credentialId |-> r.credentialId, authType |-> r.authType, traceId |-> r.traceId,
   clientIp |-> r.clientIp, err |-> "", uid |-> ""]

\* LogVerifies on the real file: the entry passes the repo's Validator and the independent checks
Intact(r) == r.v = "" /\ r.sig_ok /\ r.file_eq /\ r.merkle_ok /\ r.rootsig_ok /\ r.version = 3 /\ r.i = nw

OwnerOf(id) == {t \in Threads : pc[t] # "idle" /\ cur[t].id = id}

Step(r) ==
  CASE r.ev = "reset" ->
         /\ r.block = BlockSize             \* auditlog.GroundingBlockSize is the 1000 of the property
         /\ mode' = "closed" /\ w' = W0 /\ pc' = [t \in Threads |-> "idle"] /\ cur' = [t \in Threads |-> NoCall]
         /\ done' = 0 /\ unrecorded' = {} /\ nw' = 0 /\ ng' = 0
    [] r.ev = "open" ->
         /\ Open([empty |-> r.empty, w |-> [last |-> Hx(r.last), buf |-> [i \in 1..Len(r.buf) |-> Hx(r.buf[i])]]])
         /\ UNCHANGED <<nw, ng>>
    [] r.ev = "write" ->
         /\ Intact(r)
         /\ nw' = nw + 1
         /\ CASE r.type = "GENESIS" -> WriteGenesis(EntryOf(r)) /\ ng' = ng
              [] r.type = "GROUNDING" -> WriteGrounding(EntryOf(r)) /\ ng' = ng + 1
              [] r.type = "LOG" ->
                   /\ ng' = ng
                   /\ \E t \in OwnerOf(r.requestId) :
                        IF r.phase = "START" THEN LogStart(t, EntryOf(r)) ELSE LogComplete(t, EntryOf(r))
              [] OTHER -> FALSE
    [] r.ev = "invoke" ->
         /\ r.method \in StorageMethods
         /\ Invoke(r.t, CallOf(r)) /\ UNCHANGED <<nw, ng>>
    [] r.ev = "inner" ->
         /\ cur[r.t].id = r.id /\ cur[r.t].m = r.method
         /\ Inner(r.t, r.err, r.uid) /\ UNCHANGED <<nw, ng>>
    [] r.ev = "return" ->
         /\ cur[r.t].id = r.id
         /\ Return(r.t, r.err) /\ UNCHANGED <<nw, ng>>
    [] r.ev = "close" -> Close /\ UNCHANGED <<nw, ng>>
    [] r.ev = "verify" ->
         /\ r.tool_ok /\ r.entries = nw /\ r.groundings = ng /\ mode = "closed"
         /\ UNCHANGED <<mode, w, pc, cur, done, unrecorded, nw, ng>>
    [] OTHER -> FALSE

\* a returned call that was not recorded: explained only by the deviation => finding (once per method)
Finding(r) ==
  IF r.ev = "return" /\ ~Audited(cur[r.t].m) /\ cur[r.t].m \notin unrecorded
  THEN PrintT(ToJson([l |-> l, verdict |-> "finding", tag |-> "D-C26-unaudited-ops", method |-> cur[r.t].m, id |-> r.id]))
  ELSE TRUE

Diagnose(r) ==
  PrintT(ToJson([l |-> l, verdict |-> "mismatch", ev |-> r.ev, mode |-> mode, nw |-> nw, ng |-> ng,
                 buflen |-> Len(w.buf), last |-> w.last,
                 pcs |-> [t \in {x \in Threads : pc[x] # "idle"} |-> [pc |-> pc[t], id |-> cur[t].id, m |-> cur[t].m, err |-> cur[t].err]]]))

TInit ==
  /\ l = 1 /\ nw = 0 /\ ng = 0 /\ stop = FALSE
  /\ mode = "closed" /\ w = W0 /\ pc = [t \in Threads |-> "idle"] /\ cur = [t \in Threads |-> NoCall]
  /\ done = 0 /\ unrecorded = {} /\ log = <<>> /\ returned = {} /\ ninv = [t \in Threads |-> 0]
  /\ vs = Good(VInit) /\ rs = Good(VInit) /\ restarts = 0

TNext ==
  /\ l <= Len(Trace) /\ ~stop
  /\ UNCHANGED <<log, returned, ninv, vs, rs, restarts>>
  /\ IF ENABLED Step(Ev)
     THEN Step(Ev) /\ Finding(Ev) /\ l' = l + 1 /\ stop' = FALSE
     ELSE Diagnose(Ev) /\ stop' = TRUE /\ UNCHANGED <<l, nw, ng, mode, w, pc, cur, done, unrecorded>>

\* evaluated on every state of the validated behaviour
TraceTypeOK == TypeOK /\ unrecorded \subseteq UnauditedMethods
=============================================================================
