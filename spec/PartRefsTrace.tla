--------------------------- MODULE PartRefsTrace ---------------------------
(* TV: one executed step per ndjson line (harness/cmd/partrefs).  Every line  *)
(* carries the call, its result and the projected state read back from the    *)
(* real storage: parts rows per object / upload, part_registry,               *)
(* part_dedup_index, the physical ids of every store, readability of every    *)
(* committed object, the collector's gate and lists, the reader's delivery.   *)
(* The model state after Eff(S, call) must equal the logged projection        *)
(* ("mismatch" otherwise; the rest of that program is skipped) and the        *)
(* properties are evaluated on every matched state ("finding").               *)
EXTENDS PartRefs, Json, IOUtils

Trace == ndJsonDeserialize(IOEnv.TRACE_FILE)
VARIABLES l, bad

CallOf(e) == Call(e.e, e.k, e.c, e.s, e.u, e.n, e.src, e.j)

LoggedDdx(e) == {[st |-> x.st, c |-> x.c, id |-> x.id] : x \in ToSet(e.st.ddx)}
LoggedStray(e) == {[kind |-> x.kind, st |-> x.st] : x \in ToSet(e.st.stray)}

ExpReadable(T, k) ==
  IF T.obj[k] = <<>> THEN "absent"
  ELSE IF \A i \in DOMAIN T.obj[k] : Present(T, T.obj[k][i]) THEN "ok" ELSE "error"

mRes(T, e)  == T.res = e.res
\* ids the real storage can show: the id of an open slow put is not visible yet
Vis(T)      == T.nid - 1 - (IF T.slow.act THEN 1 ELSE 0)
mIds(T, e)  == Len(e.st.reg) = Vis(T) /\ Len(e.st.info) = Vis(T)
mReg(T, e)  == mIds(T, e) /\ \A i \in 1..Vis(T) : e.st.reg[i] = T.reg[i]
mInfo(T, e) == mIds(T, e) /\ \A i \in 1..Vis(T) : e.st.info[i].c = T.info[i].c /\ e.st.info[i].st = T.info[i].st
mObj(T, e)  == \A k \in Keys : e.st.obj[k] = T.obj[k]
mUpl(T, e)  == \A u \in Uploads : /\ e.st.upl[u].act = T.upl[u].act
                                  /\ e.st.upl[u].parts = T.upl[u].parts
                                  /\ T.upl[u].act => (e.st.upl[u].key = T.upl[u].key /\ e.st.upl[u].st = T.upl[u].st)
mDdx(T, e)  == LoggedDdx(e) = T.ddx
mPhys(T, e) == \A s \in Stores : ToSet(e.st.phys[s]) = T.phys[s]
mStray(T, e) == LoggedStray(e) = T.stray
mRead(T, e) == \A k \in Keys : /\ e.st.readable[k].state = ExpReadable(T, k)
                               /\ ExpReadable(T, k) = "ok" => e.st.readable[k].content = ContentOf(T, T.obj[k])
mGc(T, e)   == /\ e.gc.pc = T.gc.pc /\ e.gc.st = T.gc.st /\ e.gc.xid = T.gc.xid
               /\ ToSet(e.gc.cand) = T.gc.cand /\ ToSet(e.gc.ext) = T.gc.ext
mRd(T, e)   == /\ e.rd.st = T.rd.st /\ e.rd.err = T.rd.err
               /\ e.rd.gk => e.rd.got = T.rd.got

Differs(T, e) ==
  {x \in {"res", "reg", "info", "obj", "upl", "ddx", "phys", "stray", "readable", "gc", "rd", "rows"} :
     CASE x = "res" -> ~mRes(T, e)   [] x = "rows" -> ~e.st.rowsok   [] x = "reg" -> ~mReg(T, e)   [] x = "info" -> ~mInfo(T, e)
       [] x = "obj" -> ~mObj(T, e)   [] x = "upl" -> ~mUpl(T, e)   [] x = "ddx" -> ~mDdx(T, e)
       [] x = "phys" -> ~mPhys(T, e) [] x = "stray" -> ~mStray(T, e) [] x = "readable" -> ~mRead(T, e)
       [] x = "gc" -> ~mGc(T, e)     [] x = "rd" -> ~mRd(T, e)}

Proj(T) == [res |-> T.res, obj |-> T.obj, upl |-> T.upl,
            reg |-> [i \in 1..Vis(T) |-> T.reg[i]], info |-> [i \in 1..Vis(T) |-> T.info[i]], slow |-> T.slow,
            ddx |-> T.ddx, phys |-> T.phys, stray |-> T.stray,
            gc |-> [pc |-> T.gc.pc, st |-> T.gc.st, cand |-> T.gc.cand, ext |-> T.gc.ext, xid |-> T.gc.xid,
                    dirty |-> T.gc.dirty, cut |-> T.gc.cut],
            rd |-> [st |-> T.rd.st, err |-> T.rd.err, got |-> T.rd.got, man |-> T.rd.man, pos |-> T.rd.pos]]

\* is the logged call one the model can take in S (arguments that reveal a
\* choice of the code - next store, next external delete - must be possible)
Applicable(T, a) ==
  CASE a.op = "Gc" -> <<a.s, a.n>> \in GcArgs(T)
    [] a.op \in {"RdOpen", "RdRead", "RdClose", "RdResolve"} -> a \in
         (CASE T.rd.st = "idle" -> {Call("RdResolve", k, "", "", "", 0, "", 0) : k \in Keys}
            [] T.rd.st = "open" -> IF T.rd.cur = 0 THEN {Call("RdOpen", "", "", "", "", 0, "", 0)}
                                   ELSE {Call("RdRead", "", "", "", "", 0, "", 0)}
            [] T.rd.st = "done" -> {Call("RdClose", "", "", "", "", 0, "", 0)})
    [] a.op \in {"RegDrop", "RegOver"} -> T.obj[a.k] # <<>>
    [] a.op = "PutBegin" -> ~T.slow.act
    [] a.op = "PutCommit" -> T.slow.act
    [] OTHER -> TRUE

\* Reader steps after the resolve: the property speaks about what the reader
\* DELIVERS, not about when it opens its parts, so the order of its open / read
\* calls is taken from the log (a read-ahead is as legitimate as a lazy open).
\* What the part store answered to an open (pok) must agree with the model's
\* stores; delivery and final error are adopted and judged by ReaderOutcome.
RdEvent(e) == e.e \in {"RdOpen", "RdRead", "RdClose"}
RdPossible(T, e) ==
  /\ T.rd.st # "idle"
  /\ e.e = "RdClose" => e.rd.st = "idle"
  /\ e.pok # "none" => (e.n \in Rng(T.rd.man) /\ ((e.pok = "ok") <=> PartVisible(T, e.n)))
RdApply(T, e) ==
  IF e.e = "RdClose" THEN [T EXCEPT !.rd = RdIdle, !.res = e.res]
  ELSE [T EXCEPT !.rd.st = e.rd.st, !.rd.err = e.rd.err, !.rd.cur = 0,
                 !.rd.got = IF e.rd.gk THEN e.rd.got ELSE @, !.res = e.res]

\* state adopted from the log (after a crash and restart of the real storage)
Adopted(e) ==
  LET n == Len(e.st.reg) IN
  [S0 EXCEPT !.obj = [k \in Keys |-> e.st.obj[k]],
             !.upl = [u \in Uploads |-> [act |-> e.st.upl[u].act, key |-> e.st.upl[u].key, st |-> e.st.upl[u].st,
                                         parts |-> e.st.upl[u].parts]],
             !.reg = [i \in Ids |-> IF i <= n THEN e.st.reg[i] ELSE -1],
             !.info = [i \in Ids |-> IF i <= n THEN [c |-> e.st.info[i].c, st |-> e.st.info[i].st] ELSE NoInfo],
             !.ddx = LoggedDdx(e),
             !.phys = [s \in Stores |-> ToSet(e.st.phys[s])],
             !.stray = LoggedStray(e),
             !.nid = n + 1, !.old = 1..n, !.faulted = e.faulted, !.res = e.res]

\* ------------------------------------------------------------- verdicts

\* after a crash only the reclaim direction belongs to C09 (a referenced part
\* lost by the crash itself is C10's concern)
ReclaimedIn(T) ==
  /\ \A s \in Stores : T.phys[s] \subseteq Referenced(T)
  /\ \A id \in Ids : T.reg[id] # -1 => (id \in Referenced(T) /\ T.reg[id] = RowCount(T, id))
  /\ \A x \in T.ddx : x.id \in Referenced(T)

Findings(T, e) ==
     (IF NoReferencedPartMissingIn(T) /\ \A k \in Keys : e.st.readable[k].state # "error"
      THEN {} ELSE {[prop |-> "C08", tag |-> "", what |-> "a referenced part is missing from its store"]})
  \cup (IF T.faulted \/ RegistryMatchesRowsIn(T)
      THEN {} ELSE {[prop |-> "C08", tag |-> "", what |-> "part_registry.ref_count differs from the parts rows at a commit point"]})
  \cup (IF DedupSoundIn(T) /\ (T.faulted \/ \A x \in T.ddx : RowCount(T, x.id) > 0)
      THEN {} ELSE {[prop |-> "C08", tag |-> "", what |-> "part_dedup_index maps to a wrong or unreferenced part"]})
  \cup (IF ReaderOutcomeIn(T) /\ ((e.rd.st = "done" /\ ~e.rd.err) => e.rd.nb = e.rd.cl)
      THEN {} ELSE {[prop |-> "C40", tag |-> "", what |-> "reader outcome: delivered bytes are not the resolved version / short body reported complete / SQL-backed read failed"]})
  \cup (IF e.e # "Final" \/ (IF e.mode = "crash" THEN ReclaimedIn(T) ELSE ConvergedIn([T EXCEPT !.stray = {}]))
      THEN {} ELSE {[prop |-> "C09", tag |-> "",
                     what |-> "after quiescence, grace window and collector runs the stores / registry / dedup index are not the referenced set"]})
  \cup (IF e.e # "Final" THEN {}
      ELSE {[prop |-> "C09", tag |-> IF x.kind \in {"temp", "backup"} /\ StrayTagOf(x.kind) \in Deviations THEN StrayTagOf(x.kind) ELSE "",
             what |-> "a crash leftover file (" \o x.kind \o ") in a part store directory is never reclaimed"] : x \in T.stray})

\* one recorded concurrent read of the stress run: want = content of the version
\* whose ETag GetObject returned, got = decoded body
ReadFindings(e) ==
  IF /\ PrefixOf(e.got, e.want)
     /\ ~e.err => (e.got = e.want /\ e.nb = e.cl)
     /\ e.sqlonly => ~e.err
  THEN {} ELSE {[prop |-> "C40", tag |-> "", what |-> "concurrent read: body is not the resolved version / short body reported complete / SQL-backed read failed"]}

Report(T, e, i) ==
  \A f \in {g \in Findings(T, e) : ~(e.mode = "crash" /\ g.prop # "C09")} :
     PrintT(ToJson([l |-> i, verdict |-> "finding", prop |-> f.prop, tag |-> f.tag, what |-> f.what, state |-> Proj(T)]))

Diag(T, e, i, why) ==
  PrintT(ToJson([l |-> i, verdict |-> "mismatch", why |-> why, differs |-> Differs(T, e), expected |-> Proj(T)]))

TInit == S = S0 /\ l = 1 /\ bad = FALSE

TNext ==
  /\ l <= Len(Trace)
  /\ l' = l + 1
  /\ LET e == Trace[l] IN
     IF e.e = "reset" THEN S' = S0 /\ bad' = FALSE
     ELSE IF bad THEN UNCHANGED <<S, bad>>
     ELSE IF e.e = "Read"
          THEN /\ UNCHANGED <<S, bad>>
               /\ \A f \in ReadFindings(e) : PrintT(ToJson([l |-> l, verdict |-> "finding", prop |-> f.prop, tag |-> f.tag, what |-> f.what, state |-> e]))
     ELSE IF e.e = "Adopt"
          THEN IF e.st.rowsok THEN S' = Adopted(e) /\ bad' = FALSE /\ Report(Adopted(e), e, l)
               ELSE Diag(S, e, l, "parts rows outside the model") /\ bad' = TRUE /\ UNCHANGED S
     ELSE IF e.e = "Final"
          THEN LET T == [S EXCEPT !.res = "final"] IN
               IF Differs(T, e) = {} THEN S' = T /\ bad' = FALSE /\ Report(T, e, l)
               ELSE Diag(T, e, l, "state") /\ bad' = TRUE /\ UNCHANGED S
     ELSE IF RdEvent(e)
          THEN IF ~RdPossible(S, e) THEN Diag(S, e, l, "reader step / part store answer not possible in the model state") /\ bad' = TRUE /\ UNCHANGED S
               ELSE LET T == RdApply(S, e) IN
                    IF Differs(T, e) = {} THEN S' = T /\ bad' = FALSE /\ Report(T, e, l)
                    ELSE Diag(T, e, l, "state") /\ bad' = TRUE /\ UNCHANGED S
     ELSE LET a == CallOf(e) IN
          IF ~Applicable(S, a) THEN Diag(S, e, l, "call not possible in the model state") /\ bad' = TRUE /\ UNCHANGED S
          ELSE LET T == Eff(S, a) IN
               IF Differs(T, e) = {} THEN S' = T /\ bad' = FALSE /\ Report(T, e, l)
               ELSE Diag(T, e, l, "state") /\ bad' = TRUE /\ UNCHANGED S
=============================================================================
