---------------------------- MODULE ReplicationGen ----------------------------
(* GEN for C23: random walks of PithosGen restricted to calls that name no      *)
(* explicit version id (the property's scope), weighted towards multipart       *)
(* uploads (several pending at once, interleaved over two keys), conditional    *)
(* deletes, copies and appends with offsets.                                    *)
EXTENDS PithosGen

NoVidOf(c) ==
  LET c1 == IF "vid" \in DOMAIN c THEN [c EXCEPT !.vid = -1] ELSE c
  IN IF "svid" \in DOMAIN c1 THEN [c1 EXCEPT !.svid = -1] ELSE c1

ROpW == <<"CreateBucket", "DeleteBucket", "PutVersioning", "PutVersioning",
          "PutObject", "PutObject", "PutObject", "GetObject",
          "DeleteObject", "DeleteObject", "DeleteObject", "CopyObject", "CopyObject", "CopyObject",
          "AppendObject", "AppendObject", "AppendObject",
          "CreateUpload", "CreateUpload", "UploadPart", "UploadPart", "UploadPart", "UploadPartCopy", "UploadPartCopy",
          "CompleteUpload", "CompleteUpload", "CompleteUpload", "AbortUpload", "PutTagging", "PutTagging", "Transition">>
ROpWSel == SelectSeq(ROpW, LAMBDA o : o \in Ops)
RGenNext == GStep(NoVidOf(RandCall(RW(ROpWSel), S)))
=============================================================================
