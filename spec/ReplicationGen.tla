---------------------------- MODULE ReplicationGen ----------------------------
(* GEN for C23: random walks of PithosGen restricted to calls that name no      *)
(* explicit version id (the property's scope), weighted towards multipart       *)
(* uploads (several pending at once, interleaved over two keys), conditional    *)
(* deletes, copies and appends with offsets.                                    *)
EXTENDS PithosGen, Replication

NoVidOf(c) ==
  LET c1 == IF "vid" \in DOMAIN c THEN [c EXCEPT !.vid = -1] ELSE c
  IN IF "svid" \in DOMAIN c1 THEN [c1 EXCEPT !.svid = -1] ELSE c1

ROpW == <<"CreateBucket", "DeleteBucket", "PutVersioning", "PutVersioning",
          "PutObject", "PutObject", "PutObject", "GetObject",
          "DeleteObject", "DeleteObject", "DeleteObjects", "DeleteObjects", "DeleteObjects", "CopyObject", "CopyObject", "CopyObject",
          "AppendObject", "AppendObject", "AppendObject",
          "CreateUpload", "CreateUpload", "UploadPart", "UploadPart", "UploadPart", "UploadPartCopy", "UploadPartCopy",
          "CompleteUpload", "CompleteUpload", "CompleteUpload", "AbortUpload", "PutTagging", "PutTagging", "Transition">>
ROpWSel == SelectSeq(ROpW, LAMBDA o : o \in Ops)
\* bulk deletes: one or both keys in either order, each entry unconditional, with the current ETag or a stale one
BCondW == <<"none", "none", "ifm-cur", "ifm-cur", "ifm-stale", "ifm-stale">>
RandBulk(St) ==
  LET b == PB(St)
      k1 == PK(St, b)
      two == R(1..2) = 1
      k2 == CHOOSE k \in Keys : k # k1 \/ Cardinality(Keys) = 1
      e1 == [k |-> k1, cond |-> RW(BCondW)]
      e2 == [k |-> k2, cond |-> RW(BCondW)]
  IN [op |-> "DeleteObjects", b |-> b, entries |-> IF two /\ k2 # k1 THEN <<e1, e2>> ELSE <<e1>>]
RRandCall(op, St) == IF op = "DeleteObjects" THEN RandBulk(St) ELSE NoVidOf(RandCall(op, St))
\* the situation of a bulk delete: versioning state and, per entry, condition x object present x outcome
BulkSit(St, c) ==
  IF c.op = "DeleteObjects" /\ St.bver[c.b] # "Absent"
  THEN LET out == BulkDelete(St, c).ents
           nullKind(vs) == IF St.bver[c.b] # "Suspended" THEN "-"
                           ELSE IF Idx(vs, 0) = 0 THEN "no-null-version"
                           ELSE IF vs[Idx(vs, 0)].latest THEN "null-is-current" ELSE "null-not-current" IN
       {<<"bulk", St.bver[c.b], c.entries[i].cond, HasCurrent(St.objs[c.b][c.entries[i].k]),
          nullKind(St.objs[c.b][c.entries[i].k]), out[i].deleted>> : i \in 1..Len(c.entries)}
       \cup (IF (\E i \in 1..Len(out) : out[i].deleted) /\ (\E i \in 1..Len(out) : ~out[i].deleted)
             THEN {<<"bulk-mixed", St.bver[c.b]>>} ELSE {})
  ELSE {}
\* (the variables of Replication.tla are not used by the generator)
Aux == Sec = <<>> /\ umap = <<>> /\ serr = <<>>
XStep(c) == /\ S' = XApply(S, c).s /\ res' = XApply(S, c).r /\ hist' = Append(hist, c)
            /\ UNCHANGED <<Sec, umap, serr>>
RGenInit == GenInit /\ Aux
RGStep(c) == XStep(c) /\ sits' = Append(sits, IF c.op = "DeleteObjects" THEN <<"DeleteObjects", BulkSit(S, c)>>
                                                 ELSE Sit(S, c, XApply(S, c).r))
RGenNext == LET op == RW(ROpWSel) IN RGStep(RRandCall(op, S))

\* ---------------------------------------------------------------- bulk-delete cover (BFS)
\* the first (shortest) program into every bulk-delete situation; always added to the random programs
BStep(c) == XStep(c) /\ sits' = <<BulkSit(S, c)>>
BCoverInit == Init /\ Aux /\ sits = <<>> /\ TLCSet(9, {})
BCoverNext == S.clock < MaxClock /\ \E c \in {x \in Calls(S) : NoVid(x)} \cup BulkCalls : BStep(c)
BulkCover ==
  IF sits = <<>> THEN TRUE
  ELSE LET new == {ToString(x) : x \in sits[1]} \ TLCGet(9) IN
       IF new = {} THEN TRUE
       ELSE TLCSet(9, TLCGet(9) \cup new) /\ PrintT(ToJson([calls |-> hist, keys |-> {ToString(x) : x \in sits[1]}]))
BCoverView == <<S, sits>>
=============================================================================
