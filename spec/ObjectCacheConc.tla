--------------------------- MODULE ObjectCacheConc ---------------------------
(***************************************************************************)
(* C20 (concurrent part): under concurrent puts and gets on one key every  *)
(* body returned by GetObject matches the returned ETag and size of some   *)
(* committed version.                                                      *)
(*                                                                         *)
(* Models objectcache.go at the grain of its calls into the cache and the  *)
(* inner storage (one action per step that other requests can interleave   *)
(* with; these are exactly the points where the harness has gates):        *)
(*  PutObject(v)   PutInner      inner.PutObject: the body is teed into    *)
(*                               the BODY entry (cache.Set completes when  *)
(*                               the body has been read) and committed     *)
(*                 PutHeadRead   inner.HeadObject                          *)
(*                 PutHeadWrite  cache.Set(head entry)                     *)
(*  GetObject      GetCall       both entries present: answer from the     *)
(*                               cache; else (one filler at a time -       *)
(*                               inflightGets) inner.GetObject, head entry *)
(*                               written, reader handed to the client      *)
(*                 GetDrain      the client has read the body: on the miss *)
(*                               path the BODY entry is written now        *)
(*  Evict          both entries removed (invalidation by another mutation) *)
(* Values are abstract ("v1","v2"); an entry holds the value whose head /  *)
(* body it carries.  The inner storage is atomic (one committed value).    *)
(*                                                                         *)
(* The intended design (Deviations = {}), which TLC proves correct: a put  *)
(* never fills the cache - it commits and then removes both entries - and  *)
(* a get that missed writes both entries together when its client has     *)
(* read the body, unless a put has committed since it read the inner       *)
(* storage.  The code departs from it twice:                     *)
(*   D-C20-put-fill-race        PutObject streams the body into the body   *)
(*        entry before the inner commit and rewrites the head entry only   *)
(*        after a separate HeadObject: in between (and for good, when two  *)
(*        puts overlap) the head entry of an older version sits next to    *)
(*        the body of a newer one                                          *)
(*   D-C20-fill-after-invalidate  a get that missed writes the body entry  *)
(*        when its client has finished reading, whatever happened since:   *)
(*        an old body lands next to a newer head entry                     *)
(***************************************************************************)
EXTENDS Naturals, Sequences, FiniteSets, TLC, Json, TLCExt

CONSTANTS Puts, Gets, Deviations,
          Quiet        \* TRUE: puts do not overlap and gets are only called while no put is in flight
                       \* (steers the witness search to the fill race)

VARIABLES store,      \* committed value of the key ("none" before the first put)
          order,      \* sequence of committed values in commit order
          hc, bc,     \* value carried by the head / body cache entry ("none" = absent)
          ep,         \* number of commits so far (the design's invalidation epoch)
          ppc, ph,    \* per put: program counter, head value read
          gpc, gh, gb, gmiss, gep,   \* per get: pc, returned head value, returned body value, missed?, epoch read
          leader,     \* the get that is filling the cache ("none")
          returned,   \* set of <<head value, body value>> pairs handed to clients
          sched       \* history: sequence of [p, a]

vars == <<store, order, hc, bc, ep, ppc, ph, gpc, gh, gb, gmiss, gep, leader, returned, sched>>

ValOf(p) == CASE p = "P1" -> "v1" [] p = "P2" -> "v2" [] p = "P3" -> "v3" [] OTHER -> "v9"
CodePut == "D-C20-put-fill-race" \in Deviations
CodeFill == "D-C20-fill-after-invalidate" \in Deviations

Init == /\ store = "none" /\ order = <<>> /\ hc = "none" /\ bc = "none" /\ ep = 0
        /\ ppc = [p \in Puts |-> "idle"] /\ ph = [p \in Puts |-> "none"]
        /\ gpc = [g \in Gets |-> "idle"] /\ gh = [g \in Gets |-> "none"] /\ gb = [g \in Gets |-> "none"]
        /\ gmiss = [g \in Gets |-> FALSE] /\ gep = [g \in Gets |-> 0]
        /\ leader = "none" /\ returned = {} /\ sched = <<>>

Log(p, a) == sched' = Append(sched, [p |-> p, a |-> a])
PutInFlight == \E p \in Puts : ppc[p] \in {"inner", "head"}

PutInner(p) ==
  /\ ppc[p] = "idle"
  /\ Quiet => ~PutInFlight
  /\ store' = ValOf(p) /\ order' = Append(order, ValOf(p)) /\ ep' = ep + 1
  /\ bc' = IF CodePut THEN ValOf(p) ELSE bc
  /\ ppc' = [ppc EXCEPT ![p] = "inner"] /\ Log(p, "PutInner")
  /\ UNCHANGED <<hc, ph, gpc, gh, gb, gmiss, gep, leader, returned>>
PutHeadRead(p) ==
  /\ ppc[p] = "inner"
  /\ IF CodePut THEN ph' = [ph EXCEPT ![p] = store] /\ bc' = bc
     ELSE ph' = ph /\ bc' = "none"                         \* design: remove the body entry
  /\ ppc' = [ppc EXCEPT ![p] = "head"] /\ Log(p, "PutHeadRead")
  /\ UNCHANGED <<store, order, hc, ep, gpc, gh, gb, gmiss, gep, leader, returned>>
PutHeadWrite(p) ==
  /\ ppc[p] = "head"
  /\ hc' = IF CodePut THEN ph[p] ELSE "none"              \* design: remove the head entry
  /\ ppc' = [ppc EXCEPT ![p] = "done"] /\ Log(p, "PutHeadWrite")
  /\ UNCHANGED <<store, order, bc, ep, ph, gpc, gh, gb, gmiss, gep, leader, returned>>

Hit == hc # "none" /\ bc # "none"

GetCall(g) ==
  /\ gpc[g] = "idle" /\ store # "none"
  /\ Quiet => ~PutInFlight
  /\ Hit \/ leader = "none"                               \* a get that misses waits for the current filler
  /\ IF Hit
     THEN /\ gh' = [gh EXCEPT ![g] = hc] /\ gb' = [gb EXCEPT ![g] = bc] /\ gmiss' = [gmiss EXCEPT ![g] = FALSE]
          /\ UNCHANGED <<hc, leader, gep>>
     ELSE /\ gh' = [gh EXCEPT ![g] = store] /\ gb' = [gb EXCEPT ![g] = store] /\ gmiss' = [gmiss EXCEPT ![g] = TRUE]
          /\ gep' = [gep EXCEPT ![g] = ep]
          /\ hc' = IF CodeFill THEN store ELSE hc      \* the code writes the head entry before it hands out the reader
          /\ leader' = g
  /\ gpc' = [gpc EXCEPT ![g] = "called"] /\ Log(g, "GetCall")
  /\ UNCHANGED <<store, order, bc, ep, ppc, ph, returned>>
GetDrain(g) ==
  /\ gpc[g] = "called"
  /\ IF gmiss[g]
     THEN /\ bc' = IF CodeFill \/ gep[g] = ep THEN gb[g] ELSE bc
          /\ hc' = IF ~CodeFill /\ gep[g] = ep THEN gh[g] ELSE hc    \* design: both entries, together, unless a put committed
          /\ leader' = "none"
     ELSE UNCHANGED <<bc, hc, leader>>
  /\ returned' = returned \cup {<<gh[g], gb[g]>>}
  /\ gpc' = [gpc EXCEPT ![g] = "done"] /\ Log(g, "GetDrain")
  /\ UNCHANGED <<store, order, ep, ppc, ph, gh, gb, gmiss, gep>>

\* both entries removed by an invalidating mutation issued through the middleware (e.g. tagging);
\* only while no request is in flight, the way the harness issues it
Evict ==
  /\ ~PutInFlight /\ leader = "none" /\ (hc # "none" \/ bc # "none")
  /\ hc' = "none" /\ bc' = "none" /\ Log("E", "Evict")
  /\ UNCHANGED <<store, order, ep, ppc, ph, gpc, gh, gb, gmiss, gep, leader, returned>>

Next == \/ \E p \in Puts : PutInner(p) \/ PutHeadRead(p) \/ PutHeadWrite(p)
        \/ \E g \in Gets : GetCall(g) \/ GetDrain(g)
        \/ Evict
Spec == Init /\ [][Next]_vars

\* C20 (concurrent): the returned ETag/size (head value) belong to the returned body, a committed value
Committed == {order[i] : i \in 1..Len(order)}
BodyMatchesSomeCommitted == \A r \in returned : r[1] = r[2] /\ r[2] \in Committed

Pos(v) == CHOOSE i \in 1..Len(order) : order[i] = v
\* witness search: print the shortest schedule after which a client holds a mixed answer, and stop
Witness ==
  IF BodyMatchesSomeCommitted THEN TRUE
  ELSE LET r == CHOOSE x \in returned : x[1] # x[2] IN
       /\ PrintT(ToJson([tag |-> IF Pos(r[1]) < Pos(r[2]) THEN "D-C20-put-fill-race" ELSE "D-C20-fill-after-invalidate",
                         head |-> r[1], body |-> r[2], steps |-> sched]))
       /\ TLCSet("exit", TRUE)
View == <<store, order, hc, bc, ep, ppc, ph, gpc, gh, gb, gmiss, gep, leader, returned>>
=============================================================================
