------------------------------ MODULE ProxyGen ------------------------------
(* GEN: print every case as JSON; the harness executes them on the real code *)
EXTENDS Proxy, Json
Emit == PrintT(ToJson(case))
=============================================================================
