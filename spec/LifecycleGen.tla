---------------------------- MODULE LifecycleGen ----------------------------
(* GEN: TLC enumerates the building blocks of lifecycle cases (version       *)
(* histories per key, rule shapes, clocks, pending uploads, races) and, for  *)
(* the real-store tier, operation programs.  The pipeline composes cases by  *)
(* seeded sampling of the product of these sets; the harness executes them.  *)
EXTENDS Lifecycle, Json

VARIABLE comp

\* ------------------------------------------------------------ tier (a)
Offsets  == {0, 630, 1439}                 \* 00:00, 10:30, 23:59
TimesA   == {T(d, m) : d \in 0..2, m \in Offsets}
KeyOf(n) == IF n = 1 THEN K1 ELSE K2

TagSets == {{}, {<<"t1", "x">>}, {<<"t1", "y">>}, {<<"t1", "x">>, <<"t2", "z">>}}
\* attribute profiles: position in the chain -> (size, tags, class)
Prof(p, i) ==
  CASE p = 1 -> [size |-> 10, tags |-> {}, class |-> STD]
    [] p = 2 -> [size |-> IF i % 2 = 1 THEN 5 ELSE 20,
                 tags |-> IF i % 2 = 1 THEN {<<"t1", "x">>} ELSE {<<"t1", "y">>},
                 class |-> STD]
    [] OTHER -> [size |-> IF i = 1 THEN 20 ELSE 10,
                 tags |-> {<<"t1", "x">>, <<"t2", "z">>},
                 class |-> IF i % 2 = 0 THEN "GLACIER" ELSE STD]

Entry(n, i, dm, t, p) ==
  IF dm THEN MkDM(10 * n + i, t)
  ELSE [MkObj(10 * n + i, 10 * n + i, t, Prof(p, i).size, Prof(p, i).tags,
              IF p = 2 /\ i = 2 THEN "e_same" ELSE "e" \o ToString(10 * n + i))
        EXCEPT !.class = Prof(p, i).class]

TimesA3  == {t \in TimesA : t < T(2, 0)} \cup {T(2, 630)}     \* fewer time points for 3-chains
IncSeqs(len) == {s \in [1..len -> IF len = 3 THEN TimesA3 ELSE TimesA] : \A i \in 1..(len - 1) : s[i] < s[i + 1]}
\* long chains on a fixed ladder of times (for NewerNoncurrentVersions)
Ladders == {<<T(0, 0), T(0, 630), T(0, 1439), T(1, 630), T(2, 0)>>,
            <<T(0, 630), T(1, 0), T(1, 630), T(1, 1439), T(2, 630)>>}

HistoriesUnversioned(n) ==
  {[key |-> KeyOf(n), chain |-> <<>>]} \cup
  {[key |-> KeyOf(n),
    chain |-> <<[MkObj(10 * n + 1, NullId, t, sz, tg, "e" \o ToString(10 * n + 1)) EXCEPT !.class = cl]>>] :
   t \in TimesA, sz \in {5, 10, 20}, tg \in TagSets, cl \in {STD, "GLACIER"}}

HistoriesEnabled(n) ==
  {[key |-> KeyOf(n), chain |-> [i \in 1..len |-> Entry(n, i, dms[i], ts[i], p)]] :
   <<len, ts, dms, p>> \in {<<len, ts, dms, p>> \in (1..3) \X (UNION {IncSeqs(l) : l \in 1..3})
                                     \X (UNION {[1..l -> BOOLEAN] : l \in 1..3}) \X (1..3) :
                              Len(ts) = len /\ Len(dms) = len}}
  \cup
  {[key |-> KeyOf(n), chain |-> [i \in 1..len |-> Entry(n, i, i = dmAt, lad[i], p)]] :
   len \in 4..5, lad \in Ladders, dmAt \in {0, 2, 5}, p \in 1..3}

\* Populations whose LastModified is NOT monotone with succession.  The reconciler
\* is a middleware over any storage.Storage; a backend may report a LastModified
\* that was bumped after a newer version had been written (metadata update), or
\* equal timestamps.  created stays the true creation time (the property), mtime
\* is what the listing reports (>= created); the listing order stays succession.
\* One or two of the older noncurrent versions are bumped: to the creation time
\* of a newer version (equal timestamps), to just before / after the current
\* version's creation, or far later; with two bumps the older one gets the
\* newer LastModified (fully inverted).
BumpBases(n) ==
  {[i \in 1..len |-> Entry(n, i, i = dmAt, lad[i], p)] :
   len \in 3..5, lad \in Ladders, dmAt \in {0, 2}, p \in {1, 3}}
BumpTimes(ch) ==
  {ch[j].created : j \in 2..Len(ch)} \cup
  {Last(ch).created - 700, Last(ch).created - 1, Last(ch).created + 1, T(3, 5), T(4, 630)}
HistoriesBumped(n) ==
  {[key |-> KeyOf(n), chain |-> [ch EXCEPT ![i].mtime = b]] :
   <<ch, i, b>> \in {<<ch, i, b>> \in BumpBases(n) \X (1..3) \X (UNION {BumpTimes(c) : c \in BumpBases(n)}) :
                     i < Len(ch) /\ ~ch[i].dm /\ b \in BumpTimes(ch) /\ b >= ch[i + 1].created}}
  \cup
  {[key |-> KeyOf(n), chain |-> [ch EXCEPT ![1].mtime = b + d, ![2].mtime = b]] :
   <<ch, b, d>> \in {<<ch, b, d>> \in BumpBases(n) \X (UNION {BumpTimes(c) : c \in BumpBases(n)}) \X {0, 7} :
                     Len(ch) >= 4 /\ ~ch[1].dm /\ ~ch[2].dm /\ b \in BumpTimes(ch) /\ b > ch[3].created}}

Histories(ver, n) == IF ver = "Unversioned" THEN HistoriesUnversioned(n) ELSE HistoriesEnabled(n)

\* rule shapes -----------------------------------------------------------
Prefixes == {<<>>, <<"l">>, <<"l", "ogs/">>, <<"d">>}
Filters ==
  {[on |-> on, prefix |-> pf, tags |-> tg, gt |-> gt, lt |-> lt, legacy |-> lg] :
   on \in BOOLEAN, pf \in Prefixes, tg \in {{}, {<<"t1", "x">>}, {<<"t1", "x">>, <<"t2", "z">>}},
   gt \in {-1, 5, 10}, lt \in {-1, 10, 20}, lg \in BOOLEAN}
FilterOK(f) ==
  /\ (f.legacy => f.tags = {} /\ f.gt < 0 /\ f.lt < 0)
  /\ (f.gt >= 0 /\ f.lt >= 0 => f.gt < f.lt)
DateA == T(3, 0)
Actions ==
  {[NoAct EXCEPT !.exp = [kind |-> "days", n |-> n]] : n \in {1, 2}} \cup
  {[NoAct EXCEPT !.exp = [kind |-> "date", n |-> DateA]],
   [NoAct EXCEPT !.exp = [kind |-> "eodm", n |-> 0]],
   [NoAct EXCEPT !.trans = <<[kind |-> "days", n |-> 0, class |-> "GLACIER"]>>],
   [NoAct EXCEPT !.trans = <<[kind |-> "days", n |-> 1, class |-> "GLACIER"]>>],
   [NoAct EXCEPT !.trans = <<[kind |-> "date", n |-> DateA, class |-> "DEEP_ARCHIVE"]>>],
   [NoAct EXCEPT !.trans = <<[kind |-> "days", n |-> 0, class |-> "STANDARD_IA"],
                             [kind |-> "days", n |-> 2, class |-> "GLACIER"]>>],
   [NoAct EXCEPT !.trans = <<[kind |-> "days", n |-> 1, class |-> "GLACIER"]>>,
                 !.exp = [kind |-> "days", n |-> 2]],
   [NoAct EXCEPT !.nve = [days |-> 1, keep |-> 0]],
   [NoAct EXCEPT !.nve = [days |-> 2, keep |-> 1]],
   [NoAct EXCEPT !.nve = [days |-> 1, keep |-> 2]],
   [NoAct EXCEPT !.nvt = <<[days |-> 1, keep |-> 0, class |-> "GLACIER"]>>],
   [NoAct EXCEPT !.nvt = <<[days |-> 1, keep |-> 1, class |-> "GLACIER"]>>],
   [NoAct EXCEPT !.nvt = <<[days |-> 1, keep |-> 0, class |-> "GLACIER"]>>,
                 !.nve = [days |-> 2, keep |-> 1]],
   [NoAct EXCEPT !.nvt = <<[days |-> 1, keep |-> 0, class |-> "STANDARD_IA"],
                           [days |-> 2, keep |-> 0, class |-> "GLACIER"]>>],
   [NoAct EXCEPT !.abort = 1], [NoAct EXCEPT !.abort = 2],
   [NoAct EXCEPT !.abort = 1, !.exp = [kind |-> "days", n |-> 1]]}
\* mirrors ValidateBucketLifecycleConfiguration where it restricts combinations
ShapeOK(f, a) ==
  /\ FilterOK(f)
  /\ (a.abort > 0 => f.tags = {} /\ f.gt < 0 /\ f.lt < 0)
  /\ (a.exp.kind = "eodm" => f.tags = {})
  /\ ((a.nve.keep > 0 \/ \E i \in 1..Len(a.nvt) : a.nvt[i].keep > 0) => ~f.legacy)
RuleShapes == {f @@ a : <<f, a>> \in {<<f, a>> \in Filters \X Actions : ShapeOK(f, a)}}

ClocksA == {T(d, 0) + e : d \in 1..5, e \in {-1, 0, 1}} \cup {T(2, 630), T(9, 7)}
UploadSets == {{}} \cup {{[key |-> KeyOf(n), id |-> 90 + n, initiated |-> t]} : n \in 1..2, t \in TimesA}
\* replace the current object of a key right after the nth listing call returned
Races == {[n |-> 0, key |-> K1, same |-> FALSE]}
         \cup {[n |-> n, key |-> KeyOf(k), same |-> s] : n \in 1..4, k \in 1..2, s \in BOOLEAN}

\* ------------------------------------------------------------ tier (b)
\* programs on ONE key of a versioning-enabled bucket of the real store:
\*   "put" size | "del" (delete marker) | "tag" i (PutObjectTagging on the ith
\*   created version) | "delv" i | "rec" days (one sweep, clock = start + days)
Op(o, a) == [op |-> o, arg |-> a]
Builds == {<<Op("put", 10)>>,
           <<Op("put", 10), Op("put", 20)>>,
           <<Op("put", 10), Op("del", 0)>>,
           <<Op("put", 10), Op("del", 0), Op("del", 0)>>,
           <<Op("put", 10), Op("put", 20), Op("put", 10)>>,
           <<Op("put", 10), Op("put", 20), Op("del", 0)>>,
           <<Op("put", 10), Op("del", 0), Op("put", 20), Op("put", 10)>>,
           <<Op("put", 10), Op("put", 20), Op("put", 10), Op("put", 20)>>,
           <<Op("put", 10), Op("put", 20), Op("put", 10), Op("put", 20), Op("put", 10)>>,
           <<Op("put", 10), Op("put", 20), Op("put", 10), Op("put", 20), Op("put", 10), Op("put", 20)>>,
           <<Op("put", 10), Op("put", 20), Op("del", 0), Op("put", 20), Op("put", 10)>>}
Mods == {<<>>, <<Op("tag", 1)>>, <<Op("tag", 1), Op("tag", 2)>>, <<Op("tag", 1), Op("tag", 2), Op("tag", 3)>>,
         <<Op("delv", 2)>>, <<Op("tag", 2), Op("delv", 3)>>}
Sweeps == {<<Op("rec", 30)>>, <<Op("rec", 3), Op("rec", 30)>>, <<Op("rec", 3), Op("rec", 3), Op("rec", 30)>>}
NPuts(b) == Len(b)
Programs == {b \o m \o s : <<b, m, s>> \in
               {<<b, m, s>> \in Builds \X Mods \X Sweeps :
                  \A i \in 1..Len(m) : m[i].arg <= NPuts(b)}}
AllF == [on |-> TRUE, prefix |-> <<>>, tags |-> {}, gt |-> -1, lt |-> -1, legacy |-> FALSE]
RealRuleSets ==
  {<<AllF @@ [NoAct EXCEPT !.nve = [days |-> 10, keep |-> k]]>> : k \in 0..2} \cup
  {<<AllF @@ [NoAct EXCEPT !.nve = [days |-> 10, keep |-> k],
                           !.nvt = <<[days |-> 1, keep |-> 0, class |-> "GLACIER"]>>]>> : k \in 0..2} \cup
  {<<AllF @@ [NoAct EXCEPT !.nvt = <<[days |-> 1, keep |-> 1, class |-> "GLACIER"]>>]>>,
   <<AllF @@ [NoAct EXCEPT !.exp = [kind |-> "eodm", n |-> 0]],
     AllF @@ [NoAct EXCEPT !.nve = [days |-> 10, keep |-> 0]]>>,
   <<AllF @@ [NoAct EXCEPT !.exp = [kind |-> "days", n |-> 10],
                           !.trans = <<[kind |-> "days", n |-> 1, class |-> "GLACIER"]>>]>>,
   <<[AllF EXCEPT !.gt = 10] @@ [NoAct EXCEPT !.nve = [days |-> 1, keep |-> 1]]>>}

\* store probes: the driver itself replays "list, replace, guarded call" on the REAL
\* store so that TLC can compare the real store's answer with the model store
\* (Apply) that the scripted store is checked against
Probes == {[ver |-> v, same |-> s, op |-> o] :
           v \in {"Unversioned", "Enabled"}, s \in BOOLEAN, o \in {"DeleteObject", "Transition"}}

\* ------------------------------------------------------------ emission
Components ==
  UNION {{[kind |-> "hist", ver |-> v, n |-> n, h |-> h] : h \in Histories(v, n)} :
         v \in {"Unversioned", "Enabled"}, n \in 1..2}
  \cup UNION {{[kind |-> "bumped", ver |-> "Enabled", n |-> n, h |-> h] : h \in HistoriesBumped(n)} : n \in 1..2}
  \cup {[kind |-> "rule", rule |-> r] : r \in RuleShapes}
  \cup {[kind |-> "clock", now |-> c] : c \in ClocksA}
  \cup {[kind |-> "ups", ups |-> u] : u \in UploadSets}
  \cup {[kind |-> "race", race |-> r] : r \in Races}
  \cup {[kind |-> "prog", prog |-> p] : p \in Programs}
  \cup {[kind |-> "rrules", rules |-> r] : r \in RealRuleSets}
  \cup {[kind |-> "probe", probe |-> pr] : pr \in Probes}

Frozen == /\ store = 0 /\ rules = 0 /\ now = 0 /\ pc = 0 /\ snap = 0 /\ acts = 0
          /\ nuid = 0 /\ races = 0 /\ rounds = 0 /\ touched = 0
GInit == comp \in Components /\ Frozen
GNext == UNCHANGED <<comp, vars>>
Emit == PrintT(ToJson(comp))
=============================================================================
