------------------------------ MODULE Lifecycle ------------------------------
(***************************************************************************)
(* C25 - lifecycle rules never act early or on the wrong data.             *)
(*                                                                         *)
(* Models                                                                  *)
(*   internal/storage/bucketlifecycle.go                                   *)
(*     LifecycleRuleMatchesObject, lifecycleNextMidnightUTC,               *)
(*     Lifecycle{Expiration,Transition,Abort,NoncurrentExpiration,         *)
(*     NoncurrentTransition}DueTime                                        *)
(*   internal/storage/middlewares/lifecyclereconciler/lifecyclereconciler.go*)
(*     ReconcileOnce / reconcileBucket (pass order), expireObjects,        *)
(*     expireObjectDeleteMarkers, expireNoncurrentObjectVersions,          *)
(*     transitionNoncurrentObjectVersions, transitionObjects,              *)
(*     abortIncompleteUploads                                              *)
(* and the part of the store the reconciler talks to (DeleteObject with    *)
(* and without version id / IfMatchETag, TransitionObjectStorageClass,     *)
(* AbortMultipartUpload, the three listings).                              *)
(*                                                                         *)
(* Time is an integer number of MINUTES; a day has 1440 of them; minute 0  *)
(* is a midnight UTC.  Keys and prefixes are sequences of string symbols   *)
(* (the harness concatenates them), tag sets are sets of <<key,value>>.    *)
(*                                                                         *)
(* Two layers live in this module:                                         *)
(*   Allowed(S,R,now,c)  - the PROPERTY: may call c be applied to store S  *)
(*                         under rules R at time now (S3 semantics, read   *)
(*                         leniently wherever S3 is ambiguous);            *)
(*   PassCalls(...)      - the DESIGN of the reconciler (what the code     *)
(*                         does), with the places where the real code is   *)
(*                         known to differ guarded by named deviations.    *)
(* The state machine at the bottom runs the design against an environment  *)
(* that replaces objects between a listing and the calls that follow it.   *)
(***************************************************************************)
EXTENDS Integers, Sequences, FiniteSets, TLC

CONSTANT Deviations      \* set of deviation tags the code is known to have
CONSTANT MCSize          \* "small" | "full" : bounds of the model-checking run

Has(tag) == tag \in Deviations

Day == 1440
NullId == -1             \* version id of the null version (unversioned buckets)
STD == "STANDARD"

\* ---------------------------------------------------------------- time
DayStart(t) == (t \div Day) * Day
\* "rounded up to the next midnight UTC".  strict: the first midnight strictly
\* after t (what pithos and the S3 examples do); ~strict: a time that already
\* is a midnight stays.  The property side uses whichever is more lenient.
RoundUp(t, strict) == IF ~strict /\ t % Day = 0 THEN t ELSE DayStart(t) + Day
DaysDue(t, days, strict) == RoundUp(t + days * Day, strict)

\* ---------------------------------------------------------------- rules
\* rule == [on, prefix, tags, gt, lt, legacy,
\*          exp  : [kind : "none"|"days"|"date"|"eodm", n],
\*          trans: Seq([kind : "days"|"date", n, class]),
\*          nve  : [days (0 = absent), keep (0 = absent)],
\*          nvt  : Seq([days, keep, class]),
\*          abort: days (0 = absent)]
IsPrefix(p, k) == Len(p) <= Len(k) /\ \A i \in 1..Len(p) : p[i] = k[i]

\* LifecycleRuleMatchesObject
Matches(r, key, size, tags) ==
  /\ IsPrefix(r.prefix, key)
  /\ (r.gt >= 0 => size > r.gt)
  /\ (r.lt >= 0 => size < r.lt)
  /\ r.tags \subseteq tags

ExpTime(r, t, strict) ==       \* LifecycleExpirationDueTime; -1 = never
  CASE r.exp.kind = "days" -> DaysDue(t, r.exp.n, strict)
    [] r.exp.kind = "date" -> r.exp.n
    [] OTHER -> -1
TransTime(tr, t, strict) ==    \* LifecycleTransitionDueTime
  IF tr.kind = "days" THEN DaysDue(t, tr.n, strict) ELSE tr.n
Reached(now, due) == due >= 0 /\ now >= due

\* ---------------------------------------------------------------- store
\* version == [uid, id, dm, created, mtime, size, tags, class, etag]
\*   uid: model-only identity of the stored thing (a replacement gets a new one)
\*   id : S3 version id (NullId in unversioned buckets, = uid otherwise)
\*   created: true creation time; mtime: LastModified as the listings report it
\* store == [ver : "Unversioned"|"Enabled",
\*           objs: Seq([key, chain : Seq(version)]) oldest -> newest, last = current,
\*           ups : set of [key, id, initiated]]
Keys(S) == {S.objs[i].key : i \in 1..Len(S.objs)}
Chain(S, k) == IF k \in Keys(S)
               THEN (CHOOSE i \in 1..Len(S.objs) : S.objs[i].key = k)
               ELSE 0
ChainOf(S, k) == IF k \in Keys(S) THEN S.objs[Chain(S, k)].chain ELSE <<>>
WithChain(S, k, ch) ==
  IF k \in Keys(S)
  THEN [S EXCEPT !.objs[Chain(S, k)].chain = ch]
  ELSE [S EXCEPT !.objs = Append(S.objs, [key |-> k, chain |-> ch])]
Last(ch) == ch[Len(ch)]
Remove(ch, i) == [j \in 1..(Len(ch) - 1) |-> IF j < i THEN ch[j] ELSE ch[j + 1]]
Uids(ch) == {ch[i].uid : i \in 1..Len(ch)}

\* A view of a chain: the order and the time base used to decide which versions
\* are "newer" and since when a version is noncurrent.
\*   "truth": succession order, true creation times            (the property)
\*   "mtime": LastModified descending, LastModified as time    (the code)
\*   "truthlate": succession order, but LastModified as time where it is later
\*            than the creation time (a reconciler only sees LastModified; being
\*            late is allowed) - used when asking whether something is SURELY due
TimeOf(v, order) == CASE order = "mtime" -> v.mtime
                      [] order = "truthlate" -> IF v.mtime > v.created THEN v.mtime ELSE v.created
                      [] OTHER -> v.created
Ordered(ch, order) ==
  IF order \in {"truth", "truthlate"} THEN ch
  ELSE LET idx == SortSeq([i \in 1..Len(ch) |-> i],
                          LAMBDA a, b : ch[a].mtime < ch[b].mtime
                                        \/ (ch[a].mtime = ch[b].mtime /\ a < b))
       IN [i \in 1..Len(ch) |-> ch[idx[i]]]
PosOf(och, uid) == CHOOSE i \in 1..Len(och) : och[i].uid = uid

\* number of noncurrent versions that are newer than position p of och.  The top
\* of the order is never counted: in the true order it is the current version
\* anyway; the code (order by LastModified) takes whatever sorts first for it.
NewerCount(och, p, latest, withDMs) ==
  Cardinality({i \in (p + 1)..(Len(och) - 1) : och[i].uid # latest /\ (withDMs \/ ~och[i].dm)})

KeepOK(keep, newer, slack) ==
  keep = 0 \/ (IF slack THEN newer > keep ELSE newer >= keep)

\* ------------------------------------------------------------- due-ness
\* Q == [order : "truth"|"mtime", slack : BOOLEAN] selects the code's quirks;
\* sure = TRUE asks "is it due under every reading of S3" (strict rounding,
\* delete markers not counted as newer versions), sure = FALSE "under some".
Truth == [order |-> "truth", slack |-> FALSE]

ExpireDue(ch, key, R, now, Q, sure) ==
  /\ Len(ch) > 0 /\ ~Last(ch).dm
  /\ \E i \in 1..Len(R) :
       /\ R[i].on /\ R[i].exp.kind \in {"days", "date"}
       /\ Matches(R[i], key, Last(ch).size, Last(ch).tags)
       /\ Reached(now, ExpTime(R[i], TimeOf(Last(ch), Q.order), sure))

TransDue(ch, key, class, R, now, Q, sure) ==
  /\ Len(ch) > 0 /\ ~Last(ch).dm
  /\ \E i \in 1..Len(R) : \E j \in 1..Len(R[i].trans) :
       /\ R[i].on /\ R[i].trans[j].class = class
       /\ Matches(R[i], key, Last(ch).size, Last(ch).tags)
       /\ Reached(now, TransTime(R[i].trans[j], TimeOf(Last(ch), Q.order), sure))

\* v = a noncurrent version (uid) of chain ch
NoncurrentOK(ch, uid, days, keep, now, Q, sure) ==
  LET och == Ordered(ch, Q.order)
      p   == PosOf(och, uid) IN
  /\ p < Len(och)                                  \* has a successor in this view
  /\ now >= DaysDue(TimeOf(och[p + 1], Q.order), days, sure)
  /\ KeepOK(keep, NewerCount(och, p, Last(ch).uid, ~sure), Q.slack)

NveDue(ch, key, v, R, now, Q, sure) ==
  \E i \in 1..Len(R) :
    /\ R[i].on /\ R[i].nve.days > 0
    /\ Matches(R[i], key, v.size, v.tags)
    /\ NoncurrentOK(ch, v.uid, R[i].nve.days, R[i].nve.keep, now, Q, sure)

NvtDue(ch, key, v, class, R, now, Q, sure) ==
  \E i \in 1..Len(R) : \E j \in 1..Len(R[i].nvt) :
    /\ R[i].on /\ R[i].nvt[j].class = class
    /\ Matches(R[i], key, v.size, v.tags)
    /\ NoncurrentOK(ch, v.uid, R[i].nvt[j].days, R[i].nvt[j].keep, now, Q, sure)

EodmDue(ch, key, R) ==
  /\ Len(ch) > 0 /\ Last(ch).dm
  /\ \A i \in 1..Len(ch) : ch[i].dm       \* no object version left under the key
  /\ \E i \in 1..Len(R) : R[i].on /\ R[i].exp.kind = "eodm" /\ IsPrefix(R[i].prefix, key)

AbortDue(u, R, now, sure) ==
  \E i \in 1..Len(R) :
    /\ R[i].on /\ R[i].abort > 0 /\ IsPrefix(R[i].prefix, u.key)
    /\ now >= DaysDue(u.initiated, R[i].abort, sure)

\* ------------------------------------------------------------- calls
\* call == [op : "DeleteObject"|"Transition"|"Abort", key, vid (0 = none),
\*          ifmatch ("" = none), ifuid (0 = none; design only), class, upload]
Call(op, key, vid, ifmatch, ifuid, class, upload) ==
  [op |-> op, key |-> key, vid |-> vid, ifmatch |-> ifmatch, ifuid |-> ifuid,
   class |-> class, upload |-> upload]

VersionsWithId(ch, vid) == {i \in 1..Len(ch) : ch[i].id = vid}

\* The three clauses of the property, for call c about to be applied to S.
\* DueOK: an enabled matching rule makes the target due now (some reading of S3)
DueOK(S, R, now, c, Q) ==
  LET ch == ChainOf(S, c.key) IN
  CASE c.op = "DeleteObject" /\ c.vid = 0 -> ExpireDue(ch, c.key, R, now, Q, FALSE)
    [] c.op = "DeleteObject" /\ c.vid # 0 ->
         \E i \in VersionsWithId(ch, c.vid) :
           IF i = Len(ch) THEN EodmDue(ch, c.key, R)
           ELSE NveDue(ch, c.key, ch[i], R, now, [Q EXCEPT !.slack = FALSE], FALSE)
    [] c.op = "Transition" /\ c.vid = 0 -> TransDue(ch, c.key, c.class, R, now, Q, FALSE)
    [] c.op = "Transition" /\ c.vid # 0 ->
         \E i \in VersionsWithId(ch, c.vid) :
           i < Len(ch) /\ ~ch[i].dm
           /\ NvtDue(ch, c.key, ch[i], c.class, R, now, [Q EXCEPT !.slack = FALSE], FALSE)
    [] c.op = "Abort" ->
         \E u \in S.ups : u.key = c.key /\ u.id = c.upload /\ AbortDue(u, R, now, FALSE)
    [] OTHER -> FALSE

\* KeepsOK: a noncurrent action leaves the NewerNoncurrentVersions most recent
\* noncurrent versions alone (part of DueOK; separated for the named invariant)
KeepsOK(S, R, now, c, Q) ==
  LET ch == ChainOf(S, c.key) IN
  (c.op \in {"DeleteObject", "Transition"} /\ c.vid # 0 /\
   \E i \in VersionsWithId(ch, c.vid) : i < Len(ch))
  => DueOK(S, R, now, c, Q)

\* ExpWinsOK: no transition of something whose expiration is (surely) due
ExpWinsOK(S, R, now, c, Q) ==
  LET ch == ChainOf(S, c.key)
      QL == [Q EXCEPT !.order = IF @ = "truth" THEN "truthlate" ELSE @] IN
  c.op = "Transition" =>
    IF c.vid = 0 THEN ~ExpireDue(ch, c.key, R, now, QL, TRUE)
    ELSE \A i \in VersionsWithId(ch, c.vid) :
           i < Len(ch) => ~NveDue(ch, c.key, ch[i], R, now, QL, TRUE)

\* identity (uid) of the thing call c would hit in store S; 0 = nothing
TargetUid(S, c) ==
  LET ch == ChainOf(S, c.key) IN
  CASE c.op = "Abort" -> IF \E u \in S.ups : u.key = c.key /\ u.id = c.upload THEN c.upload ELSE 0
    [] c.vid = 0 -> IF Len(ch) = 0 THEN 0 ELSE Last(ch).uid
    [] OTHER -> IF VersionsWithId(ch, c.vid) = {} THEN 0
                ELSE ch[CHOOSE i \in VersionsWithId(ch, c.vid) : TRUE].uid

\* The reconciler lists (snapshot P) and acts a little later (store S).  A call is
\* judged in the state it hits; it is also fine if it hits the very same thing
\* that was listed and was right for the listed state (no reconciler can do
\* better; e.g. an expired delete marker that a new PUT has just made noncurrent).
\* What the statement forbids is hitting a DIFFERENT thing (a replacement).
SameThing(S, P, c) == TargetUid(S, c) # 0 /\ TargetUid(S, c) = TargetUid(P, c)

AllowedQ(S, R, now, c, Q) == DueOK(S, R, now, c, Q) /\ ExpWinsOK(S, R, now, c, Q)
DueOKSP(S, P, R, now, c)     == DueOK(S, R, now, c, Truth) \/ (SameThing(S, P, c) /\ DueOK(P, R, now, c, Truth))
KeepsOKSP(S, P, R, now, c)   == KeepsOK(S, R, now, c, Truth) \/ (SameThing(S, P, c) /\ KeepsOK(P, R, now, c, Truth))
ExpWinsOKSP(S, P, R, now, c) == ExpWinsOK(S, R, now, c, Truth) \/ (SameThing(S, P, c) /\ ExpWinsOK(P, R, now, c, Truth))
\* THE PROPERTY: every call that takes effect is Allowed in the state S it hits
\* (P = the store as it was when the pass listed it).
Allowed(S, P, R, now, c) ==
  DueOKSP(S, P, R, now, c) /\ KeepsOKSP(S, P, R, now, c) /\ ExpWinsOKSP(S, P, R, now, c)

\* ------------------------------------------------------------- store ops
\* Apply returns [S, res : "ok"|"precond"|"nokey", eff : did the store change]
NewDM(uid, now) == [uid |-> uid, id |-> uid, dm |-> TRUE, created |-> now, mtime |-> now,
                    size |-> 0, tags |-> {}, class |-> STD, etag |-> ""]

GuardOK(c, v) == /\ (c.ifmatch # "" => (~v.dm /\ v.etag = c.ifmatch))
                 /\ (c.ifuid # 0 => v.uid = c.ifuid)

Apply(S, c, now, nuid, bump) ==
  LET ch == ChainOf(S, c.key)
      storeClock == now + (nuid % 50)      \* the store's own clock ticks with every call
      same == [S |-> S, res |-> "ok", eff |-> FALSE] IN
  CASE c.op = "DeleteObject" /\ c.vid = 0 ->
         IF (c.ifmatch # "" \/ c.ifuid # 0) /\ (Len(ch) = 0 \/ ~GuardOK(c, Last(ch)))
         THEN [S |-> S, res |-> "precond", eff |-> FALSE]
         ELSE IF S.ver = "Enabled"
         THEN [S |-> WithChain(S, c.key, Append(ch, NewDM(nuid, now))), res |-> "ok", eff |-> TRUE]
         ELSE IF Len(ch) = 0 THEN same
         ELSE [S |-> WithChain(S, c.key, Remove(ch, Len(ch))), res |-> "ok", eff |-> TRUE]
    [] c.op = "DeleteObject" /\ c.vid # 0 ->
         IF VersionsWithId(ch, c.vid) = {} THEN same
         ELSE LET i == CHOOSE j \in VersionsWithId(ch, c.vid) : TRUE IN
              [S |-> WithChain(S, c.key, Remove(ch, i)), res |-> "ok", eff |-> TRUE]
    [] c.op = "Transition" ->
         LET idxs == IF c.vid = 0 THEN (IF Len(ch) = 0 THEN {} ELSE {Len(ch)})
                     ELSE VersionsWithId(ch, c.vid) IN
         IF idxs = {} THEN [S |-> S, res |-> "nokey", eff |-> FALSE]
         ELSE LET i == CHOOSE j \in idxs : TRUE IN
              IF ch[i].dm THEN [S |-> S, res |-> "nokey", eff |-> FALSE]
              ELSE IF ~GuardOK(c, ch[i]) THEN [S |-> S, res |-> "precond", eff |-> FALSE]
              ELSE [S |-> WithChain(S, c.key,
                            [ch EXCEPT ![i].class = c.class,
                                       ![i].mtime = IF bump THEN storeClock ELSE @]),
                    res |-> "ok", eff |-> TRUE]
    [] c.op = "Abort" ->
         LET us == {u \in S.ups : u.key = c.key /\ u.id = c.upload} IN
         IF us = {} THEN [S |-> S, res |-> "nokey", eff |-> FALSE]
         ELSE [S |-> [S EXCEPT !.ups = @ \ us], res |-> "ok", eff |-> TRUE]
    [] OTHER -> same

\* environment: the current object under key k is replaced (PutObject) at time now
Replace(S, k, etag, now, nuid) ==
  LET ch  == ChainOf(S, k)
      old == IF Len(ch) > 0 /\ ~Last(ch).dm THEN Last(ch)
             ELSE [size |-> 5, tags |-> {}, class |-> STD]
      new == [uid |-> nuid, id |-> IF S.ver = "Enabled" THEN nuid ELSE NullId, dm |-> FALSE,
              created |-> now, mtime |-> now, size |-> old.size, tags |-> old.tags,
              class |-> STD, etag |-> etag] IN
  IF S.ver = "Enabled" THEN WithChain(S, k, Append(ch, new))
  ELSE WithChain(S, k, <<new>>)

\* ------------------------------------------------------------- the reconciler
\* reconcileBucket runs these passes in this order; each pass lists, then acts.
Passes == <<"expire", "eodm", "nve", "nvt", "trans", "abort">>
ListKind(pass) == CASE pass \in {"expire", "trans"} -> "objects"
                    [] pass = "abort" -> "uploads"
                    [] OTHER -> "versions"

\* quirks of the code that are modelled only when the deviation is listed
CodeQ == [order |-> IF Has("D-C25-noncurrent-order") THEN "mtime" ELSE "truth",
          slack |-> Has("D-C25-newer-noncurrent-plus-one")]

\* guard put on key-level calls: the design needs an identity guard; the code
\* has only the ETag
KeyGuard(v) == [ifmatch |-> v.etag,
                ifuid |-> IF Has("D-C25-etag-guard") THEN 0 ELSE v.uid]

RECURSIVE Flatten(_)
Flatten(ss) == IF ss = <<>> THEN <<>> ELSE Head(ss) \o Flatten(Tail(ss))

\* the transition class the code picks: the due transition with the latest due time
PickClass(cands) ==   \* cands: set of [class, due]
  (CHOOSE x \in cands : \A y \in cands : y.due <= x.due).class

\* calls of one pass, computed from snapshot P (the listing) - what the code decides
PassCalls(pass, P, R, now) ==
  LET Q == CodeQ
      perKey(f(_, _)) == Flatten([i \in 1..Len(P.objs) |-> f(P.objs[i].key, P.objs[i].chain)]) IN
  CASE pass = "expire" ->
         perKey(LAMBDA k, ch :
           IF ExpireDue(ch, k, R, now, Q, TRUE)
           THEN <<Call("DeleteObject", k, 0, KeyGuard(Last(ch)).ifmatch, KeyGuard(Last(ch)).ifuid, "", 0)>>
           ELSE <<>>)
    [] pass = "eodm" ->
         perKey(LAMBDA k, ch :
           IF EodmDue(ch, k, R)
           THEN <<Call("DeleteObject", k, Last(ch).id, "", 0, "", 0)>> ELSE <<>>)
    [] pass = "nve" ->
         perKey(LAMBDA k, ch :
           LET och == Ordered(ch, Q.order) IN
           Flatten([j \in 1..Len(och) |->
             LET v == och[Len(och) + 1 - j] IN        \* newest first
             IF v.uid # Last(ch).uid /\ ~v.dm /\ NveDue(ch, k, v, R, now, Q, TRUE)
             THEN <<Call("DeleteObject", k, v.id, "", 0, "", 0)>> ELSE <<>>]))
    [] pass = "nvt" ->
         perKey(LAMBDA k, ch :
           LET och == Ordered(ch, Q.order) IN
           Flatten([j \in 1..Len(och) |->
             LET v == och[Len(och) + 1 - j]
                 cands == {[class |-> R[i].nvt[n].class,
                            due |-> DaysDue(TimeOf(och[PosOf(och, v.uid) + 1], Q.order), R[i].nvt[n].days, TRUE)] :
                           <<i, n>> \in {<<i, n>> \in (1..Len(R)) \X (1..3) :
                              /\ n <= Len(R[i].nvt) /\ R[i].on /\ PosOf(och, v.uid) < Len(och)
                              /\ R[i].nvt[n].class # v.class
                              /\ Matches(R[i], k, v.size, v.tags)
                              /\ NoncurrentOK(ch, v.uid, R[i].nvt[n].days, R[i].nvt[n].keep, now, Q, TRUE)}} IN
             IF v.uid # Last(ch).uid /\ ~v.dm /\ cands # {}
             THEN <<Call("Transition", k, v.id, v.etag, 0, PickClass(cands), 0)>> ELSE <<>>]))
    [] pass = "trans" ->
         perKey(LAMBDA k, ch :
           IF Len(ch) = 0 \/ Last(ch).dm THEN <<>> ELSE
           LET v == Last(ch)
               cands == {[class |-> R[i].trans[n].class,
                          due |-> TransTime(R[i].trans[n], TimeOf(v, Q.order), TRUE)] :
                         <<i, n>> \in {<<i, n>> \in (1..Len(R)) \X (1..3) :
                            /\ n <= Len(R[i].trans) /\ R[i].on
                            /\ R[i].trans[n].class # v.class
                            /\ Matches(R[i], k, v.size, v.tags)
                            /\ Reached(now, TransTime(R[i].trans[n], TimeOf(v, Q.order), TRUE))}} IN
           IF cands # {}
           THEN <<Call("Transition", k, 0, KeyGuard(v).ifmatch, KeyGuard(v).ifuid, PickClass(cands), 0)>>
           ELSE <<>>)
    [] pass = "abort" ->
         LET due == {u \in P.ups : AbortDue(u, R, now, TRUE)} IN
         [i \in 1..Cardinality(due) |->
            LET u == CHOOSE x \in due : Cardinality({y \in due : y.id < x.id}) = i - 1 IN
            Call("Abort", u.key, 0, "", 0, "", u.id)]
    [] OTHER -> <<>>

\* ListObjects shows only keys whose current version is an object
ListView(pass, S) ==
  IF ListKind(pass) = "objects"
  THEN [S EXCEPT !.objs = SelectSeq(S.objs, LAMBDA o : Len(o.chain) > 0 /\ ~Last(o.chain).dm)]
  ELSE S

\* run a sequence of calls against the store; every call that takes effect is
\* judged against the state it hits
\* touched = keys the environment wrote during this sweep: for those the
\* expiration-over-transition preference is not judged (the expire pass and the
\* transition pass of one sweep then legitimately see different objects).
RECURSIVE RunCalls(_, _, _, _, _, _, _, _)
RunCalls(S, P, cs, R, now, nuid, log, touched) ==
  IF cs = <<>> THEN [S |-> S, nuid |-> nuid, log |-> log]
  ELSE LET c == Head(cs)
           a == Apply(S, c, now, nuid, Has("D-C25-noncurrent-order"))
           e == [call |-> c, res |-> a.res, eff |-> a.eff,
                 due |-> DueOKSP(S, P, R, now, c),
                 keeps |-> KeepsOKSP(S, P, R, now, c),
                 expwins |-> c.key \in touched \/ ExpWinsOKSP(S, P, R, now, c)] IN
       RunCalls(a.S, P, Tail(cs), R, now, nuid + 1, Append(log, e), touched)

\* ------------------------------------------------------------- state machine
VARIABLES store, rules, now, pc, snap, acts, nuid, races, rounds, touched

vars == <<store, rules, now, pc, snap, acts, nuid, races, rounds, touched>>

K1 == <<"l", "ogs/", "a">>
K2 == <<"l", "ib/", "b">>
T(d, m) == d * Day + m

MkObj(uid, id, created, size, tags, etag) ==
  [uid |-> uid, id |-> id, dm |-> FALSE, created |-> created, mtime |-> created, size |-> size,
   tags |-> tags, class |-> STD, etag |-> etag]
MkDM(uid, created) == [NewDM(uid, created) EXCEPT !.mtime = created]

NoAct == [exp |-> [kind |-> "none", n |-> 0], trans |-> <<>>, nve |-> [days |-> 0, keep |-> 0],
          nvt |-> <<>>, abort |-> 0]
Rule(prefix, tags, gt, lt, act) ==
  [on |-> TRUE, prefix |-> prefix, tags |-> tags, gt |-> gt, lt |-> lt, legacy |-> FALSE] @@ act

MCTimes == IF MCSize = "small" THEN {T(0, 630), T(1, 0)} ELSE {T(0, 0), T(0, 630), T(1, 1439)}
MCChains(ver) ==
  IF ver = "Unversioned"
  THEN {<<>>} \cup {<<MkObj(1, NullId, t, 10, {<<"t1", "x">>}, "e1")>> : t \in MCTimes}
  ELSE {<<MkObj(1, 1, t, 10, {}, "e1")>> : t \in MCTimes}
       \cup {<<MkObj(1, 1, T(0, 0), 10, {}, "e1"), MkObj(2, 2, t, 20, {}, "e2")>> : t \in MCTimes}
       \cup {<<MkObj(1, 1, T(0, 0), 10, {}, "e1"), MkDM(2, t)>> : t \in MCTimes}
       \cup {<<MkDM(1, T(0, 0)), MkDM(2, T(0, 630))>>}
       \cup {<<MkObj(1, 1, T(0, 0), 10, {}, "e1"), MkObj(2, 2, T(0, 5), 10, {}, "e2"),
               MkObj(3, 3, T(0, 9), 10, {}, "e3"), MkObj(4, 4, t, 10, {}, "e4")>> : t \in MCTimes}
       \* LastModified NOT monotone with succession (a backend may bump it, e.g. on
       \* tagging): the two oldest versions carry the newest LastModified values
       \cup {<<[MkObj(1, 1, T(0, 0), 10, {}, "e1") EXCEPT !.mtime = T(0, 600)],
               [MkObj(2, 2, T(0, 5), 10, {}, "e2") EXCEPT !.mtime = T(0, 500)],
               MkObj(3, 3, T(0, 9), 10, {}, "e3"), MkObj(4, 4, t, 10, {}, "e4")>> : t \in MCTimes}
MCActs ==
  {[NoAct EXCEPT !.exp = [kind |-> "days", n |-> 1]],
   [NoAct EXCEPT !.exp = [kind |-> "date", n |-> T(2, 0)]],
   [NoAct EXCEPT !.exp = [kind |-> "eodm", n |-> 0]],
   [NoAct EXCEPT !.trans = <<[kind |-> "days", n |-> 0, class |-> "GLACIER"]>>],
   [NoAct EXCEPT !.trans = <<[kind |-> "days", n |-> 0, class |-> "STANDARD_IA"],
                             [kind |-> "days", n |-> 1, class |-> "GLACIER"]>>,
                 !.exp = [kind |-> "days", n |-> 2]],
   [NoAct EXCEPT !.nve = [days |-> 1, keep |-> 0]],
   [NoAct EXCEPT !.nve = [days |-> 2, keep |-> 1],
                 !.nvt = <<[days |-> 1, keep |-> 0, class |-> "GLACIER"]>>],
   [NoAct EXCEPT !.abort = 1]}
MCFilters == IF MCSize = "small"
             THEN {Rule(<<>>, {}, -1, -1, NoAct), Rule(<<"l", "ogs/">>, {}, 10, -1, NoAct)}
             ELSE {Rule(<<>>, {}, -1, -1, NoAct), Rule(<<"l", "ogs/">>, {}, -1, -1, NoAct),
                   Rule(<<"d">>, {}, -1, -1, NoAct), Rule(<<>>, {<<"t1", "x">>}, -1, -1, NoAct),
                   Rule(<<>>, {}, 10, -1, NoAct), Rule(<<>>, {}, -1, 20, NoAct)}
MCRules == {[f EXCEPT !.exp = a.exp, !.trans = a.trans, !.nve = a.nve, !.nvt = a.nvt, !.abort = a.abort] :
            f \in MCFilters, a \in MCActs}
MCRuleSets == {<<r>> : r \in MCRules}
              \cup (IF MCSize = "small" THEN {}
                    ELSE {<<r1, r2>> : r1 \in {r \in MCRules : r.prefix = <<>> /\ r.tags = {} /\ r.gt < 0 /\ r.lt < 0},
                                       r2 \in {r \in MCRules : r.prefix = <<>> /\ r.tags = {} /\ r.gt < 0 /\ r.lt < 0
                                                               /\ r.exp.kind = "days"}})
MCClocks == IF MCSize = "small" THEN {T(2, 0) - 1, T(3, 1)}
            ELSE {T(1, 0), T(2, 0) - 1, T(2, 0), T(2, 0) + 1, T(3, 0) - 1, T(3, 0), T(4, 1)}
MCUploads == {{}, {[key |-> K1, id |-> 90, initiated |-> T(0, 630)]}}

Init ==
  /\ \E ver \in {"Unversioned", "Enabled"} : \E ch \in MCChains(ver) : \E us \in MCUploads :
       store = [ver |-> ver, objs |-> <<[key |-> K1, chain |-> ch]>>, ups |-> us]
  /\ rules \in MCRuleSets
  /\ now \in MCClocks
  /\ pc = [pass |-> 1, phase |-> "list"]
  /\ snap = [ver |-> "Unversioned", objs |-> <<>>, ups |-> {}]
  /\ acts = <<>>
  /\ nuid = 100
  /\ races = 1
  /\ rounds = IF MCSize = "small" THEN 1 ELSE 2
  /\ touched = {}

\* expireObjects / ... : the listing of the pass
List ==
  /\ pc.phase = "list" /\ pc.pass <= Len(Passes)
  /\ snap' = ListView(Passes[pc.pass], store)
  /\ pc' = [pc EXCEPT !.phase = "act"]
  /\ UNCHANGED <<store, rules, now, acts, nuid, races, rounds, touched>>

\* the calls of the pass, decided on the listing, applied to the live store
Act ==
  /\ pc.phase = "act"
  /\ LET r == RunCalls(store, snap, PassCalls(Passes[pc.pass], snap, rules, now), rules, now, nuid, <<>>, touched) IN
       /\ store' = r.S
       /\ nuid' = r.nuid
       /\ acts' = r.log          \* only the calls of the latest pass are kept
  /\ pc' = [pass |-> pc.pass + 1, phase |-> "list"]
  /\ UNCHANGED <<rules, now, snap, races, rounds, touched>>

\* environment: somebody overwrites K1 between the listing and the calls
EnvReplace ==
  /\ pc.phase = "act" /\ races > 0
  /\ \E same \in BOOLEAN :
       LET ch == ChainOf(store, K1)
           etag == IF same /\ Len(ch) > 0 /\ ~Last(ch).dm THEN Last(ch).etag ELSE "eX" IN
       store' = Replace(store, K1, etag, now, nuid)
  /\ nuid' = nuid + 1
  /\ races' = races - 1
  /\ touched' = touched \cup {K1}
  /\ UNCHANGED <<rules, now, pc, snap, acts, rounds>>

\* the next sweep, some days later
NextRound ==
  /\ pc.phase = "list" /\ pc.pass > Len(Passes) /\ rounds > 1
  /\ \E d \in {1, 3} : now' = now + d * Day
  /\ rounds' = rounds - 1
  /\ pc' = [pass |-> 1, phase |-> "list"]
  /\ acts' = <<>>
  /\ touched' = {}
  /\ UNCHANGED <<store, rules, snap, nuid, races>>

Next == List \/ Act \/ EnvReplace \/ NextRound
Spec == Init /\ [][Next]_vars

\* ------------------------------------------------------------- invariants
Effective == {i \in 1..Len(acts) : acts[i].eff}
ActsOnlyIfAllowed        == \A i \in Effective : acts[i].due
KeepsNewerNoncurrent     == \A i \in Effective : acts[i].keeps
ExpirationBeatsTransition == \A i \in Effective : acts[i].expwins
\* something is actually exercised (used with a negated check in the pipeline)
NeverActs == Effective = {}
=============================================================================
