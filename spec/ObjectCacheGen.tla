---------------------------- MODULE ObjectCacheGen ----------------------------
(* GEN for C20 (sequential): random walks of PithosGen over the WHOLE call        *)
(* alphabet, weighted so that every mutating method of storage.Storage - also the  *)
(* ones the middleware does not override - hits keys that are currently cached:    *)
(* storage-class transitions, tagging, appends, version-id deletes, versioning     *)
(* changes, multipart completes, copies.                                           *)
EXTENDS PithosGen

OOpW == <<"CreateBucket", "DeleteBucket", "PutVersioning", "PutVersioning",
          "PutObject", "PutObject", "PutObject", "PutObject", "GetObject",
          "DeleteObject", "DeleteObject", "DeleteObject", "CopyObject", "CopyObject",
          "AppendObject", "AppendObject", "CreateUpload", "UploadPart", "UploadPart", "UploadPartCopy",
          "CompleteUpload", "CompleteUpload", "AbortUpload",
          "PutTagging", "PutTagging", "PutTagging", "Transition", "Transition", "Transition", "Transition">>
OOpWSel == SelectSeq(OOpW, LAMBDA o : o \in Ops)
\* Reads without version id are not generated as program calls: after EVERY call the driver reads every
\* key through the middleware and from the inner storage and logs the answers side by side (e.obs).
\* Program-level GetObject calls therefore always name a version (they bypass the cache).
WithVid(c, St) == IF c.op = "GetObject" /\ c.vid = -1 THEN [c EXCEPT !.vid = R(0..St.nv)] ELSE c
OGenNext == GStep(WithVid(RandCall(RW(OOpWSel), S), S))
=============================================================================
