------------------------------ MODULE HashWriter ------------------------------
(***************************************************************************)
(* C35 - checksum arithmetic is exact.                                     *)
(*                                                                         *)
(* Part 1 (protocol).  Model of parallelHashWriter in                      *)
(* internal/checksumutils/checksumutils.go: the dispatcher (the goroutine  *)
(* calling Write / Flush / Close), W hash workers (one goroutine per hash),*)
(* two block buffers ping-ponging between filling and hashing, one         *)
(* capacity-1 channel per worker and one sync.WaitGroup per buffer.        *)
(* One action per synchronisation-relevant step of the code:               *)
(*   Write:  Fill (copy into bufs[active]); when the block is full         *)
(*           dispatchActive = Add (wg.Add(W)), Send (one channel send per  *)
(*           worker, blocks while that channel is full), Swap (active =    *)
(*           1-active), WaitRet (wgs[active].Wait() returned)              *)
(*   Flush:  dispatchActive for a buffered tail, then FWait0, FWait1       *)
(*   Close:  CWait0, CWait1, close channels                                *)
(*   worker: Recv (range over channel), Hash (h.Write(blk.data): reads the *)
(*           buffer), Done (blk.wg.Done())                                 *)
(* Buffers hold block numbers; a worker records the number it reads, so a  *)
(* refill race shows up as a wrong number in its hashed sequence.          *)
(*                                                                         *)
(* Part 2 (inputs).  Constant operators describing the enumerated input    *)
(* space of CalculateChecksumsStreaming (write-size schedules, reader      *)
(* chunkings) and of CombineCrc32/32c/64Nvme (length pairs), and the block *)
(* decomposition Write must produce.  Bit-level values are NOT modelled:   *)
(* the value oracle is one-shot hashing in the driver (the property's own  *)
(* definition); TLA+ contributes the protocol proof and the enumeration.   *)
(***************************************************************************)
EXTENDS Integers, Sequences, FiniteSets, TLC

CONSTANTS W,         \* number of hash workers
          NS,        \* set of block counts explored
          Variant    \* "code" = what the code does; "nowait" = mutant without wgs[active].Wait() (vacuity guard)

Workers == 1..W
Bufs    == {0, 1}

VARIABLES nb, tail,    \* blocks written by the client; the last one is partial (dispatched by Flush only)
          pc, call,    \* dispatcher: program counter, API call in progress
          active,      \* index of the buffer being filled
          next,        \* next block number the client writes
          pending,     \* the active buffer holds an undispatched (partial) block
          sendIdx,     \* next worker to send to inside dispatchActive
          buf,         \* buffer -> block number it currently holds (0 = nothing yet)
          wg,          \* buffer -> WaitGroup counter
          chan,        \* worker -> queued hashBlocks (capacity 1)
          wst, cur,    \* worker state "idle"|"recvd"|"hashed", block in hand
          hashed,      \* worker -> sequence of block numbers it read
          flushed, closed
pvars == <<nb, tail, pc, call, active, next, pending, sendIdx, buf, wg, chan, wst, cur, hashed, flushed, closed>>

NoBlk == [b |-> 0, blk |-> 0]

InitWith(n, t) ==
  /\ nb = n /\ tail = t
  /\ pc = "idle" /\ call = "none" /\ active = 0 /\ next = 1 /\ pending = FALSE /\ sendIdx = 1
  /\ buf = [b \in Bufs |-> 0] /\ wg = [b \in Bufs |-> 0]
  /\ chan = [w \in Workers |-> <<>>]
  /\ wst = [w \in Workers |-> "idle"] /\ cur = [w \in Workers |-> NoBlk]
  /\ hashed = [w \in Workers |-> <<>>]
  /\ flushed = FALSE /\ closed = FALSE

Init == \E n \in NS, t \in BOOLEAN : (n > 0 \/ ~t) /\ InitWith(n, t)

\* ------------------------------------------------------------- dispatcher
DUnch == UNCHANGED <<nb, tail, chan, wst, cur, hashed>>

CallWrite == /\ pc = "idle" /\ call = "none" /\ ~flushed /\ next <= nb
             /\ call' = "write" /\ pc' = "fill"
             /\ UNCHANGED <<active, next, pending, sendIdx, buf, wg, flushed, closed>> /\ DUnch

\* copy(phw.bufs[phw.active][phw.fill:], p); a full block is dispatched, a partial one stays buffered
Fill == /\ pc = "fill"
        /\ buf' = [buf EXCEPT ![active] = next]
        /\ IF tail /\ next = nb
           THEN pc' = "idle" /\ call' = "none" /\ next' = next + 1 /\ pending' = TRUE
           ELSE pc' = "add" /\ UNCHANGED <<call, next, pending>>
        /\ UNCHANGED <<active, sendIdx, wg, flushed, closed>> /\ DUnch

Add == /\ pc = "add"
       /\ wg' = [wg EXCEPT ![active] = @ + W]
       /\ sendIdx' = 1 /\ pc' = "send"
       /\ UNCHANGED <<call, active, next, pending, buf, flushed, closed>> /\ DUnch

\* in <- hashBlock{data: block, wg: wg}
Send == /\ pc = "send" /\ Len(chan[sendIdx]) = 0
        /\ chan' = [chan EXCEPT ![sendIdx] = <<[b |-> active, blk |-> buf[active]]>>]
        /\ IF sendIdx = W THEN pc' = "swap" /\ UNCHANGED sendIdx
           ELSE sendIdx' = sendIdx + 1 /\ UNCHANGED pc
        /\ UNCHANGED <<nb, tail, call, active, next, pending, buf, wg, wst, cur, hashed, flushed, closed>>

Swap == /\ pc = "swap"
        /\ active' = 1 - active /\ pending' = FALSE /\ pc' = "wait"
        /\ UNCHANGED <<call, next, sendIdx, buf, wg, flushed, closed>> /\ DUnch

\* phw.wgs[phw.active].Wait() returned; Write returns / Flush goes on
WaitRet == /\ pc = "wait" /\ (Variant = "nowait" \/ wg[active] = 0)
           /\ IF call = "write" THEN pc' = "idle" /\ call' = "none" /\ next' = next + 1
              ELSE pc' = "fwait0" /\ UNCHANGED <<call, next>>
           /\ UNCHANGED <<active, pending, sendIdx, buf, wg, flushed, closed>> /\ DUnch

CallFlush == /\ pc = "idle" /\ call = "none" /\ ~flushed /\ next = nb + 1
             /\ call' = "flush" /\ pc' = IF pending THEN "add" ELSE "fwait0"
             /\ UNCHANGED <<active, next, pending, sendIdx, buf, wg, flushed, closed>> /\ DUnch

FWait0 == /\ pc = "fwait0" /\ wg[0] = 0 /\ pc' = "fwait1"
          /\ UNCHANGED <<call, active, next, pending, sendIdx, buf, wg, flushed, closed>> /\ DUnch
FWait1 == /\ pc = "fwait1" /\ wg[1] = 0 /\ pc' = "idle" /\ call' = "none" /\ flushed' = TRUE
          /\ UNCHANGED <<active, next, pending, sendIdx, buf, wg, closed>> /\ DUnch

CallClose == /\ pc = "idle" /\ call = "none" /\ flushed /\ ~closed
             /\ call' = "close" /\ pc' = "cwait0"
             /\ UNCHANGED <<active, next, pending, sendIdx, buf, wg, flushed, closed>> /\ DUnch
CWait0 == /\ pc = "cwait0" /\ wg[0] = 0 /\ pc' = "cwait1"
          /\ UNCHANGED <<call, active, next, pending, sendIdx, buf, wg, flushed, closed>> /\ DUnch
CWait1 == /\ pc = "cwait1" /\ wg[1] = 0 /\ pc' = "idle" /\ call' = "none" /\ closed' = TRUE
          /\ UNCHANGED <<active, next, pending, sendIdx, buf, wg, flushed>> /\ DUnch

Dispatcher == CallWrite \/ Fill \/ Add \/ Send \/ Swap \/ WaitRet \/ CallFlush \/ FWait0 \/ FWait1
              \/ CallClose \/ CWait0 \/ CWait1

\* ----------------------------------------------------------------- workers
WUnch == UNCHANGED <<nb, tail, pc, call, active, next, pending, sendIdx, buf, flushed, closed>>

Recv(w) == /\ wst[w] = "idle" /\ Len(chan[w]) > 0
           /\ cur' = [cur EXCEPT ![w] = Head(chan[w])]
           /\ chan' = [chan EXCEPT ![w] = Tail(@)]
           /\ wst' = [wst EXCEPT ![w] = "recvd"]
           /\ UNCHANGED <<wg, hashed>> /\ WUnch

\* h.Write(blk.data): reads whatever the buffer holds now
Hash(w) == /\ wst[w] = "recvd"
           /\ hashed' = [hashed EXCEPT ![w] = Append(@, buf[cur[w].b])]
           /\ wst' = [wst EXCEPT ![w] = "hashed"]
           /\ UNCHANGED <<wg, chan, cur>> /\ WUnch

Done(w) == /\ wst[w] = "hashed"
           /\ wg' = [wg EXCEPT ![cur[w].b] = @ - 1]
           /\ wst' = [wst EXCEPT ![w] = "idle"]
           /\ cur' = [cur EXCEPT ![w] = NoBlk]
           /\ UNCHANGED <<chan, hashed>> /\ WUnch

Finished == closed /\ UNCHANGED pvars

Next == Dispatcher \/ (\E w \in Workers : Recv(w) \/ Hash(w) \/ Done(w)) \/ Finished
Spec == Init /\ [][Next]_pvars

\* --------------------------------------------------------------- invariants
\* a worker may still read buffer b: a block of b is queued or received but not hashed yet
InUse(b) == \E w \in Workers : \/ (Len(chan[w]) > 0 /\ chan[w][1].b = b)
                               \/ (wst[w] = "recvd" /\ cur[w].b = b)
\* the dispatcher may write into the active buffer whenever a Write can copy into it
NoRefillWhileRead == pc \in {"idle", "fill"} => ~InUse(active)
\* each worker hashes all blocks exactly once, in order
InOrder == \A w \in Workers : \A i \in 1..Len(hashed[w]) : hashed[w][i] = i
\* every hash has consumed everything written before its sum is read (after Flush)
Complete == flushed => \A w \in Workers : Len(hashed[w]) = nb /\ wst[w] = "idle"
WgOK == \A b \in Bufs : wg[b] \in 0..W
ChanCap == \A w \in Workers : Len(chan[w]) <= 1
\* what a worker is handed is what it reads (the block was not replaced meanwhile)
HandedIsRead == \A w \in Workers : wst[w] = "recvd" => buf[cur[w].b] = cur[w].blk

\* ====================================================================== part 2
B == 262144                       \* hashBlockSize
WriteSizes == {0, 1, B - 1, B, B + 1, 2 * B, 3 * B + 7}   \* 0 = a Read returning (0, nil)
EofStyles  == {"separate", "together", "error"}  \* (0,EOF) after the data | (n,EOF) with the last chunk | reader fails
Consumers  == {"exact", "small"}  \* doRead reads with a buffer >= every chunk | through io.Copy's 8 KiB buffer
Contents   == {"zero", "ff", "incr", "rand"}

RECURSIVE SumSeq(_)
SumSeq(s) == IF s = <<>> THEN 0 ELSE Head(s) + SumSeq(Tail(s))

NumBlocks(total) == (total + B - 1) \div B
\* lengths of the blocks every worker must be handed for `total` written bytes
BlockLens(total) == [i \in 1..NumBlocks(total) |-> IF i * B <= total THEN B ELSE total - (i - 1) * B]

Pow2(k) == 2 ^ k
CombineLens == {0, 1, 2, 7, 8, 9} \cup UNION {{Pow2(k) - 1, Pow2(k), Pow2(k) + 1} : k \in 0..20}
CombineContents == {"zero", "ff", "rand"}
TinyBytes == {"00", "01", "80", "FF"}

\* second operands of 2 GiB and more (multipart parts up to 5 GiB, composite checksums beyond 4 GiB).  The lengths
\* q * 2^30 + d do not fit TLC's 32-bit integers and stay symbolic <<q, d>>; the harness concretises them, takes
\* zero bytes as the second operand and gets the reference by streaming that many zero bytes through the stdlib hash.
BigUnit == 1073741824                  \* 2^30
BigQ == {2, 4, 5, 8, 12}               \* 2^31, 2^32, 5 GiB (largest S3 part), 2^33, 3 * 2^32
BigD == {-1, 0, 1, 5}
BigLenA == {0, 9, 65537}
BigContents == {"rand"}                \* content of the first operand
Big64Always == {q \in BigQ : q <= 5}   \* CRC64 (slow to stream) must be evaluated at least for these; all in thorough
=============================================================================
