------------------------------- MODULE Cache -------------------------------
(***************************************************************************)
(* C19 - caches never serve bytes that were not stored.                    *)
(*                                                                         *)
(* Models, at the code's locking grain,                                    *)
(*  (1) internal/cache/genericcache.go  GenericCache.Set / Get / Remove    *)
(*      over a persistor (persistor/inmemory, persistor/filesystem) and    *)
(*      the LFU policy (evictionpolicy/lfu + evictionchecker/fixedkeylimit *)
(*      and fixedsizelimit):                                               *)
(*        - policy bookkeeping (TrackSet.. / TrackGet / TrackRemove) is    *)
(*          one atomic step under GenericCache.mu,                         *)
(*        - persistor.Remove of an evicted key and persistor.Store run     *)
(*          OUTSIDE mu,                                                    *)
(*        - the filesystem persistor's Store is PROGRESSIVE: it opens the  *)
(*          final file name with O_CREATE|O_TRUNC and io.Copy's into it    *)
(*          (deviation D-C19-partial-read; the intended design publishes   *)
(*          the value atomically when the store is complete),              *)
(*        - Get = TrackGet + persistor.Get under mu returns an open        *)
(*          handle; its bytes are read afterwards, outside mu.             *)
(*  (2) internal/storage/metadatapart/partstore/cache/cache.go             *)
(*      cachePartStore.PutPart (inner put, after-commit Set), GetPart      *)
(*      (hit / miss = streaming fill from the inner store, Set(-1)),       *)
(*      DeletePart (inner delete, after-commit Remove).                    *)
(*                                                                         *)
(* A thread's program counter names the GATE at which the thread is parked *)
(* in the harness (harness/cmd/cache): one model step = the code between   *)
(* two gates.  The whole state is ONE record S so that the same successor  *)
(* functions serve model checking (Cache), schedule generation (CacheGen)  *)
(* and trace validation (CacheTrace).                                      *)
(*                                                                         *)
(* Values: every cacheable value has NChunks = 2 chunks; chunk = [k, v, i]  *)
(* (key it was written for, value symbol, index).  Hole = zero bytes.      *)
(* Part-level values: PV = a part of 2 chunks (<= MaxPartSizeBytes, cache  *)
(* eligible), PB = a part of 4 chunks, LARGER than the cache part store's  *)
(* MaxPartSizeBytes (3 chunks in the harness): PutPart of PB must leave no *)
(* cached entry for the id (oversized hint + Remove), GetPart of a hinted  *)
(* id bypasses the cache, a fill-on-miss of PB is abandoned.               *)
(***************************************************************************)
EXTENDS Integers, Sequences, FiniteSets, TLC

CONSTANTS Threads, Keys, Vals, PV, PB, Deviations

NChunks == 2
VSize == 2                         \* size of every value (in chunks) as seen by the size-limit checker
Chunk(k, v, i) == [k |-> k, v |-> v, i |-> i]
Hole == [k |-> "0", v |-> "0", i |-> 0]
ValChunks(k, v) == <<Chunk(k, v, 1), Chunk(k, v, 2)>>
PartChunks(k, v) == IF v = PB THEN [i \in 1..4 |-> Chunk(k, PB, i)] ELSE ValChunks(k, v)   \* bytes of a part

Dev(tag) == tag \in Deviations

NoRes == [st |-> "", chunks |-> <<>>]
OkRes == [st |-> "ok", chunks |-> <<>>]
NoOp == [kind |-> "", k |-> "", v |-> ""]

\* cfg = [pers |-> "mem"|"fs", lk |-> "keys"|"size", ln |-> limit]; P = ids initially present in the inner store
InitState(cfg, P) ==
  [cfg |-> cfg,
   pc |-> [t \in Threads |-> "idle"], op |-> [t \in Threads |-> NoOp], ev |-> [t \in Threads |-> <<>>],
   hd |-> [t \in Threads |-> 0], res |-> [t \in Threads |-> NoRes], inval |-> [t \in Threads |-> FALSE],
   nops |-> [t \in Threads |-> 0],
   trk |-> [k \in Keys |-> -1], heap |-> {}, clk |-> 1, mu |-> "free",
   file |-> [k \in Keys |-> 0], ino |-> <<>>,
   inner |-> [k \in Keys |-> IF k \in P THEN PV ELSE ""],      \* inner part store: id -> value ("" = absent)
   hint |-> [k \in Keys |-> FALSE],                            \* cachePartStore.oversizedHints
   absV |-> [k \in Keys |-> IF k \in P THEN {PV} ELSE {}], old |-> [t \in Threads |-> ""], ovl |-> [t \in Threads |-> FALSE],
   stored |-> [k \in Keys |-> {}], sawA |-> [t \in Threads |-> FALSE], sawV |-> [t \in Threads |-> {}],
   panicked |-> FALSE, unsync |-> FALSE]

\* ------------------------------------------------------------ what the code is
Atomic(S) == S.cfg.pers = "mem" \/ ~Dev("D-C19-partial-read")     \* value published in one step
Racy(S) == S.cfg.pers = "mem" /\ Dev("D-C19-inmem-map-race")      \* persistor map touched outside mu
IsPut(o) == o.kind \in {"pput", "pputi"}                          \* PutPart with a tx / with tx = nil (inline)
IsWrite(o) == IsPut(o) \/ o.kind = "pdel"
PartOp(o) == IsWrite(o) \/ o.kind = "pget"
PreStore(o) == o.kind = "cset" \/ IsPut(o)                         \* Set(size>=0): track first, then store
\* intended design: part bytes obtained before a later PutPart / DeletePart of the id began never enter the
\* cache afterwards (inval[t]: a write of the id began after thread t obtained its bytes)
Guarded(S, t) == PartOp(S.op[t]) /\ ~Dev("D-C19-stale-after-delete") /\ S.inval[t]
Captured(S, u, k) == /\ S.op[u].k = k
                     /\ \/ IsPut(S.op[u]) /\ S.pc[u] \notin {"idle", "done"}
                        \/ S.op[u].kind = "pget" /\ S.pc[u] \in {"s.enter", "s.r1", "s.r2", "s.exit", "evict"}
Invalidate(S, t, k) == [u \in Threads |-> IF u # t /\ Captured(S, u, k) THEN TRUE ELSE S.inval[u]]

\* ------------------------------------------------------------------- LFU policy
TrackedKeys(trk) == {k \in Keys : trk[k] >= 0}
RECURSIVE SumSizes(_, _)
SumSizes(trk, ks) == IF ks = {} THEN 0 ELSE LET k == CHOOSE x \in ks : TRUE IN trk[k] + SumSizes(trk, ks \ {k})
ShouldEvict(cfg, trk) == IF cfg.lk = "keys" THEN Cardinality(TrackedKeys(trk)) > cfg.ln
                         ELSE SumSizes(trk, TrackedKeys(trk)) > cfg.ln
Less(a, b) == a.freq < b.freq \/ (a.freq = b.freq /\ a.ts < b.ts)
MinEntry(h) == CHOOSE e \in h : \A f \in h : f = e \/ Less(e, f)

\* lfu.TrackSetAndReturnEvictedKeys: `for ShouldEvict() { heap.Pop }` - popping the empty heap panics
RECURSIVE EvictLoop(_, _, _, _)
EvictLoop(cfg, trk, h, acc) ==
  IF ~ShouldEvict(cfg, trk) THEN [trk |-> trk, heap |-> h, ev |-> acc, panic |-> FALSE]
  ELSE IF h = {} THEN [trk |-> trk, heap |-> h, ev |-> acc, panic |-> Dev("D-C19-lfu-oversize-panic")]
  ELSE LET e == MinEntry(h) IN EvictLoop(cfg, [trk EXCEPT ![e.key] = -1], h \ {e}, Append(acc, e.key))

Done(S, t, r) == [S EXCEPT !.pc[t] = "done", !.res[t] = r, !.hd[t] = 0, !.ev[t] = <<>>, !.inval[t] = FALSE]

\* state of thread t once its eviction list is exhausted
AfterEvict(S, t) ==
  IF PreStore(S.op[t]) THEN [S EXCEPT !.pc[t] = "s.enter"]
  ELSE IF S.op[t].kind = "pget"      \* fill completed: the fill goroutine clears the oversized hint
       THEN Done([S EXCEPT !.hint[S.op[t].k] = IF Guarded(S, t) THEN @ ELSE FALSE], t,
                 [st |-> "hit", chunks |-> PartChunks(S.op[t].k, S.op[t].v)])
       ELSE Done(S, t, OkRes)

\* critical section  mu.Lock; TrackSetAndReturnEvictedKeys(key, size); mu.Unlock  of GenericCache.Set
DoTrackSet(S, t) ==
  LET k == S.op[t].k
      trk1 == IF S.cfg.lk = "keys" /\ S.trk[k] >= 0 THEN S.trk ELSE [S.trk EXCEPT ![k] = VSize]
      r == EvictLoop(S.cfg, trk1, S.heap, <<>>)
  IN IF r.panic
     THEN Done([S EXCEPT !.trk = r.trk, !.heap = r.heap, !.mu = "dead", !.panicked = TRUE], t,
               [st |-> "panic", chunks |-> <<>>])
     ELSE LET S1 == [S EXCEPT !.trk = r.trk, !.heap = r.heap \cup {[key |-> k, freq |-> 0, ts |-> S.clk]},
                              !.clk = S.clk + 1, !.ev[t] = r.ev]
          IN IF r.ev # <<>> THEN [S1 EXCEPT !.pc[t] = "evict"] ELSE AfterEvict(S1, t)

\* lfu.TrackGet / TrackRemove act on the FIRST heap-array entry of the key; with duplicate entries (a key
\* set twice) the array order is an implementation detail: nondeterministic here
TrackGetSet(S, k) ==
  LET E == {e \in S.heap : e.key = k} IN
  IF E = {} THEN {S}
  ELSE {[S EXCEPT !.heap = (S.heap \ {e}) \cup {[key |-> k, freq |-> e.freq + 1, ts |-> S.clk]}, !.clk = S.clk + 1] : e \in E}
TrackRemoveSet(S, k) ==
  LET E == {e \in S.heap : e.key = k} IN
  IF E = {} THEN {[S EXCEPT !.trk[k] = -1]}
  ELSE {[S EXCEPT !.trk[k] = -1, !.heap = S.heap \ {e}] : e \in E}

\* -------------------------------------------------------------------- persistor
WriteAt(c, p, x) == IF Len(c) >= p THEN [c EXCEPT ![p] = x]
                    ELSE c \o [i \in 1..(p - 1 - Len(c)) |-> Hole] \o <<x>>

\* persistor.Remove(evicted key) by GenericCache.Set - outside mu
EvictStep(S, t) ==
  LET ek == Head(S.ev[t])
      S1 == [S EXCEPT !.file[ek] = 0, !.ev[t] = Tail(S.ev[t]), !.unsync = S.unsync \/ Racy(S)]
  IN IF S1.ev[t] = <<>> THEN AfterEvict(S1, t) ELSE S1

\* persistor.Store entry: filesystem = OpenFile(O_CREATE|O_TRUNC) of the FINAL name
StoreOpen(S, t) ==
  LET k == S.op[t].k IN
  IF Guarded(S, t) THEN [S EXCEPT !.pc[t] = "s.r1", !.hd[t] = -1]
  ELSE IF Atomic(S) THEN [S EXCEPT !.pc[t] = "s.r1", !.hd[t] = 0]
  ELSE IF S.file[k] = 0
       THEN [S EXCEPT !.ino = Append(S.ino, <<>>), !.file[k] = Len(S.ino) + 1, !.hd[t] = Len(S.ino) + 1, !.pc[t] = "s.r1"]
       ELSE [S EXCEPT !.ino[S.file[k]] = <<>>, !.hd[t] = S.file[k], !.pc[t] = "s.r1"]

\* chunk i reaches the persistor; i = NChunks also completes the store (close / map assignment / publication)
StoreWrite(S, t, i) ==
  LET k == S.op[t].k
      v == S.op[t].v
      h == S.hd[t]
      S1 == IF h > 0 THEN [S EXCEPT !.ino[h] = WriteAt(S.ino[h], i, Chunk(k, v, i))] ELSE S
  IN IF v = PB       \* fill-on-miss of an oversized part: the reader closes the pipe with
                     \* errPartLargerThanCacheThreshold before any byte; Store returns the error
     THEN [S EXCEPT !.pc[t] = "s.exit", !.hd[t] = -2]
     ELSE IF i < NChunks THEN [S1 EXCEPT !.pc[t] = "s.r2"]
     ELSE LET S2 == IF h = -1 THEN S1
                    ELSE IF h = 0
                         THEN IF Guarded(S1, t) THEN S1
                              ELSE [S1 EXCEPT !.ino = Append(S1.ino, ValChunks(k, v)), !.file[k] = Len(S1.ino) + 1,
                                              !.stored[k] = S1.stored[k] \cup {v}, !.unsync = S1.unsync \/ Racy(S1)]
                         ELSE [S1 EXCEPT !.stored[k] = S1.stored[k] \cup {v}]
          IN [S2 EXCEPT !.pc[t] = "s.exit", !.hd[t] = 0]

\* after persistor.Store returned: Set(size>=0) returns; Set(-1) now tracks the key (needs mu)
StoreExit(S, t) ==
  IF S.hd[t] = -2 THEN {[S EXCEPT !.pc[t] = "evict", !.ev[t] = <<S.op[t].k>>]}   \* Set's error path: Remove(key)
  ELSE IF PreStore(S.op[t]) THEN {Done(S, t, OkRes)}
  ELSE IF S.mu = "free" THEN {DoTrackSet(S, t)} ELSE {}

\* failed fill: GenericCache.Set removes the key (outside mu), TrackRemove (mu), returns the error; the fill
\* goroutine marks the oversized hint and calls cache.Remove (mu); the caller got the part from the inner store
FailCleanup(S, t) ==
  LET k == S.op[t].k
      S1 == [S EXCEPT !.file[k] = 0, !.unsync = S.unsync \/ Racy(S)]
  IN IF S.mu # "free" THEN {}
     ELSE {Done([S3 EXCEPT !.hint[k] = TRUE], t, [st |-> "hit", chunks |-> PartChunks(k, PB)])
           : S3 \in UNION {TrackRemoveSet(S2, k) : S2 \in TrackRemoveSet(S1, k)}}

\* reads of the handle returned by Get (outside mu)
GetRead1(S, t) ==
  LET c == S.ino[S.hd[t]] IN
  IF Len(c) = 0 THEN Done(S, t, [st |-> "hit", chunks |-> <<>>])
  ELSE [S EXCEPT !.res[t] = [st |-> "hit", chunks |-> <<c[1]>>], !.pc[t] = "g.r2"]
GetRead2(S, t) ==
  LET c == S.ino[S.hd[t]] IN
  Done(S, t, [st |-> "hit", chunks |-> S.res[t].chunks \o SubSeq(c, 2, Len(c))])

\* --------------------------------------------------------------- thread steps
\* inner PutPart of value o.v (the tee'd reader decides cache eligibility)
PutBegin(S0, S, t, o) ==
  [S0 EXCEPT !.inner[o.k] = o.v, !.old[t] = S.inner[o.k], !.inval = Invalidate(S0, t, o.k), !.pc[t] = "commit"]

\* cache update of PutPart / DeletePart (tx after-commit hook, or inline when tx = nil); needs mu
CommitSet(S, t) ==
  LET k == S.op[t].k IN
  IF S.mu # "free" THEN {}
  ELSE IF IsPut(S.op[t])
       THEN IF S.op[t].v = PB
            THEN \* oversized: markOversizedHint + cache.Remove - NO cached entry may remain for the id
                 {Done([S1 EXCEPT !.file[k] = 0, !.hint[k] = TRUE], t, OkRes) : S1 \in TrackRemoveSet(S, k)}
            ELSE {DoTrackSet([S EXCEPT !.hint[k] = FALSE], t)}
       ELSE {Done([S1 EXCEPT !.file[k] = 0, !.hint[k] = FALSE], t, OkRes) : S1 \in TrackRemoveSet(S, k)}

\* first step of an operation: from invocation to the first gate
BeginRaw(S, t, o) ==
  IF S.pc[t] \notin {"idle", "done"} THEN {}
  ELSE
  LET S0 == [S EXCEPT !.op[t] = o, !.nops[t] = S.nops[t] + 1, !.res[t] = NoRes, !.ev[t] = <<>>, !.hd[t] = 0,
                      !.inval[t] = FALSE, !.pc[t] = "idle"]
      k == o.k
  IN CASE o.kind = "cset" -> IF S.mu = "free" THEN {DoTrackSet(S0, t)} ELSE {}
       [] o.kind = "csets" -> {[S0 EXCEPT !.pc[t] = "s.enter"]}
       [] o.kind \in {"cget", "pget"} ->
            IF S.mu # "free" THEN {}
            ELSE {IF S1.file[k] = 0
                  THEN (IF o.kind = "cget" THEN Done(S1, t, [st |-> "miss", chunks |-> <<>>])
                        ELSE \* GetPart consults the oversized hint right after the cache miss, before the inner store
                             [S1 EXCEPT !.pc[t] = "inner", !.hd[t] = IF S1.hint[k] THEN -3 ELSE 0])
                  ELSE [S1 EXCEPT !.pc[t] = "g.r1", !.hd[t] = S1.file[k], !.res[t] = [st |-> "hit", chunks |-> <<>>]]
                  : S1 \in TrackGetSet(S0, k)}
       [] o.kind = "crem" ->
            IF S.mu # "free" THEN {}
            ELSE {Done([S1 EXCEPT !.file[k] = 0], t, OkRes) : S1 \in TrackRemoveSet(S0, k)}
       [] o.kind = "pput" -> {PutBegin(S0, S, t, o)}
       [] o.kind = "pputi" -> CommitSet(PutBegin(S0, S, t, o), t)      \* tx = nil: cache update inline
       [] o.kind = "pdel" -> {[S0 EXCEPT !.inner[k] = "", !.old[t] = S.inner[k], !.inval = Invalidate(S0, t, k), !.pc[t] = "commit"]}
       [] OTHER -> {}

StepRaw(S, t) ==
  LET p == S.pc[t]
      k == S.op[t].k
  IN CASE p = "evict" -> IF S.hd[t] = -2 THEN FailCleanup(S, t) ELSE {EvictStep(S, t)}
       [] p = "s.enter" -> {StoreOpen(S, t)}
       [] p = "s.r1" -> {StoreWrite(S, t, 1)}
       [] p = "s.r2" -> {StoreWrite(S, t, 2)}
       [] p = "s.exit" -> StoreExit(S, t)
       [] p = "g.r1" -> {GetRead1(S, t)}
       [] p = "g.r2" -> {GetRead2(S, t)}
       [] p = "inner" ->      \* decorated inner store GetPart; present => cache.go starts the fill goroutine
            {IF S.inner[k] = "" THEN Done(S, t, [st |-> "notfound", chunks |-> <<>>])
             ELSE IF S.hd[t] = -3 THEN Done(S, t, [st |-> "hit", chunks |-> PartChunks(k, S.inner[k])])   \* hinted: bypass, no fill
             ELSE [S EXCEPT !.op[t].v = S.inner[k], !.pc[t] = "s.enter"]}
       [] p = "commit" ->     \* tx after-commit hook: Set (PutPart) / Remove (DeletePart)
            CommitSet(S, t)
       [] OTHER -> {}

\* cheap enabledness test of StepRaw (kept equal to StepRaw # {} by invariant InvCanStep)
CanStep(S, t) ==
  \/ S.pc[t] \in {"s.enter", "s.r1", "s.r2", "g.r1", "g.r2", "inner"}
  \/ S.pc[t] = "evict" /\ (S.hd[t] # -2 \/ S.mu = "free")
  \/ S.pc[t] = "s.exit" /\ (S.hd[t] = -2 \/ PreStore(S.op[t]) \/ S.mu = "free")
  \/ S.pc[t] = "commit" /\ S.mu = "free"

\* ------------------------------------------------- bookkeeping after every step
\* inodes nobody refers to are forgotten (keeps the state space small)
Refd(S) == {S.file[k] : k \in Keys} \cup
           {S.hd[t] : t \in {u \in Threads : S.pc[u] \in {"s.r1", "s.r2", "g.r1", "g.r2"}}}
RECURSIVE Trim(_, _)
Trim(ino, refd) == IF Len(ino) > 0 /\ Len(ino) \notin refd THEN Trim(SubSeq(ino, 1, Len(ino) - 1), refd) ELSE ino
Norm(S) == LET refd == Refd(S)
               cl == [i \in 1..Len(S.ino) |-> IF i \in refd THEN S.ino[i] ELSE <<>>]
           IN [S EXCEPT !.ino = Trim(cl, refd)]

\* Ground truth for PartCacheExact.  During a GetPart(id) call: was id ever absent in the inner store (sawA), and
\* which values may id have had in SOME linearisation of the calls (sawV)?  A PutPart / DeletePart counts as
\* complete only when its cache update (after-commit hook) ran, so while it is in flight both the value it
\* replaces (old) and its own value are possible; absV[id] keeps the values that remain possible because writes of
\* the id overlapped (ovl) and may be ordered either way - deliberately permissive, never stricter than
\* linearisability.
WritesInFlight(S, id) == {w \in Threads : IsWrite(S.op[w]) /\ S.op[w].k = id /\ S.pc[w] \notin {"idle", "done"}}
MayVals(S, id) == ({S.inner[id]} \cup S.absV[id] \cup {S.old[w] : w \in WritesInFlight(S, id)}) \ {""}
GhostUpd(S0, t, S1) ==
  LET k == S1.op[t].k
      begins == S0.pc[t] \in {"idle", "done"} /\ IsWrite(S1.op[t])
      ends == IsWrite(S1.op[t]) /\ S1.pc[t] = "done" /\ (S0.pc[t] \notin {"idle", "done"} \/ begins)
      others == WritesInFlight(S0, k) \ {t}
      o1 == IF begins THEN [u \in Threads |-> IF u = t THEN others # {} ELSE IF u \in others THEN TRUE ELSE S1.ovl[u]]
            ELSE S1.ovl
      a1 == IF begins /\ IsPut(S1.op[t]) THEN [S1.absV EXCEPT ![k] = S1.absV[k] \cup {S1.op[t].v}] ELSE S1.absV
      stillPuts == {S1.op[w].v : w \in {x \in others : IsPut(S1.op[x])}}
      a2 == IF ~ends THEN a1
            ELSE IF IsPut(S1.op[t]) THEN [a1 EXCEPT ![k] = IF o1[t] THEN a1[k] ELSE {S1.op[t].v}]
            ELSE [a1 EXCEPT ![k] = stillPuts]
  IN IF ends THEN [S1 EXCEPT !.ovl = [o1 EXCEPT ![t] = FALSE], !.old[t] = "", !.absV = a2]
     ELSE [S1 EXCEPT !.ovl = o1, !.absV = a2]
SawUpd(S0, t, S1) ==
  LET inflight0(u) == S0.op[u].kind = "pget" /\ S0.pc[u] \notin {"idle", "done"}
      begins(u) == u = t /\ S0.pc[t] \in {"idle", "done"} /\ S1.op[t].kind = "pget"
  IN [S1 EXCEPT
       !.sawA = [u \in Threads |->
                   IF begins(u) THEN S0.inner[S1.op[u].k] = "" \/ S1.inner[S1.op[u].k] = ""
                   ELSE IF inflight0(u) THEN S0.sawA[u] \/ S1.inner[S1.op[u].k] = "" ELSE S1.sawA[u]],
       !.sawV = [u \in Threads |->
                   IF begins(u) THEN MayVals(S0, S1.op[u].k) \cup MayVals(S1, S1.op[u].k)
                   ELSE IF inflight0(u) THEN S0.sawV[u] \cup MayVals(S1, S1.op[u].k) ELSE S1.sawV[u]]]

Post(S0, t, S1) ==
  LET g == IF IsWrite(S1.op[t]) THEN GhostUpd(S0, t, S1) ELSE S1
      a == IF \E u \in Threads : g.op[u].kind = "pget" THEN SawUpd(S0, t, g) ELSE g
  IN IF Len(a.ino) = 0 THEN a ELSE Norm(a)
BeginSet(S, t, o) == {Post(S, t, S1) : S1 \in BeginRaw(S, t, o)}
StepSet(S, t) == {Post(S, t, S1) : S1 \in StepRaw(S, t)}

CacheOps == [kind : {"cset", "csets"}, k : Keys, v : Vals] \cup [kind : {"cget", "crem"}, k : Keys, v : {""}]
PartOps == [kind : {"pput", "pputi"}, k : Keys, v : {PV, PB}] \cup [kind : {"pget", "pdel"}, k : Keys, v : {PV}]

\* ------------------------------------------------------------------ properties
\* "returns only values from completed Set calls for that key": the bytes returned by Get(k) are the
\* complete argument of a Set(k, .) whose store had completed (fully written) when the bytes were read
GetOK(S, t) ==
  \/ S.res[t].st = "miss"
  \/ S.res[t].st = "hit" /\ \E v \in S.stored[S.op[t].k] : S.res[t].chunks = ValChunks(S.op[t].k, v)
GetReturnsCompletedSet(S) == \A t \in Threads : (S.pc[t] = "done" /\ S.op[t].kind = "cget") => GetOK(S, t)

\* cachePartStore.GetPart(id) in {bytes stored under id, not-found}: never partial, never another id's
\* bytes; not-found only if id was absent at some moment of the call; bytes only if they are a value id may have
\* had at some moment of the call (never the bytes of a deleted or overwritten part afterwards)
PartGetValue(S, t) == IF S.res[t].st # "hit" THEN ""
                      ELSE IF S.res[t].chunks = PartChunks(S.op[t].k, PV) THEN PV
                      ELSE IF S.res[t].chunks = PartChunks(S.op[t].k, PB) THEN PB ELSE ""
PartGetWhole(S, t) == PartGetValue(S, t) # ""
PartGetExact(S, t) == S.res[t].st = "notfound" \/ PartGetWhole(S, t)                 \* never partial / foreign
PartGetFresh(S, t) == /\ S.res[t].st = "notfound" => S.sawA[t]
                      /\ PartGetWhole(S, t) => PartGetValue(S, t) \in S.sawV[t]      \* never stale
PartGetOK(S, t) == PartGetExact(S, t) /\ PartGetFresh(S, t)
PartDone(S, t) == S.pc[t] = "done" /\ S.op[t].kind = "pget"
PartCacheExact(S) == \A t \in Threads : PartDone(S, t) => PartGetOK(S, t)

NoPanic(S) == ~S.panicked
NoUnsyncedMapAccess(S) == ~S.unsync

\* --------------------------------------------------------------- model checking
CONSTANTS Level, Persistors, LimitKind, LimitN, MaxOps,
          PartVals      \* part values written by PutPart in model checking (subset of {PV, PB})
VARIABLE S

\* (the inline PutPart "pputi" is PutPart + commit without a gate in between: a sub-behaviour of "pput")
Ops == IF Level = "cache" THEN CacheOps
       ELSE [kind : {"pput"}, k : Keys, v : PartVals] \cup [kind : {"pget", "pdel"}, k : Keys, v : {PV}]
Init == \E p \in Persistors : \E P \in (IF Level = "part" THEN SUBSET Keys ELSE {{}}) :
          S = InitState([pers |-> p, lk |-> LimitKind, ln |-> LimitN], P)
Next == \E t \in Threads :
          \/ \E S2 \in StepSet(S, t) : S' = S2
          \/ S.nops[t] < MaxOps /\ \E o \in Ops : \E S2 \in BeginSet(S, t, o) : S' = S2
Spec == Init /\ [][Next]_S

Sym == Permutations(Threads) \cup Permutations(Keys) \cup Permutations(Vals)
SymT == Permutations(Threads)

InvGet == GetReturnsCompletedSet(S)
InvPart == PartCacheExact(S)
InvPartWhole == \A t \in Threads : PartDone(S, t) => PartGetExact(S, t)
InvPartFresh == \A t \in Threads : PartDone(S, t) => PartGetFresh(S, t)
InvNoPanic == NoPanic(S)
InvNoUnsync == NoUnsyncedMapAccess(S)
InvCanStep == \A t \in Threads : CanStep(S, t) <=> (StepSet(S, t) # {})
=============================================================================
