----------------------------- MODULE ECReadGen -----------------------------
(* GEN: print the dimension sets of the case space of ECRead.tla (one line).   *)
(* The pipeline composes cases from them (seeded sampling or full products:    *)
(* sampling policy only, no expectations); ECReadTrace re-checks ValidCase on  *)
(* every executed case.                                                        *)
EXTENDS ECRead, Json
Dims == [configs |-> {[D |-> cf[1], P |-> cf[2],
                       lens |-> {[L |-> L, K |-> NumStripes(cf[1], L), alt |-> AltLens(cf[1], L),
                                  opts |-> FaultOpts(cf[1], L)] : L \in Lens(cf[1])}] : cf \in Configs},
         trunckinds |-> TruncKinds, repkinds |-> RepKinds]
ASSUME PrintT(ToJson(Dims))
=============================================================================
