------------------------- MODULE StorageOutboxTrace -------------------------
(***************************************************************************)
(* TV for C21 / C07(outbox): validates the ndjson log of                   *)
(* harness/cmd/storageoutbox (forced schedules on the REAL outbox storage  *)
(* over a real inner MetadataPartStorage) against StorageOutbox.tla.       *)
(* Every logged step is one action of the specification with the logged    *)
(* arguments; the logged observations (inner versioning status read by     *)
(* Route, snapshot / poll results of the drain wait, sequence number of    *)
(* the stored / claimed / replayed / finalized entry, results of the       *)
(* inner calls and of the client calls, the queue table after every step,  *)
(* the projection of the inner storage after every inner write and at      *)
(* quiescence) must equal the model's.  The model runs with Deviations =   *)
(* the OPEN findings: a step it cannot explain is new behaviour.  The      *)
(* property (read-your-writes at every read, convergence at quiescence,    *)
(* soundness of synchronous preconditions) is evaluated on the validated   *)
(* behaviour; a failure is reported with the deviation tags taken so far   *)
(* in that schedule (none = an unexplained violation).                     *)
(***************************************************************************)
EXTENDS StorageOutbox, Json, IOUtils

Trace == ndJsonDeserialize(IOEnv.TRACE_FILE)

VARIABLES l,     \* next trace line
          due,   \* clients whose call has finished in the model and whose Return line is due
          prog   \* schedule id

tvars == <<vars, l, due, prog>>

\* The projection of a Pithos state in the shape pdrv.Interp.Views logs it.  These operators are a
\* verbatim copy of the projection in PithosTrace.tla (MViews / LViews / FlagsOK); they are copied
\* instead of instantiated because PithosTrace keeps gaining constants this module does not have.
BlobSize == [c0 |-> 0, c1 |-> 1, c2 |-> 3, c3 |-> 1000, c4 |-> 70000, c5 |-> 300001]
RECURSIVE SizeOf(_)
SizeOf(content) == IF content = <<>> THEN 0 ELSE BlobSize[Head(content)] + SizeOf(Tail(content))
NonEmpty(content) == SelectSeq(content, LAMBDA c : BlobSize[c] > 0)
MVersion(v) == [vid |-> v.vid, dm |-> v.dm, latest |-> v.latest,
                content |-> IF v.dm THEN <<>> ELSE NonEmpty(Flat(v.parts)),
                ctype |-> IF v.dm THEN None ELSE v.ctype,
                meta |-> IF v.dm THEN EmptyMeta ELSE v.meta,
                tags |-> IF v.dm THEN None ELSE v.tags,
                class |-> IF v.dm THEN "STANDARD" ELSE v.class]
MKey(St, b, k) ==
  LET vs == St.objs[b][k] IN
  [k |-> k,
   cur |-> CurView(St, b, k),
   curvid |-> IF HasCurrent(vs) THEN Current(vs).vid ELSE -1,
   versions |-> SetToSortSeq({MVersion(vs[i]) : i \in 1..Len(vs)}, LAMBDA x, y : x.vid < y.vid)]
MUploads(St, b) ==
  LET mine == SelectSeq(St.ups, LAMBDA u : u.b = b) IN
  [i \in 1..Len(mine) |-> [uid |-> mine[i].uid, k |-> mine[i].k,
                           parts |-> [j \in 1..Len(mine[i].parts) |->
                                        [n |-> mine[i].parts[j].n, size |-> SizeOf(mine[i].parts[j].c)]]]]
BucketOrder == <<"b1", "b2">>
KeySeq == <<"k1", "k2">>
MListed(St, b) == SelectSeq(KeySeq, LAMBDA k : HasCurrent(St.objs[b][k]))
MBucket(St, b) ==
  IF St.bver[b] = "Absent" THEN [b |-> b, ver |-> "Absent", keys |-> <<>>, ups |-> <<>>, listed |-> <<>>]
  ELSE [b |-> b, ver |-> St.bver[b],
        keys |-> [i \in 1..Len(KeySeq) |-> MKey(St, b, KeySeq[i])],
        ups |-> MUploads(St, b),
        listed |-> MListed(St, b)]
LVersion(v) == [vid |-> v.vid, dm |-> v.dm, latest |-> v.latest, content |-> v.content, ctype |-> v.ctype,
                meta |-> [sys |-> v.meta.sys, user |-> v.meta.user, redir |-> v.meta.redir],
                tags |-> v.tags, class |-> v.class]
LKey(kv) == [k |-> kv.k, cur |-> kv.cur, curvid |-> kv.curvid,
             versions |-> [i \in 1..Len(kv.versions) |-> LVersion(kv.versions[i])]]
LUploads(us) == [i \in 1..Len(us) |-> [uid |-> us[i].uid, k |-> us[i].k,
                   parts |-> [j \in 1..Len(us[i].parts) |-> [n |-> us[i].parts[j].n, size |-> us[i].parts[j].size]]]]
LBucket(bv) == [b |-> bv.b, ver |-> bv.ver,
                keys |-> [i \in 1..Len(bv.keys) |-> LKey(bv.keys[i])],
                ups |-> LUploads(bv.ups), listed |-> bv.listed]
MViews(St) == [i \in 1..Len(BucketOrder) |-> MBucket(St, BucketOrder[i])]
LViews(vs) == [i \in 1..Len(vs) |-> LBucket(vs[i])]
FlagsOK(vs) ==
  \A i \in 1..Len(vs) : \A j \in 1..Len(vs[i].keys) :
     /\ \A n \in 1..Len(vs[i].keys[j].versions) :
          vs[i].keys[j].versions[n].size_ok /\ vs[i].keys[j].versions[n].consistent
     /\ vs[i].keys[j].cur = "Object" => vs[i].keys[j].head_agrees

E == Trace[l]
IsEv(n) == E.ev = n
CallOf(c) == [MkCall(c.op, c.b, c.k, c.blob, c.opt, c.cond, c.exp, c.status) EXCEPT !.u = c.u]
ViewsMatch(views, St) == LViews(views) = MViews(St) /\ FlagsOK(views)

Report(what, c) ==
  PrintT(ToJson([l |-> l, prog |-> prog, what |-> what, p |-> c, taken |-> taken,
                 call |-> IF c \in Clients THEN cl[c].call ELSE NoCall]))

TInit == Init /\ l = 1 /\ due = {} /\ prog = 0

TReset ==
  /\ IsEv("Reset")
  /\ inner' = Fresh /\ queue' = <<>> /\ nseq' = 1 /\ accepted' = <<>> /\ virt' = Fresh
  /\ cl' = [c \in Clients |-> IdleRec] /\ wk' = [w \in Workers |-> WIdle]
  /\ cnt' = [ops |-> 0, restarts |-> 0] /\ taken' = {}
  /\ due' = {} /\ prog' = E.prog /\ l' = l + 1

TInvoke ==
  /\ IsEv("Invoke") /\ E.p \in Clients /\ E.p \notin due
  /\ CallOf(E.call) \in Calls
  /\ Invoke(E.p, CallOf(E.call))
  /\ UNCHANGED <<due, prog>> /\ l' = l + 1

TRoute ==
  /\ IsEv("Route") /\ E.p \in Clients
  /\ Route(E.p)
  /\ E.ver = inner.bver[cl[E.p].call.b]
  /\ UNCHANGED <<due, prog>> /\ l' = l + 1

TEnqueue ==
  /\ IsEv("Enqueue") /\ E.p \in Clients
  /\ Enqueue(E.p)
  /\ LET e == EntryOf(cl[E.p].call, nseq) IN
     E.eseq = e.seq /\ E.op = e.op /\ E.b = e.b /\ E.k = e.k
  /\ due' = due \cup {E.p} /\ prog' = prog /\ l' = l + 1

TDrainStart ==
  /\ IsEv("DrainStart") /\ E.p \in Clients
  /\ DrainStart(E.p)
  /\ LET sc == ScopeOf(cl[E.p].call) IN E.scope = sc.kind /\ E.b = sc.b /\ E.k = sc.k
  /\ E.last = cl'[E.p].last
  /\ UNCHANGED <<due, prog>> /\ l' = l + 1

\* one poll of the wait loop.  The code leaves the loop iff the oldest matching entry is newer
\* than the snapshot (or none is left); otherwise it sleeps and polls again.
TDrainPoll ==
  /\ IsEv("DrainPoll") /\ E.p \in Clients /\ cl[E.p].pc = "poll"
  /\ LET m == MatchSeqs(ScopeOf(cl[E.p].call)) IN
     /\ E.scope = ScopeOf(cl[E.p].call).kind
     /\ E.first = IF m = {} THEN 0 ELSE Min(m)
  /\ IF CodeDone(E.p)
     THEN DrainPoll(E.p)       \* not enabled if the model of the code still has to wait: mismatch
     ELSE UNCHANGED vars
  /\ UNCHANGED <<due, prog>> /\ l' = l + 1

ReportRead(c) == IF cl[c].ryw /\ ~cl'[c].ryw THEN Report("ReadYourWrites", c) ELSE TRUE
ReportCond(c) == IF cl[c].condok /\ ~cl'[c].condok THEN Report("CondSound", c) ELSE TRUE

TInner ==
  /\ IsEv("Inner") /\ E.p \in Clients
  /\ Inner(E.p)
  /\ E.op = cl[E.p].call.op
  /\ LET op == cl[E.p].call.op IN
     IF op \in OpaqueReads THEN TRUE
     ELSE IF op = "GetObjectTagging" THEN (E.err = "") = (cl'[E.p].res.err = "")
     ELSE E.err = cl'[E.p].res.err
  /\ IsWrite(cl[E.p].call) => ViewsMatch(E.views, inner')
  /\ ReportRead(E.p) /\ ReportCond(E.p)
  /\ due' = due \cup {E.p} /\ prog' = prog /\ l' = l + 1

\* the logged answer of a read against the model's
VersionsOf(vs) == {[k |-> vs[i].k, vid |-> vs[i].vid, dm |-> vs[i].dm, latest |-> vs[i].latest] : i \in 1..Len(vs)}
ReadAgrees(call, r) ==
  /\ call.op \notin OpaqueReads => (E.err = "") = (r.err = "")
  /\ call.op \notin OpaqueReads \cup {"GetObjectTagging"} => E.err = r.err
  /\ (r.err = "" /\ call.op = "GetObject") => (E.content = r.v[1].content /\ E.objvid = r.v[1].vid)
  /\ (r.err = "" /\ call.op = "HeadObject") => (E.objvid = r.v[1].vid /\ E.etagblob = r.v[1].blob)
  /\ (r.err = "" /\ call.op = "GetObjectTagging") => E.tags = r.v[1]
  /\ (r.err = "" /\ call.op = "ListObjects") => ToSet(E.keys) = r.v[1]
  /\ (r.err = "" /\ call.op = "ListObjectVersions") => VersionsOf(E.versions) = r.v[1]
  /\ (r.err = "" /\ call.op = "GetVersioning") => E.ver = r.v[1]
  /\ (r.err = "" /\ call.op = "ListBuckets") => ToSet(E.buckets) = r.v[1]

TReturn ==
  /\ IsEv("Return") /\ E.p \in due
  /\ LET c == E.p
         call == cl[c].call
         r == cl[c].res IN
     /\ cl[c].pc = "idle" /\ E.op = call.op
     /\ IF IsRead(call) THEN ReadAgrees(call, r) ELSE E.err = r.err
     /\ (r.err = "" /\ r.v # <<>> /\ call.op = "CreateUpload") => E.uid = r.v[1].uid
     /\ (r.err = "" /\ r.v # <<>> /\ call.op = "CompleteUpload") => E.vid = r.v[1].vid
     /\ (r.err = "" /\ r.v # <<>> /\ call.op = "PutObject") => E.vid = r.v[1].vid
     /\ (r.err = "" /\ r.v # <<>> /\ call.op = "DeleteObject") => (E.vid = r.v[1].vid /\ E.dm = r.v[1].dm)
  /\ due' = due \ {E.p}
  /\ UNCHANGED <<vars, prog>> /\ l' = l + 1

\* a pass that claims nothing: the queue is empty, the worker is busy, or the OLDEST entry is held
TClaim ==
  /\ IsEv("Claim") /\ E.p \in Workers
  /\ IF E.claimed
     THEN Claim(E.p) /\ E.eseq = wk'[E.p].seq
     ELSE /\ ~(wk[E.p].pc = "idle" /\ queue # <<>> /\ queue[1].owner = "")
          /\ UNCHANGED vars
  /\ UNCHANGED <<due, prog>> /\ l' = l + 1

TReplay ==
  /\ IsEv("Replay") /\ E.p \in Workers
  /\ Replay(E.p)
  /\ LET e == queue[QIdx(wk[E.p].seq)] IN
     E.eseq = e.seq /\ E.op = e.op /\ E.err = ApplyEntry(inner, e).r.err
  /\ ViewsMatch(E.views, inner')
  /\ UNCHANGED <<due, prog>> /\ l' = l + 1

TFinalize ==
  /\ IsEv("Finalize") /\ E.p \in Workers /\ E.deleted /\ E.eseq = wk[E.p].seq
  /\ Finalize(E.p)
  /\ UNCHANGED <<due, prog>> /\ l' = l + 1

TRelease ==
  /\ IsEv("Release") /\ E.p \in Workers /\ E.released /\ E.eseq = wk[E.p].seq
  /\ Release(E.p)
  /\ UNCHANGED <<due, prog>> /\ l' = l + 1

\* the queue table after the step
QSeqs == [i \in 1..Len(queue) |-> queue[i].seq]
QClaimed == SelectSeq(QSeqs, LAMBDA s : queue[QIdx(s)].owner # "")
TStepEnd ==
  /\ IsEv("StepEnd")
  /\ E.q = QSeqs /\ E.claimed = QClaimed
  /\ UNCHANGED <<vars, due, prog>> /\ l' = l + 1

\* quiescence: every call returned, queue empty, worker idle.  Conformance: the inner storage is
\* the model's; property: it is the fold of the accepted writes.
TQuiesce ==
  /\ IsEv("Quiesce")
  /\ Drained /\ due = {} /\ \A c \in Clients : cl[c].pc = "idle"
  /\ E.q = <<>>
  /\ ViewsMatch(E.views, inner)
  /\ IF Proj(inner) # Proj(virt) THEN Report("Converges", "") ELSE TRUE
  /\ UNCHANGED <<vars, due, prog>> /\ l' = l + 1

\* the driver gave the schedule up (an entry that fails on every replay blocks the queue, or a
\* step of the schedule was not possible); the next line starts a new schedule
TSkip ==
  /\ IsEv("Abort") \/ IsEv("Infeasible")
  /\ UNCHANGED <<vars, due, prog>> /\ l' = l + 1

\* ---- the undecorated counterpart (driver mode -free): the calls of a schedule issued one after the
\* other by ONE client against the outbox storage built without any decorator, the worker running on
\* its own.  With one client nothing can overtake anything, so every result must be the result on the
\* fold of the accepted writes and the drained inner storage must be that fold.
TFReset ==
  /\ IsEv("FReset")
  /\ virt' = Fresh /\ accepted' = <<>> /\ prog' = E.prog /\ l' = l + 1
  /\ UNCHANGED <<inner, queue, nseq, cl, wk, cnt, taken, due>>

FResOK(call, r) == ReadAgrees(call, r)
TFCall ==
  /\ IsEv("FCall") /\ CallOf(E.call) \in Calls
  /\ LET call == BindUpload(virt, CallOf(E.call)) IN
     IF IsRead(call)
     THEN FResOK(call, ReadOn(virt, call)) /\ UNCHANGED <<virt, accepted>>
     ELSE \E a \in {ApplyW(virt, call, PCond(virt, call))} :
            /\ E.err = a.r.err
            \* a queued put / delete is acknowledged without a version id
            /\ (a.r.err = "" /\ call.op = "PutObject" /\ (call.cond # "none" \/ virt.bver[call.b] = "Enabled")) => E.vid = a.r.vid
            /\ (a.r.err = "" /\ call.op = "DeleteObject" /\ (call.cond # "none" \/ virt.bver[call.b] \in {"Enabled", "Suspended"}))
                  => (E.vid = a.r.vid /\ E.dm = a.r.dm)
            /\ (a.r.err = "" /\ call.op = "CreateUpload") => E.uid = a.r.uid
            /\ (a.r.err = "" /\ call.op = "CompleteUpload") => E.vid = a.r.vid
            /\ virt' = a.s
            /\ accepted' = IF a.r.err = "" THEN Append(accepted, [call |-> call, seq |-> 0]) ELSE accepted
  /\ UNCHANGED <<inner, queue, nseq, cl, wk, cnt, taken, due, prog>> /\ l' = l + 1

TFQuiesce ==
  /\ IsEv("FQuiesce")
  /\ ViewsMatch(E.views, virt)
  /\ UNCHANGED <<vars, due, prog>> /\ l' = l + 1

TNext == /\ l <= Len(Trace)
         /\ \/ TReset \/ TInvoke \/ TRoute \/ TEnqueue \/ TDrainStart \/ TDrainPoll \/ TInner \/ TReturn
            \/ TClaim \/ TReplay \/ TFinalize \/ TRelease \/ TStepEnd \/ TQuiesce \/ TSkip
            \/ TFReset \/ TFCall \/ TFQuiesce

\* sanity of the validated behaviour (never expected to fail; guards the trace spec itself)
TSane == QueueOrdered
=============================================================================
