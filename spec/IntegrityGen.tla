---------------------------- MODULE IntegrityGen ----------------------------
(* GEN for C39: a random walk over PithosMC (TLC -simulate, PithosGen's state-aware  *)
(* argument choice) builds a storage state; at GenDepth calls the program is printed *)
(* together with NCases corruption cases per stack chosen over the PHYSICAL PARTS of *)
(* the model state reached: each part of AllParts(S, stack) is damaged with probability *)
(* CorrNum/CorrDen by a random applicable kind; the first case of every program      *)
(* damages exactly one part (so sharers and non-sharers are told apart), the second  *)
(* damages nothing (no intact object may be reported).  No expected results.         *)
EXTENDS Integrity, PithosGen

CONSTANTS NCases, CorrNum, CorrDen

RandCorr(St, stack) ==
  LET P == AllParts(St, stack)
      Q == {p \in P : RandomElement(1..CorrDen) <= CorrNum}
  IN {[store |-> p.store, c |-> p.c, kind |-> RandomElement(KindsFor(p))] : p \in Q}
OneCorr(St, stack) ==
  LET P == AllParts(St, stack) IN
  IF P = {} THEN {}
  ELSE LET p == RandomElement(P) IN {[store |-> p.store, c |-> p.c, kind |-> RandomElement(KindsFor(p))]}
CaseAt(St, stack, i) ==
  [corr |-> SetToSeq(IF i = 1 THEN OneCorr(St, stack) ELSE IF i = 2 THEN {} ELSE RandCorr(St, stack)),
   del |-> IF i <= 2 THEN i = 1 ELSE RandomElement(BOOLEAN)]
CasesFor(St, stack) == [i \in 1..NCases |-> CaseAt(St, stack, i)]

\* operation weights of the state-building walk: writes that create part structures dominate
IOpW == <<"CreateBucket", "PutVersioning", "PutObject", "PutObject", "PutObject", "PutObject", "DeleteObject",
          "CopyObject", "CopyObject", "AppendObject", "AppendObject", "AppendObject", "CreateUpload", "CreateUpload",
          "UploadPart", "UploadPart", "UploadPart", "UploadPartCopy", "CompleteUpload", "CompleteUpload", "Transition">>
IOpWSel == SelectSeq(IOpW, LAMBDA o : o \in Ops)
IGenNext == Step(RandCall(RW(IOpWSel), S))

IEmit == IF Len(hist) = GenDepth
         THEN PrintT(ToJson([calls |-> hist, cases |-> [fs |-> CasesFor(S, "fs"), classes |-> CasesFor(S, "classes")]]))
         ELSE TRUE
=============================================================================
