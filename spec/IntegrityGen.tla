---------------------------- MODULE IntegrityGen ----------------------------
(* GEN for C39: a random walk over PithosMC (TLC -simulate, state-aware argument      *)
(* choice) builds a storage state; at GenDepth calls the program is printed *)
(* together with NCases corruption cases per stack chosen over the PHYSICAL PARTS of *)
(* the model state reached: each part of AllParts(S, stack) is damaged with probability *)
(* CorrNum/CorrDen by a random applicable kind.  Cases 1-4 of every program are       *)
(* directed: one part (preferably shared by several current objects), nothing, the   *)
(* last part of a multi-part object, a part no current object references.            *)
(* No expected results.                                                              *)
EXTENDS Integrity, Json

CONSTANTS GenDepth, NCases, CorrNum, CorrDen

\* ---------------------------------------------------------------- generator core
\* Self-contained (PithosMC only): random, state-aware argument choice in the style of
\* PithosGen.  Every call is built from a TEMPLATE taken from PithosMC's own alphabet
\* Calls(..) for that operation, so it always has exactly the fields Apply expects; the fields
\* named here are overridden, any other field keeps a value the configuration allows.
R(s) == RandomElement(s)
RW(q) == q[RandomElement(1..Len(q))]     \* weighted choice: q lists values with multiplicity
GenFresh == InitState(Buckets, Keys, Deviations)
TemplateOf(op) == IF \E x \in Calls(GenFresh) : x.op = op
                  THEN CHOOSE x \in {y \in Calls(GenFresh) : y.op = op} : TRUE ELSE [op |-> op]
\* constants: evaluated once
TCreateBucket == TemplateOf("CreateBucket")
TPutVersioning == TemplateOf("PutVersioning")
TPutObject == TemplateOf("PutObject")
TDeleteObject == TemplateOf("DeleteObject")
TCopyObject == TemplateOf("CopyObject")
TAppendObject == TemplateOf("AppendObject")
TCreateUpload == TemplateOf("CreateUpload")
TUploadPart == TemplateOf("UploadPart")
TUploadPartCopy == TemplateOf("UploadPartCopy")
TCompleteUpload == TemplateOf("CompleteUpload")
TPutTagging == TemplateOf("PutTagging")
TTransition == TemplateOf("Transition")

\* state-aware pickers: mostly hit things that exist, sometimes things that do not
Live(St) == {b \in Buckets : St.bver[b] # "Absent"}
PB(St) == IF Live(St) # {} /\ R(1..10) # 1 THEN R(Live(St)) ELSE R(Buckets)
KeysWith(St, b) == {k \in Keys : St.objs[b][k] # <<>>}
PK(St, b) == IF KeysWith(St, b) # {} /\ R(1..4) # 1 THEN R(KeysWith(St, b)) ELSE R(Keys)
PV(St, b, k) ==
  LET vs == St.objs[b][k] IN
  IF R(1..5) <= 2 THEN -1
  ELSE IF vs # <<>> /\ R(1..8) # 1 THEN vs[R(1..Len(vs))].vid
  ELSE R(0..St.nv)
PU(St) == IF St.ups # <<>> /\ R(1..8) # 1 THEN St.ups[R(1..Len(St.ups))].uid ELSE R(Uids(St))

RandCall(op, St) ==
  LET b == PB(St)
      k == PK(St, b)
      sb == PB(St)
      sk == PK(St, sb)
      u == PU(St)
      ub == IF UpIdx(St, u) # 0 /\ R(1..8) # 1 THEN St.ups[UpIdx(St, u)].b ELSE b
      uk == IF UpIdx(St, u) # 0 /\ R(1..8) # 1 THEN St.ups[UpIdx(St, u)].k ELSE k
  IN
  CASE op = "CreateBucket"   -> [TCreateBucket EXCEPT !.b = R(Buckets)]
    [] op = "PutVersioning"  -> [TPutVersioning EXCEPT !.b = b, !.status = R({"Enabled", "Suspended"})]
    [] op = "PutObject"      -> [TPutObject EXCEPT !.b = b, !.k = R(Keys), !.blob = R(Blobs), !.ctype = R(CTypes),
                                                   !.meta = R(MetaSets), !.tags = R(TagSets), !.class = R(Classes), !.cond = "none"]
    [] op = "DeleteObject"   -> [TDeleteObject EXCEPT !.b = b, !.k = k, !.vid = PV(St, b, k), !.cond = "none"]
    [] op = "CopyObject"     -> [TCopyObject EXCEPT !.sb = sb, !.sk = sk, !.svid = PV(St, sb, sk), !.b = b, !.k = R(Keys),
                                                    !.mdir = R({"COPY", "REPLACE"}), !.tdir = R({"COPY", "REPLACE"}),
                                                    !.ctype = R(CTypes), !.meta = R(MetaSets), !.tags = R(TagSets), !.class = R(Classes)]
    [] op = "AppendObject"   -> [TAppendObject EXCEPT !.b = b, !.k = k, !.blob = R(Blobs),
                                                      !.off = RW(<<"none", "none", "none", "match", "match", "mismatch">>)]
    [] op = "CreateUpload"   -> [TCreateUpload EXCEPT !.b = b, !.k = R(Keys), !.ctype = R(CTypes), !.meta = R(MetaSets),
                                                      !.tags = R(TagSets), !.class = R(Classes)]
    [] op = "UploadPart"     -> [TUploadPart EXCEPT !.b = ub, !.k = uk, !.u = u, !.n = R(1..MaxParts), !.blob = R(Blobs)]
    [] op = "UploadPartCopy" -> [TUploadPartCopy EXCEPT !.sb = sb, !.sk = sk, !.svid = PV(St, sb, sk), !.b = ub, !.k = uk,
                                                        !.u = u, !.n = R(1..MaxParts)]
    [] op = "CompleteUpload" -> [TCompleteUpload EXCEPT !.b = ub, !.k = uk, !.u = u, !.cond = "none",
                                   !.manifest = RW(<<"none", "none", "all", "all", "all", "all", "missing", "reversed", "badetag", "extra">>)]
    [] op = "PutTagging"     -> [TPutTagging EXCEPT !.b = b, !.k = k, !.vid = PV(St, b, k), !.tags = R(TagSets)]
    [] op = "Transition"     -> [TTransition EXCEPT !.b = b, !.k = k, !.vid = PV(St, b, k), !.class = R(Classes \ {None}),
                                                    !.cond = "none"]

First == [TCreateBucket EXCEPT !.b = "b1"]
GenInit == /\ S = Apply(GenFresh, First).s
           /\ res = NoRes
           /\ hist = <<First>>
Succeeds(c) == Apply(S, c).r.err = ""
\* ------------------------------------------------------------ end of generator core

RandCorr(St, stack) ==
  LET P == AllParts(St, stack)
      Q == {p \in P : RandomElement(1..CorrDen) <= CorrNum}
  IN {[store |-> p.store, c |-> p.c, kind |-> RandomElement(KindsFor(p))] : p \in Q}
\* one damaged part, chosen where it tells most: a part shared by two or more current objects
\* if there is one, else a part of a current object, else any part (noncurrent / pending upload)
Sharers(St, stack, p) == {o \in Cur(St) : p \in PartRefs(stack, CurV(St, o))}
OneCorr(St, stack) ==
  LET P == AllParts(St, stack)
      P2 == {p \in P : Cardinality(Sharers(St, stack, p)) >= 2}
      P1 == {p \in P : Sharers(St, stack, p) # {}}
      T == IF P2 # {} /\ RandomElement(1..4) # 1 THEN P2 ELSE IF P1 # {} THEN P1 ELSE P IN
  IF P = {} THEN {}
  ELSE LET p == RandomElement(T) IN {[store |-> p.store, c |-> p.c, kind |-> RandomElement(KindsFor(p))]}
\* the LAST part of a current object with two or more parts (a validator that stops early,
\* or looks at the first part only, misses it)
TailCorr(St, stack) ==
  LET M2 == {o \in Cur(St) : Len(CurV(St, o).parts) >= 2}
      M == {o \in M2 : \A q \in M2 : Len(CurV(St, q).parts) <= Len(CurV(St, o).parts)} IN
  IF M = {} THEN OneCorr(St, stack)
  ELSE LET o == RandomElement(M)
           p == PartRef(stack, CurV(St, o), Len(CurV(St, o).parts))
       IN {[store |-> p.store, c |-> p.c, kind |-> RandomElement(KindsFor(p))]}
\* a part that NO current object references (noncurrent version, pending upload): nothing may be reported
HiddenCorr(St, stack) ==
  LET H == {p \in AllParts(St, stack) : Sharers(St, stack, p) = {}} IN
  IF H = {} THEN RandCorr(St, stack)
  ELSE LET p == RandomElement(H) IN {[store |-> p.store, c |-> p.c, kind |-> RandomElement(KindsFor(p))]}
CaseAt(St, stack, i) ==
  [corr |-> SetToSeq(CASE i = 1 -> OneCorr(St, stack) [] i = 2 -> {} [] i = 3 -> TailCorr(St, stack)
                       [] i = 4 -> HiddenCorr(St, stack) [] OTHER -> RandCorr(St, stack)),
   del |-> IF i <= 2 THEN i = 1 ELSE RandomElement(BOOLEAN)]
CasesFor(St, stack) == [i \in 1..NCases |-> CaseAt(St, stack, i)]

\* operation weights of the state-building walk: writes that create part structures dominate
IOpW == <<"CreateBucket", "PutVersioning", "PutVersioning", "PutObject", "PutObject", "PutObject", "PutObject", "DeleteObject",
          "CopyObject", "CopyObject", "AppendObject", "AppendObject", "AppendObject", "CreateUpload", "CreateUpload",
          "UploadPart", "UploadPart", "UploadPart", "UploadPartCopy", "CompleteUpload", "CompleteUpload", "Transition">>
IOpWSel == SelectSeq(IOpW, LAMBDA o : o \in Ops)
\* Directed steps (one draw in three): finish what makes multi-part objects - complete an upload
\* that has parts, add the next part to a pending upload, append to an existing object.
UpsWithParts(St) == {i \in 1..Len(St.ups) : St.ups[i].parts # <<>> /\ \A j \in 1..Len(St.ups[i].parts) : St.ups[i].parts[j].n = j}
CurObjs(St) == {o \in Buckets \X Keys : Exists(St, o[1]) /\ HasCurrent(St.objs[o[1]][o[2]])}
Directed(St) ==
  LET r == R(1..3) IN
  IF r = 1 /\ UpsWithParts(St) # {} /\ "CompleteUpload" \in Ops
  THEN LET u == St.ups[R(UpsWithParts(St))] IN
       [TCompleteUpload EXCEPT !.b = u.b, !.k = u.k, !.u = u.uid, !.manifest = "all", !.cond = "none"]
  ELSE IF r = 2 /\ St.ups # <<>> /\ "UploadPart" \in Ops
  THEN LET u == St.ups[R(1..Len(St.ups))] IN
       [TUploadPart EXCEPT !.b = u.b, !.k = u.k, !.u = u.uid,
                           !.n = IF Len(u.parts) < MaxParts THEN Len(u.parts) + 1 ELSE MaxParts, !.blob = R(Blobs)]
  ELSE IF CurObjs(St) # {} /\ "AppendObject" \in Ops
  THEN \* to an existing object (one more part) or to any key of its bucket (a fresh key gives a
       \* one-part object with a composite ETag)
       LET o == R(CurObjs(St))
           k == IF R(1..2) = 1 THEN o[2] ELSE R(Keys) IN
       [TAppendObject EXCEPT !.b = o[1], !.k = k, !.blob = R(Blobs), !.off = "none"]
  ELSE RandCall(RW(IOpWSel), St)
\* up to three draws: prefer a call that succeeds in the model (failing calls still occur)
IGenNext == LET c1 == IF R(1..3) = 1 THEN Directed(S) ELSE RandCall(RW(IOpWSel), S)
                c2 == RandCall(RW(IOpWSel), S)
                c3 == RandCall(RW(IOpWSel), S)
            IN Step(IF Succeeds(c1) THEN c1 ELSE IF Succeeds(c2) THEN c2 ELSE c3)

IEmit == IF Len(hist) = GenDepth
         THEN PrintT(ToJson([calls |-> hist, cases |-> [fs |-> CasesFor(S, "fs"), classes |-> CasesFor(S, "classes")]]))
         ELSE TRUE
=============================================================================
