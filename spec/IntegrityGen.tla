---------------------------- MODULE IntegrityGen ----------------------------
(* GEN for C39: a random walk over PithosMC (TLC -simulate, PithosGen's state-aware  *)
(* argument choice) builds a storage state; at GenDepth calls the program is printed *)
(* together with NCases corruption cases chosen over the PHYSICAL PARTS of the       *)
(* model state reached: each part of AllParts(S, Stack) is damaged with probability  *)
(* CorrNum/CorrDen by a random applicable kind; the first case of every program      *)
(* damages exactly one part (so sharers and non-sharers are told apart), the second  *)
(* damages nothing (no intact object may be reported).  No expected results.         *)
EXTENDS Integrity, PithosGen

CONSTANTS Stack, NCases, CorrNum, CorrDen

RandCorr(St) ==
  LET P == AllParts(St, Stack)
      Q == {p \in P : RandomElement(1..CorrDen) <= CorrNum}
  IN {[store |-> p.store, c |-> p.c, kind |-> RandomElement(KindsFor(p))] : p \in Q}
OneCorr(St) ==
  LET P == AllParts(St, Stack) IN
  IF P = {} THEN {}
  ELSE LET p == RandomElement(P) IN {[store |-> p.store, c |-> p.c, kind |-> RandomElement(KindsFor(p))]}
CaseAt(St, i) ==
  [corr |-> SetToSeq(IF i = 1 THEN OneCorr(St) ELSE IF i = 2 THEN {} ELSE RandCorr(St)),
   del |-> RandomElement(BOOLEAN)]

\* operation weights of the state-building walk: writes that create part structures dominate
IOpW == <<"CreateBucket", "PutVersioning", "PutObject", "PutObject", "PutObject", "PutObject", "DeleteObject",
          "CopyObject", "CopyObject", "AppendObject", "AppendObject", "AppendObject", "CreateUpload", "CreateUpload",
          "UploadPart", "UploadPart", "UploadPart", "UploadPartCopy", "CompleteUpload", "CompleteUpload">>
IOpWSel == SelectSeq(IOpW, LAMBDA o : o \in Ops)
IGenNext == Step(RandCall(RW(IOpWSel), S))

IEmit == IF Len(hist) = GenDepth
         THEN PrintT(ToJson([calls |-> hist, cases |-> [i \in 1..NCases |-> CaseAt(S, i)]]))
         ELSE TRUE
=============================================================================
