----------------------------- MODULE SigV4Gen -----------------------------
(* GEN: TLC enumerates (shape, mutation) cases of SigV4.tla and prints them as JSON; the *)
(* harness (harness/cmd/sigv4) executes them on the real middleware.                     *)
(*   Mode = "shapes": every shape, unmutated (C29).                                      *)
(*   Mode = "cases" : the payload-mode shapes with their whole mutation catalogue, and   *)
(*                    every ShapeK-th other shape with every SampleK-th of its mutations *)
(*                    (strides over TLC's value order, phase chosen by Offset = seed),   *)
(*                    plus the unmutated case of every selected shape (C28).             *)
(* Wire / Verdict are not evaluated here (the design check is SigV4.MC.cfg).             *)
EXTENDS SigV4, Json
CONSTANTS Mode, ShapeK, SampleK, Offset
SE == INSTANCE SequencesExt
Stride(S, k, off) == Let1(SE!SetToSeq(S), LAMBDA q : {q[i] : i \in {j \in 1..Len(q) : (j + off) % k = 0}})
ShapeHash(x) == Len(x.key) + 3 * Len(x.query) + 5 * Len(x.meta) + 7 * Len(x.ctype) + (IF x.auth = "presign" THEN 1 ELSE 0)
SelectedShapes == IF Mode = "shapes" THEN Shapes
                  ELSE PayloadShapes \cup Stride(Shapes \ PayloadShapes, ShapeK, Offset)
SelectedMuts(x) == IF x \in PayloadShapes THEN Muts(x) \ {NoMut}
                   ELSE Stride(Muts(x) \ {NoMut}, SampleK, Offset + ShapeHash(x))
GInit == s \in SelectedShapes /\ m = NoMut /\ w0 = <<>> /\ w = <<>> /\ v = <<>>
GNext == /\ Mode = "cases"
         /\ m = NoMut
         /\ m' \in SelectedMuts(s)
         /\ UNCHANGED <<s, w0, w, v>>
Emit == PrintT(ToJson([s |-> s, m |-> m]))
=============================================================================
