----------------------------- MODULE SigV4Gen -----------------------------
(* GEN: TLC enumerates (shape, mutation) cases of SigV4.tla and prints them as JSON; the *)
(* harness (harness/cmd/sigv4) executes them on the real middleware.                     *)
(*   Mode = "shapes": every shape, unmutated (C29).                                      *)
(*   Mode = "cases" : the payload-mode shapes and a 1/ShapeK sample of the other shapes, *)
(*                    each with its whole mutation catalogue; every unmutated case and   *)
(*                    a 1/SampleK sample of the mutated ones are printed (C28).          *)
(* Wire / Verdict are not evaluated here (the design check is SigV4.MC.cfg).             *)
EXTENDS SigV4, Json
CONSTANTS Mode, ShapeK, SampleK
Pick(k) == k = 1 \/ RandomElement(1..k) = 1
GInit == /\ s \in (IF Mode = "shapes" THEN Shapes
                   ELSE PayloadShapes \cup {x \in Shapes \ PayloadShapes : Pick(ShapeK)})
         /\ m = NoMut /\ w0 = <<>> /\ w = <<>> /\ v = <<>>
GNext == /\ Mode = "cases"
         /\ m = NoMut
         /\ m' \in Muts(s) \ {NoMut}
         /\ UNCHANGED <<s, w0, w, v>>
Emit == IF m = NoMut \/ s \in PayloadShapes \/ Pick(SampleK)
        THEN PrintT(ToJson([s |-> s, m |-> m]))
        ELSE TRUE
=============================================================================
