----------------------------- MODULE S3ClientGen -----------------------------
(* GEN for C38: random walks of PithosGen over the whole call alphabet (the same   *)
(* program is executed through the S3 client and directly).                        *)
EXTENDS PithosGen

SOpW == <<"CreateBucket", "DeleteBucket", "PutVersioning", "PutVersioning", "PutObject", "PutObject", "PutObject", "PutObject",
          "GetObject", "GetObject", "DeleteObject", "DeleteObject", "DeleteObject", "CopyObject", "CopyObject", "AppendObject",
          "CreateUpload", "UploadPart", "UploadPart", "UploadPartCopy", "CompleteUpload", "CompleteUpload", "AbortUpload",
          "PutTagging", "PutTagging", "Transition">>
SOpWSel == SelectSeq(SOpW, LAMBDA o : o \in Ops)
SGenNext == GStep(RandCall(RW(SOpWSel), S))

\* ---------------------------------------------------------------- copy-directive cover (BFS)
\* The situations of a successful CopyObject that the S3 translation must keep apart:
\*   tagging directive  x  source tagged / untagged    x  replacement tag set empty / non-empty
\*   metadata directive x  source with / without metadata x  replacement metadata empty / non-empty
\* Breadth-first search over a small alphabet prints the first (shortest) program into each of them;
\* the pipeline always adds a covering selection to the random programs.
CopySit(St, c, r) ==
  IF c.op = "CopyObject" /\ r.err = "" /\ ~(c.sb = c.b /\ c.sk = c.k)
  THEN LET vs == St.objs[c.sb][c.sk]
           sv == IF c.svid = -1 THEN Current(vs) ELSE vs[Idx(vs, c.svid)]
       IN {<<"tags", c.tdir, sv.tags # None, c.tags = None>>, <<"meta", c.mdir, sv.meta.user # None, c.meta = None>>}
  ELSE {}
\* The options of CreateMultipartUpload become visible only when the upload completes: a successful
\* CompleteMultipartUpload of an upload created with / without content type, metadata, tags, storage class.
MpuSit(St, c, r) ==
  IF c.op = "CompleteUpload" /\ r.err = "" /\ UpIdx(St, c.u) # 0
  THEN LET up == St.ups[UpIdx(St, c.u)] IN
       {<<"mpu-ctype", up.ctype # None>>, <<"mpu-meta", up.meta.user # None>>, <<"mpu-tags", up.tags # None>>,
        <<"mpu-class", up.class # "STANDARD">>, <<"mpu-parts", Len(up.parts) > 0>>}
  ELSE {}
\* DeleteObject: key-only / by version id  x  what is targeted (an object version, a delete marker, nothing;
\* for a version id also whether it is the current one)  x  versioning status of the bucket - the result carries
\* the version id removed or created and whether it is a delete marker.
DelSit(St, c, r) ==
  IF c.op = "DeleteObject" /\ r.err = "" /\ St.bver[c.b] # "Absent"
  THEN LET vs == St.objs[c.b][c.k]
           i == IF c.vid = -1 THEN LatestIdx(vs) ELSE Idx(vs, c.vid)
           target == IF i = 0 THEN "missing" ELSE IF vs[i].dm THEN "marker" ELSE "object"
       IN {<<"del", IF c.vid = -1 THEN "key" ELSE "version", target, i # 0 /\ vs[i].latest, St.bver[c.b]>>}
  ELSE {}
CStep(c) == Step(c) /\ sits' = <<CopySit(S, c, Apply(S, c).r) \cup MpuSit(S, c, Apply(S, c).r) \cup DelSit(S, c, Apply(S, c).r)>>
CoverInit == Init /\ sits = <<>> /\ TLCSet(9, {})
CoverNext == S.clock < MaxClock /\ \E c \in Calls(S) : CStep(c)
CopyCover ==
  IF sits = <<>> THEN TRUE
  ELSE LET new == {ToString(x) : x \in sits[1]} \ TLCGet(9) IN
       IF new = {} THEN TRUE
       ELSE TLCSet(9, TLCGet(9) \cup new) /\ PrintT(ToJson([calls |-> hist, keys |-> {ToString(x) : x \in sits[1]}]))
CoverView == <<S, sits>>
=============================================================================
