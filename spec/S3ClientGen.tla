----------------------------- MODULE S3ClientGen -----------------------------
(* GEN for C38: random walks of PithosGen over the whole call alphabet (the same   *)
(* program is executed through the S3 client and directly).                        *)
EXTENDS PithosGen

SOpW == <<"CreateBucket", "DeleteBucket", "PutVersioning", "PutVersioning", "PutObject", "PutObject", "PutObject", "PutObject",
          "GetObject", "GetObject", "DeleteObject", "DeleteObject", "DeleteObject", "CopyObject", "CopyObject", "AppendObject",
          "CreateUpload", "UploadPart", "UploadPart", "UploadPartCopy", "CompleteUpload", "CompleteUpload", "AbortUpload",
          "PutTagging", "PutTagging", "Transition">>
SOpWSel == SelectSeq(SOpW, LAMBDA o : o \in Ops)
SGenNext == GStep(RandCall(RW(SOpWSel), S))
=============================================================================
