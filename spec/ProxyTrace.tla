----------------------------- MODULE ProxyTrace -----------------------------
(* TV: one executed case per ndjson line *)
EXTENDS Proxy, Json, IOUtils
Trace == ndJsonDeserialize(IOEnv.TRACE_FILE)
VARIABLE l
CaseOf(r) == [trust |-> r.trust, cidr |-> r.cidr, peer |-> r.peer, cf |-> r.cf,
              xff |-> r.xff, proto |-> r.proto, base |-> r.base]
Out(r) == [ip |-> r.out_ip, scheme |-> r.out_scheme]
Verdict(r) ==
  LET c == CaseOf(r) IN
  IF c \notin Cases THEN "malformed"
  ELSE IF Out(r) # Resolve(c) THEN "mismatch"
  ELSE IF ~C32Holds(c, Out(r)) THEN "finding"
  ELSE "ok"
Report(i) ==
  LET r == Trace[i]
      v == Verdict(r) IN
  IF v = "ok" THEN TRUE ELSE PrintT(ToJson([l |-> i, verdict |-> v,
                             tag |-> IF v = "finding" THEN "D-C32-all-invalid-cidrs" ELSE "",
                             expected |-> Resolve(CaseOf(r)), got |-> Out(r), case |-> CaseOf(r)]))
TInit == l = 1 /\ case = CHOOSE c \in Cases : TRUE
TNext == l <= Len(Trace) /\ Report(l) /\ l' = l + 1 /\ UNCHANGED case
=============================================================================
