----------------------------- MODULE PithosGen -----------------------------
(* GEN: random walks over PithosMC's transition system; each step picks an    *)
(* operation nondeterministically (TLC's simulator chooses) and its arguments *)
(* with RandomElement.  The history of CALLS (no expected results) is printed *)
(* as JSON when it reaches GenDepth; the harness executes it on real code.    *)
EXTENDS PithosMC, Json

CONSTANTS GenDepth,
          OpBoost,    \* set of operation names whose weight is multiplied (per-family emphasis)
          BoostFactor

VARIABLE sits      \* per call: the abstract SITUATION it met (for coverage-guided selection)

R(s) == RandomElement(s)
RW(q) == q[RandomElement(1..Len(q))]     \* weighted choice: q lists values with multiplicity
CondW == <<"none", "none", "none", "none", "none", "inm", "ifm-cur", "ifm-cur", "ifm-stale", "ifm-star">>
CondOK(c) == IF c \in Conds THEN c ELSE "none"
CkW == <<"none", "none", "none", "none", "none", "md5ok", "md5bad", "crc32ok", "crc32bad", "sha256ok", "sha256bad">>
CkOK(c) == IF c \in CkSums THEN c ELSE "none"

\* state-aware pickers: mostly hit things that exist, sometimes things that do not
Live(St) == {b \in Buckets : St.bver[b] # "Absent"}
PB(St) == IF Live(St) # {} /\ R(1..10) # 1 THEN R(Live(St)) ELSE R(Buckets)
KeysWith(St, b) == {k \in Keys : St.objs[b][k] # <<>>}
PK(St, b) == IF KeysWith(St, b) # {} /\ R(1..4) # 1 THEN R(KeysWith(St, b)) ELSE R(Keys)
PV(St, b, k) ==
  LET vs == St.objs[b][k] IN
  IF R(1..5) <= 2 THEN -1
  ELSE IF vs # <<>> /\ R(1..8) # 1 THEN vs[R(1..Len(vs))].vid
  ELSE R(0..St.nv)
PU(St) == IF St.ups # <<>> /\ R(1..8) # 1 THEN St.ups[R(1..Len(St.ups))].uid ELSE R(Uids(St))

RandCall(op, St) ==
  LET b == PB(St)
      k == PK(St, b)
      sb == PB(St)
      sk == PK(St, sb)
      u == PU(St)
      ub == IF UpIdx(St, u) # 0 /\ R(1..8) # 1 THEN St.ups[UpIdx(St, u)].b ELSE b
      uk == IF UpIdx(St, u) # 0 /\ R(1..8) # 1 THEN St.ups[UpIdx(St, u)].k ELSE k
  IN
  CASE op = "CreateBucket"   -> [op |-> op, b |-> R(Buckets)]
    [] op = "DeleteBucket"   -> [op |-> op, b |-> R(Buckets)]
    [] op = "PutVersioning"  -> [op |-> op, b |-> b, status |-> R({"Enabled", "Suspended"})]
    [] op = "PutObject"      -> [op |-> op, b |-> b, k |-> R(Keys), blob |-> R(Blobs), ctype |-> R(CTypes),
                                 meta |-> R(MetaSets), tags |-> R(TagSets), class |-> R(Classes), cond |-> CondOK(RW(CondW)), cksum |-> CkOK(RW(CkW))]
    [] op = "GetObject"      -> [op |-> op, b |-> b, k |-> k, vid |-> PV(St, b, k)]
    [] op = "DeleteObject"   -> [op |-> op, b |-> b, k |-> k, vid |-> PV(St, b, k), cond |-> CondOK(RW(<<"none", "none", "none", "ifm-cur", "ifm-stale", "ifm-star">>))]
    [] op = "CopyObject"     -> [op |-> op, sb |-> sb, sk |-> sk, svid |-> PV(St, sb, sk), b |-> b,
                                 k |-> R(Keys), mdir |-> R({"COPY", "REPLACE"}), tdir |-> R({"COPY", "REPLACE"}),
                                 ctype |-> R(CTypes), meta |-> R(MetaSets), tags |-> R(TagSets), class |-> R(Classes)]
    [] op = "AppendObject"   -> [op |-> op, b |-> b, k |-> k, blob |-> R(Blobs),
                                 off |-> RW(<<"none", "none", "match", "match", "mismatch">>), cksum |-> CkOK(RW(CkW))]
    [] op = "CreateUpload"   -> [op |-> op, b |-> b, k |-> R(Keys), ctype |-> R(CTypes), meta |-> R(MetaSets),
                                 tags |-> R(TagSets), class |-> R(Classes),
                                 cktype |-> RW(<<"none", "none", "FULL_OBJECT", "COMPOSITE">>)]
    [] op = "UploadPart"     -> [op |-> op, b |-> ub, k |-> uk, u |-> u, n |-> R(1..MaxParts), blob |-> R(Blobs),
                                 cksum |-> CkOK(RW(CkW))]
    [] op = "UploadPartCopy" -> [op |-> op, sb |-> sb, sk |-> sk, svid |-> PV(St, sb, sk), b |-> ub, k |-> uk,
                                 u |-> u, n |-> R(1..MaxParts)]
    [] op = "CompleteUpload" -> [op |-> op, b |-> ub, k |-> uk, u |-> u,
                                 manifest |-> RW(<<"none", "none", "all", "all", "all", "missing", "reversed", "badetag", "extra">>),
                                 cond |-> CondOK(RW(CondW)),
                                 cksum |-> CkOK(RW(<<"none", "none", "none", "none", "md5bad">>))]
    [] op = "AbortUpload"    -> [op |-> op, b |-> ub, k |-> uk, u |-> u]
    [] op = "PutTagging"     -> [op |-> op, b |-> b, k |-> k, vid |-> PV(St, b, k), tags |-> R(TagSets)]
    [] op = "Transition"     -> [op |-> op, b |-> b, k |-> k, vid |-> PV(St, b, k),
                                 class |-> R(Classes \ {None}), cond |-> RW(<<"none", "none", "none", "ifm-cur", "ifm-stale">>)]

Fix(c, St) == c

First == [op |-> "CreateBucket", b |-> "b1"]
\* The situation of a call: operation, its condition / checksum / offset / version-id kind, the
\* versioning state of the target bucket, what is current at the target key, and the outcome.
\* Programs are selected so that as many distinct situations as possible are executed.
CurKind(St, b, k) ==
  IF St.bver[b] = "Absent" THEN "nobucket"
  ELSE LET vs == St.objs[b][k] IN
       IF LatestIdx(vs) = 0 THEN "absent"
       ELSE IF Current(vs).dm THEN "marker"
       ELSE IF Current(vs).vid = 0 THEN (IF Len(vs) > 1 THEN "null+others" ELSE "null")
       ELSE (IF Idx(vs, 0) # 0 THEN "version+null" ELSE "version")
VidKind(St, c) ==
  IF "vid" \notin DOMAIN c THEN "-"
  ELSE IF c.vid = -1 THEN "novid"
  ELSE LET vs == St.objs[c.b][c.k] IN
       IF Idx(vs, c.vid) = 0 THEN "absentvid"
       ELSE IF vs[Idx(vs, c.vid)].latest THEN "latestvid" ELSE "oldvid"
Fld(c, f) == IF f \in DOMAIN c THEN c[f] ELSE "-"
HasDup(parts) == \E i, j \in 1..Len(parts) : i # j /\ parts[i] = parts[j] /\ parts[i] # <<>>
CurOf(St, b, k) == IF St.bver[b] # "Absent" /\ HasCurrent(St.objs[b][k]) THEN Current(St.objs[b][k]) ELSE [parts |-> <<>>, class |-> "-", pcls |-> <<>>, tags |-> "-", meta |-> EmptyMeta, seq1 |-> FALSE, ck |-> "-"]
\* what a write would leave behind if it forgot to clear: the null row it reuses carries tags / metadata
Reused(St, c) ==
  IF c.op \in {"PutObject", "CopyObject", "CompleteUpload", "AppendObject"} /\ St.bver[c.b] \in {"Unset", "Suspended"}
     /\ Idx(St.objs[c.b][c.k], 0) # 0
  THEN LET n == St.objs[c.b][c.k][Idx(St.objs[c.b][c.k], 0)] IN
       <<n.tags # None, n.meta.user # None, n.class # "STANDARD", Fld(c, "tags") = None, Fld(c, "meta") = None>>
  ELSE "-"
Extra(St, c) ==
  CASE c.op = "CompleteUpload" ->
         IF UpIdx(St, c.u) # 0 THEN <<Len(St.ups[UpIdx(St, c.u)].parts), St.ups[UpIdx(St, c.u)].ck,
                                      HasDup([j \in 1..Len(St.ups[UpIdx(St, c.u)].parts) |-> St.ups[UpIdx(St, c.u)].parts[j].c])>>
         ELSE "-"
    [] c.op = "CopyObject" ->
         <<CurKind(St, c.sb, c.sk), HasDup(CurOf(St, c.sb, c.sk).parts), c.mdir, c.tdir,
           CurOf(St, c.sb, c.sk).tags # None, CurOf(St, c.sb, c.sk).class, Fld(c, "class"),
           \E j \in 1..Len(CurOf(St, c.sb, c.sk).pcls) : CurOf(St, c.sb, c.sk).pcls[j] # CurOf(St, c.sb, c.sk).class>>
    [] c.op = "Transition" ->
         <<HasDup(CurOf(St, c.b, c.k).parts), CurOf(St, c.b, c.k).class, c.class, Len(CurOf(St, c.b, c.k).parts)>>
    [] c.op = "AppendObject" ->
         <<Len(CurOf(St, c.b, c.k).parts), CurOf(St, c.b, c.k).seq1, CurOf(St, c.b, c.k).ck,
           CurOf(St, c.b, c.k).tags # None, CurOf(St, c.b, c.k).class>>
    [] c.op = "DeleteObject" -> <<Len(St.objs[c.b][c.k]), HasDup(CurOf(St, c.b, c.k).parts)>>
    [] c.op = "UploadPart" -> IF UpIdx(St, c.u) # 0 THEN <<c.n, Len(St.ups[UpIdx(St, c.u)].parts)>> ELSE "-"
    [] OTHER -> "-"
Sit(St, c, r) ==
  <<c.op, Fld(c, "cond"), Fld(c, "cksum"), Fld(c, "off"), Fld(c, "manifest"), VidKind(St, c),
    IF "b" \in DOMAIN c THEN St.bver[c.b] ELSE "-",
    IF "k" \in DOMAIN c THEN CurKind(St, c.b, c.k) ELSE "-", r.err,
    IF "k" \in DOMAIN c /\ St.bver[c.b] # "Absent" THEN Reused(St, c) ELSE "-",
    IF ("k" \in DOMAIN c /\ St.bver[c.b] # "Absent") /\ (c.op # "CopyObject" \/ St.bver[c.sb] # "Absent") THEN Extra(St, c) ELSE "-">>

GenInit == /\ S = Apply(InitState(Buckets, Keys, Deviations), First).s
           /\ res = NoRes
           /\ hist = <<First>>
           /\ sits = <<>>
\* operation weights (multiplicity = weight); restricted to Ops
OpW == <<"CreateBucket", "DeleteBucket", "PutVersioning", "PutVersioning", "PutObject", "PutObject", "PutObject", "PutObject",
         "GetObject", "DeleteObject", "DeleteObject", "DeleteObject", "CopyObject", "CopyObject", "AppendObject", "AppendObject",
         "CreateUpload", "UploadPart", "UploadPart", "UploadPartCopy", "CompleteUpload", "CompleteUpload", "AbortUpload",
         "PutTagging", "Transition">>
OpWBase == SelectSeq(OpW, LAMBDA o : o \in Ops)
OpWBoost == SelectSeq(OpWBase, LAMBDA o : o \in OpBoost)
OpWSel == OpWBase \o FlattenSeq([i \in 1..BoostFactor |-> OpWBoost])
\* a generated step: the call is applied and its situation recorded
GStep(c) == Step(c) /\ sits' = Append(sits, Sit(S, c, Apply(S, c).r))
GenNext == GStep(RandCall(RW(OpWSel), S))
GenSpec == GenInit /\ [][GenNext]_<<vars, sits>>

\* ---------------------------------------------------------------- situation cover (BFS)
\* Breadth-first search over ALL calls of a small alphabet; the first (hence shortest) program that
\* reaches each distinct situation is printed.  TLC register 9 holds the situations already seen
\* (per worker; the pipeline removes duplicates).
BfsInit == Init /\ sits = <<>> /\ TLCSet(9, {})
BfsNext == S.clock < MaxClock /\ \E c \in Calls(S) : GStep(c)
SitCover ==
  IF sits = <<>> THEN TRUE
  ELSE LET s == ToString(sits[Len(sits)]) IN     \* situations mix value kinds: compare their printed form
       IF s \in TLCGet(9) THEN TRUE
       ELSE TLCSet(9, TLCGet(9) \cup {s}) /\ PrintT(ToJson([calls |-> hist, sit |-> s]))

Emit == IF Len(hist) = GenDepth THEN PrintT(ToJson([calls |-> hist, sits |-> sits])) ELSE TRUE
=============================================================================
