----------------------------- MODULE AuditLogMC -----------------------------
(* MC wrapper for C26: model-checks AuditLog!MCSpec and, once at start-up, prints the call kinds
   (every storage.Storage method x {succeeds, fails}) that the real-code workload cycles through. *)
EXTENDS AuditLog, Json
CallKinds == [m : StorageMethods, fail : BOOLEAN]
ASSUME PrintT(ToJson([callkinds |-> CallKinds]))
=============================================================================
