---------------------------- MODULE RoutingTrace ----------------------------
(* TV: one executed request per ndjson line (harness/cmd/routing).  Per line:  *)
(*  1. the case must be a case of the spec (skeleton, body, target, program);  *)
(*  2. the recorded call log must be what the model of the code (Route,        *)
(*     HandlerOp, AuthB/K/SB/SK, PreAuthCalls, HandlerCalls, ReadOnlyOps, with *)
(*     the enabled Deviations) produces: otherwise "mismatch" (new behaviour); *)
(*  3. the C31 invariants are evaluated on the log itself, independently of    *)
(*     the handler model: a failure explained by an enabled deviation is a     *)
(*     "finding", any other failure a "violation".                             *)
EXTENDS Routing, Json, IOUtils
Trace == ndJsonDeserialize(IOEnv.TRACE_FILE)
VARIABLE l

Rng(s) == {s[i] : i \in DOMAIN s}

CaseOf(r) == [ep |-> r.ep, method |-> r.method, shape |-> r.shape, subs |-> Rng(r.subs),
              flags |-> Rng(r.flags), body |-> r.body, bkt |-> r.bkt, key |-> r.key,
              page |-> r.page, prog |-> [mode |-> r.prog.mode, arg |-> r.prog.arg]]
Skel(c) == [ep |-> c.ep, method |-> c.method, shape |-> c.shape, subs |-> c.subs, flags |-> c.flags]

WellFormed(r) ==
  LET c == CaseOf(r) IN
  /\ Len(r.subs) = Cardinality(c.subs) /\ Len(r.flags) = Cardinality(c.flags)
  /\ Skel(c) \in Skeletons
  /\ c.body = BodyFor(c)
  /\ c.bkt \in Buckets
  /\ c.key \in (IF c.shape = "object" THEN Keys ELSE {""})
  /\ c.page \in Pages
  /\ c.prog \in Programs

\* ------------------------------------------------------------- log access
IsReq(e)  == e.t = "auth" /\ e.name = "request"
IsItem(e) == e.t = "auth" /\ e.name # "request"
IsSt(e)   == e.t = "st"
ReqIdx(C) == {i \in DOMAIN C : IsReq(C[i])}
Min(S)    == CHOOSE x \in S : \A y \in S : x <= y

ObjectLevelMethods == {"HeadObject", "GetObject", "PutObject", "CopyObject", "AppendObject",
                       "DeleteObject", "TransitionObjectStorageClass", "CreateMultipartUpload",
                       "UploadPart", "UploadPartCopy", "CompleteMultipartUpload",
                       "AbortMultipartUpload", "ListParts", "GetObjectTagging",
                       "PutObjectTagging", "DeleteObjectTagging"}
VersionMethods == {"HeadObject", "GetObject", "DeleteObject", "GetObjectTagging",
                   "PutObjectTagging", "DeleteObjectTagging"}

\* ------------------------------------------- 2. conformance with the model
\* an allowed authorization of the error document's own key before position i
ErrDocAuthorized(C, i, c) ==
  \E j \in 1..(i - 1) : /\ C[j].t = "auth" /\ C[j].name = "request" /\ C[j].allow
                         /\ C[j].op = ErrDocOp /\ C[j].b = c.bkt /\ C[j].k = ErrDocKey

TargetOk(call, e, h, c, C, i) ==
  CASE call.tgt = "req" ->
         /\ e.b = AuthB(h, c)
         /\ e.name \in ObjectLevelMethods => e.k = AuthK(h, c)
         /\ e.sb = AuthSB(h, c) /\ e.sk = AuthSK(h, c)
         /\ e.name \in VersionMethods => e.ver = UsesVersion(h, c)
    [] call.tgt = "probe"  -> e.b = c.bkt
    [] call.tgt = "errdoc" -> /\ e.b = c.bkt /\ e.k = ErrDocKey
                              /\ ErrDocOwnAuth => ErrDocAuthorized(C, i, c)

Conforms(r) ==
  LET c == CaseOf(r)
      C == r.calls
      h == Route(c) IN
  IF h = "none" THEN Len(C) = 0 /\ ~r.changed /\ Len(r.leaks) = 0
  ELSE
    /\ ReqIdx(C) # {}
    /\ LET a  == Min(ReqIdx(C))
           op == HandlerOp(h, c) IN
       /\ \A i \in 1..(a - 1) : /\ IsSt(C[i])
                                /\ C[i].name \in {pc.m : pc \in PreAuthCalls(h)}
                                /\ C[i].b = c.bkt
       /\ C[a].op = op
       /\ C[a].b = AuthB(h, c) /\ C[a].k = AuthK(h, c)
       /\ C[a].sb = AuthSB(h, c) /\ C[a].sk = AuthSK(h, c)
       /\ \A i \in DOMAIN C : C[i].t = "auth" => C[i].ro = (C[i].op \in ReadOnlyOps)
       /\ ~C[a].allow => Len(C) = a /\ r.status = 401 /\ ~r.changed
       /\ C[a].allow => \A i \in (a + 1)..Len(C) :
            /\ IsSt(C[i]) => \E call \in HandlerCalls(h) : call.m = C[i].name /\ TargetOk(call, C[i], h, c, C, i)
            \* a second request-level authorization exists only for the error document
            /\ IsReq(C[i]) => /\ h \in WebHandlers /\ ErrDocOwnAuth
                              /\ C[i].op = ErrDocOp /\ C[i].b = c.bkt /\ C[i].k = ErrDocKey
                              /\ C[i].sb = "" /\ C[i].sk = ""
                              /\ \A j \in (a + 1)..(i - 1) : ~IsReq(C[j])
            /\ IsItem(C[i]) => C[i].name = HookOf(op) /\ C[i].op = op /\ C[i].b = AuthB(h, c)
       /\ r.changed => \E i \in DOMAIN C : IsSt(C[i]) /\ Mutates(C[i].name)

\* ----------------------------------------------- 3. C31 on the recorded log
\* deviation exemptions: the events a named deviation is about
ExemptSt(r, e, devs) ==
  ErrDocDeviation \in devs /\ r.ep = "web" /\ e.name = "GetObject" /\ e.k = ErrDocKey
ExemptLeak(r, lk, devs) ==
  ErrDocDeviation \in devs /\ r.ep = "web" /\ lk.k = ErrDocKey

\* allowed request-level authorization a covers effect eff of storage call s
CoversCall(a, s, eff) ==
  /\ eff \in Covers(a.op)
  /\ eff # "ListBuckets" => a.b = s.b
  /\ eff \in ObjectLevel => a.k = s.k
  /\ eff = "ReadSrcData" => a.sb = s.sb /\ a.sk = s.sk
  /\ s.name \in VersionMethods => VersionOk(a.op, s.ver)

AuthorizedBeforeEffect(r, devs) ==
  LET C == r.calls IN
  \A i \in DOMAIN C : IsSt(C[i]) =>
    \A eff \in MethodEffects(C[i].name) : Protected(eff) =>
      \/ ExemptSt(r, C[i], devs)
      \/ /\ \E j \in ReqIdx(C) : j < i /\ C[j].allow /\ CoversCall(C[j], C[i], eff)
         /\ eff = "MutObjects" =>     \* bulk delete: every entry individually permitted
              \A it \in Rng(C[i].items) :
                 \E j \in 1..(i - 1) : IsItem(C[j]) /\ C[j].name = "deleteEntry"
                                       /\ C[j].item = it /\ C[j].allow

DenyMeansNoEffect(r) ==
  LET C == r.calls
      D == {j \in ReqIdx(C) : ~C[j].allow} IN
  D # {} =>
    /\ ~r.changed
    /\ Len(r.leaks) = 0
    /\ \A j \in D : \A i \in (j + 1)..Len(C) :
         IsSt(C[i]) => \A eff \in MethodEffects(C[i].name) : ~Protected(eff)

ReadOnlyOpsDoNotMutate(r) ==
  LET C == r.calls IN
  (\A j \in ReqIdx(C) : C[j].ro) =>
    /\ ~r.changed
    /\ \A i \in DOMAIN C : IsSt(C[i]) => ~Mutates(C[i].name)

ChangeNeedsWriteAuth(r) ==
  LET C == r.calls IN
  r.changed => \E j \in ReqIdx(C) : C[j].allow /\ Covers(C[j].op) \cap MutEffects # {}

NoUnauthorizedData(r, devs) ==
  LET C == r.calls IN
  \A lk \in Rng(r.leaks) :
    \/ ExemptLeak(r, lk, devs)
    \/ \E j \in ReqIdx(C) : /\ C[j].allow /\ "ReadData" \in Covers(C[j].op)
                            /\ C[j].b = lk.b /\ C[j].k = lk.k

PerItemHooksExact(r) ==
  LET C == r.calls IN
  \A j \in ReqIdx(C) :
    (C[j].allow /\ HookOf(C[j].op) # "none" /\ r.status = 200) =>
      LET hook    == HookOf(C[j].op)
          idx     == {i \in DOMAIN C : IsItem(C[i]) /\ C[i].name = hook}
          allowed == {C[i].item : i \in {x \in idx : C[x].allow}}
          denied  == {C[i].item : i \in {x \in idx : ~C[x].allow}}
          seqOf(ok) == LET F[n \in 0..Len(C)] ==
                             IF n = 0 THEN <<>>
                             ELSE IF n \in idx /\ C[n].allow = ok THEN Append(F[n - 1], C[n].item)
                             ELSE F[n - 1]
                       IN F[Len(C)]
      IN
      /\ allowed \cap denied = {}
      /\ \A i \in DOMAIN C : IsItem(C[i]) => C[i].name = hook
      /\ IF hook = "deleteEntry"
         THEN /\ \A i \in DOMAIN C : (IsSt(C[i]) /\ C[i].name = "DeleteObjects") => C[i].items = seqOf(TRUE)
              /\ (allowed # {}) => \E i \in DOMAIN C : IsSt(C[i]) /\ C[i].name = "DeleteObjects"
              /\ r.deniedshown = seqOf(FALSE)
              /\ Rng(r.shown) \subseteq allowed
         ELSE /\ Rng(r.shown) = allowed          \* shown exactly the permitted items
              /\ Rng(r.shown) \cap denied = {}   \* hidden exactly the denied ones

Failed(r, devs) ==
  (IF AuthorizedBeforeEffect(r, devs) THEN {} ELSE {"AuthorizedBeforeEffect"})
  \cup (IF DenyMeansNoEffect(r) THEN {} ELSE {"DenyMeansNoEffect"})
  \cup (IF ReadOnlyOpsDoNotMutate(r) THEN {} ELSE {"ReadOnlyOpsDoNotMutate"})
  \cup (IF ChangeNeedsWriteAuth(r) THEN {} ELSE {"ChangeNeedsWriteAuth"})
  \cup (IF NoUnauthorizedData(r, devs) THEN {} ELSE {"NoUnauthorizedData"})
  \cup (IF PerItemHooksExact(r) THEN {} ELSE {"PerItemHooksExact"})

Verdict(r) ==
  IF ~WellFormed(r) THEN "malformed"
  ELSE IF ~Conforms(r) THEN "mismatch"
  ELSE IF Failed(r, {}) = {} THEN "ok"
  ELSE IF Failed(r, Deviations) = {} THEN "finding"
  ELSE "violation"

Report(i) ==
  LET r == Trace[i]
      v == Verdict(r) IN
  IF v = "ok" THEN TRUE
  ELSE PrintT(ToJson([l |-> i, id |-> r.id, verdict |-> v,
                      tag |-> IF v = "finding" THEN ErrDocDeviation ELSE "",
                      failed |-> IF v = "malformed" THEN {} ELSE IF v = "finding" THEN Failed(r, {}) ELSE Failed(r, Deviations),
                      route |-> IF v = "malformed" THEN "" ELSE Route(CaseOf(r)),
                      url |-> r.url]))

TInit == l = 1 /\ case = [ep |-> "api", method |-> "GET", shape |-> "root", subs |-> {}, flags |-> {}]
TNext == l <= Len(Trace) /\ Report(l) /\ l' = l + 1 /\ UNCHANGED case
=============================================================================
