---- MODULE PartRefs_TTrace_1790050850 ----
EXTENDS Sequences, TLCExt, Toolbox, Naturals, TLC, PartRefs_TEConstants, PartRefs

_expression ==
    LET PartRefs_TEExpression == INSTANCE PartRefs_TEExpression
    IN PartRefs_TEExpression!expression
----

_trace ==
    LET PartRefs_TETrace == INSTANCE PartRefs_TETrace
    IN PartRefs_TETrace!trace
----

_prop ==
    ~(([]<>(
            S = ([obj |-> [k1 |-> <<>>], upl |-> [u1 |-> [st |-> "default", act |-> TRUE, key |-> "k1", parts |-> <<0, 0>>]], reg |-> <<-1, -1, -1>>, ddx |-> {}, phys |-> [default |-> {}], info |-> <<[c |-> "", st |-> ""], [c |-> "", st |-> ""], [c |-> "", st |-> ""]>>, nid |-> 1, old |-> {}, stray |-> {[st |-> "default", kind |-> "temp"]}, gc |-> [st |-> "default", pc |-> "store", cut |-> {}, obs |-> {}, dirty |-> {}, todo |-> {}, cand |-> {}, ext |-> {}, xid |-> 0], rd |-> [st |-> "idle", key |-> "", man |-> <<>>, pos |-> 0, cur |-> 0, got |-> <<>>, err |-> FALSE, snap |-> {}], res |-> "store", nops |-> 3, nrd |-> 0, quiet |-> TRUE, faulted |-> TRUE])
    ))/\([]<>(
            S = ([obj |-> [k1 |-> <<>>], upl |-> [u1 |-> [st |-> "default", act |-> TRUE, key |-> "k1", parts |-> <<0, 0>>]], reg |-> <<-1, -1, -1>>, ddx |-> {}, phys |-> [default |-> {}], info |-> <<[c |-> "", st |-> ""], [c |-> "", st |-> ""], [c |-> "", st |-> ""]>>, nid |-> 1, old |-> {}, stray |-> {[st |-> "default", kind |-> "temp"]}, gc |-> [st |-> "default", pc |-> "candidates", cut |-> {}, obs |-> {}, dirty |-> {}, todo |-> {}, cand |-> {}, ext |-> {}, xid |-> 0], rd |-> [st |-> "idle", key |-> "", man |-> <<>>, pos |-> 0, cur |-> 0, got |-> <<>>, err |-> FALSE, snap |-> {}], res |-> "candidates", nops |-> 3, nrd |-> 0, quiet |-> TRUE, faulted |-> TRUE])
    )))
----

_init ==
    /\ S = _TETrace[1].S
----

_next ==
    /\ \E i,j \in DOMAIN _TETrace:
        /\ \/ /\ j = i + 1
              /\ i = TLCGet("level")
           \/ /\ i = _TTraceLassoEnd
              /\ j = _TTraceLassoStart
        /\ S  = _TETrace[i].S
        /\ S' = _TETrace[j].S

\* Uncomment the ASSUME below to write the states of the error trace
\* to the given file in Json format. Note that you can pass any tuple
\* to `JsonSerialize`. For example, a sub-sequence of _TETrace.
    \* ASSUME
    \*     LET J == INSTANCE Json
    \*         IN J!JsonSerialize("PartRefs_TTrace_1790050850.json", _TETrace)


_view ==
    <<S, IF TLCGet("level") = _TTraceLassoEnd + 1 THEN _TTraceLassoStart ELSE TLCGet("level")>>
=============================================================================

 Note that you can extract this module `PartRefs_TEExpression`
  to a dedicated file to reuse `expression` (the module in the 
  dedicated `PartRefs_TEExpression.tla` file takes precedence 
  over the module `PartRefs_TEExpression` below).

---- MODULE PartRefs_TEExpression ----
EXTENDS Sequences, TLCExt, Toolbox, Naturals, TLC, PartRefs_TEConstants, PartRefs

expression == 
    [
        \* To hide variables of the `PartRefs` spec from the error trace,
        \* remove the variables below.  The trace will be written in the order
        \* of the fields of this record.
        S |-> S
        
        \* Put additional constant-, state-, and action-level expressions here:
        \* ,_stateNumber |-> _TEPosition
        \* ,_SUnchanged |-> S = S'
        
        \* Format the `S` variable as Json value.
        \* ,_SJson |->
        \*     LET J == INSTANCE Json
        \*     IN J!ToJson(S)
        
        \* Lastly, you may build expressions over arbitrary sets of states by
        \* leveraging the _TETrace operator.  For example, this is how to
        \* count the number of times a spec variable changed up to the current
        \* state in the trace.
        \* ,_SModCount |->
        \*     LET F[s \in DOMAIN _TETrace] ==
        \*         IF s = 1 THEN 0
        \*         ELSE IF _TETrace[s].S # _TETrace[s-1].S
        \*             THEN 1 + F[s-1] ELSE F[s-1]
        \*     IN F[_TEPosition - 1]
    ]

=============================================================================



Parsing and semantic processing can take forever if the trace below is long.
 In this case, it is advised to uncomment the module below to deserialize the
 trace from a generated binary file.

\*
\*---- MODULE PartRefs_TETrace ----
\*EXTENDS IOUtils, TLC, PartRefs_TEConstants, PartRefs
\*
\*trace == IODeserialize("PartRefs_TTrace_1790050850.bin", TRUE)
\*
\*=============================================================================
\*

---- MODULE PartRefs_TETrace ----
EXTENDS TLC, PartRefs_TEConstants, PartRefs

trace == 
    <<
    ([S |-> [obj |-> [k1 |-> <<>>], upl |-> [u1 |-> [st |-> "", act |-> FALSE, key |-> "", parts |-> <<0, 0>>]], reg |-> <<-1, -1, -1>>, ddx |-> {}, phys |-> [default |-> {}], info |-> <<[c |-> "", st |-> ""], [c |-> "", st |-> ""], [c |-> "", st |-> ""]>>, nid |-> 1, old |-> {}, stray |-> {}, gc |-> [st |-> "", pc |-> "idle", cut |-> {}, obs |-> {}, dirty |-> {}, todo |-> {}, cand |-> {}, ext |-> {}, xid |-> 0], rd |-> [st |-> "idle", key |-> "", man |-> <<>>, pos |-> 0, cur |-> 0, got |-> <<>>, err |-> FALSE, snap |-> {}], res |-> "", nops |-> 0, nrd |-> 0, quiet |-> FALSE, faulted |-> FALSE]]),
    ([S |-> [obj |-> [k1 |-> <<>>], upl |-> [u1 |-> [st |-> "", act |-> FALSE, key |-> "", parts |-> <<0, 0>>]], reg |-> <<-1, -1, -1>>, ddx |-> {}, phys |-> [default |-> {}], info |-> <<[c |-> "", st |-> ""], [c |-> "", st |-> ""], [c |-> "", st |-> ""]>>, nid |-> 1, old |-> {}, stray |-> {[st |-> "default", kind |-> "temp"]}, gc |-> [st |-> "", pc |-> "idle", cut |-> {}, obs |-> {}, dirty |-> {}, todo |-> {}, cand |-> {}, ext |-> {}, xid |-> 0], rd |-> [st |-> "idle", key |-> "", man |-> <<>>, pos |-> 0, cur |-> 0, got |-> <<>>, err |-> FALSE, snap |-> {}], res |-> "ok", nops |-> 1, nrd |-> 0, quiet |-> FALSE, faulted |-> TRUE]]),
    ([S |-> [obj |-> [k1 |-> <<>>], upl |-> [u1 |-> [st |-> "", act |-> FALSE, key |-> "", parts |-> <<0, 0>>]], reg |-> <<-1, -1, -1>>, ddx |-> {}, phys |-> [default |-> {}], info |-> <<[c |-> "", st |-> ""], [c |-> "", st |-> ""], [c |-> "", st |-> ""]>>, nid |-> 1, old |-> {}, stray |-> {[st |-> "default", kind |-> "temp"], [st |-> "default", kind |-> "backup"]}, gc |-> [st |-> "", pc |-> "idle", cut |-> {}, obs |-> {}, dirty |-> {}, todo |-> {}, cand |-> {}, ext |-> {}, xid |-> 0], rd |-> [st |-> "idle", key |-> "", man |-> <<>>, pos |-> 0, cur |-> 0, got |-> <<>>, err |-> FALSE, snap |-> {}], res |-> "ok", nops |-> 2, nrd |-> 0, quiet |-> FALSE, faulted |-> TRUE]]),
    ([S |-> [obj |-> [k1 |-> <<>>], upl |-> [u1 |-> [st |-> "default", act |-> TRUE, key |-> "k1", parts |-> <<0, 0>>]], reg |-> <<-1, -1, -1>>, ddx |-> {}, phys |-> [default |-> {}], info |-> <<[c |-> "", st |-> ""], [c |-> "", st |-> ""], [c |-> "", st |-> ""]>>, nid |-> 1, old |-> {}, stray |-> {[st |-> "default", kind |-> "temp"], [st |-> "default", kind |-> "backup"]}, gc |-> [st |-> "", pc |-> "idle", cut |-> {}, obs |-> {}, dirty |-> {}, todo |-> {}, cand |-> {}, ext |-> {}, xid |-> 0], rd |-> [st |-> "idle", key |-> "", man |-> <<>>, pos |-> 0, cur |-> 0, got |-> <<>>, err |-> FALSE, snap |-> {}], res |-> "ok", nops |-> 3, nrd |-> 0, quiet |-> FALSE, faulted |-> TRUE]]),
    ([S |-> [obj |-> [k1 |-> <<>>], upl |-> [u1 |-> [st |-> "default", act |-> TRUE, key |-> "k1", parts |-> <<0, 0>>]], reg |-> <<-1, -1, -1>>, ddx |-> {}, phys |-> [default |-> {}], info |-> <<[c |-> "", st |-> ""], [c |-> "", st |-> ""], [c |-> "", st |-> ""]>>, nid |-> 1, old |-> {}, stray |-> {[st |-> "default", kind |-> "temp"], [st |-> "default", kind |-> "backup"]}, gc |-> [st |-> "", pc |-> "idle", cut |-> {}, obs |-> {}, dirty |-> {}, todo |-> {}, cand |-> {}, ext |-> {}, xid |-> 0], rd |-> [st |-> "idle", key |-> "", man |-> <<>>, pos |-> 0, cur |-> 0, got |-> <<>>, err |-> FALSE, snap |-> {}], res |-> "ok", nops |-> 3, nrd |-> 0, quiet |-> TRUE, faulted |-> TRUE]]),
    ([S |-> [obj |-> [k1 |-> <<>>], upl |-> [u1 |-> [st |-> "default", act |-> TRUE, key |-> "k1", parts |-> <<0, 0>>]], reg |-> <<-1, -1, -1>>, ddx |-> {}, phys |-> [default |-> {}], info |-> <<[c |-> "", st |-> ""], [c |-> "", st |-> ""], [c |-> "", st |-> ""]>>, nid |-> 1, old |-> {}, stray |-> {[st |-> "default", kind |-> "temp"], [st |-> "default", kind |-> "backup"]}, gc |-> [st |-> "", pc |-> "begin", cut |-> {}, obs |-> {}, dirty |-> {}, todo |-> {}, cand |-> {}, ext |-> {}, xid |-> 0], rd |-> [st |-> "idle", key |-> "", man |-> <<>>, pos |-> 0, cur |-> 0, got |-> <<>>, err |-> FALSE, snap |-> {}], res |-> "begin", nops |-> 3, nrd |-> 0, quiet |-> TRUE, faulted |-> TRUE]]),
    ([S |-> [obj |-> [k1 |-> <<>>], upl |-> [u1 |-> [st |-> "default", act |-> TRUE, key |-> "k1", parts |-> <<0, 0>>]], reg |-> <<-1, -1, -1>>, ddx |-> {}, phys |-> [default |-> {}], info |-> <<[c |-> "", st |-> ""], [c |-> "", st |-> ""], [c |-> "", st |-> ""]>>, nid |-> 1, old |-> {}, stray |-> {[st |-> "default", kind |-> "temp"], [st |-> "default", kind |-> "backup"]}, gc |-> [st |-> "", pc |-> "observed", cut |-> {}, obs |-> {}, dirty |-> {}, todo |-> {}, cand |-> {}, ext |-> {}, xid |-> 0], rd |-> [st |-> "idle", key |-> "", man |-> <<>>, pos |-> 0, cur |-> 0, got |-> <<>>, err |-> FALSE, snap |-> {}], res |-> "observed", nops |-> 3, nrd |-> 0, quiet |-> TRUE, faulted |-> TRUE]]),
    ([S |-> [obj |-> [k1 |-> <<>>], upl |-> [u1 |-> [st |-> "default", act |-> TRUE, key |-> "k1", parts |-> <<0, 0>>]], reg |-> <<-1, -1, -1>>, ddx |-> {}, phys |-> [default |-> {}], info |-> <<[c |-> "", st |-> ""], [c |-> "", st |-> ""], [c |-> "", st |-> ""]>>, nid |-> 1, old |-> {}, stray |-> {[st |-> "default", kind |-> "temp"], [st |-> "default", kind |-> "backup"]}, gc |-> [st |-> "", pc |-> "reconciled", cut |-> {}, obs |-> {}, dirty |-> {}, todo |-> {}, cand |-> {}, ext |-> {}, xid |-> 0], rd |-> [st |-> "idle", key |-> "", man |-> <<>>, pos |-> 0, cur |-> 0, got |-> <<>>, err |-> FALSE, snap |-> {}], res |-> "reconciled", nops |-> 3, nrd |-> 0, quiet |-> TRUE, faulted |-> TRUE]]),
    ([S |-> [obj |-> [k1 |-> <<>>], upl |-> [u1 |-> [st |-> "default", act |-> TRUE, key |-> "k1", parts |-> <<0, 0>>]], reg |-> <<-1, -1, -1>>, ddx |-> {}, phys |-> [default |-> {}], info |-> <<[c |-> "", st |-> ""], [c |-> "", st |-> ""], [c |-> "", st |-> ""]>>, nid |-> 1, old |-> {}, stray |-> {[st |-> "default", kind |-> "temp"], [st |-> "default", kind |-> "backup"]}, gc |-> [st |-> "default", pc |-> "store", cut |-> {}, obs |-> {}, dirty |-> {}, todo |-> {}, cand |-> {}, ext |-> {}, xid |-> 0], rd |-> [st |-> "idle", key |-> "", man |-> <<>>, pos |-> 0, cur |-> 0, got |-> <<>>, err |-> FALSE, snap |-> {}], res |-> "store", nops |-> 3, nrd |-> 0, quiet |-> TRUE, faulted |-> TRUE]]),
    ([S |-> [obj |-> [k1 |-> <<>>], upl |-> [u1 |-> [st |-> "default", act |-> TRUE, key |-> "k1", parts |-> <<0, 0>>]], reg |-> <<-1, -1, -1>>, ddx |-> {}, phys |-> [default |-> {}], info |-> <<[c |-> "", st |-> ""], [c |-> "", st |-> ""], [c |-> "", st |-> ""]>>, nid |-> 1, old |-> {}, stray |-> {[st |-> "default", kind |-> "temp"]}, gc |-> [st |-> "default", pc |-> "candidates", cut |-> {}, obs |-> {}, dirty |-> {}, todo |-> {}, cand |-> {}, ext |-> {}, xid |-> 0], rd |-> [st |-> "idle", key |-> "", man |-> <<>>, pos |-> 0, cur |-> 0, got |-> <<>>, err |-> FALSE, snap |-> {}], res |-> "candidates", nops |-> 3, nrd |-> 0, quiet |-> TRUE, faulted |-> TRUE]]),
    ([S |-> [obj |-> [k1 |-> <<>>], upl |-> [u1 |-> [st |-> "default", act |-> TRUE, key |-> "k1", parts |-> <<0, 0>>]], reg |-> <<-1, -1, -1>>, ddx |-> {}, phys |-> [default |-> {}], info |-> <<[c |-> "", st |-> ""], [c |-> "", st |-> ""], [c |-> "", st |-> ""]>>, nid |-> 1, old |-> {}, stray |-> {[st |-> "default", kind |-> "temp"]}, gc |-> [st |-> "", pc |-> "idle", cut |-> {}, obs |-> {}, dirty |-> {}, todo |-> {}, cand |-> {}, ext |-> {}, xid |-> 0], rd |-> [st |-> "idle", key |-> "", man |-> <<>>, pos |-> 0, cur |-> 0, got |-> <<>>, err |-> FALSE, snap |-> {}], res |-> "end", nops |-> 3, nrd |-> 0, quiet |-> TRUE, faulted |-> TRUE]]),
    ([S |-> [obj |-> [k1 |-> <<>>], upl |-> [u1 |-> [st |-> "default", act |-> TRUE, key |-> "k1", parts |-> <<0, 0>>]], reg |-> <<-1, -1, -1>>, ddx |-> {}, phys |-> [default |-> {}], info |-> <<[c |-> "", st |-> ""], [c |-> "", st |-> ""], [c |-> "", st |-> ""]>>, nid |-> 1, old |-> {}, stray |-> {[st |-> "default", kind |-> "temp"]}, gc |-> [st |-> "", pc |-> "begin", cut |-> {}, obs |-> {}, dirty |-> {}, todo |-> {}, cand |-> {}, ext |-> {}, xid |-> 0], rd |-> [st |-> "idle", key |-> "", man |-> <<>>, pos |-> 0, cur |-> 0, got |-> <<>>, err |-> FALSE, snap |-> {}], res |-> "begin", nops |-> 3, nrd |-> 0, quiet |-> TRUE, faulted |-> TRUE]]),
    ([S |-> [obj |-> [k1 |-> <<>>], upl |-> [u1 |-> [st |-> "default", act |-> TRUE, key |-> "k1", parts |-> <<0, 0>>]], reg |-> <<-1, -1, -1>>, ddx |-> {}, phys |-> [default |-> {}], info |-> <<[c |-> "", st |-> ""], [c |-> "", st |-> ""], [c |-> "", st |-> ""]>>, nid |-> 1, old |-> {}, stray |-> {[st |-> "default", kind |-> "temp"]}, gc |-> [st |-> "", pc |-> "observed", cut |-> {}, obs |-> {}, dirty |-> {}, todo |-> {}, cand |-> {}, ext |-> {}, xid |-> 0], rd |-> [st |-> "idle", key |-> "", man |-> <<>>, pos |-> 0, cur |-> 0, got |-> <<>>, err |-> FALSE, snap |-> {}], res |-> "observed", nops |-> 3, nrd |-> 0, quiet |-> TRUE, faulted |-> TRUE]]),
    ([S |-> [obj |-> [k1 |-> <<>>], upl |-> [u1 |-> [st |-> "default", act |-> TRUE, key |-> "k1", parts |-> <<0, 0>>]], reg |-> <<-1, -1, -1>>, ddx |-> {}, phys |-> [default |-> {}], info |-> <<[c |-> "", st |-> ""], [c |-> "", st |-> ""], [c |-> "", st |-> ""]>>, nid |-> 1, old |-> {}, stray |-> {[st |-> "default", kind |-> "temp"]}, gc |-> [st |-> "", pc |-> "reconciled", cut |-> {}, obs |-> {}, dirty |-> {}, todo |-> {}, cand |-> {}, ext |-> {}, xid |-> 0], rd |-> [st |-> "idle", key |-> "", man |-> <<>>, pos |-> 0, cur |-> 0, got |-> <<>>, err |-> FALSE, snap |-> {}], res |-> "reconciled", nops |-> 3, nrd |-> 0, quiet |-> TRUE, faulted |-> TRUE]]),
    ([S |-> [obj |-> [k1 |-> <<>>], upl |-> [u1 |-> [st |-> "default", act |-> TRUE, key |-> "k1", parts |-> <<0, 0>>]], reg |-> <<-1, -1, -1>>, ddx |-> {}, phys |-> [default |-> {}], info |-> <<[c |-> "", st |-> ""], [c |-> "", st |-> ""], [c |-> "", st |-> ""]>>, nid |-> 1, old |-> {}, stray |-> {[st |-> "default", kind |-> "temp"]}, gc |-> [st |-> "default", pc |-> "store", cut |-> {}, obs |-> {}, dirty |-> {}, todo |-> {}, cand |-> {}, ext |-> {}, xid |-> 0], rd |-> [st |-> "idle", key |-> "", man |-> <<>>, pos |-> 0, cur |-> 0, got |-> <<>>, err |-> FALSE, snap |-> {}], res |-> "store", nops |-> 3, nrd |-> 0, quiet |-> TRUE, faulted |-> TRUE]])
    >>
----


=============================================================================

---- MODULE PartRefs_TEConstants ----
EXTENDS PartRefs

CONSTANTS _TTraceLassoStart, _TTraceLassoEnd

=============================================================================

---- CONFIG PartRefs_TTrace_1790050850 ----
CONSTANTS
    Keys = { "k1" }
    Uploads = { "u1" }
    Contents = { "a" }
    Stores = { "default" }
    TxFree = { "default" }
    MaxId = 3
    MaxOps = 3
    MaxReads = 0
    Faults = { "orphan" , "regdrop" , "regover" , "quiesce" , "crash" }
    Preload = "none"
    Deviations = { "D-C09-stray-temp" }
_TTraceLassoStart = 10
_TTraceLassoEnd = 15

PROPERTY
    _prop

CHECK_DEADLOCK
    \* CHECK_DEADLOCK off because of PROPERTY or INVARIANT above.
    FALSE

INIT
    _init

NEXT
    _next

VIEW
    _view

CONSTANT
    _TETrace <- _trace

ALIAS
    _expression
=============================================================================
\* Generated on Tue Sep 22 04:21:33 UTC 2026