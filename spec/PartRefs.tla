------------------------------ MODULE PartRefs ------------------------------
(***************************************************************************)
(* C08 / C09 / C40 - the part reference protocol of MetadataPartStorage.   *)
(*                                                                         *)
(* Models, at the grain of one action per transaction / per tx-free step:  *)
(*   internal/storage/metadatapart/object_write.go  PutObject, Transition  *)
(*   internal/storage/metadatapart/copy.go          CopyObject             *)
(*   internal/storage/metadatapart/multipart.go     UploadPart(Copy),      *)
(*                                       Complete/AbortMultipartUpload     *)
(*   internal/storage/metadatapart/delete.go        DeleteObject           *)
(*   internal/storage/metadatapart/dedup.go         dedupeFreshPart,       *)
(*                                                  tryShareDedupPart      *)
(*   metadatastore/sql/parts.go   removePartEntities, savePartRows         *)
(*   database/sqlite/repository/partregistry/sqlite.go                     *)
(*        RegisterParts, TryAddReferences (ref_count > 0 guard),           *)
(*        RemoveReferences (row deleted at 0), FindReconciliation,         *)
(*        RestoreMissing, UpdateRefCount / DeleteByPartId (version CAS),   *)
(*        Condemn                                                          *)
(*   metadatapart/gc/gc.go        runGCWithContext, one action per code    *)
(*        section between two verifhook gates                              *)
(*   metadatapart/object_read.go + metadatapart.go  GetObject,             *)
(*        lazyPartSequenceReadCloser (tx-free for filesystem stores,       *)
(*        snapshot transaction for SQL stores)                             *)
(*                                                                         *)
(* Write transactions are atomic (SQLite serialises them).  The whole      *)
(* state is ONE record S and every step is a pure function Eff(S, call):   *)
(* the model checker, the program generator and the trace validator all    *)
(* use the same function.                                                  *)
(*                                                                         *)
(* Part ids are 1,2,3.. in minting order; info[id] = content and store.    *)
(* A storage class is identified with the store it routes to.              *)
(***************************************************************************)
EXTENDS Integers, Sequences, FiniteSets, SequencesExt, TLC

CONSTANTS Keys,        \* object keys of an unversioned bucket (one row each)
          Uploads,     \* pending multipart upload slots
          NParts,      \* part numbers of a multipart upload / longest manifest
          Contents,    \* part contents (symbols; the harness owns the bytes)
          Stores,      \* configured part stores
          TxFree,      \* stores that read and delete without a transaction (filesystem)
          MaxId,       \* bound on minted part ids
          MaxOps,      \* bound on writer / fault operations
          MaxReads,    \* bound on reader sessions
          Faults,      \* enabled environment steps: "orphan", "regdrop", "regover" (damage in the
                       \* directions the code itself produces), "crash" (leftover files of a killed
                       \* process), "quiesce" (writers stop; liveness configs)
          Preload,     \* "none" | "twopart": initial state of the model checker (k1 = two-part object)
          Deviations   \* deviation tags the code is known to have ("D-..."), or hypothetical
                       \* breakages ("H-...") used only to show that the properties are not vacuous

PartNos == 1..NParts
Ids     == 1..MaxId
NoInfo  == [c |-> "", st |-> ""]
NoUpl   == [act |-> FALSE, key |-> "", st |-> "", parts |-> [n \in 1..NParts |-> 0]]
GcIdle  == [pc |-> "idle", cut |-> {}, obs |-> {}, dirty |-> {}, todo |-> {}, st |-> "",
            cand |-> {}, ext |-> {}, xid |-> 0, trk |-> {}]
NoSlow  == [act |-> FALSE, k |-> "", c |-> "", s |-> "", id |-> 0]
RdIdle  == [st |-> "idle", key |-> "", man |-> <<>>, pos |-> 0, cur |-> 0, got |-> <<>>,
            err |-> FALSE, snap |-> {}]

AllTxFree == Stores \subseteq TxFree

S0 == [obj    |-> [k \in Keys |-> <<>>],          \* key -> manifest (part ids); <<>> = absent
       upl    |-> [u \in Uploads |-> NoUpl],
       reg    |-> [i \in Ids |-> -1],             \* part_registry.ref_count; -1 = no row
       ddx    |-> {},                             \* part_dedup_index: set of [st, c, id]
       phys   |-> [s \in Stores |-> {}],          \* ids physically present per store
       info   |-> [i \in Ids |-> NoInfo],
       nid    |-> 1,
       old    |-> {},                             \* ids older than the grace window
       stray  |-> {},                             \* crash leftovers no part listing shows: [kind, st]
       gc     |-> GcIdle,
       rd     |-> RdIdle,
       slow   |-> NoSlow,                         \* a PutObject whose transaction is open (id minted, not committed)
       res    |-> "",
       nops   |-> 0,
       nrd    |-> 0,
       quiet  |-> FALSE,
       faulted|-> FALSE]

\* ------------------------------------------------------------------ helpers
Cnt(seq, id) == Cardinality({i \in DOMAIN seq : seq[i] = id})
Rng(seq)     == {seq[i] : i \in DOMAIN seq}
NZ(seq)      == SelectSeq(seq, LAMBDA x : x # 0)
UplSeq(S, u) == NZ(S.upl[u].parts)

RowCount(S, id) ==
    Cardinality({ki \in Keys \X PartNos : ki[2] <= Len(S.obj[ki[1]]) /\ S.obj[ki[1]][ki[2]] = id})
  + Cardinality({un \in Uploads \X PartNos : S.upl[un[1]].parts[un[2]] = id})

Minted(S)     == 1..(S.nid - 1)
Referenced(S) == {id \in Minted(S) : RowCount(S, id) > 0}
StoreOf(S, id) == S.info[id].st
Present(S, id) == id \in S.phys[S.info[id].st]
ContentOf(S, seq) == [i \in DOMAIN seq |-> S.info[seq[i]].c]

\* ---------------------------------------------- one write transaction (W)
Begin(S) == [reg |-> S.reg, ddx |-> S.ddx, padd |-> {}, pdel |-> {}, tch |-> {},
             nid |-> S.nid, info |-> S.info]

Commit(S, W, objv, uplv, res) ==
  [S EXCEPT !.reg = W.reg, !.ddx = W.ddx, !.nid = W.nid, !.info = W.info,
            !.phys = [s \in Stores |-> (S.phys[s] \cup {i \in W.padd : W.info[i].st = s}) \ W.pdel],
            !.obj = objv, !.upl = uplv,
            !.gc.dirty = IF S.gc.pc = "observed" THEN @ \cup W.tch ELSE @,
            !.res = res, !.nops = @ + 1]

Fail(S, res) == [S EXCEPT !.res = res, !.nops = @ + 1]

Mint(W, s, c) == [W EXCEPT !.nid = @ + 1, !.info[W.nid] = [c |-> c, st |-> s]]

\* partregistry.RemoveReferences + removePartEntities + deleteUnreferencedParts:
\* one aggregated decrement per id, skipped if the row is missing or too low; a
\* row reaching 0 is deleted, its dedup entries go and the part is deleted
\* physically in the same transaction.
RemoveRefs(W, seq) ==
  LET ids  == Rng(seq)
      ok(id) == W.reg[id] >= Cnt(seq, id)
      zero == {id \in ids : ok(id) /\ W.reg[id] = Cnt(seq, id)}
  IN [W EXCEPT !.reg = [id \in Ids |-> IF id \in ids /\ ok(id)
                                      THEN (IF id \in zero THEN -1 ELSE W.reg[id] - Cnt(seq, id))
                                      ELSE W.reg[id]],
               !.ddx = {e \in W.ddx : e.id \notin zero},
               !.pdel = @ \cup zero,
               !.tch = @ \cup {id \in ids : ok(id)}]

\* partregistry.TryAddReferences: every row must exist with ref_count > 0

Addable(W, id) == W.reg[id] > 0
CanAdd(W, seq) == \A id \in Rng(seq) : Addable(W, id)
AddRefs(W, seq) ==
  [W EXCEPT !.reg = [id \in Ids |-> IF id \in Rng(seq) THEN W.reg[id] + Cnt(seq, id) ELSE W.reg[id]],
            !.tch = @ \cup Rng(seq)]

\* partregistry.RegisterParts for fresh ids
Register(W, seq) ==
  [W EXCEPT !.reg = [id \in Ids |-> IF id \in Rng(seq) THEN Cnt(seq, id) ELSE W.reg[id]],
            !.tch = @ \cup Rng(seq)]

Entries(W, s, c) == {e \in W.ddx : e.st = s /\ e.c = c}
DropEntriesOf(W, id) == [W EXCEPT !.ddx = {e \in W.ddx : e.id # id}]
\* TryIndexDedupPart: INSERT OR IGNORE on the key (store, sha256, size)
TryIndex(W, s, c, id) == IF Entries(W, s, c) = {} THEN [W EXCEPT !.ddx = @ \cup {[st |-> s, c |-> c, id |-> id]}] ELSE W

\* dedup.go dedupeFreshPart for a freshly written part of content c in store s.
\* A fresh part that is replaced by a shared one never becomes visible, so it
\* does not consume a model id.
Dedupe(W, s, c) ==
  LET es == Entries(W, s, c) IN
  IF es # {} /\ Addable(W, (CHOOSE x \in es : TRUE).id)
  THEN LET e == CHOOSE x \in es : TRUE IN
       [w |-> AddRefs(W, <<e.id>>), id |-> e.id, pre |-> TRUE]
  ELSE LET Wd == IF es # {} THEN DropEntriesOf(W, (CHOOSE x \in es : TRUE).id) ELSE W
           f  == Wd.nid
           Wm == Mint(Wd, s, c)
       IN [w |-> [TryIndex(Wm, s, c, f) EXCEPT !.padd = @ \cup {f}], id |-> f, pre |-> FALSE]

\* ------------------------------------------------------------- writer ops
PutEff(S, k, c, s) ==
  LET d  == Dedupe(Begin(S), s, c)
      W1 == RemoveRefs(d.w, S.obj[k])
      W2 == IF d.pre THEN W1 ELSE Register(W1, <<d.id>>)
  IN Commit(S, W2, [S.obj EXCEPT ![k] = <<d.id>>], S.upl, "ok")

\* A slow PutObject: PutBegin mints the part id and opens the write transaction
\* (the body is still streaming: the SQLite writer lock is held, nothing is
\* visible); PutCommit is the rest of PutObject.  Between the two the clock and
\* the read-only / tx-free sections of the collector and the reader can run, so
\* the part can be older than the grace window when it becomes visible.
PutBeginEff(S, k, c, s) ==
  [S EXCEPT !.slow = [act |-> TRUE, k |-> k, c |-> c, s |-> s, id |-> S.nid],
            !.info[S.nid] = [c |-> c, st |-> s], !.nid = @ + 1, !.res = "ok", !.nops = @ + 1]

PutCommitEff(S) ==
  LET sl == S.slow
      f  == sl.id
      W0 == Begin(S)
      es == Entries(W0, sl.s, sl.c)
      share == es # {} /\ Addable(W0, (CHOOSE x \in es : TRUE).id)
      d  == IF share
            THEN LET e == CHOOSE x \in es : TRUE IN
                 \* the fresh part is deleted again in the same transaction: it was never visible
                 [w |-> [AddRefs(W0, <<e.id>>) EXCEPT !.nid = f, !.info[f] = NoInfo], id |-> e.id, pre |-> TRUE]
            ELSE LET Wd == IF es # {} THEN DropEntriesOf(W0, (CHOOSE x \in es : TRUE).id) ELSE W0 IN
                 [w |-> [TryIndex(Wd, sl.s, sl.c, f) EXCEPT !.padd = @ \cup {f}], id |-> f, pre |-> FALSE]
      W1 == RemoveRefs(d.w, S.obj[sl.k])
      W2 == IF d.pre THEN W1 ELSE Register(W1, <<d.id>>)
      T  == Commit(S, W2, [S.obj EXCEPT ![sl.k] = <<d.id>>], S.upl, "ok")
  IN [T EXCEPT !.slow = NoSlow,
               !.old = IF share THEN @ \ {f} ELSE @,
               !.gc.cut = IF share THEN @ \ {f} ELSE @]

DeleteEff(S, k) ==
  Commit(S, RemoveRefs(Begin(S), S.obj[k]), [S.obj EXCEPT ![k] = <<>>], S.upl, "ok")

\* copy.go, full copy: parts already in the destination store are shared,
\* cross-store parts are shared through the dedup index or copied byte by byte.
\* acc = [w, parts, shared, fresh, ok]
CopyPart(S, s, acc, p) ==
  IF S.info[p].st = s
  THEN [acc EXCEPT !.parts = Append(@, p), !.shared = Append(@, p)]
  ELSE LET c  == S.info[p].c
           es == Entries(acc.w, s, c) IN
       IF es # {} /\ Addable(acc.w, (CHOOSE x \in es : TRUE).id)
       THEN LET e == CHOOSE x \in es : TRUE IN
            [acc EXCEPT !.w = AddRefs(acc.w, <<e.id>>), !.parts = Append(@, e.id)]
       ELSE LET Wd == IF es # {} THEN DropEntriesOf(acc.w, (CHOOSE x \in es : TRUE).id) ELSE acc.w
                f  == Wd.nid
                Wm == Mint(Wd, s, c)
            IN [acc EXCEPT !.w = [TryIndex(Wm, s, c, f) EXCEPT !.padd = @ \cup {f}],
                           !.parts = Append(@, f), !.fresh = Append(@, f),
                           !.ok = @ /\ Present(S, p)]

CopyEff(S, src, dst, s) ==
  IF S.obj[src] = <<>> THEN Fail(S, "NoSuchKey") ELSE
  LET a0 == [w |-> Begin(S), parts |-> <<>>, shared |-> <<>>, fresh |-> <<>>, ok |-> TRUE]
      a  == FoldLeft(LAMBDA acc, p : CopyPart(S, s, acc, p), a0, S.obj[src])
  IN IF ~a.ok THEN Fail(S, "ReadError")
     ELSE IF "H-C08-copy-no-tryadd" \notin Deviations /\ ~CanAdd(a.w, a.shared) THEN Fail(S, "NoSuchKey")
     ELSE LET W1 == IF "H-C08-copy-no-tryadd" \in Deviations THEN a.w ELSE AddRefs(a.w, a.shared)
              W2 == RemoveRefs(W1, S.obj[dst])
              W3 == Register(W2, a.fresh)
          IN Commit(S, W3, [S.obj EXCEPT ![dst] = a.parts], S.upl, "ok")

\* object_write.go TransitionObjectStorageClass: same-store parts are retained
\* (reference pre-acquired), cross-store parts are copied to fresh ids (no dedup)
TransPart(S, s, acc, p) ==
  IF S.info[p].st = s
  THEN [acc EXCEPT !.parts = Append(@, p), !.shared = Append(@, p)]
  ELSE LET f == acc.w.nid IN
       [acc EXCEPT !.w = [Mint(acc.w, s, S.info[p].c) EXCEPT !.padd = @ \cup {f}],
                   !.parts = Append(@, f), !.fresh = Append(@, f), !.ok = @ /\ Present(S, p)]

TransitionEff(S, k, s) ==
  IF S.obj[k] = <<>> THEN Fail(S, "NoSuchKey") ELSE
  LET a0 == [w |-> Begin(S), parts |-> <<>>, shared |-> <<>>, fresh |-> <<>>, ok |-> TRUE]
      a  == FoldLeft(LAMBDA acc, p : TransPart(S, s, acc, p), a0, S.obj[k])
  IN IF ~a.ok THEN Fail(S, "ReadError")
     ELSE IF ~CanAdd(a.w, a.shared) THEN Fail(S, "NoSuchKey")
     ELSE LET W1 == AddRefs(a.w, a.shared)
              W2 == RemoveRefs(W1, S.obj[k])
              W3 == Register(W2, a.fresh)
          IN Commit(S, W3, [S.obj EXCEPT ![k] = a.parts], S.upl, "ok")

CreateUploadEff(S, u, k, s) ==
  Commit(S, Begin(S), S.obj, [S.upl EXCEPT ![u] = [act |-> TRUE, key |-> k, st |-> s, parts |-> [n \in 1..NParts |-> 0]]], "ok")

OldAt(S, u, n) == IF S.upl[u].parts[n] = 0 THEN <<>> ELSE <<S.upl[u].parts[n]>>

UploadPartEff(S, u, n, c) ==
  IF ~S.upl[u].act THEN Fail(S, "NoSuchKey") ELSE
  LET d  == Dedupe(Begin(S), S.upl[u].st, c)
      W1 == RemoveRefs(d.w, OldAt(S, u, n))
      W2 == IF d.pre THEN W1 ELSE Register(W1, <<d.id>>)
  IN Commit(S, W2, S.obj, [S.upl EXCEPT ![u].parts[n] = d.id], "ok")

\* multipart.go UploadPartCopy: j = 0 copies the whole source object, j > 0 the
\* byte range of source part j.  A wholly covered part in the upload's store is
\* shared; otherwise its bytes are read and written as a fresh (deduped) part.
Covered(S, src, j) == IF j = 0 THEN (IF Len(S.obj[src]) = 1 THEN S.obj[src][1] ELSE 0)
                      ELSE IF j <= Len(S.obj[src]) THEN S.obj[src][j] ELSE 0

UploadPartCopyEff(S, u, n, src, j) ==
  IF S.obj[src] = <<>> \/ ~S.upl[u].act THEN Fail(S, "NoSuchKey") ELSE
  LET p == Covered(S, src, j) IN
  IF p = 0 THEN Fail(S, "unmodelled") ELSE
  IF S.info[p].st = S.upl[u].st
  THEN IF ~CanAdd(Begin(S), <<p>>) THEN Fail(S, "NoSuchKey")
       ELSE LET W1 == AddRefs(Begin(S), <<p>>)
                W2 == RemoveRefs(W1, OldAt(S, u, n))
            IN Commit(S, W2, S.obj, [S.upl EXCEPT ![u].parts[n] = p], "ok")
  ELSE IF ~Present(S, p) THEN Fail(S, "ReadError")
       ELSE LET d  == Dedupe(Begin(S), S.upl[u].st, S.info[p].c)
                W1 == RemoveRefs(d.w, OldAt(S, u, n))
                W2 == IF d.pre THEN W1 ELSE Register(W1, <<d.id>>)
            IN Commit(S, W2, S.obj, [S.upl EXCEPT ![u].parts[n] = d.id], "ok")

\* CompleteMultipartUpload demands sequence numbers 1..n without a gap, n >= 1
Contiguous(parts) == parts[1] # 0 /\ \A n \in PartNos : parts[n] # 0 => \A m \in 1..n : parts[m] # 0
CompleteEff(S, u) ==
  IF ~S.upl[u].act THEN Fail(S, "NoSuchKey") ELSE
  IF ~Contiguous(S.upl[u].parts) THEN Fail(S, "InvalidUploadSequence") ELSE
  LET k  == S.upl[u].key
      W1 == RemoveRefs(Begin(S), S.obj[k])
  IN Commit(S, W1, [S.obj EXCEPT ![k] = UplSeq(S, u)], [S.upl EXCEPT ![u] = NoUpl], "ok")

AbortEff(S, u) ==
  IF ~S.upl[u].act THEN Fail(S, "NoSuchKey") ELSE
  Commit(S, RemoveRefs(Begin(S), UplSeq(S, u)), S.obj, [S.upl EXCEPT ![u] = NoUpl], "ok")

\* ------------------------------------------------- environment faults
\* orphan : a part file/row without metadata (crash between publish and commit,
\*          failed post-commit delete).  regdrop / regover : registry damage in
\*          the direction RemoveReferences itself produces (missing row, leak).
OrphanEff(S, s, c) ==
  LET W == Mint(Begin(S), s, c) IN
  [S EXCEPT !.nid = W.nid, !.info = W.info, !.phys[s] = @ \cup {S.nid},
            !.res = "ok", !.nops = @ + 1, !.faulted = TRUE]

\* many orphans at once (same fault, one step): a store full of aged leftovers
OrphanManyEff(S, s, c, n) ==
  LET new == S.nid..(S.nid + n - 1) IN
  [S EXCEPT !.nid = @ + n, !.info = [i \in Ids |-> IF i \in new THEN [c |-> c, st |-> s] ELSE S.info[i]],
            !.phys[s] = @ \cup new, !.res = "ok", !.nops = @ + 1, !.faulted = TRUE]

FirstPart(S, k) == S.obj[k][1]
RegDropEff(S, k) ==
  LET id == FirstPart(S, k) IN
  [S EXCEPT !.reg[id] = -1, !.gc.dirty = IF S.gc.pc = "observed" THEN @ \cup {id} ELSE @,
            !.res = "ok", !.nops = @ + 1, !.faulted = TRUE]
RegOverEff(S, k) ==
  LET id == FirstPart(S, k) IN
  [S EXCEPT !.reg[id] = @ + 1, !.gc.dirty = IF S.gc.pc = "observed" THEN @ \cup {id} ELSE @,
            !.res = "ok", !.nops = @ + 1, !.faulted = TRUE]

\* crash leftovers of the filesystem store's commit protocol: "temp" = the
\* temporary file of a PutPart whose transaction never reached its pre-commit
\* rename, "backup" = the .txbackup file of a DeletePart / overwriting PutPart
\* whose process died between the SQL commit and the after-commit remove.
StrayEff(S, s, kind) ==
  [S EXCEPT !.stray = @ \cup {[kind |-> kind, st |-> s]}, !.res = "ok", !.nops = @ + 1, !.faulted = TRUE]
StrayTagOf(kind) == IF kind = "temp" THEN "D-C09-stray-temp" ELSE "D-C09-stray-backup"

TickEff(S) == [S EXCEPT !.old = Minted(S), !.res = "ok"]

\* ------------------------------------------------------- garbage collector
\* gc.pc names the verifhook gate at which runGCWithContext is parked.
Obs(S) == {[id |-> id, actual |-> RowCount(S, id), ref |-> S.reg[id]] :
             id \in {i \in Minted(S) : S.reg[i] # -1 \/ RowCount(S, i) > 0}}

\* the reconcile write transaction: RestoreMissing (insert if absent),
\* DeleteByPartId / UpdateRefCount guarded by the observed row version (dirty =
\* rows written since the observation)
Reconciled(S) ==
  [id \in Ids |->
     LET os == {o \in S.gc.obs : o.id = id} IN
     IF os = {} THEN S.reg[id]
     ELSE LET o == CHOOSE x \in os : TRUE IN
          IF o.ref = -1 THEN (IF S.reg[id] = -1 THEN o.actual ELSE S.reg[id])
          ELSE IF id \in S.gc.dirty THEN S.reg[id]
          ELSE IF o.actual = 0 THEN -1
          ELSE o.actual]

\* dedup prune + backfill transaction
DedupPruned(S) ==
  LET live == {e \in S.ddx : RowCount(S, e.id) > 0}
      keys == {<<S.info[id].st, S.info[id].c>> : id \in Referenced(S)}
      miss == {sc \in keys : ~\E e \in live : e.st = sc[1] /\ e.c = sc[2]}
      MinId(sc) == CHOOSE id \in Referenced(S) :
                     /\ S.info[id].st = sc[1] /\ S.info[id].c = sc[2]
                     /\ \A j \in Referenced(S) : (S.info[j].st = sc[1] /\ S.info[j].c = sc[2]) => id <= j
  IN live \cup {[st |-> sc[1], c |-> sc[2], id |-> MinId(sc)] : sc \in miss}

\* partregistry.Condemn inside the condemn transaction
CondemnOK(S, id) ==
  IF "H-C08-snapshot-orphans" \in Deviations /\ id \notin S.gc.trk THEN TRUE ELSE
  IF "H-C08-condemn-no-recount" \in Deviations
  THEN S.reg[id] = -1 \/ S.reg[id] = 0
  ELSE (S.reg[id] = -1 \/ S.reg[id] = 0) /\ RowCount(S, id) = 0

GcNextStore(S, G, nxt) ==   \* nxt \in G.todo, or "" when none is left
  IF nxt = "" THEN [S EXCEPT !.gc = GcIdle, !.res = "end"]
  ELSE [S EXCEPT !.gc = [G EXCEPT !.pc = "store", !.st = nxt, !.todo = @ \ {nxt}, !.cand = {}, !.ext = {}, !.xid = 0],
                 !.res = "store"]

NextChoices(G) == IF G.todo = {} THEN {""} ELSE G.todo

\* one release of the collector from its current gate; nxt = store revealed at
\* the next "gc.store" gate (if that is where it parks), x = id revealed at the
\* next "gc.extdelete.before" gate
GcEff(S, nxt, x) ==
  LET G == S.gc IN
  CASE G.pc = "idle" ->
         [S EXCEPT !.gc = [GcIdle EXCEPT !.pc = "begin", !.cut = S.old], !.res = "begin"]
    [] G.pc = "begin" ->
         [S EXCEPT !.gc.pc = "observed", !.gc.obs = Obs(S), !.gc.dirty = {},
                   !.gc.trk = IF "H-C08-snapshot-orphans" \in Deviations THEN {o.id : o \in Obs(S)} ELSE {},
                   !.res = "observed"]
    [] G.pc = "observed" ->
         [S EXCEPT !.reg = Reconciled(S), !.gc.pc = "reconciled", !.gc.obs = {}, !.gc.dirty = {},
                   !.res = "reconciled"]
    [] G.pc = "reconciled" ->
         GcNextStore([S EXCEPT !.ddx = DedupPruned(S)], [G EXCEPT !.todo = Stores], nxt)
    [] G.pc = "store" ->
         [S EXCEPT !.stray = {y \in @ : y.st # G.st \/ StrayTagOf(y.kind) \in Deviations},
                   !.gc.pc = "candidates",
                   !.gc.cand = IF "H-C09-gc-default-store-only" \in Deviations /\ G.st # "default"
                               THEN {} ELSE S.phys[G.st] \cap G.cut,
                   !.res = "candidates"]
    [] G.pc = "candidates" ->
         LET con == {id \in G.cand : CondemnOK(S, id)}
             S1  == [S EXCEPT !.reg = [id \in Ids |-> IF id \in con THEN -1 ELSE S.reg[id]],
                              !.ddx = {e \in S.ddx : e.id \notin con},
                              !.phys[G.st] = IF G.st \in TxFree THEN @ ELSE @ \ con]
         IN IF G.st \in TxFree /\ con # {}
            THEN [S1 EXCEPT !.gc.pc = "extdelete", !.gc.ext = con, !.gc.xid = x, !.gc.cand = {}, !.res = "extdelete"]
            ELSE GcNextStore(S1, G, nxt)
    [] G.pc = "extdelete" ->
         LET S1 == [S EXCEPT !.phys[G.st] = @ \ {G.xid}]
             rest == G.ext \ {G.xid} IN
         IF rest # {} THEN [S1 EXCEPT !.gc.ext = rest, !.gc.xid = x, !.res = "extdelete"]
         ELSE GcNextStore(S1, G, nxt)

\* which (nxt, x) arguments are meaningful for the current gate
GcArgs(S) ==
  LET G == S.gc IN
  CASE G.pc = "reconciled" -> {<<s, 0>> : s \in Stores}
    [] G.pc = "candidates" ->
         LET con == {id \in G.cand : CondemnOK(S, id)} IN
         IF G.st \in TxFree /\ con # {} THEN {<<"", i>> : i \in con}
         ELSE {<<s, 0>> : s \in NextChoices(G)}
    [] G.pc = "extdelete" ->
         LET rest == G.ext \ {G.xid} IN
         IF rest # {} THEN {<<"", i>> : i \in rest} ELSE {<<s, 0>> : s \in NextChoices(G)}
    [] OTHER -> {<<"", 0>>}

\* ------------------------------------------------------------------ reader
\* GetObject: the manifest is resolved in a read transaction; parts are opened
\* lazily.  Parts in tx-free stores are opened from the live store; parts in
\* transactional stores are read from the snapshot of the still open transaction.
RdResolveEff(S, k) ==
  IF S.obj[k] = <<>> THEN [S EXCEPT !.res = "NoSuchKey", !.nrd = @ + 1]
  ELSE [S EXCEPT !.rd = [st |-> "open", key |-> k, man |-> S.obj[k], pos |-> 1, cur |-> 0, got |-> <<>>,
                         err |-> FALSE,
                         snap |-> UNION {S.phys[s] : s \in Stores \ TxFree}],
                 !.res = "ok", !.nrd = @ + 1]

PartVisible(S, id) == IF S.info[id].st \in TxFree THEN Present(S, id) ELSE id \in S.rd.snap

\* open the next part (first Read that reaches it)
RdOpenEff(S) ==
  LET id == S.rd.man[S.rd.pos] IN
  IF PartVisible(S, id) THEN [S EXCEPT !.rd.cur = id, !.res = "opened"]
  ELSE IF "H-C40-missing-part-eof" \in Deviations
       THEN [S EXCEPT !.rd.st = "done", !.rd.cur = 0, !.res = "eof"]
       ELSE [S EXCEPT !.rd.st = "done", !.rd.err = TRUE, !.rd.cur = 0, !.res = "error"]

\* read the open part to its end
RdReadEff(S) ==
  LET last == S.rd.pos = Len(S.rd.man) IN
  [S EXCEPT !.rd.got = Append(@, S.info[S.rd.cur].c), !.rd.cur = 0, !.rd.pos = @ + 1,
            !.rd.st = IF last THEN "done" ELSE "open", !.res = IF last THEN "eof" ELSE "more"]

RdCloseEff(S) == [S EXCEPT !.rd = RdIdle, !.res = "closed"]

QuiesceEff(S) == [S EXCEPT !.quiet = TRUE, !.res = "ok"]

\* --------------------------------------------------------------- dispatch
Call(op, k, c, s, u, n, src, j) ==
  [op |-> op, k |-> k, c |-> c, s |-> s, u |-> u, n |-> n, src |-> src, j |-> j]

Eff(S, a) ==
  CASE a.op = "Put"            -> PutEff(S, a.k, a.c, a.s)
    [] a.op = "PutBegin"       -> PutBeginEff(S, a.k, a.c, a.s)
    [] a.op = "PutCommit"      -> PutCommitEff(S)
    [] a.op = "Delete"         -> DeleteEff(S, a.k)
    [] a.op = "Copy"           -> CopyEff(S, a.src, a.k, a.s)
    [] a.op = "Transition"     -> TransitionEff(S, a.k, a.s)
    [] a.op = "CreateUpload"   -> CreateUploadEff(S, a.u, a.k, a.s)
    [] a.op = "UploadPart"     -> UploadPartEff(S, a.u, a.n, a.c)
    [] a.op = "UploadPartCopy" -> UploadPartCopyEff(S, a.u, a.n, a.src, a.j)
    [] a.op = "Complete"       -> CompleteEff(S, a.u)
    [] a.op = "Abort"          -> AbortEff(S, a.u)
    [] a.op = "Orphan"         -> OrphanEff(S, a.s, a.c)
    [] a.op = "OrphanMany"     -> OrphanManyEff(S, a.s, a.c, a.n)
    [] a.op = "RegDrop"        -> RegDropEff(S, a.k)
    [] a.op = "RegOver"        -> RegOverEff(S, a.k)
    [] a.op = "Stray"          -> StrayEff(S, a.s, a.c)
    [] a.op = "Tick"           -> TickEff(S)
    [] a.op = "Gc"             -> GcEff(S, a.s, a.n)
    [] a.op = "RdResolve"      -> RdResolveEff(S, a.k)
    [] a.op = "RdOpen"         -> RdOpenEff(S)
    [] a.op = "RdRead"         -> RdReadEff(S)
    [] a.op = "RdClose"        -> RdCloseEff(S)
    [] a.op = "Quiesce"        -> QuiesceEff(S)

\* ------------------------------------------------ enabled calls of a state
Room(S)   == S.nid + NParts <= MaxId + 1   \* an operation mints at most one id per part
Active(S) == ~S.quiet /\ S.nops < MaxOps /\ ~S.slow.act   \* an open slow put holds the writer lock

PutCalls(S)    == IF Active(S) /\ Room(S) THEN {Call("Put", k, c, s, "", 0, "", 0) : k \in Keys, c \in Contents, s \in Stores} ELSE {}
SlowCalls(S)   == IF S.slow.act THEN {Call("PutCommit", "", "", "", "", 0, "", 0)}
                  ELSE IF Active(S) /\ Room(S) /\ "slow" \in Faults
                       THEN {Call("PutBegin", k, c, s, "", 0, "", 0) : k \in Keys, c \in Contents, s \in Stores} ELSE {}
DeleteCalls(S) == IF Active(S) THEN {Call("Delete", k, "", "", "", 0, "", 0) : k \in {x \in Keys : S.obj[x] # <<>>}} ELSE {}
CopyCalls(S)   == IF Active(S) /\ Room(S)
                  THEN {Call("Copy", k, "", s, "", 0, src, 0) : k \in Keys, s \in Stores, src \in {x \in Keys : S.obj[x] # <<>>}} ELSE {}
TransCalls(S)  == IF Active(S) /\ Room(S)
                  THEN {Call("Transition", k, "", s, "", 0, "", 0) : k \in {x \in Keys : S.obj[x] # <<>>}, s \in Stores} ELSE {}
CreateCalls(S) == IF Active(S)
                  THEN {Call("CreateUpload", k, "", s, u, 0, "", 0) : k \in Keys, s \in Stores, u \in {x \in Uploads : ~S.upl[x].act}} ELSE {}
UpPartCalls(S) == IF Active(S) /\ Room(S)
                  THEN {Call("UploadPart", "", c, "", u, n, "", 0) : c \in Contents, n \in PartNos, u \in {x \in Uploads : S.upl[x].act}} ELSE {}
UpCopyCalls(S) == IF Active(S) /\ Room(S)
                  THEN {a \in {Call("UploadPartCopy", "", "", "", u, n, src, j) :
                                 n \in PartNos, j \in 0..NParts, u \in {x \in Uploads : S.upl[x].act},
                                 src \in {x \in Keys : S.obj[x] # <<>>}} : Covered(S, a.src, a.j) # 0}
                  ELSE {}
CompleteCalls(S) == IF Active(S)
                    THEN {Call("Complete", "", "", "", u, 0, "", 0) : u \in {x \in Uploads : S.upl[x].act /\ Contiguous(S.upl[x].parts)}} ELSE {}
AbortCalls(S)  == IF Active(S) THEN {Call("Abort", "", "", "", u, 0, "", 0) : u \in {x \in Uploads : S.upl[x].act}} ELSE {}
OrphanCalls(S) == IF Active(S) /\ Room(S) /\ "orphan" \in Faults
                  THEN {Call("Orphan", "", c, s, "", 0, "", 0) : c \in Contents, s \in Stores} ELSE {}
RegDropCalls(S) == IF Active(S) /\ "regdrop" \in Faults
                   THEN {Call("RegDrop", k, "", "", "", 0, "", 0) : k \in {x \in Keys : S.obj[x] # <<>> /\ S.reg[S.obj[x][1]] >= 0}} ELSE {}
RegOverCalls(S) == IF Active(S) /\ "regover" \in Faults
                   THEN {Call("RegOver", k, "", "", "", 0, "", 0) : k \in {x \in Keys : S.obj[x] # <<>> /\ S.reg[S.obj[x][1]] > 0}} ELSE {}
TickCalls(S)   == IF S.old # Minted(S) THEN {Call("Tick", "", "", "", "", 0, "", 0)} ELSE {}
\* sections of the pass that open a write transaction wait for the writer lock
GcNeedsLock(S) == \/ S.gc.pc = "observed" /\ S.gc.obs # {}
                  \/ S.gc.pc = "reconciled"
                  \/ S.gc.pc = "candidates" /\ S.gc.cand # {}
GcCalls(S)     == IF S.slow.act /\ GcNeedsLock(S) THEN {}
                  ELSE {Call("Gc", "", "", a[1], "", a[2], "", 0) : a \in GcArgs(S)}
RdCalls(S)     ==
  CASE S.rd.st = "idle" -> IF ~S.quiet /\ S.nrd < MaxReads
                           THEN {Call("RdResolve", k, "", "", "", 0, "", 0) : k \in {x \in Keys : S.obj[x] # <<>>}} ELSE {}
    [] S.rd.st = "open" -> IF S.rd.cur = 0 THEN {Call("RdOpen", "", "", "", "", 0, "", 0)}
                           ELSE {Call("RdRead", "", "", "", "", 0, "", 0)}
    [] S.rd.st = "done" -> {Call("RdClose", "", "", "", "", 0, "", 0)}
QuiesceCalls(S) == IF "quiesce" \in Faults /\ ~S.quiet /\ S.rd.st = "idle" /\ ~S.slow.act THEN {Call("Quiesce", "", "", "", "", 0, "", 0)} ELSE {}

WriterCalls(S) == PutCalls(S) \cup SlowCalls(S) \cup DeleteCalls(S) \cup CopyCalls(S) \cup TransCalls(S) \cup CreateCalls(S)
                  \cup UpPartCalls(S) \cup UpCopyCalls(S) \cup CompleteCalls(S) \cup AbortCalls(S)
StrayCalls(S)  == IF Active(S) /\ "crash" \in Faults
                  THEN {Call("Stray", "", kind, s, "", 0, "", 0) : kind \in {"temp", "backup"}, s \in Stores \cap TxFree} ELSE {}
FaultCalls(S)  == OrphanCalls(S) \cup RegDropCalls(S) \cup RegOverCalls(S) \cup StrayCalls(S)
AllCalls(S)    == WriterCalls(S) \cup FaultCalls(S) \cup TickCalls(S) \cup GcCalls(S) \cup RdCalls(S)

\* -------------------------------------------------------------- the system
VARIABLE S
Do(calls) == \E a \in calls : S' = Eff(S, a)

APut        == Do(PutCalls(S) \cup SlowCalls(S))
ADelete     == Do(DeleteCalls(S))
ACopy       == Do(CopyCalls(S))
ATransition == Do(TransCalls(S))
ACreate     == Do(CreateCalls(S))
AUploadPart == Do(UpPartCalls(S))
AUploadCopy == Do(UpCopyCalls(S))
AComplete   == Do(CompleteCalls(S))
AAbort      == Do(AbortCalls(S))
AFault      == Do(FaultCalls(S))
ATick       == Do(TickCalls(S))
AGc         == Do(GcCalls(S))
AReader     == Do(RdCalls(S))
AQuiesce    == Do(QuiesceCalls(S))

RECURSIVE RunProg(_, _)
RunProg(T, prog) == IF prog = <<>> THEN T ELSE RunProg(Eff(T, Head(prog)), Tail(prog))
TwoPartProg == <<Call("CreateUpload", "k1", "", "default", "u1", 0, "", 0), Call("UploadPart", "", "a", "", "u1", 1, "", 0),
                 Call("UploadPart", "", "b", "", "u1", 2, "", 0), Call("Complete", "", "", "", "u1", 0, "", 0),
                 Call("Tick", "", "", "", "", 0, "", 0)>>
ThreePartProg == <<Call("CreateUpload", "k1", "", "default", "u1", 0, "", 0), Call("UploadPart", "", "a", "", "u1", 1, "", 0),
                   Call("UploadPart", "", "b", "", "u1", 2, "", 0), Call("UploadPart", "", "c", "", "u1", 3, "", 0),
                   Call("Complete", "", "", "", "u1", 0, "", 0), Call("Tick", "", "", "", "", 0, "", 0)>>
InitState == IF Preload = "twopart" THEN [RunProg(S0, TwoPartProg) EXCEPT !.nops = 0, !.res = ""]
             ELSE IF Preload = "threepart" THEN [RunProg(S0, ThreePartProg) EXCEPT !.nops = 0, !.res = ""] ELSE S0
Init == S = InitState
Next == APut \/ ADelete \/ ACopy \/ ATransition \/ ACreate \/ AUploadPart \/ AUploadCopy \/ AComplete
        \/ AAbort \/ AFault \/ ATick \/ AGc \/ AReader \/ AQuiesce
Spec     == Init /\ [][Next]_S
FairSpec == Spec /\ WF_S(AGc) /\ WF_S(ATick)

\* ------------------------------------------------------------- properties
\* C08: every part referenced by a committed object row or a pending upload is
\* physically present in its store, so every committed object is readable.
NoReferencedPartMissingIn(T) == \A id \in Referenced(T) : Present(T, id)
NoReferencedPartMissing == NoReferencedPartMissingIn(S)

\* the registry invariant stated in partregistry.Repository: at every commit
\* point ref_count = number of parts rows (when no damage was injected)
RegistryMatchesRowsIn(T) ==
  \A id \in Ids : T.reg[id] = (IF id \in Minted(T) /\ RowCount(T, id) > 0 THEN RowCount(T, id) ELSE -1)
RegistryMatchesRows == ~S.faulted => RegistryMatchesRowsIn(S)

\* the dedup index never maps to a part of other content / another store, and
\* without injected damage only to referenced parts
DedupSoundIn(T) == /\ \A e \in T.ddx : e.id \in Minted(T) /\ T.info[e.id] = [c |-> e.c, st |-> e.st]
                   /\ \A e1, e2 \in T.ddx : (e1.st = e2.st /\ e1.c = e2.c) => e1 = e2
DedupSound == DedupSoundIn(S) /\ (~S.faulted => \A e \in S.ddx : RowCount(S, e.id) > 0)

\* C40: what a reader has delivered is a prefix of the content of the version
\* it resolved; a body reported complete (EOF, no error) is that content; a
\* manifest that lives in transactional (SQL) stores is always delivered fully.
PrefixOf(a, b) == Len(a) <= Len(b) /\ \A i \in 1..Len(a) : a[i] = b[i]
ReaderOutcomeIn(T) ==
  T.rd.st # "idle" =>
    LET want == ContentOf(T, T.rd.man) IN
    /\ PrefixOf(T.rd.got, want)
    /\ (T.rd.st = "done" /\ ~T.rd.err) => T.rd.got = want
    /\ (T.rd.err /\ \A i \in DOMAIN T.rd.man : T.info[T.rd.man[i]].st \notin TxFree) => FALSE
ReaderOutcome == ReaderOutcomeIn(S)

\* C09: stores, registry and dedup index hold exactly the referenced parts
ConvergedIn(T) ==
  /\ \A s \in Stores : T.phys[s] = {id \in Referenced(T) : T.info[id].st = s}
  /\ RegistryMatchesRowsIn(T)
  /\ \A e \in T.ddx : e.id \in Referenced(T)
  /\ T.stray = {}
Converged == ConvergedIn(S)
Reclaims  == S.quiet ~> Converged
Stable    == [][(S.quiet /\ Converged) => Converged']_S

TypeOK == /\ S.nid \in 1..(MaxId + 1)
          /\ \A k \in Keys : Rng(S.obj[k]) \subseteq Minted(S)
          /\ \A s \in Stores : S.phys[s] \subseteq Minted(S)
=============================================================================
