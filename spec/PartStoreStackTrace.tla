------------------------ MODULE PartStoreStackTrace ------------------------
(* TV for C15: the ndjson log of the Go driver (harness/cmd/partstack) is    *)
(* replayed through PartStoreStack!Step.  One line per step:                 *)
(*   ev="reset": a new case starts (fresh ids on a clean stack)              *)
(*   ev="op":    one PartStore call with its observed result                 *)
(* Verdict per line: "mismatch" = the model of the code cannot explain the   *)
(* observation; "finding" = explained, but the property is violated (tag =   *)
(* deviation branch taken, "" if none).                                      *)
EXTENDS PartStoreStack, Json, IOUtils

Trace == ndJsonDeserialize(IOEnv.TRACE_FILE)
VARIABLE l

SeqSet(q) == {q[i] : i \in 1..Len(q)}
OpOf(r) == OpRec(r.op, r.mode, r.id, r.blob, r.ro)

Conforms(r, s2) ==
  CASE r.op \in {"begin", "commit", "rollback", "put", "del"} -> r.err = "none"
    [] r.op = "drain" -> r.err = "none" /\ r.ok
    [] r.op = "get"   -> IF s2.res.v = None THEN r.err = "notfound"
                         ELSE r.err = "none" /\ s2.res.v \in SeqSet(r.match)
    [] r.op = "ids"   -> /\ r.err = "none" /\ r.foreign = 0
                         \* header-only shards re-created by the EC deviation may or may not be listed
                         /\ SeqSet(r.ids) \ s2.zombie = s2.res.ids \ s2.zombie
    [] OTHER -> FALSE

\* the property, evaluated on what was observed
PropHolds(r, s1, s2) ==
  IF r.op = "ids"
  THEN IdsOk(IF r.mode = "auto" THEN [s1 EXCEPT !.tx = "ro"] ELSE s1, IF r.mode = "auto" THEN "tx" ELSE r.mode, SeqSet(r.ids))
  ELSE s2.ok
TagsOf(r, s2) == IF r.op = "ids" THEN (IF s2.zombie # {} THEN {EcTag} ELSE {}) ELSE s2.tags

Verdict(r) ==
  IF r.ev = "reset" THEN [v |-> "ok", tag |-> "", s |-> InitState(r.sem, r.big)]
  ELSE LET o == OpOf(r) IN
       IF o \notin AllOps \/ ~Enabled(st, o) THEN [v |-> "malformed", tag |-> "", s |-> st]
       ELSE LET s2 == Step(st, o) IN
            IF ~Conforms(r, s2) THEN [v |-> "mismatch", tag |-> "", s |-> s2]
            ELSE IF ~PropHolds(r, st, s2)
                 THEN [v |-> "finding", s |-> s2,
                       tag |-> IF TagsOf(r, s2) = {} THEN "" ELSE CHOOSE t \in TagsOf(r, s2) : TRUE]
                 ELSE [v |-> "ok", tag |-> "", s |-> s2]

Report(i, v) ==
  IF v.v = "ok" THEN TRUE
  ELSE PrintT(ToJson([l |-> i, verdict |-> v.v, tag |-> v.tag, case |-> Trace[i].case,
                      expected |-> [v |-> v.s.res.v, ids |-> v.s.res.ids]]))

TInit == l = 1 /\ n = 0 /\ st = InitState(<<"fs">>, FALSE)
TNext == /\ l <= Len(Trace)
         /\ LET v == Verdict(Trace[l]) IN Report(l, v) /\ st' = v.s
         /\ l' = l + 1 /\ UNCHANGED n
=============================================================================
