-------------------------- MODULE NotifyOutboxGen --------------------------
(* GEN: random walks (tlc -simulate) over NotifyOutbox's own actions.  The   *)
(* first step draws a case configuration (notification rules with event and  *)
(* prefix/suffix filters, EventBridge flag, versioning, MaxAttempts, backoff *)
(* limits, lease, part-store stack) and a publisher script; then the walk    *)
(* interleaves mutation transactions (kind, key, precondition, fault         *)
(* placement), dispatcher passes (run with the spec's Claim / Publish /      *)
(* Finish / Crash actions until nothing is claimable) and clock advances     *)
(* chosen from the model state (exactly to / just short of the next due      *)
(* time, the lease).  Only the CALLS are recorded (hist); the harness         *)
(* executes them on the real code and the trace goes through                 *)
(* NotifyOutboxTrace.  No expected results leave this module.                *)
(* (Random operators take a dummy state argument, because TLC evaluates a    *)
(* parameterless constant-level definition only once; every random draw is   *)
(* bound with \E x \in {draw}, so that it is evaluated exactly once.)         *)
EXTENDS NotifyOutbox, Json, Randomization

CONSTANTS GenDepth,     \* walk length (model steps) at which the case is printed
          GenMaxMut     \* mutations per case

VARIABLES hist, dmode
gvars == <<cfg, entry, tx, muts, now, script, fl, own, nown, crashes, hist, dmode>>

R(s) == RandomElement(s)
RW(q) == q[R(1..Len(q))]          \* weighted choice: q lists values with multiplicity
W == 1

\* ---------------------------------------------------------------- alphabets
Pres  == {<<"img/">>, <<"doc/">>}
Names == {<<"a">>, <<"b">>}
Sufs  == {<<".jpg">>, <<".txt">>}
PlainKeys == {p \o n \o s : p \in Pres, n \in Names, s \in Sufs}
OddKeys == {<<"a", ".jpg">>, <<".jpg", "a">>, <<"img/", "img/", ".jpg">>, <<"img/">>, <<"doc/", "a", ".jpg", ".txt">>}
GenKey(z) == IF R(1..5) = 1 THEN R(OddKeys) ELSE R(PlainKeys)

PrefixW == <<<<>>, <<>>, <<>>, <<>>, <<>>, <<>>, <<"img/">>, <<"img/">>, <<"doc/">>, <<"img/", "a">>, <<".jpg">>, <<"a">>, <<"img/", "a", ".jpg">>>>
SuffixW == <<<<>>, <<>>, <<>>, <<>>, <<>>, <<>>, <<".jpg">>, <<".txt">>, <<".txt">>, <<"a", ".jpg">>, <<"img/">>, <<"img/", "a", ".jpg">>>>
AllPats == {Ev("ObjectCreated", "*"), Ev("ObjectRemoved", "*"), Ev("ObjectTagging", "*"),
            Ev("LifecycleExpiration", "*"), Ev("LifecycleTransition", "")}
PatSetW == <<AllPats, AllPats, AllPats, {Ev("ObjectCreated", "*")}, {Ev("ObjectCreated", "*")},
             {Ev("ObjectCreated", "Put"), Ev("ObjectCreated", "Copy")},
             {Ev("ObjectCreated", "CompleteMultipartUpload")},
             {Ev("ObjectRemoved", "*")}, {Ev("ObjectRemoved", "Delete")}, {Ev("ObjectRemoved", "DeleteMarkerCreated")},
             {Ev("ObjectTagging", "*")}, {Ev("ObjectTagging", "Put")}, {Ev("ObjectTagging", "Delete")},
             {Ev("LifecycleExpiration", "*")}, {Ev("LifecycleExpiration", "Delete")},
             {Ev("LifecycleTransition", "")}, {Ev("LifecycleTransition", "*")},
             {Ev("ObjectCreated", "*"), Ev("ObjectRemoved", "*"), Ev("ObjectTagging", "*")},
             {Ev("ObjectCreated", "*"), Ev("ObjectRemoved", "*"), Ev("ObjectTagging", "*"),
              Ev("LifecycleExpiration", "*"), Ev("LifecycleTransition", "")},
             {Ev("ObjectRemoved", "*"), Ev("LifecycleExpiration", "*"), Ev("LifecycleTransition", "")}>>
GenRule(id) == [id |-> id, dtype |-> R({"Queue", "Topic", "Fn"}), events |-> RW(PatSetW),
                prefix |-> RW(PrefixW), suffix |-> RW(SuffixW)]
GenRules(z) == LET n == RW(<<1, 2, 2, 3, 3>>) IN {GenRule(id) : id \in {<<"r1", "r2", "r3">>[i] : i \in 1..n}}
BackoffW == <<<<1, 4>>, <<1, 4>>, <<1, 2>>, <<2, 8>>, <<2, 1>>, <<1, 1>>, <<3, 5>>, <<1, 0>>, <<1, 4096>>, <<3, 100>>>>
GenCfg(z, b) ==
  [rules |-> GenRules(z), eb |-> (R(1..3) = 1), versioned |-> (R(1..3) = 1),
   maxAttempts |-> RW(<<0, 0, 1, 2, 2, 3, 3, 40, 120>>), minB |-> b[1], maxB |-> b[2], lease |-> R(1..3),
   stack |-> RW(<<"sql", "sql", "fs">>)]
OutcomeW == <<"ok", "ok", "fail", "fail", "fail", "fail", "crashD", "crashN">>
GenScript(z) == [i \in 1..R(0..7) |-> RW(OutcomeW)]

KindW == <<"put", "put", "put", "copy", "complete", "delete", "delete", "ldelete", "deletes", "tagput", "tagdel",
           "transition", "transition0", "append">>
FaultW == <<"none", "none", "none", "none", "none", "none", "inner", "config", "save1", "save1", "save2", "save3",
            "precommit", "commit", "commit">>
\* ------------------------------------------------------------------- walk
DummyCfg == [rules |-> {}, eb |-> FALSE, versioned |-> FALSE, maxAttempts |-> 0, minB |-> 1, maxB |-> 1, lease |-> 1, stack |-> "sql"]
GInit == InitWith(DummyCfg, <<>>) /\ hist = <<>> /\ dmode = "cfg"

Base == <<entry, tx, muts, now, fl, own, nown, crashes>>

GConfigure ==
  /\ dmode = "cfg"
  /\ \E b \in {RW(BackoffW)} : \E c \in {GenCfg(hist, b)} : \E s \in {GenScript(hist)} :
       /\ cfg' = c /\ script' = s
       /\ hist' = <<[op |-> "Cfg", cfg |-> c, script |-> s]>>
  /\ dmode' = "idle" /\ UNCHANGED Base

FreshIds(n) == LET top == Max(Ids \cup {0}) IN (top + 1)..(top + n)
GMut ==
  /\ dmode = "idle" /\ Len(muts) < GenMaxMut
  /\ \E kind \in {RW(KindW)} : \E key \in {GenKey(hist)} :
     \E key2 \in {IF kind \in {"copy", "deletes"} THEN R(PlainKeys \ {key}) ELSE <<>>} :
     \E ex \in {R(1..5) # 1} : \E f \in {RW(FaultW)} :
     LET m == Mut(kind, key, key2, ex)
         exp == IF TxResult(cfg, m, f).committed THEN SetToSeq(ExpectedEntries(cfg, m)) ELSE <<>>
         base == Max(Ids \cup {0})
         new == [id \in FreshIds(Len(exp)) |-> exp[id - base]] IN
     /\ MutateAtomic(m, f, new)
     /\ hist' = Append(hist, [op |-> "Mut", kind |-> m.kind, key |-> m.key, key2 |-> m.key2, exists |-> m.exists, fault |-> f])
  /\ UNCHANGED dmode

GDispatchStart ==
  /\ dmode = "idle"
  /\ dmode' = "disp" /\ hist' = Append(hist, [op |-> "Dispatch"])
  /\ UNCHANGED vars

GDisp ==
  /\ dmode = "disp"
  /\ \/ \E id \in Ids : Claim(W, id)
     \/ Publish(W)
     \/ FinishDelete(W)
     \/ FinishDeadLetter(W)
     \/ FinishRelease(W, Backoff(cfg, fl[W].attempts))
  /\ UNCHANGED <<hist, dmode>>

GCrash == dmode = "disp" /\ fl[W].phase = "crashing" /\ Crash(W) /\ dmode' = "idle" /\ UNCHANGED hist
GDispatchEnd == dmode = "disp" /\ fl[W] = NoFl /\ ~AnyClaimable /\ dmode' = "idle" /\ UNCHANGED vars /\ UNCHANGED hist

\* clock advances informed by the model state: exactly to the next due time, one
\* unit short of it, the lease, or a small step
Future == {t \in TimePoints : t > now}
AdvChoices == {1, 2, cfg.lease}
              \cup (IF Future = {} THEN {} ELSE {Min(Future) - now} \cup (IF Min(Future) - now > 1 THEN {Min(Future) - now - 1} ELSE {}))
              \cup (IF Future = {} THEN {} ELSE {Max(Future) - now})
GAdvance ==
  /\ dmode = "idle" /\ Ids # {}
  /\ \E d \in {R(AdvChoices)} :
     /\ AdvanceTo(now + d)
     /\ hist' = Append(hist, [op |-> "Advance", d |-> d])
  /\ UNCHANGED dmode

\* a long outage: attempt numbers around the start of the exponential schedule, around
\* the attempt at which the cap is reached, and far beyond (where an implementation
\* computing MinBackoff * 2^(attempts-1) in machine arithmetic would overflow)
CapAt(c) == CHOOSE a \in 1..40 : /\ c.minB * Pow2(a - 1) >= EffMaxB(c)
                                 /\ \A b \in 1..(a - 1) : c.minB * Pow2(b - 1) < EffMaxB(c)
AttemptClasses(c) == {a \in {1, 2, 3, CapAt(c) - 1, CapAt(c), CapAt(c) + 1, 22, 23, 33, 34, 35, 36, 44, 45, 62, 63, 64, 65, 100} :
                        a >= 1 /\ (c.maxAttempts = 0 \/ a < c.maxAttempts)}
GPreset ==
  /\ dmode = "idle" /\ \E id \in Ids : Idle(id)
  /\ AttemptClasses(cfg) # {}
  /\ \E a \in {R(AttemptClasses(cfg))} :
       /\ PresetAttempts(a - 1)
       /\ hist' = Append(hist, [op |-> "Preset", n |-> a - 1])
  /\ UNCHANGED dmode

GNext == GConfigure \/ GPreset \/ GMut \/ GDispatchStart \/ GDisp \/ GCrash \/ GDispatchEnd \/ GAdvance

\* ------------------------------------------------------------- backoff sweep
\* deterministic cases (cfg NotifyOutbox.Sweep.cfg, one per initial state): one entry,
\* a publisher that always fails, and for every attempt class in ascending order
\* Preset(a-1); Dispatch (claim -> attempt a fails -> Release with Backoff(a)); Advance
\* past the cap.  Only calls are emitted; the trace spec computes Backoff(a).
SweepBackoffs == {<<1, 4>>, <<1, 0>>, <<2, 1>>, <<1, 4096>>, <<3, 100>>, <<2, 65536>>, <<1, 1>>}
SweepCfgs == {[rules |-> {[id |-> "r1", dtype |-> "Queue", events |-> {Ev("ObjectCreated", "*")}, prefix |-> <<>>, suffix |-> <<>>]},
               eb |-> FALSE, versioned |-> FALSE, maxAttempts |-> m, minB |-> b[1], maxB |-> b[2], lease |-> 1, stack |-> "sql"] :
               b \in SweepBackoffs, m \in {0, 120}}
SweepHist(c) ==
  LET cls == SetToSortSeq(AttemptClasses(c), <)
      round(a) == <<[op |-> "Preset", n |-> a - 1], [op |-> "Dispatch"], [op |-> "Advance", d |-> EffMaxB(c)]>>
      body[i \in 0..Len(cls)] == IF i = 0 THEN <<>> ELSE body[i - 1] \o round(cls[i]) IN
  <<[op |-> "Cfg", cfg |-> c, script |-> [i \in 1..Len(cls) |-> "fail"]],
    [op |-> "Mut", kind |-> "put", key |-> <<"img/", "a", ".jpg">>, key2 |-> <<>>, exists |-> FALSE, fault |-> "none"]>>
  \o body[Len(cls)]
SInit == \E c \in SweepCfgs : /\ InitWith(c, <<>>) /\ hist = SweepHist(c) /\ dmode = "sweep"
SNext == UNCHANGED gvars
EmitSweep == PrintT(ToJson(hist))

Emit == IF TLCGet("level") = GenDepth THEN PrintT(ToJson(hist)) ELSE TRUE
=============================================================================
