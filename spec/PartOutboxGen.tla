--------------------------- MODULE PartOutboxGen ---------------------------
(* GEN / RP for C18.  The steps of PartOutbox.tla are recorded in `hist`    *)
(* (step names and arguments only - no expected results).  Two uses:       *)
(*  * KeepHist = TRUE, `-simulate`: every random walk of the model of the  *)
(*    code (deviations enabled) is one schedule for harness/cmd/partoutbox; *)
(*  * KeepHist = FALSE (hist = last step), BFS with a Target "invariant":  *)
(*    the shortest behaviour that reaches a property-violating state of    *)
(*    the model of the code is dumped (-dumpTrace json) and replayed as a   *)
(*    CANDIDATE on the real code.                                          *)
EXTENDS PartOutbox, Json, TLCExt

CONSTANTS KeepHist, GenDepth, TxLen, Targets   \* Targets: the set of target names searched by one BFS run

VARIABLES hist,   \* the steps taken (KeepHist) or only the last one
          mark    \* branches of the worker protocol taken so far (for the BFS targets)
gvars == <<vars, hist, mark>>

Rec(step) == hist' = IF KeepHist THEN Append(hist, step) ELSE <<step>>

AllTargets == <<"resurrect", "loss", "oldovernew", "badread", "crashmid", "crashapply", "vanish", "hblost", "hbkeeps",
                "busy", "read2get", "read2ids", "idsflush">>
ASSUME \A i \in 1..Len(AllTargets) : TLCSet(100 + i, 0)
GInit == Init /\ hist = <<>> /\ mark = {}
Mark(m) == mark' = mark \cup m
NoMark == UNCHANGED mark

\* contents: "c" -> distinguishable token "c<id>", "e" -> the empty part (stored without content chunks)
GPutOps == [op : {"Put"}, part : Parts, content : {"c", "e"}]
GShapes == {<<a>> : a \in GPutOps \cup DelOps} \cup {<<a, b>> : a \in GPutOps \cup DelOps, b \in GPutOps \cup DelOps}

GCore ==
  \/ \E ops \in GShapes, ok \in BOOLEAN :
        /\ nextId + Len(ops) - 1 <= MaxEntries
        /\ (ok \/ Len(ops) = 1)
        /\ Len(ops) <= TxLen
        /\ Commit(Stamp(ops, nextId), ok)
        /\ Rec([a |-> "tx", ops |-> Stamp(ops, nextId), ok |-> ok]) /\ NoMark
  \/ \E w \in Workers :
        \/ Claim(w) /\ Rec([a |-> "claim", w |-> w]) /\ Mark(IF ClaimResult(entries) = "busy" THEN {"busy"} ELSE {})
        \/ ReplayStart(w) /\ Rec([a |-> "rstart", w |-> w]) /\ Mark(IF pc'[w] = "failed" THEN {"vanish"} ELSE {})
        \/ ReplayEnd(w) /\ Rec([a |-> "rend", w |-> w]) /\ Mark(IF rd.st = "got" /\ rd.kind = "ids" THEN {"rendmid"} ELSE {})
        \/ Finalize(w) /\ Rec([a |-> "fin", w |-> w])
              /\ Mark((IF Owns(w) THEN {} ELSE {"finlost"}) \cup (IF Owns(w) /\ rd.st = "got" /\ rd.kind = "ids" THEN {"finmid"} ELSE {}))
        \/ Release(w) /\ Rec([a |-> "rel", w |-> w]) /\ NoMark
        \/ (cnt.hb < MaxHB /\ pc[w] = "replaying" /\ Heartbeat(w) /\ Rec([a |-> "hb", w |-> w])
               /\ Mark(IF Owns(w) THEN {"hbext"} ELSE {"hblost"}))
        \/ (cnt.crash < MaxCrashes /\ WorkerCrash(w) /\ Rec([a |-> "crash", w |-> w])
               /\ Mark(IF pc[w] = "replayed" THEN {"crashmid"} ELSE IF pc[w] = "replaying" THEN {"crashapply"} ELSE {}))
  \/ LeaseExpire /\ Rec([a |-> "expire"]) /\ NoMark
  \/ (cnt.reads < MaxReads /\ \E k \in {"get", "gettx", "ids"}, p \in Parts, v \in Workers :
         Read1(IF k = "ids" THEN "ids" ELSE "get", p) /\ Rec([a |-> "r1", kind |-> k, part |-> p, via |-> v]) /\ NoMark)
  \/ Read2 /\ Rec([a |-> "r2"]) /\ NoMark
  \/ Read3 /\ Rec([a |-> "r3"]) /\ NoMark

\* a walk that has nothing left to do idles (keeps -simulate walks alive up to the depth bound)
GNext == GCore \/ (~ENABLED GCore /\ UNCHANGED vars /\ Rec([a |-> "idle"]) /\ NoMark)
GSpec == GInit /\ [][GNext]_gvars

\* -simulate: print the walk when it reaches the depth bound
Emit == IF KeepHist /\ TLCGet("level") = GenDepth THEN PrintT(ToJson([steps |-> hist])) ELSE TRUE

\* BFS targets: TLC reports the shortest behaviour of the model of the code that reaches the named
\* situation.  The first four are ways to break C18 (reachable only through a deviation); the others make
\* sure every branch of the worker protocol is forced at least once.
Quiet == entries = <<>> /\ WorkerIdle
Last == IF hist = <<>> THEN [a |-> "", w |-> ""] ELSE hist[Len(hist)]
LastIs(a) == hist # <<>> /\ hist[Len(hist)].a = a
Reached(TargetName) ==
  CASE TargetName = "resurrect"  -> Quiet /\ \E p \in Parts : inner[p] # NoC /\ committed[p] = NoC
    [] TargetName = "loss"       -> Quiet /\ \E p \in Parts : inner[p] = NoC /\ committed[p] # NoC
    [] TargetName = "oldovernew" -> Quiet /\ \E p \in Parts : inner[p] # NoC /\ committed[p] # NoC /\ inner[p] # committed[p]
    [] TargetName = "badread"    -> ~rd.ok
    [] TargetName = "crashmid"   -> Quiet /\ "crashmid" \in mark /\ \E p \in Parts : committed[p] # NoC
    [] TargetName = "crashapply" -> Quiet /\ "crashapply" \in mark /\ \E p \in Parts : committed[p] # NoC
    [] TargetName = "vanish"     -> Quiet /\ "vanish" \in mark
    [] TargetName = "hblost"     -> Quiet /\ {"hblost", "finlost"} \subseteq mark
    [] TargetName = "hbkeeps"    -> Quiet /\ "hbext" \in mark /\ LastIs("fin") /\ \E p \in Parts : committed[p] # NoC
    [] TargetName = "busy"       -> Quiet /\ "busy" \in mark
    [] TargetName = "read2get"   -> LastIs("r3") /\ rd.kind = "get" /\ rd.res[rd.part] # NoC
    [] TargetName = "read2ids"   -> LastIs("r3") /\ rd.kind = "ids" /\ \E p \in Parts : rd.res[p] = "in"
    \* a worker replays AND finalizes an entry between the inner listing of GetPartIds and its return
    [] TargetName = "idsflush"   -> LastIs("r3") /\ rd.kind = "ids" /\ {"rendmid", "finmid"} \subseteq mark
    [] OTHER -> FALSE
\* evaluated as an invariant with -workers 1: the first (= a shortest) behaviour that reaches each target is
\* printed as a schedule; FALSE (TLC stops) once every target has been reached
EmitTargets ==
  /\ \A i \in 1..Len(AllTargets) :
        IF AllTargets[i] \in Targets /\ TLCGet(100 + i) = 0 /\ Reached(AllTargets[i])
        THEN /\ TLCSet(100 + i, 1)
             /\ LET t == Trace IN PrintT(ToJson([target |-> AllTargets[i], steps |-> [k \in 1..(Len(t) - 1) |-> t[k + 1].hist[1]]]))
        ELSE TRUE
  /\ \E i \in 1..Len(AllTargets) : AllTargets[i] \in Targets /\ TLCGet(100 + i) = 0
GView == <<MCView, hist, mark>>
=============================================================================
